"""Equivalence demo for r4 (RegexpBaseToken.get: cached compiled pattern + Match.groups instead of re.findall).

Part 1 feeds many strings (every reference form, literals, operators, keywords, odd input with newlines / unicode)
to the .get of every regexp token class and prints the token value tuple, the unparsed remainder and - for reference
tokens - the cells they denote. Part 2 prints the Lexer token stream of many formulas. Part 3 translates and executes
formulas with all reference forms and operators through Parser/Executor (plain and with overrides).
"""
import datetime
import hashlib
import os
import re
import shutil
import sys
import tempfile

from openpyxl import Workbook

from excel2pycl import Parser, Executor, Cell, Excel, Context, CellTranslator
from excel2pycl.src.lexer import Lexer
from excel2pycl.src.tokens import RegexpBaseToken, MatrixOfCellIdentifiersToken, CellIdentifierRangeToken, \
    CellIdentifierToken

OUT = []


def emit(*parts):
    line = ' | '.join(str(p) for p in parts)
    OUT.append(line)
    print(line)


def show(value):
    if isinstance(value, float) and value != value:
        return 'float:nan'
    return f'{type(value).__name__}:{value!r}'


REFERENCES = [
    'A1', '$A$1', 'A$1', '$A1', 'Z9', 'AA10', 'XFD1048576', 'XFE1', 'a1', 'A01', 'A0', 'A', '1', 'A1B2', 'A1:B2',
    '$A$1:$B$2', 'A1:A9', 'A1:F1', 'A$1:A$9', '$A1:$F1', 'A:A', '$A:$A', 'A:C', '$A:C', 'A1:B', 'A:B2', 'A1:2', '1:2',
    'B2:A1', 'AA1:AB20', 'Sheet1!A1', "'Sheet1'!A1", "'My Sheet'!$B$2", "'My Sheet'!A1:B2", "'My Sheet'!A:B",
    'Sheet_2!C3:D4', 'Лист1!A1', "'Лист 1'!A1:A3", "'it''s'!A1", "'a!b'!A1", 'S1!S2!A1', '!A1', "''!A1", 'Sheet1!',
    'Sheet1!A', 'Sheet 1!A1', "'Sheet1!A1", 'A1:B2:C3', 'A1:A2,B1', 'A1+B2', 'A1)', 'A1 ', 'A1\n', 'A1\nB2', 'A1:A2\n',
    'A١', 'A1:A٢', 'А1', 'A1%', 'A1&B1', 'A1=B1', 'A1:A3=B1', 'A1:$A$3', '$A$1:A3', 'A1:A3$',
    'A1:A33', 'A1:B3;C1', 'A12:A1', 'AB1:AB1', 'A1:AA1', 'AA1:A1', 'Data!A1:Data!B2', 'A1.5', 'A1e3', 'A1:B2)+1',
]
LITERALS = [
    '1', '12.5', '0.1', '.5', '5.', '1e3', '1.5e-3', '1E3', '1e+3', '1e', '007', '12abc', '1,2', '1;2', '""', '"a"',
    '"a""b"', '"a b" & "c"', '"unterminated', '"?"', '"a*"', '"~*"', '"a~?b"', '"*"&A1', 'TRUE', 'FALSE', 'TRUE()',
    'FALSE()', 'true', 'TRUEx', 'TRUE+1', '"TRUE"', '1%', '1%%', '1 %', '12345678901234567890', '1e400', '"\n"',
    '"a\nb"', '١٢', '"я"', '1.2.3', '1..2', '-1', '+1',
]
OPERATORS = ['+', '-', '*', '/', '&', '%', '=', '<>', '<', '<=', '>', '>=', '=<', '=>', '><', '==', '(', ')', '()', ';', ',',
             '~', ' ', '  \t\n x', '\n', '', '+-', '<>=', '<=>', '>=<', '&&', '%)', '^', '!', '#', '@', ':', '$', '.']
KEYWORDS = ['SUM(', 'SUMIF(', 'SUMIFS(', 'SUMX(', 'SUM', 'IF(', 'IFS(', 'IFERROR(', 'COUNT(', 'COUNTBLANK(', 'COUNTIFS(',
            'DATE(', 'DATEDIF(', 'DAY(', 'ROUND(', 'ROUNDUP(', 'ROUNDDOWN(', 'MAX(', 'MATCH(', 'XMATCH(', 'MIN(', 'MID(',
            'OR(', 'AND(', 'AVERAGE(', 'AVERAGEIFS(', 'TODAY()', 'TEXT(', 'VALUE(', 'VLOOKUP(', 'INDEX(', 'LEFT(',
            'RIGHT(', 'SEARCH(', 'ADDRESS(', 'COLUMN(', 'CONCATENATE(', 'EDATE(', 'EOMONTH(', 'MONTH(', 'YEAR(',
            'NETWORKDAYS(', 'sum(', 'Sum(', 'SUM1', 'IF1', 'OR1:OR2', 'DAY1', 'MAX10:MIN20', 'ORANGE']
FORMULAS = [
    '=A1', '=$A$1+B2', "='My Sheet'!A1*2", '=SUM(A1:B2)', '=SUM(A:A)', "=SUM('My Sheet'!A1:B2,Data!C3)", '=A1:A3',
    '=1+2*3', '=-A1%', '=A1&"x"&B1', '=IF(A1>=B1,"ge","lt")', '=A1<>B1', '=A1<=B1', '= A1 + B1', '=A1 +\nB1', '=A1+B1 ',
    '=SUMIF(A1:A6,">3",B1:B6)', '=COUNTIFS(A1:A6,"a*")', '=VLOOKUP(3,A1:C6,2,FALSE)', '=INDEX(A1:C3,2,2)', '=1.5e3%',
    '=TRUE', '=TRUE()', '=FALSE=0', '="a""b"', '=A1#', '=@A1', '=A1^2', '=OR1', '=SUM1+IF1', '=DAY1', '=MAX(A1,B1)',
    '=ROUNDUP(A1/3,2)', '=ROUNDDOWN(B1,0)', '=AVERAGEIFS(B1:B6,A1:A6,">2")', '=XMATCH(3,A1:A6)', '=MATCH(3,A1:A6,0)',
    '=DATE(2024,1,15)', '=DATEDIF(A1,B1,"d")', '=IFS(A1>1,1,TRUE,2)', '=IFERROR(A1/0,"err")', '=COUNTBLANK(A1:C3)',
    '=xyz', '=A1 B1', '=A1;B1', '=(A1', '', '=', 'A1', '==A1', '=A1:B2:C3', "='unterminated!A1", '=Data!A1:B2&"|"',
]


def get_all(text):
    for token_class in Lexer.TOKENS:
        name = token_class.__name__
        if name == 'UndefinedToken':
            continue
        try:
            token, rest = token_class.get(text, Cell('OWN', 'Q', '7'))
        except Exception as error:  # noqa
            emit('G', repr(text), name, 'EXC', type(error).__name__, str(error)[:120])
            continue
        if token is None:
            if rest != text:
                emit('G', repr(text), name, 'NONE-BUT-REST-CHANGED', repr(rest))
            continue
        extra = ''
        if isinstance(token, MatrixOfCellIdentifiersToken):
            extra = repr(token.matrix)
        elif isinstance(token, CellIdentifierRangeToken):
            extra = repr(token.range)
        elif isinstance(token, CellIdentifierToken):
            extra = repr(token.cell)
        emit('G', repr(text), name, repr(token.value), type(token.value).__name__, 'rest=' + repr(rest), extra)


FUNCTION_RE = re.compile(r'^    def (_\d+_\d+_\d+(?:_\d+)?)\(self\):\n        return (.*)$', re.M)

WORKBOOK_FORMULAS = [
    '=A1', '=$A$1+B2', "='My Sheet'!A1*2", "='My Sheet'!$B$2&\"!\"", '=SUM(A1:B2)', '=SUM(A:A)', '=SUM($A:$B)',
    "=SUM('My Sheet'!A1:B2,Data!C3)", "=SUM('My Sheet'!A:A)", '=SUM(Data!A1:C3)', '=SUM(A1:A6)', '=SUM(A1:F1)', '=SUM($A$1:$C$3)',
    '=COUNT(A1:F6)', '=COUNTBLANK(A1:F6)', '=MAX(B2:A1)', '=1+2*3', '=-A1%', '=A1%+B1%', '=A1&"x"&B1', '=IF(A1>=B1,"ge","lt")',
    '=A1<>B1', '=A1<=B1', '=SUMIF(A1:A6,">3",B1:B6)', '=COUNTIFS(E1:E6,"a*")', '=VLOOKUP(31,A1:C6,2,FALSE)',
    '=INDEX(A1:C3,2,2)', '=1.5e3%', '=TRUE', '=TRUE()', '=FALSE=0', '="a""b"', '=MAX(A1,B1)', '=ROUNDUP(A1/3,2)',
    '=ROUNDDOWN(B1,0)', '=AVERAGEIFS(B1:B6,A1:A6,">2")', '=XMATCH(31,A1:A6)', '=MATCH(31,A1:A6,0)', '=DATE(2024,1,15)',
    '=IFS(A1>1,1,TRUE,2)', '=IFERROR(A1/0,"err")', '=Sheet_3!B2', '=Sheet_3!A1:A2', '=AA3+AAA1', '=XFD1', '=A1048576',
    '=0.1+0.2', '=12345678901234567890', '=0.30000000000000004=0.1+0.2', '=Data!A1:B2&"|"',
]
BAD_FORMULAS = ['=A1 +\nB1', '=A1#', '=@A1', '=A1^2', '=xyz', '=A1 B1', '=(A1', '==A1', '=A1:B2:C3', "='unterminated!A1", '=Nope!A1',
                "='No Such'!A1:B2", '=SUM(1:1)', '=A1:B', '=Sheet 3!A1', '=A1%%']


def build(path, formula_list):
    wb = Workbook()
    data = wb.active
    data.title = 'Data'
    for r in range(1, 7):
        for c in range(1, 5):
            data.cell(row=r, column=c, value=r * 10 + c)
        data.cell(row=r, column=5, value=['apple', 'avocado', 'banana', None, 'Apricot', 'a'][r - 1])
    data.cell(row=3, column=27, value=0.25)     # AA3
    data.cell(row=1, column=703, value=4)       # AAA1
    my = wb.create_sheet('My Sheet')
    for r in range(1, 4):
        for c in range(1, 4):
            my.cell(row=r, column=c, value=r + c / 10)
    third = wb.create_sheet('Sheet_3')
    third.cell(row=1, column=1, value='x')
    third.cell(row=2, column=1, value='y')
    third.cell(row=2, column=2, value=datetime.datetime(2024, 2, 29))
    for index, formula in enumerate(formula_list):
        data.cell(row=index + 1, column=52, value=formula)
    wb.save(path)
    wb.close()


def main():
    for text in REFERENCES + LITERALS + OPERATORS + KEYWORDS:
        get_all(text)
    # a second pass over a part of the inputs: results must not depend on what was matched before
    for text in REFERENCES[::5] + LITERALS[::5]:
        get_all(text)

    for formula in FORMULAS + WORKBOOK_FORMULAS + BAD_FORMULAS:
        try:
            tokens = Lexer.parse(formula, Cell(0, 51, 0))
            emit('L', repr(formula), [f'{t.__class__.__name__}{t.value!r}' for t in tokens])
        except Exception as error:  # noqa
            emit('L', repr(formula), 'EXC', type(error).__name__, str(error)[:160])

    tmp = tempfile.mkdtemp(prefix='e2p_demo_r4_')
    try:
        book = os.path.join(tmp, 'all.xlsx')
        build(book, WORKBOOK_FORMULAS + BAD_FORMULAS)
        excel = Excel.parse(book)
        good = []
        for index, formula in enumerate(WORKBOOK_FORMULAS + BAD_FORMULAS):
            context = Context()
            context._titles = excel.get_titles()
            context._sheets_size = excel.get_sheets_size()
            try:
                CellTranslator.translate(Cell(0, 51, index), excel, context)
                found = FUNCTION_RE.findall(context.build_class())
            except Exception as error:  # noqa
                emit('T', index, repr(formula), 'EXC', type(error).__name__, str(error)[:160])
                continue
            good.append(formula)
            emit('T', index, repr(formula), 'all-functions', len(found), hashlib.sha256(repr(found).encode()).hexdigest())
            for name, code in found:
                if name.startswith('_0_51_') or name.count('_') == 4:
                    if len(code) > 300:
                        code = code[:150] + ' ... sha=' + hashlib.sha256(code.encode()).hexdigest()
                    emit('T', index, repr(formula), name, code)

        book2 = os.path.join(tmp, 'good.xlsx')
        build(book2, good)
        module = os.path.join(tmp, 'translated.py')
        Parser().set_excel_file_path(book2).write_translation(module)
        with open(module, encoding='utf-8') as f:
            functions = FUNCTION_RE.findall(f.read())
        emit('functions', len(functions), hashlib.sha256(repr(functions).encode()).hexdigest())
        override_sets = [
            [],
            [Cell('Data', 'A', '1', value=None), Cell('Data', 'B', '2', value=0.5), Cell('My Sheet', 'A', '1', value='7'),
             Cell('Sheet_3', 'B', '2', value=3), Cell('Data', 'XFD', '1', value=11)],
            [Cell(0, 0, 0, value='t'), Cell(0, 1, 0, value=True), Cell(1, 1, 1, value=None), Cell(0, 0, 1048575, value=8)],
        ]
        for set_number, overrides in enumerate(override_sets):
            executor = Executor().set_executed_class(class_file=module)
            if overrides:
                executor.set_cells(overrides)
            for index, formula in enumerate(good):
                try:
                    value = show(executor.get_cell(Cell('Data', 'AZ', str(index + 1))).value)
                    if len(value) > 300:
                        value = value[:150] + ' ... sha=' + hashlib.sha256(value.encode()).hexdigest()
                    emit('V', set_number, index, repr(formula), value)
                except Exception as error:  # noqa
                    emit('V', set_number, index, repr(formula), 'EXC', type(error).__name__, str(error)[:160])
    finally:
        shutil.rmtree(tmp, ignore_errors=True)

    print('LINES', len(OUT))
    print('DIGEST', hashlib.sha256('\n'.join(OUT).encode()).hexdigest())
    return 0


if __name__ == '__main__':
    sys.exit(main())
