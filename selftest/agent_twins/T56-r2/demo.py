"""Equivalence demo for r2: the token-set parser (CompositeBaseToken.get).

Run as: PYTHONPATH=<tree> /venv/bin/python demo.py
Prints a deterministic digest; must be identical on the unchanged and on the refactored tree.
"""
import hashlib
import os
import random
import shutil
import signal
import sys
import tempfile
import warnings

warnings.simplefilter('ignore')

from openpyxl import Workbook

from excel2pycl import Parser, Executor, Cell
from excel2pycl.src.ast_builder import AstBuilder
from excel2pycl.src.exceptions import E2PyclException
from excel2pycl.src.lexer import Lexer
from excel2pycl.src import tokens as token_module
from excel2pycl.src.tokens.base_token import BaseToken
from excel2pycl.src.tokens.composite_base_token import CompositeBaseToken

LINES = []


def out(*parts):
    LINES.append(' '.join(str(p) for p in parts))


class Timeout(BaseException):
    pass


def _alarm(signum, frame):
    raise Timeout()


signal.signal(signal.SIGALRM, _alarm)


def limited(function, *args, seconds=20):
    signal.alarm(seconds)
    try:
        return function(*args)
    finally:
        signal.alarm(0)


def dump(node):
    """The whole tree: class names and the values of the leaves."""
    if isinstance(node, BaseToken):
        if isinstance(node, CompositeBaseToken):
            return node.__class__.__name__ + '(' + ', '.join(dump(v) for v in node.value) + ')'
        return node.__class__.__name__ + repr(node.value)
    if isinstance(node, (list, tuple)):
        return '[' + ', '.join(dump(v) for v in node) + ']'
    return repr(node)


def describe_error(error):
    family = 'library' if isinstance(error, E2PyclException) else 'foreign'
    return 'raised %s %s %s' % (family, type(error).__name__, str(error))


def parse_formula(formula):
    cell = Cell(0, 0, 0)
    try:
        lexed = limited(Lexer.parse, formula, cell)
    except Timeout:
        return 'lexer timeout'
    except Exception as error:
        return 'lexer ' + describe_error(error)
    try:
        tree = limited(AstBuilder.parse, lexed, cell)
    except Timeout:
        return 'parser timeout'
    except RecursionError as error:
        return 'parser raised foreign RecursionError'
    except Exception as error:
        return 'parser ' + describe_error(error)
    return 'tree ' + dump(tree)


FORMULAS = [
    '=1', '=1+2*3', '=-1', '=+A1', '=A1', '=$A$1', "='My sheet'!B2", '=Other!B2', '=A1:A3', '=(1+2)*3', '=((A1))',
    '="text"', '="a"&"b"', '=A1&" "&B1', '=10%', '=A1%*2', '=1=1', '=A1<>B1', '=A1>=2', '=A1<=2', '=A1<2', '=A1>2',
    '=TRUE', '=FALSE', '=1.5e3', '=1/0', '=2^3', '=A1^2',
    '=IF(A1>1,2,3)', '=IF(A1>1,2)', '=IF(A1>1,,3)', '=IF(A1,IF(B1,1,2),IF(C1,3,4))', '=IF(A1>1;2;3)',
    '=IF(', '=IF()', '=IF(A1', '=IF(A1,', '=IF(A1,2,3', '=IF(A1,2,3,4)', '=IF A1', '=IF', '=IF(,,)', '=IF(1,2,3))',
    '=SUM(A1:A3)', '=SUM(A1,B1,3)', '=SUM(A1:A3,B1:B3)', '=SUM()', '=SUM(', '=SUM(A1:A3', '=SUM(A1:B3)', '=SUM(A:A)',
    '=SUM(1)+SUM(2)', '=SUM(SUM(1,2),3)', '=SUM(IF(A1,1,2),3)',
    '=AVERAGE(A1:A3)', '=AVERAGE()', '=MIN(A1:A3)', '=MAX(A1:A3,5)', '=MIN(', '=MAX)',
    '=VLOOKUP(1,A1:B3,2)', '=VLOOKUP(1,A1:B3,2,FALSE)', '=VLOOKUP(1,A1:B3,2,TRUE)', '=VLOOKUP(1,A1:B3)',
    '=VLOOKUP(1,A1:B3,2,FALSE,5)', '=VLOOKUP("x",Other!A1:B3,2,0)',
    '=ROUND(1.234,2)', '=ROUND(1.234)', '=ROUND(1.234,)', '=ROUNDUP(1.234,2)', '=ROUNDUP(1.2,)', '=ROUNDDOWN(1.234,1)',
    '=ROUNDDOWN(1.234', '=OR(A1,B1)', '=AND(A1>1,B1<2)', '=OR()', '=AND(',
    '=SUMIF(A1:A3,">1",B1:B3)', '=SUMIF(A1:A3,">1")', '=SUMIF(A1:A3,B1,C1:C3)', '=SUMIF(A1:A3)', '=SUMIF(A1:A3,',
    '=SUMIF(A1:A3,">"&B1,C1:C3)', '=SUMIF(A1:A3,"a*",B1:B3)',
    '=SUMIFS(C1:C3,A1:A3,">1")', '=SUMIFS(C1:C3,A1:A3,">1",B1:B3,"x")', '=SUMIFS(C1:C3)', '=SUMIFS(C1:C3,A1:A3)',
    '=SUMIFS(C1:C3,A1:A3,">1",B1:B3)', '=SUMIFS(C1:C3,A1:A3,"a?c")', '=SUMIFS(C1:C3,A1:A3,">"&D1)',
    '=COUNTIFS(A1:A3,">1")', '=COUNTIFS(A1:A3,">1",B1:B3,"x")', '=COUNTIFS(A1:A3)', '=COUNTIFS()',
    '=COUNTIFS(A1:A3,"???")', '=COUNTIFS(A1:A3,">1",B1:B3)',
    '=AVERAGEIFS(C1:C3,A1:A3,">1")', '=AVERAGEIFS(C1:C3,A1:A3,">1",B1:B3,"x")', '=AVERAGEIFS(C1:C3)',
    '=YEAR(A1)', '=MONTH(A1)', '=DAY(A1)', '=YEAR()', '=DATE(2020,1,2)', '=DATE(2020,1)', '=DATEDIF(A1,B1,"D")',
    '=DATEDIF(A1,B1)', '=EOMONTH(A1,1)', '=EDATE(A1,1)', '=EDATE(A1)', '=TODAY()', '=TODAY(1)', '=TODAY(',
    '=IFERROR(A1/B1,0)', '=IFERROR(A1/B1)', '=IFERROR(VLOOKUP(1,A1:B3,2),"none")', '=IFERROR(,)',
    '=MATCH(1,A1:A3,0)', '=MATCH(1,A1:A3)', '=MATCH(1,A1:A3,-1)', '=MATCH(1)', '=XMATCH(1,A1:A3)',
    '=XMATCH(1,A1:A3,0,1)', '=XMATCH(1,A1:A3,0)', '=XMATCH(1,A1:A3,0,1,2)',
    '=LEFT("abc",2)', '=LEFT("abc")', '=LEFT(A1,B1)', '=LEFT()', '=MID("abc",1,2)', '=MID("abc",1)', '=RIGHT("abc",2)',
    '=RIGHT("abc")', '=RIGHT(', '=COUNTBLANK(A1:A3)', '=COUNTBLANK()', '=IFS(A1>1,1,A1>2,2)', '=IFS(A1>1)',
    '=IFS(A1>1,1,TRUE,3)', '=SEARCH("a","banana")', '=SEARCH("a","banana",2)', '=SEARCH("a")', '=SEARCH("a?","banana")',
    '=ADDRESS(1,2)', '=ADDRESS(1,2,3)', '=ADDRESS(1,2,3,FALSE)', '=ADDRESS(1,2,3,FALSE,"S")', '=ADDRESS(1)',
    '=COUNT(A1:A3)', '=COUNT(A1:A3,1,"2")', '=COUNT()', '=NETWORKDAYS(A1,B1)', '=NETWORKDAYS(A1,B1,C1:C3)',
    '=NETWORKDAYS(A1)', '=COLUMN()', '=COLUMN(B1)', '=COLUMN(B1:C3)', '=COLUMN(', '=INDEX(A1:B3,1,2)', '=INDEX(A1:B3,1)',
    '=INDEX(A1:B3)', '=INDEX((A1:B3,C1:D3),1,2,2)', '=INDEX(A1:B3,,2)', '=VALUE("12")', '=VALUE()', '=TEXT(A1,"0.00")',
    '=TEXT(A1)', '=CONCATENATE("a",B1,1)', '=CONCATENATE()', '=CONCATENATE("a"',
    '=UNKNOWN(1)', '=Sum(A1)', '=sum(A1:A3)', '=PI()', '=SQRT(4)', '=A1+', '=+', '=*2', '=1 2', '=1,2', '=(1', '=1)',
    '=()', '=', '= ', '==1', '=A1:', '=:A1', '=A1:B', '=A:1', '="unterminated', "='Sheet!A1", '=#REF!', '=#N/A',
    '=A1 + B1', '= 1 + 2', '=SUM( A1:A3 )', '=IF( A1 > 1 , 2 , 3 )', '=\tA1', '=A1\n+1', '=1+-2', '=1--2', '=1++2',
    '=-(-1)', '=-SUM(A1:A3)', '=-IF(A1,1,2)', '=NOT(A1)', '=A1&', '=&A1', '=%', '=5%%', '=1<>', '=<>1', '=1<2<3',
    '={1,2}', '=[1]', '=A1!B2', '=!A1', "=''!A1", '=AA10000', '=a1', '=A0', '=$A1:$B$2', '=Other!A1:Other!B2',
    '=IF(SUM(A1:A3)>1,MAX(A1:A3),MIN(A1:A3))', '=ROUND(SUM(A1:A3)/COUNT(A1:A3),2)',
    '=IF(AND(A1>1,OR(B1<2,C1=3)),"yes","no")', '=IFERROR(INDEX(A1:B3,MATCH(1,A1:A3,0),2),"")',
    '=LEFT(RIGHT(MID("abcdef",2,4),3),2)', '=DATE(YEAR(A1),MONTH(A1)+1,DAY(A1))',
    '=SUMIFS(C1:C3,A1:A3,">"&SUM(B1:B3))', '=CONCATENATE(LEFT(A1,1),"-",TEXT(B1,"0"))',
    '=IF(A1,SUM(,1)', '=IF(A1,SUM(1,2),', '=SUM(IF(A1,1,2)', '=ROUND(IF(A1,1,2),IF(', '=VLOOKUP(IF(,A1:B2,2)',
]


def mutants(rng, formulas, count):
    alphabet = '()=,;:"&%+-*/<>!$ A1Z9.\'~?*'
    result = []
    for _ in range(count):
        text = rng.choice(formulas)
        for _ in range(rng.choice([1, 1, 2, 3])):
            kind = rng.randrange(4)
            position = rng.randrange(1, len(text) + 1)
            if kind == 0 and len(text) > 2:
                text = text[:position - 1] + text[position:]
            elif kind == 1:
                text = text[:position] + rng.choice(alphabet) + text[position:]
            elif kind == 2 and len(text) > 2:
                text = text[:position]
            else:
                other = rng.choice(formulas)
                text = text[:position] + other[rng.randrange(0, len(other)):]
        if not text.startswith('='):
            text = '=' + text
        result.append(text)
    return result


def part_trees():
    for formula in FORMULAS:
        out('formula', repr(formula), '->', parse_formula(formula))
    rng = random.Random(56002)
    for formula in mutants(rng, FORMULAS, 700):
        out('mutant', repr(formula), '->', parse_formula(formula))


def part_partial_gets():
    """Token classes asked directly: the matched token, the rest of the expression, or nothing."""
    cell = Cell(0, 0, 0)
    names = sorted(name for name in dir(token_module)
                   if isinstance(getattr(token_module, name), type)
                   and issubclass(getattr(token_module, name), CompositeBaseToken))
    snippets = ['1+2', 'A1,2', 'IF(A1,1,2)+3', 'SUM(A1:A3),4', 'IF(A1,1', 'A1:A3,">1"', '">1",B1:B3', ')', '',
                'A1:B3,1,2', '=1', '"a"&B1,2', '>1', '+', '%', 'SUMIFS(A1:A2,B1:B2', 'TODAY()', 'LEFT("a")&1']
    for snippet in snippets:
        try:
            lexed = Lexer.parse(snippet, cell) if snippet else []
        except Exception as error:
            out('snippet', repr(snippet), 'lexer', describe_error(error))
            continue
        for name in names:
            token_class = getattr(token_module, name)
            original = list(lexed)
            try:
                token, rest = limited(token_class.get, lexed, cell)
                result = 'token %s rest %s' % (dump(token) if token is not None else None, dump(rest))
                if token is None:
                    result += ' same list returned: %s' % (rest is lexed)
            except Timeout:
                result = 'timeout'
            except Exception as error:
                result = describe_error(error)
            out('snippet', repr(snippet), name, '->', result, '| input untouched:', original == lexed)


def part_workbooks(tmp):
    """End to end: every formula alone in a workbook; a class that loads, or a library exception."""
    rng = random.Random(56003)
    chosen = FORMULAS[::3] + mutants(rng, FORMULAS, 60)
    for number, formula in enumerate(chosen):
        xlsx = os.path.join(tmp, 'f%d.xlsx' % number)
        out_py = os.path.join(tmp, 'f%d.py' % number)
        wb = Workbook()
        ws = wb.active
        ws.title = 'My sheet'
        for row, values in enumerate([(3, 'x', 10), (1, 'y', 20.5), (2, 'x', None)], start=1):
            for column, value in enumerate(values, start=1):
                ws.cell(row=row, column=column, value=value)
        ws['E1'] = formula
        other = wb.create_sheet('Other')
        other.append([1, 'one'])
        other.append([2, 'two'])
        wb.save(xlsx)
        parser = Parser().set_excel_file_path(xlsx).disable_safety_check()
        try:
            limited(parser.write_translation, out_py)
        except Timeout:
            out('workbook', repr(formula), 'translation timeout')
            continue
        except RecursionError:
            out('workbook', repr(formula), 'translation raised foreign RecursionError')
            continue
        except Exception as error:
            out('workbook', repr(formula), 'translation', describe_error(error))
            continue
        text = parser.get_translation()
        digest = hashlib.sha256(text.encode()).hexdigest()[:16]
        try:
            compile(text, 'generated', 'exec')
            executor = Executor().set_executed_class(class_file=out_py)
            instance = executor.get_executed_class()
            shape = '%s %s' % (instance.get_titles(), instance.get_sheets_size())
            try:
                value = limited(lambda: executor.get_cell(Cell('My sheet', 'E', '1')).value)
                shown = 'value %s %r' % (type(value).__name__, value)
                if 'TODAY' in formula.upper():
                    shown = 'value ' + type(value).__name__
            except Timeout:
                shown = 'evaluation timeout'
            except Exception as error:
                shown = 'evaluation raised %s %s' % (type(error).__name__, error)
        except Exception as error:
            shape, shown = 'load failed', describe_error(error)
        out('workbook', repr(formula), 'text', digest, shape, shown)


def main():
    tmp = tempfile.mkdtemp(prefix='t56_r2_')
    try:
        part_trees()
        part_partial_gets()
        part_workbooks(tmp)
    finally:
        shutil.rmtree(tmp, ignore_errors=True)
    body = '\n'.join(LINES)
    print(body)
    print('lines', len(LINES), 'sha256', hashlib.sha256(body.encode()).hexdigest())


if __name__ == '__main__':
    main()
    sys.exit(0)
