"""Equivalence demo for r1: ROUND / ROUNDUP / ROUNDDOWN runtime helpers (both copies).

Calls the three helpers of (a) the AbstractExcelInPython class and (b) a freshly generated
ExcelInPython class on a large deterministic grid of numbers and digit counts (boundary and
invalid inputs included), and also evaluates ROUND* formulas through the Executor with overrides.
Prints every result (repr of value or exception class name) digest-wise plus a sample in clear.
"""
import hashlib
import math
import os
import random
import shutil
import sys
import tempfile

import openpyxl

from excel2pycl import Parser, Executor, Cell
from excel2pycl.src.utilities.abstract_excel_in_python_class import AbstractExcelInPython


class Runtime(AbstractExcelInPython):
    pass


def show(value):
    if isinstance(value, float):
        return f'float:{value!r}:{value.hex() if math.isfinite(value) else "-"}'
    return f'{type(value).__name__}:{value!r}'


def attempt(function, *args):
    try:
        return show(function(*args))
    except BaseException as error:  # noqa
        return f'raised:{type(error).__name__}'


def numbers():
    fixed = [0, 0.0, -0.0, 0.5, -0.5, 1.5, -1.5, 2.5, -2.5, 0.05, 0.15, 0.25, 0.35, 1.005, -1.005, 2.675, 1.115,
             8.345, 0.1 + 0.2, 1 / 3, 2 / 3, 1e15, 1e16, 123456789012345, 12345678901234.5, 0.123456789012345,
             999999999999999, 0.999999999999999, 9.99999999999999, 99.5, 0.0049999999999999, 0.005, 1e-15, 1e-20,
             5e-324, 1.7976931348623157e308, -1.7976931348623157e308, 1e308, 1e22, 1e23, 4.35, 4.45, 1234.5678,
             -1234.5678, 14.5, 15.5, 150, 250, -150, -250, 1.45, 1.55, 0.285, 1.0000000000000002, 5, -5, 50, 500,
             True, False, 7, -7, 10 ** 20, 10 ** 400]
    rnd = random.Random(20240516)
    generated = []
    for _ in range(400):
        digits = rnd.randint(1, 15)
        mantissa = rnd.randint(1, 10 ** digits - 1)
        exponent = rnd.randint(-12, 6)
        sign = rnd.choice([1, -1])
        generated.append(float(f'{sign * mantissa}e{exponent - digits + 1}'))
    for _ in range(150):
        # exact halves at various scales
        digits = rnd.randint(1, 10)
        scale = rnd.randint(-6, 4)
        generated.append(float(f'{rnd.choice([1, -1]) * rnd.randint(0, 10 ** digits)}5e{scale}'))
    return fixed + generated


ODD_NUMBERS = [float('inf'), float('-inf'), float('nan'), '1.5', ' 2.5 ', '1e3', 'abc', '', None, [], (1,), {}, b'1.5',
               '１２.５', complex(1, 2)]
DIGITS = list(range(-20, 21)) + [1.9, -1.9, 0.5, -0.5, 2.0, True, False, '2', '-1', ' 3 ', 'x', '', None, [],
                                 float('inf'), float('-inf'), float('nan'), 300, 399, 400, 401, 500, -300, -400, -500,
                                 10 ** 6, -10 ** 6, 10 ** 30]


def run_grid(label, instance, lines):
    names = ['_round', '_roundup', '_rounddown']
    empty = instance.EmptyCell()
    all_numbers = numbers() + ODD_NUMBERS + [empty]
    for name in names:
        function = getattr(instance, name)
        for number in all_numbers:
            for digits in DIGITS + [empty]:
                lines.append(f'{label}.{name}({number!r}, {digits!r}) -> {attempt(function, number, digits)}')
        # arity errors
        lines.append(f'{label}.{name}() -> {attempt(function)}')
        lines.append(f'{label}.{name}(1) -> {attempt(function, 1)}')
        lines.append(f'{label}.{name}(1,2,3) -> {attempt(function, 1, 2, 3)}')


def build_workbook(path):
    workbook = openpyxl.Workbook()
    sheet = workbook.active
    sheet.title = 'R'
    sheet['A1'] = 2.675
    sheet['B1'] = 2
    sheet['C1'] = '=ROUND(A1,B1)'
    sheet['D1'] = '=ROUNDUP(A1,B1)'
    sheet['E1'] = '=ROUNDDOWN(A1,B1)'
    sheet['F1'] = '=ROUNDUP(A1)'
    sheet['G1'] = '=ROUNDDOWN(A1)'
    sheet['H1'] = '=ROUND(A1*100,0)/100+ROUNDUP(A1/3,B1)-ROUNDDOWN(-A1,1)'
    sheet['I1'] = '=ROUND(ROUND(A1,3),B1)'
    sheet['J1'] = '=ROUND(15%*A1,B1)'
    sheet['K1'] = '=ROUNDUP(A1,)'
    sheet['L1'] = '=ROUNDDOWN(A1,)'
    sheet['A2'] = -1.005
    sheet['B2'] = -1
    sheet['C2'] = '=ROUND(A2,2)'
    sheet['D2'] = '=ROUNDUP(A2,2)'
    sheet['E2'] = '=ROUNDDOWN(A2,2)'
    sheet['F2'] = '=ROUND(1234.5,B2)'
    sheet['G2'] = '=ROUND(A3,B3)'
    workbook.save(path)


def main():
    lines = []
    run_grid('class', Runtime(), lines)

    tmp = tempfile.mkdtemp(prefix='t44_r1_')
    try:
        xlsx = os.path.join(tmp, 'round.xlsx')
        out_py = os.path.join(tmp, 'round_generated.py')
        build_workbook(xlsx)
        Parser().set_excel_file_path(xlsx).write_translation(out_py)
        executor = Executor().set_executed_class(class_file=out_py)
        run_grid('generated', executor.get_executed_class(), lines)

        outputs = [(column, row) for row in (0, 1) for column in range(2, 12)]

        def snapshot(tag):
            for column, row in outputs:
                lines.append(f'{tag} cell({column},{row}) -> '
                             f'{attempt(lambda: executor.get_cell(Cell(0, column, row)).value)}')

        snapshot('initial')
        rnd = random.Random(7)
        samples = [0.5, 1.5, 2.5, -2.5, 1.005, 2.675, 0.285, 1e15, 123456789012345, 1e-7, 'abc', None, True]
        samples += [round(rnd.uniform(-1000, 1000), rnd.randint(0, 9)) for _ in range(40)]
        for index, sample in enumerate(samples):
            digits = [2, 0, -1, 1, 3, -2, 5, 'x', 1.9][index % 9]
            executor.set_cells([Cell(0, 0, 0, value=sample), Cell('R', 'B', '1', value=digits),
                                Cell(0, 0, 1, value=-sample if isinstance(sample, float) else sample)])
            snapshot(f'override#{index}({sample!r},{digits!r})')
    finally:
        shutil.rmtree(tmp, ignore_errors=True)

    digest = hashlib.sha256('\n'.join(lines).encode('utf-8')).hexdigest()
    print(f'results: {len(lines)}')
    print(f'sha256: {digest}')
    step = max(1, len(lines) // 400)
    for line in lines[::step]:
        print(line)
    for line in lines:
        if line.startswith(('initial', 'override')):
            print(line)
    return 0


if __name__ == '__main__':
    sys.exit(main())
