"""Equivalence demo for r1 (_ifs / _find_error_in_list loop forms, both runtime copies).

Run as: PYTHONPATH=<tree> /venv/bin/python demo.py
Prints a deterministic digest; the output must be identical on the unchanged and the refactored tree.
"""
import datetime
import hashlib
import itertools
import os
import re
import shutil
import sys
import tempfile

from openpyxl import Workbook

from excel2pycl import Parser, Executor, Cell
from excel2pycl.src.utilities.abstract_excel_in_python_class import AbstractExcelInPython

LINES = []


def out(*parts):
    LINES.append(' | '.join(str(p) for p in parts))


def show(value):
    return f'{type(value).__name__}:{value!r}'


def call(function, *args):
    try:
        return show(function(*args))
    except BaseException as error:  # noqa
        return 'raised ' + type(error).__name__


class Direct(AbstractExcelInPython):
    pass


class Truthy:
    """object with its own truth value and a stable repr"""

    def __init__(self, flag):
        self.flag = flag

    def __bool__(self):
        return self.flag

    def __repr__(self):
        return f'Truthy({self.flag})'


class BadBool:
    def __bool__(self):
        raise RuntimeError('no truth value')

    def __repr__(self):
        return 'BadBool()'


class BadEq:
    __hash__ = None

    def __eq__(self, other):
        raise ArithmeticError('no equality')

    def __repr__(self):
        return 'BadEq()'


ERRORS = ['#NUM!', '#DIV/0!', '#N/A', '#NAME?', '#NULL!', '#REF!', '#VALUE!']
NOT_ERRORS = ['#ERROR!', '#DIV0!', '#n/a', ' #N/A', '#N/A ', '', 'N/A', 0, 1, -1, 0.0, 2.5, True, False, None,
              datetime.datetime(2024, 2, 29), [], ['#N/A'], ('#N/A',), b'#N/A']


def helper_inputs(instance):
    empty = instance.EmptyCell()
    atoms = [True, False, 0, 1, '', 'x', empty, None, 0.0, 3.5, '#N/A', '#ERROR!', Truthy(True), Truthy(False),
             [], [0]]
    lists = [[]]
    for size in (1, 2, 3, 4):
        for combo in itertools.product(atoms[:9], repeat=size) if size <= 2 else []:
            lists.append(list(combo))
    # longer, hand made
    lists += [
        [False, 'a', True, 'b'], [False, 'a', False, 'b'], [True, 'a', True, 'b'], [False, 'a', 0, 'b', '', 'c'],
        [False, 'a', 0, 'b', 'yes', 'c'], [False, 'a', True], [True], [False], [False, 'a', False],
        [0, 1, 0, 2, 0, 3, 1, 4, 1, 5], [empty, 'e', 1, 'one'], [None, 'n', 2.5, 'f'],
        [False, '#N/A', True, 'b'], [True, 'b', False, '#REF!'], ['#VALUE!', 'a', '#NUM!', 'b'],
        [True, '#ERROR!'], ['#ERROR!', 'v'], [Truthy(False), 'a', Truthy(True), 'b'],
        [BadBool(), 'a'], [False, 'a', BadBool(), 'b'], [True, 'a', BadBool(), 'b'], [BadEq(), 'a'],
        [True, 'a', BadEq()], [False, [1, 2], True, [3]], [[], 'empty list is false', [0], 'non empty list'],
        [datetime.datetime(2020, 1, 1), 'date'], [0.0, 'zero', -0.0, 'minus zero', 1e-300, 'tiny'],
        ['0', 'text zero is true'], [False] * 199 + [True], [False] * 200, [False, 1] * 50 + [True, 'last'],
    ]
    for error in ERRORS:
        lists += [[error], [True, error], [error, 1], [False, 1, True, 2, error], [1, 2, error, error]]
    for a, b in itertools.permutations(ERRORS, 2):
        lists.append([False, a, True, b])
    for value in NOT_ERRORS:
        lists += [[value], [True, value], [value, 'v'], [False, 0, value, 'w']]
    return lists


def exercise_helpers(label, instance):
    lists = helper_inputs(instance)
    digest = hashlib.sha256()
    for number, flatten_list in enumerate(lists):
        rows = [
            call(instance._find_error_in_list, flatten_list),
            call(instance._ifs, flatten_list),
            call(instance._count_blank, flatten_list),
            call(instance._min, flatten_list),
            call(instance._max, flatten_list),
        ]
        line = f'{label} #{number} {flatten_list!r:.120} -> ' + ' ; '.join(rows)
        digest.update(line.encode())
        if number < 60 or number % 7 == 0:
            out(line)
    # generators / tuples / strings as the "list"
    for subject in [(), ('#N/A',), (False, 1, True, 2), 'abc', '', range(0), range(4), {'#REF!': 1}, {1, 2},
                    None, 5]:
        line = f'{label} odd {subject!r} -> ' + call(instance._find_error_in_list, subject) + ' ; ' + call(
            instance._ifs, subject)
        digest.update(line.encode())
        out(line)
    out(label, 'one-shot iterator',
        call(instance._find_error_in_list, iter(['a', '#NUM!', '#REF!'])),
        call(instance._find_error_in_list, (x for x in [1, 2, 3])))
    # _iferror goes through _find_error_in_list([cell])
    for value in ERRORS + NOT_ERRORS + [instance.EmptyCell(), BadEq()]:
        line = f'{label} iferror {value!r} -> ' + call(instance._iferror, lambda: value, 'fallback')
        digest.update(line.encode())
        out(line)
    for error in (ZeroDivisionError, TypeError, KeyError, RecursionError, KeyboardInterrupt, SystemExit):
        def fail(error=error):
            raise error('x')

        out(label, 'iferror raising', error.__name__, call(instance._iferror, fail, 'fallback'))
    out(label, 'helpers digest', len(lists), digest.hexdigest())


FORMULAS = [
    '=IF(A1>0,"pos","non-pos")', '=IF(A2>0,"pos","non-pos")', '=IF(A3>0,"pos")', '=IF(A1>0,"pos")',
    '=IF(A4,1,2)', '=IF(A5,1,2)', '=IF(A1,1/0,2)', '=IF(A2,1/0,2)', '=IF(A3,1/0,2)',
    '=IF(A1>0,IF(A2>0,"a","b"),IF(A3>0,"c","d"))', '=1+IF(A1>5,10,20)*2', '=IF(A1>5,10,20)&"x"',
    '=IF(IF(A1>5,0,1),"in","out")', '=IF(A1>5,10,IF(A1>4,9,IF(A1>3,8,IF(A1>2,7,6))))',
    '=IFS(A1>89,"A",A1>79,"B",A1>69,"C",A1>4,"D")', '=IFS(A2>89,"A",A2>79,"B")', '=IFS(A1>89,"A",TRUE,"else")',
    '=IFS(A3>=0,"zero or more",A3<0,"neg")', '=IFS(A2<0,"neg",A2=0,"zero",A2>0,"pos")',
    '=IFS(A1>89,"A",A1>79)', '=IFS(A1>1,"A",A1>79)', '=IFS(A1>1,B1,A1>0,B2)', '=IFS(A1>10,B1,A1>0,B2)',
    '=IFS(A1>10,B1,A1>0,B3)', '=IFS(B3,1,TRUE,2)', '=IFS(A1>0,1/0)', '=IFS(A1<0,1/0,TRUE,5)',
    '=IFS(A6,"six",TRUE,"blank")', '=IFS(A1:A3,"x")', '=IFS(A2>0,"p")&"-"&IFS(A1>0,"q")',
    '=2*IFS(A1>0,21,TRUE,0)', '=IFS(IFS(A1>0,FALSE,TRUE,TRUE),"a",TRUE,"b")',
    '=IFERROR(1/0,"div")', '=IFERROR(A1/A3,"div")', '=IFERROR(A1/A2,"div")', '=IFERROR(B1,"fallback")',
    '=IFERROR(B2,"fallback")', '=IFERROR(B3,"fallback")', '=IFERROR(B4,"fallback")', '=IFERROR(B5,"fallback")',
    '=IFERROR(B6,"fallback")', '=IFERROR(A6,"fallback")', '=IFERROR(IFS(A1>9,"a"),"none")',
    '=IFERROR(IFS(A1>1,"a"),"none")', '=IFERROR(VLOOKUP(99,A1:B5,2,FALSE),"missing")',
    '=IFERROR(VLOOKUP(5,A1:B5,2,FALSE),"missing")', '=IFERROR(IFERROR(1/0,1/0),"outer")',
    '=IFERROR(IFERROR(1/0,B1),"outer")', '=IFERROR(IFERROR(1/0,7),"outer")', '=1+IFERROR(A1/A3,100)',
    '=IF(IFERROR(A1/A3,0)>0,"y","n")', '=IFERROR(IF(A1>0,1/0,1),IF(A2<0,"neg","pos"))',
    '=IFERROR(MIN(A1:B5),"min error")', '=MIN(A1:B5)', '=MAX(A1:A5)', '=COUNTBLANK(A1:B7)', '=COUNTBLANK(A1:A7)',
    '=MIN(A1:A3)', '=IFERROR("x"+1,"type")', '=IFERROR(LEFT("abc",-1),"left")', '=IFS(B1="#N/A","is na",TRUE,"no")',
    # rejected at translation
    '=IF(A1>0,"pos","neg"', '=IFS()', '=IFERROR(1/0)', '=IF()', '=IFERROR(1,2,3)',
]

INPUTS = [
    # A, B
    [5, '#N/A'],
    [-3, '#REF!'],
    [0, '#ERROR!'],
    [True, '#VALUE!'],
    [False, 'plain'],
    [None, '#DIV/0!'],
    [None, None],
]


def exercise_workbook(folder):
    workbook = Workbook()
    sheet = workbook.active
    sheet.title = 'S'
    for row in INPUTS:
        sheet.append(row)
    for number, formula in enumerate(FORMULAS):
        sheet.cell(row=number + 1, column=4, value=formula)
    path = os.path.join(folder, 'book.xlsx')
    workbook.save(path)

    functions_digest = hashlib.sha256()
    template_instance = None
    for number, formula in enumerate(FORMULAS):
        target = os.path.join(folder, f'cls_{number}.py')
        try:
            translation = Parser().set_excel_file_path(path).set_entrypoint_cell(Cell(0, 3, number)).get_translation()
        except BaseException as error:  # noqa
            out('formula', formula, 'translation raised', type(error).__name__)
            continue
        cell_functions = re.findall(r'^    def (_\d+_\d+_\d+(?:_\d+)?)\(self\):\n        return (.*)$', translation,
                                    re.M)
        functions_digest.update(repr(cell_functions).encode())
        entry = dict(cell_functions).get(f'_0_3_{number}')
        with open(target, 'w', encoding='utf-8') as file:
            file.write(translation)
        executor = Executor().set_executed_class(class_file=target)
        template_instance = executor.get_executed_class()
        results = [call(lambda: executor.get_cell(Cell(0, 3, number)).value)]
        # the same formula with overridden inputs
        for a1, a2, a3, b1 in [(100, 0, 0, 'ok'), (0, 5, -1, '#NUM!'), (85, 85, 85, 0), ('text', None, 2, '#NULL!'),
                               (4.5, -0.5, 1e9, '#NAME?')]:
            executor.set_cells([Cell('S', 'A', '1', value=a1), Cell('S', 'A', '2', value=a2),
                                Cell('S', 'A', '3', value=a3), Cell('S', 'B', '1', value=b1)])
            results.append(call(lambda: executor.get_cell(Cell('S', 'D', str(number + 1))).value))
        out('formula', formula, entry, *results)
    out('cell functions digest', functions_digest.hexdigest())

    # whole-file translation of the accepted formulas, read through get_sheet
    workbook = Workbook()
    sheet = workbook.active
    sheet.title = 'S'
    for row in INPUTS:
        sheet.append(row)
    accepted = [formula for formula in FORMULAS if formula not in FORMULAS[-5:]]
    for number, formula in enumerate(accepted):
        sheet.cell(row=number + 1, column=4, value=formula)
    path = os.path.join(folder, 'book_all.xlsx')
    workbook.save(path)
    target = os.path.join(folder, 'cls_all.py')
    Parser().set_excel_file_path(path).write_translation(target)
    executor = Executor().set_executed_class(class_file=target)
    for number, formula in enumerate(accepted):
        out('whole file', formula, call(lambda: executor.get_cell(Cell(0, 3, number)).value))
    return executor.get_executed_class()


def main():
    folder = tempfile.mkdtemp(prefix='demo_r1_')
    sys.dont_write_bytecode = True
    try:
        exercise_helpers('class copy', Direct())
        template_instance = exercise_workbook(folder)
        exercise_helpers('template copy', template_instance)
    finally:
        shutil.rmtree(folder, ignore_errors=True)
    text = '\n'.join(LINES)
    print(text)
    print('TOTAL', len(LINES), hashlib.sha256(text.encode()).hexdigest())


if __name__ == '__main__':
    main()
