"""Equivalence demonstration for the criterion translation of the conditional aggregates (property C12).

Part 1 lexes many criteria, builds the criterion (lambda) token from them and translates it
directly, printing the returned code and everything the translation stored in the context.
Part 2 builds a workbook with SUMIF / SUMIFS / COUNTIFS / AVERAGEIFS formulas using every kind of
criterion (plain values, operator-prefixed literals in every numeric spelling, literals glued to
cells with &, wildcard patterns), translates every formula on its own, prints the generated code of
the formula and its value, and then runs the whole workbook through Parser / Executor, overriding
cells.  Everything printed is deterministic.
"""
import datetime
import hashlib
import os
import re
import shutil
import sys
import tempfile

from openpyxl import Workbook

from excel2pycl import Parser, Executor, Cell
from excel2pycl.src.context import Context
from excel2pycl.src.excel import Excel
from excel2pycl.src.translators import CellTranslator

LINES = []


def out(*parts):
    line = ' '.join(str(p) for p in parts)
    LINES.append(line)
    print(line)


def show(value):
    if isinstance(value, list):
        return '[' + ', '.join(show(i) for i in value) + ']'
    if isinstance(value, tuple):
        return '(' + ', '.join(show(i) for i in value) + ')'
    if isinstance(value, re.Match):
        return f'Match:{value.group()!r}'
    return f'{type(value).__name__}:{value!r}'


def attempt(function):
    try:
        return 'ok ' + show(function())
    except BaseException as error:  # noqa
        return f'raised {type(error).__name__}: {error}'


def digest(text):
    return hashlib.sha256(text.encode('utf-8')).hexdigest()[:16]


# ----------------------------------------------------------------------------------- part 1
def criterion_tokens(excel):
    from excel2pycl.src.lexer import Lexer
    from excel2pycl.src.tokens import LambdaToken
    from excel2pycl.src.translators.lambda_token_translator import LambdaTokenTranslator

    out('== criteria lexed, parsed into a criterion token and translated directly')
    for number, criterion in enumerate(CRITERIA, start=1):
        in_cell = Cell('S', 'N', str(number))
        excel.fill_cell(in_cell)
        context = Context()
        context._titles = excel.get_titles()
        context._sheets_size = excel.get_sheets_size()
        try:
            tokens = Lexer.parse('=' + criterion, in_cell=in_cell)[1:]
            token, rest = LambdaToken.get(tokens, in_cell)
        except BaseException as error:  # noqa
            out(f'{number:03d} {criterion} -> parsing raised {type(error).__name__}: {error}')
            continue
        if token is None:
            out(f'{number:03d} {criterion} -> no criterion token, rest={rest!r}')
            continue
        for attempt_number in (1, 2):
            try:
                code = LambdaTokenTranslator.translate(token, excel, context)
            except BaseException as error:  # noqa
                out(f'{number:03d} {criterion} -> translation raised {type(error).__name__}: {error}')
                break
            out(f'{number:03d} {criterion} -> literal={token.literal!r} has_expression={token.expression is not None} '
                f'rest={rest!r} code={code}')
        for name, codes in sorted(context._sub_cell_translations.items()):
            for index, sub_code in enumerate(codes):
                out(f'       {name}_{index}: {sub_code}')
        out('       cells:', sorted(context._cell_translations.items()))


# ----------------------------------------------------------------------------------- part 2
ROWS = [
    # A qty   B product      C person   D flag   E price  F date                            G code
    [5, 'Apples', 'Tom', True, 1.5, datetime.datetime(2024, 1, 1), 'a1'],
    [3, 'apples', 'Sarah', False, 2.25, datetime.datetime(2024, 1, 2), 'A2'],
    [15, 'Artichokes', 'tom', True, None, datetime.datetime(2024, 2, 1), 'b*'],
    [3, 'Artichokes', 'Sarah', None, 4, None, 'b?'],
    [22, 'Bananas', 'Tom', False, 0, datetime.datetime(2024, 3, 1), '~'],
    [12, 'Bananas', 'Sarah', True, -1, datetime.datetime(2023, 12, 31), ''],
    [10, 'Carrots', 'TOM', 1, 100, datetime.datetime(2024, 1, 1), 'x'],
    [None, 'Carrots', 'Sarah', 0, 3, datetime.datetime(2025, 1, 1), '5'],
    [0, None, None, None, 5, None, 5],
    [7.5, '*', 'T?m', 'yes', '6', 'text', '>5'],
]

CRITERIA = [
    '">5"', '">=5"', '"<5"', '"<=5"', '"<>5"', '"=5"', '"<>"', '"="', '">"', '">5.5"', '">0.5e1"', '">5e-1"', '">1e1"',
    '">-1"', '"> 5"', '">5 "', '">05"', '">5."', '">.5"', '">abc"', '"<>x"', '"<>Tom"', '"=Tom"', '"=3"', '"Tom"', '"tom"',
    '"TOM"', '"Apples"', '""', '" "', '5', '3', '0', '7.5', '1.5', '-1', 'TRUE', 'FALSE', '"TRUE"', '"5"', '"3"',
    'J1', 'J2', 'J3', 'J4', 'J5', 'J6', 'J7', '$J$1', 'Aux!A1', "'Aux 2'!A1", 'J1+1', 'J1*2-1', '">"&J1', '">="&J1',
    '"<"&J1', '"<="&J1', '"<>"&J1', '"="&J1', '"<>"&J2', '"="&J2', '">"&J1+1', '">"&Aux!A1', '"<>"&J6', '""&J2',
    '">5"&J1', '">"&5', '">"&"5"', '"a*"', '"A*"', '"*s"', '"*an*"', '"?om"', '"T?m"', '"???"', '"*"', '"?"', '"~*"',
    '"~?"', '"~~"', '"b~*"', '"b~?"', '"*~**"', '"T~?m"', '"a?"', '"?*"', '"**"', '"*a*e*"', '"[a]*"', '"a.*"', '".*"',
    '"~"', '"~a"', '"1/1/2024"', '"2024-01-01"', '">2024-01-01"', 'F1', 'F4', 'LEFT(C1;1)&"om"', 'SUM(J1;1)',
    'IF(J1>1;"Tom";"Sarah")', '"it\'s"', '">\'"',
    # every spelling of the number behind the operator
    '">5e1"', '">5E1"', '">5e+1"', '">1.5e3"', '">1.5e-3"', '">1.e5"', '">1e"', '">e5"', '">5.5.5"', '">00"', '">0"',
    '">0.0"', '"<0.50"', '">=10"', '"<=10.0"', '"<>5.5"', '"<>0"', '">\u0665"', '">5\u0665"', '">1\u00b2"', '">="', '"<="',
    '"<"', '"=>5"', '">>5"', '"<<5"', '"><5"', '"<>>"', '"=<5"', '"==5"', '">-5"', '">+5"', '">5%"', '">1 000"', '">1,5"',
    '"<>5"&J1', '">=5.5"&J1', '"<>"&"x"', '">"&J1&"0"', '5&J1', 'TRUE&J1', '"Tom"&J1', '"T"&"om"', '"a"&"*"', '"*"&J2',
    '"a*"&J1', 'J3&"*"', '">"&A1:A3', '"<>"&LEFT(J2;1)', '"=" & J1', '">" &J1', '"<5"&""', '1e1', '1.0', '0.5e1', '"1e1"',
]


def formula_list():
    formulas = []
    for criterion in CRITERIA:
        formulas.append(f'=SUMIF(A1:A10;{criterion})')
        formulas.append(f'=SUMIF(C1:C10;{criterion};A1:A10)')
        formulas.append(f'=SUMIFS(A1:A10;C1:C10;{criterion})')
        formulas.append(f'=COUNTIFS(B1:B10;{criterion})')
        formulas.append(f'=COUNTIFS(G1:G10;{criterion};A1:A10;">=0")')
        formulas.append(f'=AVERAGEIFS(E1:E8;A1:A8;{criterion})')
        formulas.append(f'=SUMIFS(E1:E10;A1:A10;">2";D1:D10;{criterion})')
    formulas += [
        # shapes and sizes
        '=SUMIF(A1:A10;">5";E1:E10)', '=SUMIF(A1:A10;">5";E1)', '=SUMIF(A1:A10;">5";E1:E3)', '=SUMIF(A1;">2";E5)',
        '=SUMIF(A1:B5;"Apples";D1:E5)', '=SUMIF(A1:E1;">1")', '=SUMIF(A1:E1;">1";A2:E2)', '=SUMIF(A:A;">5")',
        '=SUMIF(A:A;">5";E:E)', '=SUMIF(Aux!A1:A3;">1";Aux!B1:B3)', "=SUMIF('Aux 2'!A1:A3;\"<>x\";'Aux 2'!B1:B3)",
        '=SUMIF(C1:C10;"Tom";Aux!A1)', '=SUMIF(A1:A10;">5";Nope!A1)', '=SUMIF(Nope!A1:A3;">5")',
        '=SUMIFS(A1:A10;C1:C10;"Tom";B1:B10;"Bananas")', '=SUMIFS(A1:A10;C1:C10;"Tom";B1:B9;"Bananas")',
        '=SUMIFS(A1:A10;C1:C11;"Tom")', '=SUMIFS(A1:A9;C1:C10;"Tom")', '=SUMIFS(A1:A10;C1:C10;"Sarah";C1:C10;"Tom")',
        '=SUMIFS(A1:A10;A1:A10;">3";A1:A10;"<15")', '=SUMIFS(A1:B5;D1:E5;">0")', '=SUMIFS(A1:E1;A2:E2;"<>")',
        '=SUMIFS(A1:A10;B1:E10;"x")', '=SUMIFS(A:A;C:C;"Tom")', '=SUMIFS(A:A;C1:C10;"Tom")',
        '=SUMIFS(Aux!B1:B3;Aux!A1:A3;">1")', '=SUMIFS(A1:A3;Aux!A1:A3;">1")', '=SUMIFS(A1:A10;C1:C10)',
        '=SUMIFS(A1:A10)', '=SUMIFS(D1:D10;C1:C10;"Tom")', '=SUMIFS(A1:A10;D1:D10;TRUE)', '=SUMIFS(A1:A10;D1:D10;1)',
        '=SUMIFS(A1:A10;D1:D10;0)', '=SUMIFS(A1:A10;E1:E10;0)', '=SUMIFS(A1:A10;E1:E10;"")', '=SUMIFS(A1:A10;E1:E10;"=")',
        '=COUNTIFS(A1:A10;">5")', '=COUNTIFS(A1:A10;">5";C1:C10;"Tom")', '=COUNTIFS(A1:A10;">5";C1:C9;"Tom")',
        '=COUNTIFS(A1:A10;">5";C1:C10;"Tom";B1:B10;"B*")', '=COUNTIFS(A1:B5;"Apples")', '=COUNTIFS(A:A;">5")',
        '=COUNTIFS(A:A;">5";C:C;"Tom")', '=COUNTIFS(A1:A10;">5";C:C;"Tom")', '=COUNTIFS(D1:D10;TRUE)',
        '=COUNTIFS(D1:D10;"<>")', '=COUNTIFS(E1:E10;0)', '=COUNTIFS(E1:E10;"")', '=COUNTIFS(F1:F10;">2024-01-01")',
        '=COUNTIFS(F1:F10;F1)', '=COUNTIFS(A1:A10;">5";A1:A10;"<20";A1:A10;"<>12")', '=COUNTIFS(A1:A10)',
        '=COUNTIFS(A1:A10;">5";C1:C10)', '=COUNTIFS(Aux!A1:A3;">1";Aux!B1:B3;">10")',
        '=AVERAGEIFS(A1:A8;C1:C8;"Tom")', '=AVERAGEIFS(A1:A7;C1:C7;"Tom";B1:B7;"Bananas")', '=AVERAGEIFS(A1:A7;C1:C8;"Tom")',
        '=AVERAGEIFS(A1:A7;C1:C7;"Nobody")', '=AVERAGEIFS(B1:B7;C1:C7;"Tom")', '=AVERAGEIFS(E1:E8;C1:C8;"Sarah")',
        '=AVERAGEIFS(E1:E8;C1:C8;"tom")', '=AVERAGEIFS(D1:D3;A1:A3;">1")', '=AVERAGEIFS(A1:A10;C1:C10;"Tom")',
        '=AVERAGEIFS(A1:B4;D1:E4;">0")', '=AVERAGEIFS(A:A;C:C;"Tom")', '=AVERAGEIFS(Aux!B1:B3;Aux!A1:A3;">1")',
        '=AVERAGEIFS(A1:A7;D1:D7;TRUE)', '=AVERAGEIFS(A1:A7;D1:D7;0)', '=AVERAGEIFS(A1:A7;A1:A7;">3";A1:A7;"<15")',
        '=AVERAGEIFS(A1:A7)', '=AVERAGEIFS(A1:A7;C1:C7)',
        # nesting
        '=SUMIF(A1:A10;">5")+COUNTIFS(A1:A10;">5")', '=IF(COUNTIFS(C1:C10;"Tom")>2;SUMIFS(A1:A10;C1:C10;"Tom");0)',
        '=ROUND(AVERAGEIFS(E1:E8;C1:C8;"Sarah");1)', '=SUMIF(A1:A10;">"&COUNTIFS(C1:C10;"Tom"))',
        '=SUMIFS(A1:A10;C1:C10;IF(J1>1;"Tom";"Sarah"))',
    ]
    return formulas


def build_workbook(path, formulas):
    workbook = Workbook()
    sheet = workbook.active
    sheet.title = 'S'
    for row_number, row in enumerate(ROWS, start=1):
        for column_number, value in enumerate(row, start=1):
            if value is not None:
                sheet.cell(row=row_number, column=column_number, value=value)
    for row_number, value in enumerate([5, 'Tom', 'a*', 0, None, '', True], start=1):
        if value is not None:
            sheet.cell(row=row_number, column=10, value=value)
    for number, formula in enumerate(formulas, start=1):
        sheet.cell(row=number, column=12, value=formula)
    aux = workbook.create_sheet('Aux')
    for row_number, (left, right) in enumerate([(1, 10), (2, 20), (3, 30)], start=1):
        aux.cell(row=row_number, column=1, value=left)
        aux.cell(row=row_number, column=2, value=right)
    aux2 = workbook.create_sheet('Aux 2')
    for row_number, (left, right) in enumerate([('x', 1), ('y', 2), ('X', 4)], start=1):
        aux2.cell(row=row_number, column=1, value=left)
        aux2.cell(row=row_number, column=2, value=right)
    workbook.save(path)
    workbook.close()


FUNCTIONS_START = re.compile(r'\n    def _\d+_\d+_\d+')


def generated_functions(class_text):
    return class_text[FUNCTIONS_START.search(class_text).start():]


def evaluate(class_text, uid):
    namespace = {}
    exec(compile(class_text, '<translation>', 'exec'), namespace)
    return namespace['ExcelInPython']().exec_function_in(uid)


def formulas_one_by_one(excel, formulas):
    out('== every formula translated and evaluated on its own')
    translatable = []
    for number, formula in enumerate(formulas, start=1):
        context = Context()
        context._titles = excel.get_titles()
        context._sheets_size = excel.get_sheets_size()
        cell = Cell('S', 'L', str(number))
        try:
            CellTranslator.translate(cell, excel, context)
            class_text = context.build_class()
        except BaseException as error:  # noqa
            out(f'{number:04d} {formula} -> translation raised {type(error).__name__}: {error}')
            continue
        translatable.append(formula)
        functions = generated_functions(class_text)
        own = [line.strip() for line in functions.split('\n') if line.startswith('        return')
               and ('lambda' in line or '_sum_if' in line or 'ifs(' in line)]
        out(f'{number:04d} {formula} -> functions={digest(functions)} {attempt(lambda: evaluate(class_text, cell.uid))}')
        for line in own:
            out('      ', line)
    return translatable


def facade_run(directory, formulas):
    out('== Parser / Executor on a workbook holding the', len(formulas), 'formulas that translate')
    path = os.path.join(directory, 'valid.xlsx')
    build_workbook(path, formulas)
    translation_path = os.path.join(directory, 'valid_translation.py')
    try:
        parser = Parser().set_excel_file_path(path).disable_safety_check()
        text = parser.get_translation()
        parser.write_translation(translation_path)
    except BaseException as error:  # noqa
        out(f'whole-file translation raised {type(error).__name__}: {error}')
        return
    out('generated functions digest', digest(generated_functions(text)))
    executor = Executor().set_executed_class(class_file=translation_path)
    for number, formula in enumerate(formulas, start=1):
        out(f'{number:04d} {formula} ->', attempt(lambda: executor.get_cell(Cell('S', 'L', str(number))).value))
    out('-- after set_cells')
    executor.set_cells([Cell('S', 'A', '1', value=50), Cell('S', 'A', '8', value=4), Cell('S', 'C', '3', value='Sarah'),
                        Cell('S', 'J', '1', value=10), Cell('S', 'J', '2', value='sarah'), Cell('S', 'J', '3', value='*s'),
                        Cell('S', 'B', '9', value='apples'), Cell('S', 'E', '3', value=2), Cell('Aux', 'A', '1', value=7),
                        Cell('S', 'D', '4', value=True), Cell('S', 'G', '6', value='a3')])
    for number, formula in enumerate(formulas, start=1):
        out(f'{number:04d} {formula} ->', attempt(lambda: executor.get_cell(Cell('S', 'L', str(number))).value))


def main():
    directory = tempfile.mkdtemp(prefix='c12_demo_')
    try:
        path = os.path.join(directory, 'criteria.xlsx')
        formulas = formula_list()
        build_workbook(path, formulas)
        criterion_tokens(Excel.parse(path))
        translatable = formulas_one_by_one(Excel.parse(path), formulas)
        facade_run(directory, translatable)
    finally:
        shutil.rmtree(directory, ignore_errors=True)
    out('DIGEST', digest('\n'.join(LINES)), 'lines', len(LINES))
    return 0


if __name__ == '__main__':
    sys.exit(main())
