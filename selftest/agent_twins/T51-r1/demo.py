"""Equivalence demo for r1 (C01: formula operators).

Translates many operator formulas (a) one by one through Lexer -> AstBuilder ->
EntryPointTokenTranslator with a fresh Context and (b) as a whole workbook through the
Parser facade, then evaluates every formula cell with the Executor under several sets of
overrides.  Prints generated code, values (with their types) and exception class names.
"""
import hashlib
import itertools
import os
import shutil
import sys
import tempfile

from openpyxl import Workbook

from excel2pycl import Parser, Executor, Cell
from excel2pycl.src.ast_builder import AstBuilder
from excel2pycl.src.context import Context
from excel2pycl.src.excel import Excel
from excel2pycl.src.lexer import Lexer
from excel2pycl.src.tokens import NotEqOperatorToken, EqOperatorToken, GtOperatorToken, GtOrEqualOperatorToken, \
    LtOperatorToken, LtOrEqualOperatorToken, PlusOperatorToken, MinusOperatorToken, MultiplicationOperatorToken, \
    DivOperatorToken, AmpersandToken, PercentToken
from excel2pycl.src.translators.entry_point_token_translator import EntryPointTokenTranslator
from excel2pycl.src.translators.operator_sub_token_translator import OperatorSubTokenTranslator

DATA = [
    # A        B       (row)
    [3,        0.1],        # 1
    [4.5,      0.2],        # 2
    [-2,       12345.678],  # 3
    [None,     None],       # 4  blank cells
    ['abc',    'ABC'],      # 5
    [True,     False],      # 6
    ['10',     '2.5'],      # 7
    [0,        7],          # 8
    ['=A1+B1', '=A2*2'],    # 9  formulas used as operands
]

ATOMS = ['A1', 'A2', 'A3', 'A4', 'A5', 'A6', 'A7', 'A8', 'A9', 'B1', 'B2', 'B3', 'B4', 'B9', 'Other!A1',
         '2', '0.1', '1.5e3', '1e-2', '"x"', '""', 'TRUE', 'FALSE', '50%', 'A1%', 'B2%']
BINARY = ['+', '-', '*', '/', '&', '=', '<>', '<', '<=', '>', '>=']

HAND_WRITTEN = [
    '=1+2*3', '=(1+2)*3', '=2*3+1', '=2*(3+1)', '=10-4-3', '=10-(4-3)', '=100/10/5', '=100/(10/5)',
    '=2*3/4*5', '=-A1', '=+A1', '=-A1+B1', '=-(A1+B1)', '=-A1*B1', '=--A1', '=-+A1', '=+-A3', '=-A1%', '=-50%',
    '=A1+-B1', '=A1*-B1', '=A1--B1', '=A1-+B1', '=A1/-B2',
    '=50%', '=50%%', '=A1%%', '=50%+1', '=1+50%', '=50%*A1', '=A1*50%', '=A1*50%+1', '=50%+50%', '=50%&"x"',
    '=(A1+B1)%', '=(A1)%', '=A1%=B1%', '=10%<20%', '=200%/50%', '=A2%-B2%', '=1+2%*3', '=5%%+A4',
    '=0.1+0.2', '=0.1+0.2=0.3', '=B1+B2', '=B1+B2=0.3', '=0.1*3', '=1.1*1.1', '=1e3+1', '=1.5e3*2', '=1e-2/3',
    '=123456789012345678', '=0.30000000000000004', '=007', '=1.50', '=3.0', '=1e2', '=12e-1',
    '=A1&B1', '=A1&"-"&B1', '=A1+B1&A2', '=A1&B1+A2', '=A1&B1*A2', '="a"&"b"&"c"', '=A4&"x"', '="x"&A4', '=A4&A4',
    '=A6&B6', '=A1&A2=B1&B2', '="a"&1+2', '=1+2&"a"', '=1&2&3', '=A1&B1=A1&B1', '=(A1&B1)=(A1&B1)', '=A5&A7',
    '=A1=B1', '=A1<>B1', '=A1<B1', '=A1<=B1', '=A1>B1', '=A1>=B1', '=A1+1>B1*2', '=A1+1=4', '=1+1=2', '=2=1+1',
    '=A1>B1=TRUE', '=(A1>B1)=TRUE', '=A5=B5', '=A5<>B5', '=A5<B5', '=A7>A1', '=A7=10', '=A7*1=10', '=A4=0',
    '=A4=""', '=A4<1', '=A4>-1', '=A4<=A4', '=A4=B4', '=A6=TRUE', '=A6=1', '=A6>B6', '=TRUE>FALSE', '=TRUE=1',
    '="a"<"b"', '="B">"a"', '="10"<"9"', '="10"<9', '=10<"9"', '=A1<"x"', '="x">A1', '=A8=B4', '=A8=FALSE',
    '=A4+1', '=1+A4', '=A4*5', '=A4-A4', '=A4/1', '=1/A4', '=A1/A8', '=A4%', '=-A4', '=A4+B4', '=A4*B4+1',
    '=A5+1', '=A5*2', '=A7+1', '=A7*2', '=A7&A7', '=A6+1', '=A6*A6', '=A6+B6', '=-A6', '=A6%', '=A5%', '=-A5',
    '=A9', '=A9*2', '=A9+B9', '=A9>B9', '=A9&B9', '=A9%', '=-A9', '=(A9)', '=((A9))', '=((A1+B1))*2',
    '=(A1+B1)*(A2-B2)', '=(A1+B1)/(A2-B2)-1', '=((A1))', '=(A1)+(B1)', '=(A1)', '=(-A1)', '=-(-A1)', '=(50%)',
    '=(A1=B1)', '=(A1=B1)&"!"', '=(A1<B1)+1', '=(A1>B1)*(A2>B2)', '=1+(2+(3+(4+5)))', '=((((1+2)+3)+4)+5)',
    '=Other!A1+A1', '="Other"&Other!A2', '=Other!A1*Other!B1%', '=\'Other\'!A1-1', '=Other!A3=A4', '=Other!Z9+1',
    '=A1 + B1', '= A1+B1', '=A1 +  -B1', '=A1 % ', '=( A1 + B1 ) * 2', '=A1\n+B1',
    '=SUM(A1:A3)+1', '=SUM(A1:A3)%', '=-SUM(A1:A3)', '=SUM(A1:A3)&"x"', '=SUM(A1:A3)>MAX(B1:B2)', '=1+SUM(A1,B1)*2',
    '=IF(A1>B1,A1%,-B1)', '=IF(A1&B1="30.1",1,2)', '=ROUND(A2*B2%,2)', '=MIN(A1:A3)-MAX(A1:A3)',
    # rejected or odd inputs
    '=', '=+', '=A1+', '=*A1', '=A1**B1', '=(A1', '=A1)', '=()', '=A1 B1', '=%', '=%A1', '=A1&', '=&A1', '=A1==B1',
    '=A1=<B1', '=A1=>B1', '=A1><B1', '=A1<<B1', '=1 2', '=1.', '=.5', '=1e', '=1,5', '=A1+#REF!', '=A1!', '=!A1',
    '=Nope!A1+1', '=A1:A3+1', '=A1:B2*2', '=A1:A3&"x"', '=A1:A3=1', '=A9+A10', '=D1', '=AA100*2',
]

OVERRIDE_SETS = [
    [],
    [('A', '1', 10), ('B', '1', 0.25)],
    [('A', '1', None), ('B', '1', '')],
    [('A', '1', 'text'), ('B', '1', 'TEXT')],
    [('A', '1', True), ('B', '1', 1)],
    [('A', '1', '5'), ('B', '1', 5)],
    [('A', '1', 1e308), ('B', '1', 1e308)],
    [('A', '1', -0.0), ('B', '1', 0)],
    [('A', '4', 2), ('B', '4', 'z'), ('A', '8', 1)],
    [('A', '9', 100), ('B', '9', -100)],
    [('A', '2', float('inf')), ('B', '2', float('nan'))],
    [('A', '1', [1, 2]), ('B', '1', [[1]])],
]


def show(value):
    return f'{type(value).__name__}:{value!r}'


def build_formulas():
    formulas = list(HAND_WRITTEN)
    for left, operator, right in itertools.product(ATOMS, BINARY, ATOMS):
        # a deterministic, thinned-out sample of the full product
        key = hashlib.sha256(f'{left}{operator}{right}'.encode()).digest()[0]
        if key < 12:
            formulas.append(f'={left}{operator}{right}')
    for first, second in itertools.product(BINARY, BINARY):
        formulas.append(f'=A1{first}B1{second}A2')
        formulas.append(f'=(A1{first}B1){second}A2')
        formulas.append(f'=A1{first}(B1{second}A2)')
        formulas.append(f'=-A2{first}B2%{second}A3')
    for first, second, third in itertools.product(['+', '*', '&', '<', '='], repeat=3):
        formulas.append(f'=A1{first}2{second}B2{third}A3%')
    seen = set()
    return [f for f in formulas if not (f in seen or seen.add(f))]


def save_workbook(path, formulas):
    wb = Workbook()
    ws = wb.active
    ws.title = 'Main'
    for row in DATA:
        ws.append(row)
    for index, formula in enumerate(formulas):
        ws.cell(row=index + 1, column=4, value=formula)
    other = wb.create_sheet('Other')
    other.append([100, 25])
    other.append(['tail', None])
    other.append([None, 'x'])
    wb.save(path)


def main():
    digest = hashlib.sha256()

    def out(line):
        digest.update(line.encode('utf-8', 'backslashreplace') + b'\n')
        print(line.encode('ascii', 'backslashreplace').decode())

    tmp = tempfile.mkdtemp(prefix='t51_r1_')
    try:
        # 0. the operator table
        for token_class, text in [(NotEqOperatorToken, '<>'), (EqOperatorToken, '='), (GtOperatorToken, '>'),
                                  (GtOrEqualOperatorToken, '>='), (LtOperatorToken, '<'), (LtOrEqualOperatorToken, '<='),
                                  (PlusOperatorToken, '+'), (MinusOperatorToken, '-'), (MultiplicationOperatorToken, '*'),
                                  (DivOperatorToken, '/'), (AmpersandToken, '&'), (PercentToken, '%')]:
            token, rest = token_class.get(text + 'tail', Cell(0, 0, 0))
            out(f'OP {token_class.__name__} {OperatorSubTokenTranslator.translate(token, None, None)!r} rest={rest!r}')
        for bad_value in [(), '', None]:
            token = PlusOperatorToken(bad_value, Cell(0, 0, 0))
            try:
                out(f'OP bad {bad_value!r} {OperatorSubTokenTranslator.translate(token, None, None)!r}')
            except Exception as e:
                out(f'OP bad {bad_value!r} raises {type(e).__name__}')

        # 1. one by one, fresh context each
        formulas = build_formulas()
        data_path = os.path.join(tmp, 'data.xlsx')
        save_workbook(data_path, [])
        excel = Excel.parse(data_path)
        accepted = []
        for formula in formulas:
            in_cell = Cell(0, 3, 0)
            context = Context()
            try:
                tokens = Lexer.parse(formula, in_cell=in_cell)
                ast = AstBuilder.parse(tokens, in_cell=in_cell)
                code = EntryPointTokenTranslator.translate(ast, excel, context)
                built = context.build_class()
                functions = built[built.rindex("return '#VALUE!'"):]
                out(f'ONE {formula!r} -> {code} | ctx {hashlib.sha256(functions.encode()).hexdigest()[:12]}')
                accepted.append(formula)
            except Exception as e:
                out(f'ONE {formula!r} raises {type(e).__name__}: {str(e)[:80]}')
        out(f'accepted {len(accepted)} of {len(formulas)}')

        # 2. the whole workbook through the facades
        book_path = os.path.join(tmp, 'book.xlsx')
        class_path = os.path.join(tmp, 'book_class.py')
        save_workbook(book_path, accepted)
        parser = Parser().set_excel_file_path(book_path).disable_safety_check()
        text = parser.get_translation()
        functions = text[text.rindex("return '#VALUE!'"):]
        out(f'CLASS sha256 {hashlib.sha256(text.encode()).hexdigest()} lines {text.count(chr(10))}')
        generated = [line for line in functions.splitlines() if line.strip()]
        out(f'GEN lines {len(generated)} sha256 {hashlib.sha256(chr(10).join(generated).encode()).hexdigest()}')
        for line in generated[:120]:
            out('GEN ' + line)
        parser.write_translation(class_path)

        for set_number, overrides in enumerate(OVERRIDE_SETS):
            executor = Executor().set_executed_class(class_file=class_path)
            if overrides:
                executor.set_cells([Cell('Main', column, row, value=value) for column, row, value in overrides])
            for index, formula in enumerate(accepted):
                try:
                    value = executor.get_cell(Cell('Main', 'D', str(index + 1))).value
                    out(f'VAL set{set_number} {formula!r} = {show(value)}')
                except RecursionError:
                    out(f'VAL set{set_number} {formula!r} raises RecursionError')
                except Exception as e:
                    out(f'VAL set{set_number} {formula!r} raises {type(e).__name__}: {str(e)[:60]}')

        # 3. a single entry point and a rejected workbook
        for entry in ['D1', 'D5', 'D30']:
            column, row = entry[0], entry[1:]
            single = Parser().set_excel_file_path(book_path).disable_safety_check() \
                .set_entrypoint_cell(Cell('Main', column, row)).get_translation()
            out(f'ENTRY {entry} sha256 {hashlib.sha256(single.encode()).hexdigest()}')
        for bad in ['=A1+', '=A1**B1', '=D2', '=Nope!A1+1']:
            bad_path = os.path.join(tmp, 'bad.xlsx')
            save_workbook(bad_path, ['=A1+B1', bad])
            try:
                Parser().set_excel_file_path(bad_path).get_translation()
                out(f'BAD {bad!r} accepted')
            except RecursionError:
                out(f'BAD {bad!r} raises RecursionError')
            except Exception as e:
                out(f'BAD {bad!r} raises {type(e).__name__}: {str(e)[:80]}')
    finally:
        shutil.rmtree(tmp, ignore_errors=True)

    print('DIGEST', digest.hexdigest())
    return 0


if __name__ == '__main__':
    sys.exit(main())
