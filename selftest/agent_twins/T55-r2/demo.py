"""Equivalence demo for r2 (C19): the safety gate (Excel._get_suspicious_constructions, Excel.parse,
Parser._translate).  Builds workbooks in a temp dir, prints a deterministic digest, removes the temp dir.
"""
import datetime
import hashlib
import os
import shutil
import tempfile

from openpyxl import Workbook
from openpyxl.worksheet.formula import ArrayFormula

from excel2pycl import Parser, Executor, Cell, E2PyclSafetyException
from excel2pycl.src.excel import Excel

VALUES = [
    'eval("1")', 'os.system("rm")', '__import__("os").system("x")', 'print(1)', 'f()', 'f(', 'f)', '()', 'f ()',
    'f( )', 'SUM(A1)', '=SUM(A1:A3)', '=sum(A1)', '=Sum(A1)', '=sUM(A1)', '=SUm(A1)', 'Sum(1)', 'sUM(1)', 'S1(1)',
    '1S(1)', '_S(1)', 'S_(1)', 'A_B(1)', 'AB(1)', 'aAB(1)', 'ABa(1)', 'a.AB(1)', 'AB.a(1)', 'AB()', 'ab()',
    '=IF(A1>1,eval("x"),2)', '=IF(A1>1,2,3)+eval("x")', 'eval("x")+SUM(A1)', 'SUM(eval(1))', 'eval(SUM(1))',
    'eval(SUM(1)) + exec(2)', 'a(1) b(2) c(3)', 'a(1)b(2)C(3)', 'a(b(c()))', 'A(b(C()))', 'a(B(c()))',
    'x(\n)', 'x(1\n2)', 'x(1)\ny(2)', 'X(1)\ny(2)', 'text without calls', 'a (1)', 'a\t(1)', '1(2)', '12(3)',
    '_(1)', '__(x)', 'é(1)', 'aé(1)', 'éa(1)', 'Ж(1)', 'ЖA(1)', 'aЖA(1)', 'A1', '=A1+B1', '=A1', '(1+2)',
    '=(A1+B1)*2', 'f(a)(b)', 'F(a)(b)', 'f(a))', 'f((a)', 'f((a))', 'F((a))', 'F((a)+g(b))', 'lambda x: x(1)',
    'TRUE()', 'true()', 'False()', 'FALSE()', '=TODAY()', '=today()', 'x' * 50 + '(1)', 'X' * 50 + '(1)',
    'a(' + 'b' * 200 + ')', '=VLOOKUP(A1,A1:C3,2,FALSE)', '=vlookup(A1,A1:C3,2,false)', 'os.path.join("a","b")',
    'OS.PATH.JOIN("a")', 'os.PATH("a")', 'a.B("x")', 'A.b("x")', 'a1B2(3)', 'A1b2(3)', 'A1B2(3)', '0(0)',
    ' f(1) ', 'f(1);g(2);H(3)', "f('x')", 'f("x(1)")', 'F("x(1)")', 'F("x(1)") g()', '=SUM(A1)&"f(1)"',
    '="f(1)"', '="F(1)"', 'ROUND(1.5)', 'Round(1.5)', 'round(1.5)', 'rounD(1.5)', 'rounD()', 'D()', 'd()',
    'aD()', 'Da()', '9D()', 'D9()', '_D()', 'D_()',
    0, 1, -1, 1.5, 0.0, True, False, None, '', ' ', '0', datetime.datetime(2020, 1, 2), datetime.date(2020, 1, 2),
    datetime.time(1, 2, 3), 12345678901234567890, 1e100,
]


def exc_line(e):
    if isinstance(e, E2PyclSafetyException):
        return 'SAFETY %r | cells %r' % (str(e), e.suspicious_cells)
    return 'EXC %s %r' % (type(e).__name__, tuple(str(a) for a in e.args))


def direct_lines():
    lines = []
    for v in VALUES:
        try:
            lines.append('DIRECT %r -> %r' % (v, Excel._get_suspicious_constructions(v)))
        except Exception as e:
            lines.append('DIRECT %r -> %s' % (v, exc_line(e)))
    for af in [ArrayFormula('A1:A2', '=SUM(B1:B2)'), ArrayFormula('A1:A2', '=eval(1)'), ArrayFormula('A1', None)]:
        r = Excel._get_suspicious_constructions(af)
        # str(ArrayFormula) is the default object repr (with an address): only its shape is printed
        lines.append('DIRECT ArrayFormula(%r) -> %d fragments, all str %s' % (af.text, len(r),
                                                                             all(isinstance(i, str) for i in r)))
    return lines


def save(path, sheets):
    """sheets: list of (title, {(row, col): value})"""
    wb = Workbook()
    wb.remove(wb.active)
    for title, cells in sheets:
        ws = wb.create_sheet(title)
        for (r, c), v in cells.items():
            ws.cell(row=r, column=c, value=v)
    wb.save(path)
    wb.close()


def gate_lines(tmp, name, sheets, entrypoints=()):
    lines = []
    xlsx = os.path.join(tmp, name + '.xlsx')
    save(xlsx, sheets)
    try:
        excel = Excel.parse(xlsx)
        lines.append('%s PARSE suspicious %r' % (name, excel._suspicious_cells))
        lines.append('%s PARSE titles %r sizes %r' % (name, excel.get_titles(), excel.get_sheets_size()))
        lines.append('%s PARSE data sha %s' % (name, hashlib.sha256(repr(excel._data).encode()).hexdigest()))
        try:
            lines.append('%s is_safe -> %r' % (name, excel.is_safe()))
        except Exception as e:
            lines.append('%s is_safe -> %s' % (name, exc_line(e)))
    except Exception as e:
        lines.append('%s PARSE %s' % (name, exc_line(e)))

    def translate(label, parser):
        try:
            text = parser.get_translation()
            lines.append('%s %s -> translated sha %s' % (name, label, hashlib.sha256(text.encode()).hexdigest()))
        except Exception as e:
            lines.append('%s %s -> %s' % (name, label, exc_line(e)))

    translate('default', Parser().set_excel_file_path(xlsx))
    translate('enabled', Parser().set_excel_file_path(xlsx).enable_safety_check())
    translate('disabled', Parser().set_excel_file_path(xlsx).disable_safety_check())
    translate('enabled-then-disabled', Parser().set_excel_file_path(xlsx).enable_safety_check().disable_safety_check())
    translate('disabled-then-enabled', Parser().set_excel_file_path(xlsx).disable_safety_check().enable_safety_check())
    for ep in entrypoints:
        translate('entrypoint %r enabled' % (ep,), Parser().set_excel_file_path(xlsx).set_entrypoint_cell(Cell(*ep)))
        translate('entrypoint %r disabled' % (ep,),
                  Parser().set_excel_file_path(xlsx).set_entrypoint_cell(Cell(*ep)).disable_safety_check())

    # history: one Parser object, the switch toggled between calls (re-translation flags)
    parser = Parser().set_excel_file_path(xlsx)
    for step, action in enumerate(['get', 'get', 'disable', 'get', 'get', 'enable', 'get', 'disable', 'enable', 'get',
                                   'path', 'get', 'disable', 'path', 'get']):
        if action == 'disable':
            parser.disable_safety_check()
        elif action == 'enable':
            parser.enable_safety_check()
        elif action == 'path':
            parser.set_excel_file_path(xlsx)
        else:
            translate('history step %d' % step, parser)
    return lines


def main():
    lines = direct_lines()
    tmp = tempfile.mkdtemp(prefix='t55r2_')
    try:
        # every VALUE in its own cell, on a sheet with an awkward title; formulas kept off (text only when unsafe)
        texts = {(i + 1, 1 + (i % 4)): v for i, v in enumerate(VALUES) if v is not None}
        lines += gate_lines(tmp, 'all_values', [("Data sheet", texts)])

        clean = {(1, 1): 1, (2, 1): 2, (3, 1): 3, (1, 2): '=SUM(A1:A3)', (2, 2): '=IF(A1>1,"y","n")',
                 (3, 2): 'plain text', (4, 2): '=ROUND(A1/3,2)', (5, 5): '=MAX(A1:A3)+MIN(A1:A3)', (6, 1): None,
                 (7, 1): '', (8, 1): 0, (9, 1): False, (10, 1): '(not a call)', (11, 1): 'f (1)'}
        lines += gate_lines(tmp, 'clean', [('Sheet1', clean)], entrypoints=[(0, 1, 0), ('Sheet1', 'B', '2')])

        one_bad = dict(clean)
        one_bad[(12, 3)] = 'eval("2+2")'
        lines += gate_lines(tmp, 'one_bad', [('Sheet1', one_bad)], entrypoints=[(0, 1, 0)])

        multi = [('First', dict(clean)),
                 ("It's", {(1, 1): 'os.system("x")', (2, 27): 'a(1) B(2) c(3)', (3, 1): '=SUM(A1)'}),
                 ('Лист 3', {(5, 2): 'print(1)', (5, 3): 'PRINT(1)', (100, 1): 'exec("x")', (1, 703): 'z()'}),
                 ('empty', {}),
                 ("q'uo\"te!", {(1, 1): 'x(1)\ny(2)', (2, 2): '=A1', (3, 3): 'SUM(x(1))', (4, 4): 'q(SUM(1))'}),
                 ('Last', {(1, 1): '=SUM(A1:A3)', (2, 1): '=sum(A1:A3)', (3, 1): '=Sum(A1)+eval(1)'})]
        lines += gate_lines(tmp, 'multi', multi, entrypoints=[('First', 'B', '1'), (5, 0, 0)])

        lines += gate_lines(tmp, 'only_upper', [('S', {(1, 1): '=SUM(A2:A3)', (2, 1): 1, (3, 1): 2,
                                                       (4, 1): 'SUM(1) MAX(2)', (5, 1): 'A(B(C()))'})])
        lines += gate_lines(tmp, 'no_cells', [('S', {})])
        lines += gate_lines(tmp, 'ragged', [('S', {(1, 5): 'f(1)', (2, 1): 'g(2)', (3, 3): 'H(3)', (5, 2): 'i(4)'})])

        # end to end on the clean workbook: values are unaffected by the gate
        xlsx = os.path.join(tmp, 'clean.xlsx')
        for label, parser in [('enabled', Parser()), ('disabled', Parser().disable_safety_check())]:
            out_py = os.path.join(tmp, 'clean_%s.py' % label)
            parser.set_excel_file_path(xlsx).write_translation(out_py)
            executor = Executor().set_executed_class(class_file=out_py)
            for col, row in [(1, 0), (1, 1), (1, 3), (4, 4), (0, 5), (0, 9)]:
                lines.append('EXEC %s (%d,%d) -> %r' % (label, col, row, executor.get_cell(Cell(0, col, row)).value))
    finally:
        shutil.rmtree(tmp, ignore_errors=True)

    for line in lines:
        print(line)
    print('LINES', len(lines))
    print('DIGEST', hashlib.sha256('\n'.join(lines).encode()).hexdigest())


if __name__ == '__main__':
    main()
