"""Equivalence demo for r4: the NETWORKDAYS runtime helper (_network_days) in both copies of the runtime class."""
import datetime
import hashlib
import importlib.util
import itertools
import os
import shutil
import sys
import tempfile

from openpyxl import Workbook

from excel2pycl import Parser, Executor, Cell
from excel2pycl.src.utilities.abstract_excel_in_python_class import AbstractExcelInPython

HASH = hashlib.sha256()
DT = datetime.datetime


def out(*parts, echo=True):
    line = ' '.join(str(p) for p in parts)
    HASH.update((line + '\n').encode('utf-8'))
    if echo:
        print(line)


def show(value):
    return f'{type(value).__name__}:{value!r}'


def result_of(fn):
    try:
        return show(fn())
    except BaseException as exc:  # noqa
        return 'EXC ' + type(exc).__name__


class Direct(AbstractExcelInPython):
    pass


class Stamp(datetime.datetime):
    """A datetime subclass, as produced by some date libraries."""


def build_workbook(path):
    wb = Workbook()
    ws = wb.active
    ws.title = 'Days'
    rows = [
        [DT(2023, 4, 1), DT(2023, 5, 31), '=NETWORKDAYS(A1,B1)'],
        [DT(2023, 5, 31), DT(2023, 4, 1), '=NETWORKDAYS(A2,B2)'],
        [DT(2023, 5, 1), DT(2023, 5, 8), '=NETWORKDAYS(A1,B1,A3:B4)'],
        [40, 'text', '=NETWORKDAYS(B1,A1,A3:B4)'],
        [None, None, '=NETWORKDAYS(A5,B5)'],
        [DT(2023, 5, 9, 13, 30), DT(2023, 4, 29), '=NETWORKDAYS(A1,B1,A3:B6)'],
        [DT(2024, 2, 26), DT(2024, 3, 3, 23, 59), '=NETWORKDAYS(A7,B7,A1:B7)'],
        [None, None, '=NETWORKDAYS(DATE(2024,1,1),DATE(2024,12,31),A1:B7)'],
        [None, None, '=NETWORKDAYS(A1,A1)+NETWORKDAYS(A3,A3,A3:A3)*100'],
        [None, None, '=NETWORKDAYS(A7,EDATE(A7,1),D1:E3)'],
    ]
    for row in rows:
        ws.append(row)
    wb.save(path)
    wb.close()


def load(path):
    spec = importlib.util.spec_from_file_location('generated_r4', path)
    module = importlib.util.module_from_spec(spec)
    spec.loader.exec_module(module)
    return module


def reference(first, last, holidays):
    """The property as stated: Monday-Friday dates of the inclusive interval minus the holidays, negated if reversed."""
    sign = 1
    first, last = first.date(), last.date()
    if first > last:
        first, last, sign = last, first, -1
    days = {d.date() for row in holidays or [] if row is not None for d in row if isinstance(d, datetime.datetime)}
    count = 0
    for offset in range((last - first).days + 1):
        day = first + datetime.timedelta(days=offset)
        if day.isoweekday() <= 5 and day not in days:
            count += 1
    return sign * count


def at_depth(depth, fn):
    if depth <= 0:
        return fn()
    return at_depth(depth - 1, fn)


def main():
    tmp = tempfile.mkdtemp(prefix='r4demo')
    try:
        xlsx = os.path.join(tmp, 'days.xlsx')
        out_py = os.path.join(tmp, 'days.py')
        build_workbook(xlsx)
        text = Parser().set_excel_file_path(xlsx).get_translation()
        with open(out_py, 'w', encoding='utf-8') as f:
            f.write(text)
        out('calls in the translation', sorted({line.strip() for line in text.splitlines()
                                                if 'self._network_days(' in line and 'def ' not in line}))
        module = load(out_py)
        copies = [('template', module.ExcelInPython()), ('class', Direct())]
        empty = AbstractExcelInPython.EmptyCell()

        anchors = [DT(2023, 12, 25), DT(2024, 2, 26), DT(2024, 2, 29, 18, 45), DT(2024, 3, 2), DT(2024, 3, 3, 23, 59, 59),
                   DT(2021, 1, 1), DT(1999, 12, 31, 12), DT(2000, 1, 1), Stamp(2024, 3, 4, 7)]
        offsets = [-400, -366, -35, -8, -7, -6, -5, -4, -3, -2, -1, 0, 1, 2, 3, 4, 5, 6, 7, 8, 9, 13, 14, 15, 30, 31,
                   59, 365, 366, 1000]
        holiday_sets = [
            None, [], [[]], [None], [[None]], [[], None, []], (), [()],
            [[DT(2024, 2, 27)]],
            [[DT(2024, 2, 27), DT(2024, 2, 27, 9)], [DT(2024, 2, 27)]],
            [[DT(2024, 3, 2), DT(2024, 3, 3)]],
            [[DT(2024, 2, 28), 'x', 5, None, empty, datetime.date(2024, 2, 29), 1.5, True], None,
             (DT(2024, 3, 1, 23), Stamp(2024, 3, 4))],
            [[DT(2023, 12, 25), DT(2023, 12, 26), DT(2024, 1, 1)], [DT(2024, 12, 25), DT(1999, 12, 31), DT(2000, 1, 3)]],
            ['abc', ''],
            [[DT(2024, 2, 26)], [DT(2024, 3, 1)], [DT(2021, 1, 1)]],
            {(DT(2024, 2, 29),): 1},
        ]
        for name, instance in copies:
            rows = 0
            wrong = 0
            for anchor, offset, holidays in itertools.product(anchors, offsets, holiday_sets):
                other = anchor + datetime.timedelta(days=offset, hours=5)
                forward = result_of(lambda: instance._network_days(anchor, other, holidays))
                backward = result_of(lambda: instance._network_days(other, anchor, holidays))
                out(name, anchor, offset, holiday_sets.index(holidays), forward, backward, echo=False)
                rows += 1
                if forward != show(reference(anchor, other, holidays)) or backward != show(
                        reference(other, anchor, holidays)):
                    wrong += 1
            out(name, 'grid rows', rows, 'differ from the stated rule', wrong, 'running digest',
                HASH.copy().hexdigest())
            out(name, 'sample', [result_of(lambda: instance._network_days(DT(2024, 2, 26), DT(2024, 3, 8), h))
                                 for h in holiday_sets])
            out(name, 'default holidays', result_of(lambda: instance._network_days(DT(2024, 2, 26), DT(2024, 3, 8))),
                result_of(lambda: instance._network_days(date_end=DT(2024, 2, 26), date_start=DT(2024, 3, 8),
                                                          holidays=[[DT(2024, 3, 8)]])))

        # inputs that are rejected or fail, and the calendar boundaries
        start, end = DT(2024, 2, 26), DT(2024, 3, 8)
        def make_bad_holidays():
            return [5, 0, 1.5, True, False, 'abc', '', empty, [5], [[5], 7], [DT(2024, 2, 27)], [[DT(2024, 2, 27)], 3],
                            DT(2024, 2, 27), {1: 2}, [[[DT(2024, 2, 27)]]], [None, 'x', [DT(2024, 2, 27)]], b'ab', [b'ab'],
                            iter([[DT(2024, 2, 27)]]), (h for h in [[DT(2024, 2, 28)], None]), [iter([DT(2024, 3, 1)])],
                            range(3), [range(3)], object()]

        bad_dates = [None, 0, 45000, 45000.5, '2024-02-26', '', empty, datetime.date(2024, 2, 26), [start], True,
                     datetime.time(1, 2), datetime.timedelta(days=1)]
        boundaries = [(DT(9999, 12, 20), DT(9999, 12, 31)), (DT(9999, 12, 31), DT(9999, 12, 20)),
                      (DT(9999, 12, 31), DT(9999, 12, 31, 5)), (DT(9999, 12, 20), DT(9999, 12, 30)),
                      (DT(1, 1, 1), DT(1, 1, 31)), (DT(1, 1, 31), DT(1, 1, 1)), (DT(1, 1, 1), DT(1, 1, 1)),
                      (DT(1900, 1, 1), DT(2100, 12, 31)), (DT(2100, 12, 31), DT(1900, 1, 1))]
        for name, instance in copies:
            for position, holidays in enumerate(make_bad_holidays()):
                out(name, 'odd holidays', position, type(holidays).__name__,
                    result_of(lambda: instance._network_days(start, end, holidays)))
            for bad in bad_dates:
                out(name, 'odd dates', show(bad), result_of(lambda: instance._network_days(bad, end, None)),
                    result_of(lambda: instance._network_days(start, bad, None)),
                    result_of(lambda: instance._network_days(bad, bad, 5)))
            for first, last in boundaries:
                out(name, 'boundary', first, last, result_of(lambda: instance._network_days(first, last, None)),
                    result_of(lambda: instance._network_days(first, last, [[first, last]])),
                    result_of(lambda: instance._network_days(first, last, [5])))
            # tz-aware and mixed
            utc = datetime.timezone.utc
            out(name, 'aware', result_of(lambda: instance._network_days(DT(2024, 2, 26, tzinfo=utc), end, [[start]])),
                result_of(lambda: instance._network_days(start, DT(2024, 3, 8, tzinfo=utc),
                                                         [[DT(2024, 2, 27, tzinfo=utc)]])))
            # arguments are left untouched
            holidays = [[DT(2024, 2, 27), 'x'], None, [DT(2024, 3, 1)]]
            snapshot = repr(holidays)
            value = instance._network_days(start, end, holidays)
            out(name, 'untouched', value, repr(holidays) == snapshot, start, end)
            out(name, 'repeat', [instance._network_days(start, end, holidays) for _ in range(3)])

        # close to the interpreter recursion limit the helper fails (or not) at exactly the same depths
        limit = sys.getrecursionlimit()
        for name, instance in copies:
            for args in ((start, end, None), (end, start, [[DT(2024, 2, 27)], None]), (start, 'x', None)):
                row = [result_of(lambda: at_depth(depth, lambda: instance._network_days(*args)))
                       for depth in range(limit - 25, limit)]
                out(name, 'deep', [r if r.startswith('EXC') else r for r in row])

        # through the translated workbook and the Executor
        ex = Executor().set_executed_class(class_file=out_py)
        out('column C', [result_of(lambda: ex.get_cell(Cell('Days', 'C', str(row))).value) for row in range(1, 11)])
        out('grid', [[show(c.value) for c in row] for row in ex.get_sheet('Days')])
        for overrides in ([Cell('Days', 'A', '3', value=DT(2023, 4, 3))], [Cell('Days', 'B', '4', value=DT(2023, 4, 4, 8))],
                          [Cell('Days', 'D', '2', value=DT(2024, 3, 1)), Cell('Days', 'E', '3', value=DT(2024, 3, 4))],
                          [Cell('Days', 'B', '1', value=DT(9999, 12, 31))], [Cell('Days', 'B', '1', value='2023-05-31')],
                          [Cell('Days', 'B', '1', value=DT(2023, 3, 1)), Cell('Days', 'A', '4', value=DT(2023, 3, 15))]):
            ex.set_cells(overrides)
            out('override', [(c.uid, show(c.value)) for c in overrides],
                [result_of(lambda: ex.get_cell(Cell('Days', 'C', str(row))).value) for row in range(1, 11)])
    finally:
        shutil.rmtree(tmp, ignore_errors=True)

    print('DIGEST', HASH.hexdigest())


if __name__ == '__main__':
    main()
