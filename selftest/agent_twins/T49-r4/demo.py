"""Equivalence demo for r4 (Excel.get_range / _get_vertical_range / _get_horizontal_range / _get_matrix /
get_matrix: loops -> comprehensions, result variable -> early returns).

Part 1 calls Excel.get_range and Excel.get_matrix directly on a parsed workbook and on hand-made ragged
data with a large set of corner pairs: rows, columns, rectangles, whole columns, several sheets, reversed,
out-of-sheet and malformed corners; prints the shape and every cell (uid, value) or the exception.
Part 2 translates a workbook whose formulas aggregate over every kind of area and prints a digest of the
generated text (it must not change at all here) and all computed values.
"""
import hashlib
import itertools
import os
import shutil
import tempfile
import warnings

warnings.filterwarnings('ignore')  # the runtime template triggers a SyntaxWarning that names the tree path

from openpyxl import Workbook  # noqa: E402

from excel2pycl import Parser, Executor, Cell  # noqa: E402
from excel2pycl.src.excel import Excel  # noqa: E402


def sha(text):
    return hashlib.sha256(text.encode('utf-8')).hexdigest()[:16] + ':' + str(len(text))


def show_cell(cell):
    return f'{cell.uid}={cell.value!r}/{cell.title},{cell.column},{cell.row},{cell.has_handled_identifiers()}'


def show(result):
    if isinstance(result, list):
        if result and isinstance(result[0], list):
            return f'matrix {len(result)}x{[len(r) for r in result]} ' + ' | '.join(
                ' '.join(show_cell(c) for c in row) for row in result)
        return f'list {len(result)} ' + ' '.join(show_cell(c) for c in result)
    return repr(result)


def attempt(label, function, first, second):
    before = (repr(first), repr(second))
    try:
        result = show(function(first, second))
    except BaseException as error:  # noqa
        result = f'EXC {type(error).__name__}: {error}'
    print(label, before, '->', result, '| corners after', repr(first), repr(second),
          first.has_handled_identifiers(), second.has_handled_identifiers())


def build_book(path):
    wb = Workbook()
    ws = wb.active
    ws.title = 'Data'
    rows = [(1, 2.5, 'x', True, 5), (4, None, '7', False, '#N/A'), (-3, 0, '', 10, 2), (8, 9, 'abc', 2, None),
            (None, None, None, None, None), (5.5, -5, ' ', 5, 1)]
    for row, values in enumerate(rows, 1):
        for column, value in enumerate(values, 1):
            ws.cell(row=row, column=column, value=value)
    ws['H9'] = 77
    other = wb.create_sheet('Other sheet')
    for row, values in enumerate([(10, 20, 30), (40, 'q', None), (True, '', 1.25)], 1):
        for column, value in enumerate(values, 1):
            other.cell(row=row, column=column, value=value)
    wb.create_sheet('Empty')
    wb.save(path)


def corner_pairs():
    pairs = []
    # integer (0-based) corners
    coordinates = [(0, 0), (0, 5), (4, 0), (4, 5), (2, 2), (7, 8), (9, 12), (1, 3)]
    for (c1, r1), (c2, r2) in itertools.product(coordinates, repeat=2):
        pairs.append(((0, c1, r1), (0, c2, r2)))
    # Excel-style corners, as the tokens produce them
    texts = [('Data', 'A', '1'), ('Data', 'A', '6'), ('Data', 'E', '1'), ('Data', 'E', '6'), ('Data', 'C', '3'),
             ('Data', 'A', ''), ('Data', 'C', ''), ('Data', 'E', ''), ('Data', 'J', ''), ('Data', 'A', None),
             ('Data', 'B', None), ('Other sheet', 'A', '1'), ('Other sheet', 'C', '3'), ('Other sheet', 'B', ''),
             ('Empty', 'A', '1'), ('Empty', 'A', ''), ('Empty', 'B', '2'), ('Nope', 'A', '1'), (1, 'A', '2'),
             (2, 0, 0), (0, 'B', 3), ('Data', 'AA', '100'), ('Data', 'A', '0'), (5, 0, 0), (-1, 0, 0), (0, -1, 0),
             (0, 0, -1), (0, -2, -2)]
    for a, b in itertools.product(texts, repeat=2):
        pairs.append((a, b))
    return pairs


def direct_part(label, excel):
    for a, b in corner_pairs():
        attempt(label + ' range', excel.get_range, Cell(*a), Cell(*b))
        attempt(label + ' matrix', excel.get_matrix, Cell(*a), Cell(*b))
    # corners that were already handled are used as they are; the same corner objects twice
    first, second = Cell('Data', 'A', '1'), Cell('Data', 'B', '2')
    attempt(label + ' matrix again 1', excel.get_matrix, first, second)
    attempt(label + ' matrix again 2', excel.get_matrix, first, second)
    attempt(label + ' range same object', excel.get_range, first, first)
    attempt(label + ' matrix same object', excel.get_matrix, second, second)
    whole = Cell('Data', 'B', '')
    attempt(label + ' whole same object', excel.get_matrix, whole, whole)
    attempt(label + ' whole range same object', excel.get_range, whole, whole)
    # the returned cells are fresh objects each time
    one, two = excel.get_matrix(Cell(0, 0, 0), Cell(0, 1, 1)), excel.get_matrix(Cell(0, 0, 0), Cell(0, 1, 1))
    print(label, 'fresh cells', one == two, one[0][0] is two[0][0], one[0] is two[0])
    one, two = excel.get_range(Cell(0, 0, 0), Cell(0, 0, 2)), excel.get_range(Cell(0, 0, 0), Cell(0, 0, 2))
    print(label, 'fresh range cells', one == two, one[0] is two[0])
    # the private pieces, directly
    for name in ('_get_vertical_range', '_get_horizontal_range', '_get_matrix'):
        for a, b in [((0, 0, 0), (0, 0, 2)), ((0, 0, 0), (0, 3, 0)), ((0, 1, 1), (0, 2, 3)), ((0, 2, 3), (0, 1, 1)),
                     ((0, 0, None), (0, 0, None)), ((0, 0, None), (0, 0, 3)), ((0, 0, 1), (0, 0, None)),
                     ((0, 0, 0), (1, 1, 1)), ((0, 0, 0), (0, None, 0)), ((0, None, 0), (0, 1, 0)),
                     ((0, 'A', 0), (0, 'B', 0)), ((0, 0, '1'), (0, 0, '2')), ((7, 0, 0), (7, 1, 1)),
                     ((7, 0, None), (7, 0, None))]:
            attempt(f'{label} {name}', getattr(excel, name), Cell(*a), Cell(*b))


FORMULAS = [
    '=SUM(A1:A6)', '=SUM(A1:E1)', '=SUM(A1:E6)', '=SUM(A:A)', '=SUM(A:B)', '=SUM(A:E)', '=SUM(A1:B3, C4:E6)',
    '=SUM(A1:A3, A4:A6)', '=SUM(A1:A3)+SUM(A4:A6)', '=SUM(A1:A6, A1:A6)', '=SUM(A1:D6, 5, 2.5)',
    "=SUM('Other sheet'!A1:C3)", "=SUM('Other sheet'!A:A, A1:A2)", "=SUM('Other sheet'!A:C)", '=SUM(Empty!A1:B2)',
    '=SUM(A1:A1)', '=SUM(H1:J12)', '=SUM(H:H)', '=AVERAGE(A1:A6)', '=AVERAGE(A1:D6)', '=AVERAGE(A:B)',
    '=AVERAGE(A1:B3, C4:D6)', '=MIN(A1:A6)', '=MIN(A:A, B:B)', '=MIN(A:B)', '=MAX(A1:D6)', '=MAX(A:A, B:B)',
    '=MAX(A:E)', "=MAX('Other sheet'!A1:C3, D1:D6)", '=COUNT(A1:A6)', '=COUNT(A1:D6)', '=COUNT(A:A)', '=COUNT(A:E)',
    '=COUNT(A1:B3, C4:D6)', '=COUNTBLANK(A1:A6)', '=COUNTBLANK(A1:D6)', '=COUNTBLANK(A:E)', '=COUNTBLANK(H1:J3)',
    '=AND(A1:A2)', '=OR(D2:D3)', '=OR(A:A)', '=SUMIF(A1:A6, ">0", B1:B6)', '=SUMIF(A:A, ">0", B:B)',
    '=VLOOKUP(4, A1:D6, 2, FALSE)', '=INDEX(A1:D6, 2, 1)', '=MATCH(8, A1:A6, 0)', '=SUM(A1:B2)+SUM(A2:A1)',
    '=SUM(B2:A1)', '=SUM(A3:A1)', '=SUM(C1:A1)',
]


def workbook_part():
    tmp = tempfile.mkdtemp(prefix='t49r4_')
    try:
        xlsx = os.path.join(tmp, 'areas.xlsx')
        build_book(xlsx)
        excel = Excel.parse(xlsx)
        print('titles', excel.get_titles(), excel.get_sheets_size())
        direct_part('book', excel)

        ragged = Excel({'data': [[[1, 2, 3], [4], [], [5, 6, 7, 8]], [], [[9]]], 'titles': ['R', 'E', 'S'],
                        'suspicious_cells': {}, 'sheets_size': []})
        for a, b in [((0, 0, 0), (0, 0, 3)), ((0, 0, 0), (0, 3, 3)), ((0, 3, 0), (0, 3, 5)), ((0, 0, None), (0, 0, None)),
                     ((0, 0, None), (0, 3, None)), ((0, 2, None), (0, 1, None)), ((1, 0, None), (1, 2, None)),
                     ((1, 0, 0), (1, 1, 1)), ((2, 0, None), (2, 0, None)), ((2, 0, 0), (2, 0, 0)),
                     (('R', 'A', ''), ('R', 'D', '')), (('S', 'A', '1'), ('S', 'B', '1')), ((0, 0, 3), (0, 3, 3))]:
            attempt('ragged range', ragged.get_range, Cell(*a), Cell(*b))
            attempt('ragged matrix', ragged.get_matrix, Cell(*a), Cell(*b))

        # end to end
        from openpyxl import load_workbook
        wb = load_workbook(xlsx)
        ws = wb['Data']
        for index, formula in enumerate(FORMULAS, 1):
            ws.cell(row=index, column=12, value=formula)
        book = os.path.join(tmp, 'formulas.xlsx')
        wb.save(book)
        out_py = os.path.join(tmp, 'formulas.py')
        try:
            text = Parser().set_excel_file_path(book).get_translation()
            print('whole text', sha(text))
        except BaseException as error:  # noqa
            print('whole EXC', type(error).__name__, error)
        for row, formula in enumerate(FORMULAS):
            parser = Parser().set_excel_file_path(book).set_entrypoint_cell(Cell(0, 11, row))
            try:
                text = parser.get_translation()
                parser.write_translation(out_py)
                executor = Executor().set_executed_class(class_file=out_py)
                try:
                    value = repr(executor.get_cell(Cell(0, 11, row)).value)
                except BaseException as error:  # noqa
                    value = f'EXC {type(error).__name__}: {error}'
                executor.set_cells([Cell(0, 0, 0, value=100), Cell(0, 1, 1, value=-2), Cell(0, 0, 8, value=1000)])
                try:
                    value2 = repr(executor.get_cell(Cell(0, 11, row)).value)
                except BaseException as error:  # noqa
                    value2 = f'EXC {type(error).__name__}: {error}'
                print('formula', formula, sha(text), value, value2)
            except BaseException as error:  # noqa
                print('formula', formula, 'EXC', type(error).__name__, error)
    finally:
        shutil.rmtree(tmp, ignore_errors=True)


if __name__ == '__main__':
    workbook_part()
