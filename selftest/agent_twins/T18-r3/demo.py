"""Equivalence demo for r3: the DATE runtime helper (_date) in both copies of the runtime class.

Calls _date directly on the importable class and on the class generated from the template over a
large grid of year / month / day values (negative, zero, overflowing, text, floats, None, bool,
NaN, empty cells, str subclasses with side effects) and evaluates a transpiled workbook full of
DATE formulas (also wrapped into YEAR / MONTH / DAY / EDATE / EOMONTH / DATEDIF) with overrides.
Every result (value or exception class name) goes into a sha256; a deterministic sample is printed.
"""
import datetime
import hashlib
import math
import os
import shutil
import sys
import tempfile

from openpyxl import Workbook

from excel2pycl import Parser, Executor, Cell
from excel2pycl.src.object_loader import load_module
from excel2pycl.src.utilities.abstract_excel_in_python_class import AbstractExcelInPython

_digest = hashlib.sha256()
_lines = 0


def out(line: str, show: bool = True):
    global _lines
    _digest.update(line.encode('utf-8') + b'\n')
    _lines += 1
    if show:
        print(line)


def show_value(value):
    if isinstance(value, float):
        return 'float:nan' if math.isnan(value) else f'float:{value!r}'
    return f'{type(value).__name__}:{value!r}'


def call(function, *args):
    try:
        return show_value(function(*args))
    except BaseException as error:
        return f'raises {type(error).__name__}'


class Direct(AbstractExcelInPython):
    pass


class LoggedText(str):
    """Text whose conversion to int is visible, to show the order and number of conversions."""
    log = []

    def __int__(self):
        LoggedText.log.append(str(self))
        return int(str(self))


YEARS = [-1, 0, 1, 99, 1899, 1900, 1901, 1999, 2000, 2023, 2024, 2100, 9998, 9999, 10000, 10 ** 12,
         '2024', '0', '-5', 'x', '', ' 12 ', '1e3', '2024.0', '१९', 2024.0, 2024.5, None, True, float('nan'),
         float('inf')]
MONTHS = [-25, -13, -12, -11, -1, 0, 1, 2, 3, 11, 12, 13, 14, 24, 25, 1200, 10 ** 6, -10 ** 6,
          '2', '-3', 'feb', '', 2.0, 2.5, None, True, float('nan')]
DAYS = [-400, -366, -365, -31, -1, 0, 1, 28, 29, 30, 31, 32, 59, 60, 61, 365, 366, 367, 1000, 10 ** 7, 10 ** 10,
        -10 ** 7, '15', '-2', 'x', '', 1.0, 1.5, None, True, float('nan')]


def grid(label, instance):
    index = 0
    for year in YEARS:
        for month in MONTHS:
            for day in DAYS:
                out(f'{label} _date({year!r}, {month!r}, {day!r}) -> {call(instance._date, year, month, day)}',
                    show=index % 97 == 0)
                index += 1
    empty = instance.EmptyCell()
    for args in ((empty, empty, empty), (2024, empty, 1), (2024, 1, empty), (empty, 3, 4), ('x', 'y', 'z'),
                 (2024, 'y', 'z'), (2024, 2, 'z'), ([2024], 1, 1), (2024, (1,), 1), (2024, 1, {1})):
        out(f'{label} _date{args!r} -> {call(instance._date, *args)}')
    for args in ((2024,), (2024, 1), (2024, 1, 1, 1)):
        out(f'{label} _date{args!r} -> {call(instance._date, *args)}')
    out(f'{label} keywords -> {call(lambda: instance._date(day=31, month=12, year=1999))}')

    # order and number of text -> int conversions
    for texts in (('2024', '2', '29'), ('bad', '2', '29'), ('2024', 'bad', '29'), ('2024', '2', 'bad'),
                  ('10000', '2', '29'), ('-1', 'bad', '29')):
        LoggedText.log = []
        result = call(instance._date, *[LoggedText(text) for text in texts])
        out(f'{label} logged {texts!r} -> {result} conversions={LoggedText.log!r}')

    # DATE is inverted by YEAR / MONTH / DAY, and follows "1 Jan + (m-1) months + (d-1) days"
    for year in (1900, 1999, 2000, 2023, 2024, 9990):
        for month in range(-14, 27):
            for day in (-32, -1, 0, 1, 15, 28, 29, 30, 31, 32, 60, 366, 400):
                value = instance._date(year, month, day)
                out(f'{label} inverse ({year},{month},{day}) -> '
                    f'{instance._year(value)}-{instance._month(value)}-{instance._day(value)}', show=False)


def workbook_part(tmp_dir):
    xlsx = os.path.join(tmp_dir, 'dates.xlsx')
    module_path = os.path.join(tmp_dir, 'dates_translation.py')
    rows = [
        (2024, 2, 29), (2023, 2, 29), (2024, 0, 0), (2024, -1, -1), (2024, 13, 32), (2024, 14, 400), (0, 1, 1),
        (1899, 12, 31), (1900, 1, 1), (9999, 12, 31), (9999, 12, 32), (10000, 1, 1), (-1, 1, 1), (2000, 25, -366),
        ('2024', '3', '15'), ('abc', 3, 15), (2024, 'abc', 15), (2024, 3, 'abc'), (2024.0, 3, 15), (2024, 3.5, 15),
        (2024, 3, 15.5), (None, None, None), (True, True, True),
    ]
    wb = Workbook()
    ws = wb.active
    formulas = []
    for row, (year, month, day) in enumerate(rows, start=1):
        ws.cell(row=row, column=1, value=year)
        ws.cell(row=row, column=2, value=month)
        ws.cell(row=row, column=3, value=day)
        for column, formula in enumerate((
                f'=DATE(A{row}, B{row}, C{row})',
                f'=YEAR(DATE(A{row}, B{row}, C{row}))',
                f'=MONTH(DATE(A{row}, B{row}, C{row}))',
                f'=DAY(DATE(A{row}, B{row}, C{row}))',
                f'=DATE(A{row}+1, B{row}-1, C{row}*2)',
                f'=EOMONTH(DATE(A{row}, B{row}, 1), 0)',
                f'=EDATE(DATE(A{row}, B{row}, C{row}), 1)',
                f'=DATEDIF(DATE(A{row}, 1, 1), DATE(A{row}, B{row}, C{row}), "D")',
                f'=DATE(2024, {row}, {row * 3 - 20})',
                f'=DATE({1890 + row * 5}, 2, 29)',
                f'=DATE("20{row:02d}", "{row}", "1")',
        ), start=4):
            ws.cell(row=row, column=column, value=formula)
            formulas.append((column - 1, row - 1, formula))
    wb.save(xlsx)

    Parser().set_excel_file_path(xlsx).write_translation(module_path)
    executor = Executor().set_executed_class(class_file=module_path)
    for column, row, formula in formulas:
        out(f'workbook {formula} @({column},{row}) -> '
            f'{call(lambda c=column, r=row: executor.get_cell(Cell(0, c, r)).value)}')
    executor.set_cells([Cell(0, 0, 0, value='1999'), Cell(0, 1, 0, value=-11), Cell(0, 2, 0, value=0),
                        Cell(0, 0, 1, value=''), Cell(0, 1, 1, value=''), Cell(0, 2, 1, value=''),
                        Cell(0, 0, 2, value=2024), Cell(0, 1, 2, value='12x'), Cell(0, 2, 2, value=5)])
    for column, row, formula in formulas:
        if row < 3:
            out(f'workbook/override {formula} @({column},{row}) -> '
                f'{call(lambda c=column, r=row: executor.get_cell(Cell(0, c, r)).value)}')
    return load_module(module_path).ExcelInPython()


def main():
    tmp_dir = tempfile.mkdtemp(prefix='r3_demo_')
    try:
        generated = workbook_part(tmp_dir)
        for label, instance in (('class', Direct()), ('template', generated)):
            grid(label, instance)
    finally:
        shutil.rmtree(tmp_dir, ignore_errors=True)
    print(f'lines={_lines} sha256={_digest.hexdigest()}')


if __name__ == '__main__':
    main()
    sys.exit(0)
