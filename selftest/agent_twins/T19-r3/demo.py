"""Equivalence demo for r3: the workbook reader Excel.parse (cell values, array formulas, sizes, safety scan).

Builds several workbooks (sparse rows/columns, ragged rows, many sheets, an empty sheet, every stored type,
array formulas, python-like "suspicious" content, unusual sheet titles), reads them with Excel.parse and prints
the raw data with types, titles, sizes and suspicious cells, the cells seen by the translator, and -- through
Parser/Executor -- the reported titles/sizes and the evaluated value of every cell.
"""
import datetime
import hashlib
import os
import shutil
import tempfile

from openpyxl import Workbook
from openpyxl.worksheet.formula import ArrayFormula

from excel2pycl import Parser, Executor, Cell, Excel

LINES = []


def emit(line):
    LINES.append(line)
    print(line)


def show(value):
    return f'{type(value).__name__}:{value!r}'


def wb_types(path):
    wb = Workbook()
    ws = wb.active
    ws.title = 'types'
    values = [0, 1, -7, 2 ** 40, 0.0, 1.5, -2.25, 1e-9, 1e300, True, False, '', 'text', ' padded ', 'ünïcödé', '0',
              '=1+2', '=A1+B1', '=SUM(A1:C1)', "it's", 'say "hi"', '#N/A', '#DIV/0!',
              datetime.datetime(2024, 2, 29, 12, 30, 15), datetime.datetime(1900, 3, 1), datetime.date(1999, 12, 31),
              datetime.time(6, 45), datetime.timedelta(hours=30), None, 'last']
    for i, v in enumerate(values):
        ws.cell(row=1 + i // 6, column=1 + i % 6, value=v)
    wb.save(path)
    wb.close()


def wb_sparse(path):
    wb = Workbook()
    ws = wb.active
    ws.title = 'sparse'
    ws['D1'] = 4
    ws['A3'] = 'a3'
    ws['H3'] = 8.5
    ws['B7'] = True
    ws['AB9'] = 'far column'
    ws['C40'] = 'far row'
    e = wb.create_sheet('empty')
    one = wb.create_sheet('only Z99')
    one['Z99'] = 'z'
    rag = wb.create_sheet('ragged')
    for r in range(1, 9):
        for c in range(1, (r * 3) % 7 + 2):
            rag.cell(row=r, column=c, value=r * 100 + c)
    wide = wb.create_sheet('first row widest')
    for c in range(1, 12):
        wide.cell(row=1, column=c, value=c)
    wide['A2'] = 'short'
    wide['B5'] = 'shorter'
    for n in range(6):
        s = wb.create_sheet(f'S{n}')
        s.cell(row=n + 1, column=6 - n, value=f'sheet {n}')
    wb.save(path)
    wb.close()


def wb_array(path):
    wb = Workbook()
    ws = wb.active
    ws.title = 'arr'
    for r in range(1, 5):
        ws.cell(row=r, column=1, value=r)
        ws.cell(row=r, column=2, value=r * 10)
    ws['D1'] = ArrayFormula('D1', '=SUM(A1:A4)')
    ws['D2'] = ArrayFormula('D2:D2', '=SUM(B1:B4)')
    ws['E3'] = ArrayFormula('E3', '=A1+B1')
    ws['F6'] = ArrayFormula('F6', '=MAX(A1:B4)')
    ws['G1'] = '=D1+D2'
    other = wb.create_sheet('other')
    other['B2'] = ArrayFormula('B2', '=SUM(arr!A1:A4)')
    other['C5'] = '=B2*2'
    wb.save(path)
    wb.close()


def wb_suspicious(path):
    wb = Workbook()
    ws = wb.active
    ws.title = "it's"
    ws['A1'] = 'print(1)'
    ws['B1'] = '=SUM(A2:A3)'
    ws['C2'] = 'os.system("x") and eval(y)'
    ws['A2'] = 5
    ws['A3'] = 'SUM(1) is fine'
    ws['E5'] = '__import__(a)'
    second = wb.create_sheet('second')
    second['B3'] = 'open(f).read()'
    second['A1'] = 'Min(1,2)'
    second['D9'] = 'x(y)z(w)'
    wb.save(path)
    wb.close()


def wb_array_odd(path):
    # array formulas whose text is padded / python-like: read as text, not translatable
    wb = Workbook()
    ws = wb.active
    ws.title = 'odd'
    ws['A1'] = 2
    ws['B2'] = ArrayFormula('B2:B2', '  =SUM(A1:A1)  ')
    ws['F5'] = ArrayFormula('F5', '=exec(1)')
    ws['C3'] = ArrayFormula('C3', 'A1*2')
    wb.save(path)
    wb.close()


def wb_titles(path):
    wb = Workbook()
    wb.active.title = 'Лист 1'
    wb.active['A1'] = 1
    for title in ['with space', 'UPPER', 'upper', '123', 'a.b', 'dash-ed', 'x' * 31]:
        s = wb.create_sheet(title)
        s['B2'] = title
    wb.save(path)
    wb.close()


def wb_blank(path):
    wb = Workbook()
    wb.save(path)
    wb.close()


def dump_excel(name, path):
    emit(f'=== {name}: Excel.parse')
    try:
        excel = Excel.parse(path)
    except Exception as e:  # noqa
        emit(f'parse raised {type(e).__name__}')
        return
    emit(f'titles {excel.get_titles()!r} order {list(excel.get_titles())!r}')
    emit(f'sizes {excel.get_sheets_size()!r} key order {[list(d) for d in excel.get_sheets_size()]!r}')
    emit(f'suspicious {excel._suspicious_cells!r}')
    try:
        excel.is_safe()
        emit('is_safe ok')
    except Exception as e:  # noqa
        emit(f'is_safe raised {type(e).__name__}: {e}')
    for sheet_number, sheet in enumerate(excel._data):
        emit(f'sheet {sheet_number}: {len(sheet)} rows, lengths {[len(r) for r in sheet]}')
        for row_number, row in enumerate(sheet):
            if any(v is not None for v in row):
                emit(f'  row {row_number}: ' + ' | '.join(show(v) for v in row))
    cells = excel.get_cells()
    emit(f'get_cells {len(cells)}: ' + ' '.join(f'{c.uid}={show(c.value)}' for c in cells if c.value is not None))
    for probe in [Cell(0, 0, 0), Cell(0, 3, 0), Cell(0, 500, 0), Cell(0, 0, 500), Cell(99, 0, 0), Cell(0, -1, 0),
                  Cell(0, 0, -1), Cell(-1, 0, 0)]:
        try:
            emit(f'fill_cell {probe} -> {show(excel.fill_cell(probe).value)}')
        except Exception as e:  # noqa
            emit(f'fill_cell {probe} raised {type(e).__name__}')


def dump_translation(name, path, tmp, safety=True):
    emit(f'=== {name}: Parser/Executor (safety check {safety})')
    out_py = os.path.join(tmp, name + '_out.py')
    parser = Parser().set_excel_file_path(path)
    if not safety:
        parser.disable_safety_check()
    try:
        parser.write_translation(out_py)
    except Exception as e:  # noqa
        emit(f'translation raised {type(e).__name__}: {e}')
        return
    text = parser.get_translation()
    emit(f'class text sha256 {hashlib.sha256(text.encode()).hexdigest()}')
    executor = Executor().set_executed_class(class_file=out_py)
    instance = executor.get_executed_class()
    emit(f'titles {instance.get_titles()!r}')
    emit(f'sizes {instance.get_sheets_size()!r}')
    for title, number in instance.get_titles().items():
        try:
            sheet = executor.get_sheet(title)
        except Exception as e:  # noqa
            emit(f'get_sheet {title!r} raised {type(e).__name__}')
            continue
        emit(f'get_sheet {title!r}: {len(sheet)} x {len(sheet[0]) if sheet else 0}')
        for row in sheet:
            for cell in row:
                if not (type(cell.value).__name__ == 'EmptyCell'):
                    emit(f'  ({number},{cell.column},{cell.row}) {show(cell.value)}')


def main():
    tmp = tempfile.mkdtemp(prefix='t19_r3_')
    try:
        builders = [('types', wb_types), ('sparse', wb_sparse), ('array', wb_array), ('suspicious', wb_suspicious),
                    ('array_odd', wb_array_odd),
                    ('titles', wb_titles), ('blank', wb_blank)]
        for name, builder in builders:
            path = os.path.join(tmp, name + '.xlsx')
            builder(path)
            dump_excel(name, path)
            dump_translation(name, path, tmp)
            if name == 'suspicious':
                dump_translation(name + '_unchecked', path, tmp, safety=False)
        # unreadable inputs
        missing = os.path.join(tmp, 'missing.xlsx')
        dump_excel('missing', missing)
        garbage = os.path.join(tmp, 'garbage.xlsx')
        with open(garbage, 'w') as f:
            f.write('not a zip file')
        dump_excel('garbage', garbage)
    finally:
        shutil.rmtree(tmp, ignore_errors=True)
    emit(f'lines: {len(LINES)}')
    print('sha256:', hashlib.sha256('\n'.join(LINES).encode('utf-8')).hexdigest())


if __name__ == '__main__':
    main()
