"""Equivalence demonstration for the reference-resolution code (property C02).

Builds its own workbooks in a temporary directory, translates every formula on its own
(fresh Context, so one failing formula does not hide the others), evaluates the generated
class, and additionally probes the Excel reader, the reference tokens and the
Parser/Executor facades directly.  Everything printed is deterministic.
"""
import datetime
import hashlib
import os
import shutil
import sys
import tempfile

from openpyxl import Workbook

from excel2pycl import Parser, Executor, Cell
from excel2pycl.src.context import Context
from excel2pycl.src.excel import Excel
from excel2pycl.src.lexer import Lexer
from excel2pycl.src.translators import CellTranslator
from excel2pycl.src.tokens import MatrixOfCellIdentifiersToken, CellIdentifierRangeToken, CellIdentifierToken

LINES = []


def out(*parts):
    line = ' '.join(str(p) for p in parts)
    LINES.append(line)
    print(line)


def show(value):
    if isinstance(value, list):
        return '[' + ', '.join(show(i) for i in value) + ']'
    if isinstance(value, tuple):
        return '(' + ', '.join(show(i) for i in value) + ')'
    return f'{type(value).__name__}:{value!r}'


def attempt(function):
    try:
        return 'ok ' + show(function())
    except BaseException as error:  # noqa
        return f'raised {type(error).__name__}: {error}'


def digest(text):
    return hashlib.sha256(text.encode('utf-8')).hexdigest()[:16]


# --------------------------------------------------------------------------- workbooks
DATA = [
    [1, 2, 3, 4, 5, 6],
    [10, None, 30, 'txt', 50, 60],
    [100, 200, None, 400, 500.5, 600],
    [None, None, None, None, None, None],
    [7, 'b', True, 0, -3, 2.25],
    [11, 12, 13, 14, 15, datetime.datetime(2024, 2, 29)],
]

FORMULAS = [
    # single cells, relative / absolute / mixed, own sheet
    '=C1', '=$C$1', '=C$2', '=$D3', '=E5', '=$E$5', '=C4', '=F9', '=AAA1', '=C100', '=XFD3',
    # prefixed single cells
    '=Data!B2', '=Data!$B$2', '=Data!A1', '=Data!F6', '=Data!D2', '=Data!C3', '=Data!G1', '=Data!A7',
    "='My Sheet'!A1", "='My Sheet'!$B$2", "='My Sheet'!B3", "='Q1-2024'!A1", "='Q1-2024'!$A$2", '=Tab_2!C3',
    '=Tab_2!$C$3', '=2024!A1', "='2024'!B1", '=Лист1!A1', "='Лист1'!A2", "='Data'!B1", '=Wide!XFD1', '=Wide!XFC2',
    '=Wide!$XFD$2', '=Wide!A1',
    # unknown sheets / invalid columns
    '=Nope!A1', "='No Such'!A1", '=data!A1', '=SUM(Nope!A1:A3)', "=SUM('No Such'!A1:B2)", '=SUM(Nope!A:A)',
    '=Wide!XFE1', '=SUM(Wide!XFD1:XFE1)', '=My Sheet!A1', "='My Sheet!A1",
    # ranges on the own sheet
    '=SUM(C1:C5)', '=SUM($C$1:$C$5)', '=SUM(C$1:C$5)', '=SUM($C1:$C5)', '=SUM(C1:E1)', '=SUM($C$2:$E$2)',
    '=SUM(C1:E5)', '=SUM($C$1:$E$5)', '=SUM(C1:C1)', '=SUM(C5:C1)', '=SUM(E1:C1)', '=SUM(E5:C1)', '=SUM(C90:C100)',
    '=SUM(C3:E9)', '=SUM(C1:C)', '=SUM(C:C5)', '=SUM(C1:E)', '=C1:C3', '=C1:E1', '=C1:D2',
    # prefixed ranges
    '=SUM(Data!A1:F6)', '=SUM(Data!$A$1:$F$6)', '=SUM(Data!A1:A6)', '=SUM(Data!A2:F2)', '=SUM(Data!B2:C3)',
    "=SUM('My Sheet'!A1:B3)", "=SUM('My Sheet'!$A$1:$B$3)", "=SUM('Q1-2024'!A1:A3)", '=SUM(Tab_2!A1:C3)',
    '=SUM(2024!A1:B1)', '=SUM(Лист1!A1:A2)', '=SUM(Wide!XFA1:XFD1)', '=SUM(Wide!XFA1:XFD2)', '=SUM(Wide!A1:C2)',
    # whole columns
    '=SUM(Data!A:A)', '=SUM(Data!$B:$B)', '=SUM(Data!A:C)', '=SUM(Data!$A:$F)', '=SUM(Data!C:A)', '=SUM(Data!H:H)',
    '=SUM(Data!F:H)', '=SUM(C:C)', '=SUM(C:E)', "=SUM('My Sheet'!A:B)", '=SUM(Wide!XFD:XFD)', '=COUNT(Data!A:F)',
    '=COUNTBLANK(Data!A:F)', '=MAX(Data!A:A)', '=MIN(Data!E:E)',
    # aggregates that reveal which cells were read, blanks included
    '=AVERAGE(Data!A1:F3)', '=MIN(Data!A1:F6)', '=MAX(Data!A1:F6)', '=COUNT(Data!A1:F6)', '=COUNTBLANK(Data!A1:F6)',
    '=COUNTBLANK(Data!A4:F4)', '=COUNTBLANK(Data!G1:H9)', '=COUNT(C1:E5)', '=COUNTBLANK(C1:E9)',
    # row-major order: INDEX picks a position of the matrix
    '=INDEX(Data!A1:F6;1;1)', '=INDEX(Data!A1:F6;1;6)', '=INDEX(Data!A1:F6;2;3)', '=INDEX(Data!A1:F6;3;2)',
    '=INDEX(Data!A1:F6;6;1)', '=INDEX(Data!A1:F6;6;5)', '=INDEX(Data!B2:E5;1;1)', '=INDEX(Data!B2:E5;4;4)',
    '=INDEX(Data!B2:E5;2;3)', '=INDEX(Data!A:C;3;2)', '=INDEX(Data!A:A;5)', '=INDEX(Data!A2:F2;4)',
    '=INDEX(C1:E5;2;3)', '=INDEX(C1:E5;5;1)', '=INDEX(Data!A1:F6;7;1)', '=INDEX(Data!A1:F6;2)',
    '=INDEX(Data!A1:F6;;2)',
    # lookups over references
    '=MATCH(100;Data!A1:A6;0)', '=MATCH(11;Data!A:A;0)', '=MATCH("b";Data!B1:B6;0)', '=MATCH(30;Data!A2:F2;0)',
    '=VLOOKUP(10;Data!A1:C6;3;FALSE)', '=VLOOKUP(100;Data!A:F;5;0)', '=VLOOKUP(7;Data!$A$1:$F$6;2;FALSE)',
    '=XMATCH(100;Data!A1:A6)', '=MATCH(C2;C1:C5;0)',
    # references mixed into expressions
    '=C1+Data!A1', "=C1*'My Sheet'!A1-Tab_2!C3", '=SUM(C1:C5)+SUM(Data!A1:A3)', '=IF(Data!A1=1;C1;D1)',
    '=SUM(C1;D1;Data!A1:B2)', '=SUM(Data!A1:A3;Data!C1:C3)', '=Data!A1:A3&Data!B1:B3', '=C1&D1',
    '=CONCATENATE(C1;Data!D2;C4)', '=C1:C3&D1:D3',
    # chained formulas (a reference to a cell that is itself a formula)
    '=G1', '=G2+1', '=SUM(G1:G2)', '=Data!H1', '=SUM(Data!H1:H2)',
]


def build_workbook(path, formulas):
    workbook = Workbook()
    sheet = workbook.active
    sheet.title = 'F'
    for number, formula in enumerate(formulas, start=1):
        sheet.cell(row=number, column=1, value=formula)
    for row_number, row in enumerate(DATA[:5], start=1):
        for column_number, value in enumerate(row[:3], start=3):
            if value is not None:
                sheet.cell(row=row_number, column=column_number, value=(value if not isinstance(value, str) else value))
    sheet['C1'] = 2
    sheet['C2'] = 20
    sheet['C3'] = 200
    sheet['C5'] = 7
    sheet['D1'] = 3
    sheet['D3'] = 'own'
    sheet['E1'] = 4.5
    sheet['E5'] = -1
    sheet['G1'] = '=C1*10'
    sheet['G2'] = '=Data!A1+Data!B1'
    data = workbook.create_sheet('Data')
    for row_number, row in enumerate(DATA, start=1):
        for column_number, value in enumerate(row, start=1):
            if value is not None:
                data.cell(row=row_number, column=column_number, value=value)
    data['H1'] = '=A1+B1'
    data['H2'] = '=SUM(A1:C1)'
    my_sheet = workbook.create_sheet('My Sheet')
    for row_number in range(1, 4):
        my_sheet.cell(row=row_number, column=1, value=row_number * 1000)
        my_sheet.cell(row=row_number, column=2, value=row_number * 1000 + 1)
    quarter = workbook.create_sheet('Q1-2024')
    quarter['A1'] = 41
    quarter['A2'] = 42
    quarter['A3'] = 43
    tab = workbook.create_sheet('Tab_2')
    for row_number in range(1, 4):
        for column_number in range(1, 4):
            tab.cell(row=row_number, column=column_number, value=row_number * 10 + column_number)
    digits = workbook.create_sheet('2024')
    digits['A1'] = 2024
    digits['B1'] = 0.5
    cyrillic = workbook.create_sheet('Лист1')
    cyrillic['A1'] = 'первый'
    cyrillic['A2'] = 9
    wide = workbook.create_sheet('Wide')
    wide['A1'] = 1
    wide['C2'] = 3
    wide['XFA1'] = 16381
    wide['XFC2'] = 16383
    wide['XFD1'] = 16384
    wide['XFD2'] = -16384
    workbook.save(path)
    workbook.close()


def new_context(excel):
    context = Context()
    context._titles = excel.get_titles()
    context._sheets_size = excel.get_sheets_size()
    return context


def evaluate(class_text, uid):
    namespace = {}
    exec(compile(class_text, '<translation>', 'exec'), namespace)
    return namespace['ExcelInPython']().exec_function_in(uid)


def formulas_one_by_one(excel, formulas):
    out('== every formula translated and evaluated on its own')
    translatable = []
    for number, formula in enumerate(formulas, start=1):
        context = new_context(excel)
        cell = Cell('F', 'A', str(number))
        try:
            code = CellTranslator.translate(cell, excel, context)
            class_text = context.build_class()
        except BaseException as error:  # noqa
            out(f'{number:03d} {formula} -> translation raised {type(error).__name__}: {error}')
            continue
        translatable.append(formula)
        functions = class_text[class_text.index('    def _cell_preprocessor'):]
        result = attempt(lambda: evaluate(class_text, cell.uid))
        out(f'{number:03d} {formula} -> {code} text={digest(class_text)} functions={digest(functions)} {result}')
    return translatable


def describe(cells):
    if isinstance(cells, Cell):
        return f'({cells.title},{cells.column},{cells.row},{cells.value!r},{cells.has_handled_identifiers()})'
    return '[' + ','.join(describe(i) for i in cells) + ']'


def probe(label, function):
    try:
        out(label, 'ok', describe(function()))
    except BaseException as error:  # noqa
        out(label, f'raised {type(error).__name__}: {error}')


def reader_probes(excel):
    out('== Excel reader called directly')
    out('titles', excel.get_titles())
    out('sizes', excel.get_sheets_size())
    coordinates = [('Data', 'A', '1'), ('Data', 'F', '6'), ('Data', 'G', '1'), ('Data', 'A', '7'), ('Data', 'B', '2'),
                   ('My Sheet', 'B', '3'), ('Wide', 'XFD', '1'), ('Wide', 'XFD', '2'), ('Wide', 'XFE', '1'),
                   ('Nope', 'A', '1'), ('Data', 'A', ''), ('Data', 'A', None), (1, 0, 0), (1, 5, 5), (1, 6, 0),
                   (1, 0, 6), (1, -1, 0), (1, 0, -1), (9, 0, 0), (-1, 0, 0), (0, 2, 0), (7, 16383, 0), (7, 16383, 5),
                   ('Data', 0, 0), (1, 'A', 0), (1, 0, '1'), (1, 0, None), (1.0, 0, 0), (1, 1.0, 1)]
    for title, column, row in coordinates:
        probe(f'fill_cell({title!r},{column!r},{row!r})', lambda: excel.fill_cell(Cell(title, column, row)))
        probe(f'_fill_cell({title!r},{column!r},{row!r})', lambda: excel._fill_cell(Cell(title, column, row)))
    pairs = [(('Data', 'A', '1'), ('Data', 'A', '6')), (('Data', 'A', '6'), ('Data', 'A', '1')),
             (('Data', 'A', '2'), ('Data', 'F', '2')), (('Data', 'F', '2'), ('Data', 'A', '2')),
             (('Data', 'A', '1'), ('Data', 'A', '1')), (('Data', 'A', '1'), ('Data', 'B', '2')),
             (('Data', 'A', '1'), ('My Sheet', 'A', '3')), (('Data', 'A', ''), ('Data', 'A', '')),
             (('Data', 'A', '1'), ('Data', 'A', '')), (('Data', 'A', ''), ('Data', 'A', '3')),
             (('Data', 'A', ''), ('Data', 'C', '')), (('Data', 'C', ''), ('Data', 'A', '')),
             (('Data', 'B', '2'), ('Data', 'E', '5')), (('Data', 'E', '5'), ('Data', 'B', '2')),
             (('Data', 'A', '5'), ('Data', 'H', '9')), (('Data', 'H', ''), ('Data', 'H', '')),
             (('Data', 'F', ''), ('Data', 'H', '')), (('Nope', 'A', '1'), ('Data', 'A', '2')),
             (('Data', 'A', '1'), ('Nope', 'A', '2')), (('Wide', 'XFA', '1'), ('Wide', 'XFD', '2')),
             (('Wide', 'XFD', ''), ('Wide', 'XFD', '')), ((1, 0, 0), (1, 2, 2)), ((1, 0, -2), (1, 0, 1)),
             ((1, 0, 0), (1, 0, -1)), ((1, -2, 0), (1, 1, 0)), ((1, 0, None), (1, 1, None)), ((1, 0, 1), (1, 0, None)),
             (('My Sheet', 'A', ''), ('My Sheet', 'B', '')), (('F', 'C', '1'), ('F', 'E', '5'))]
    for first, second in pairs:
        probe(f'get_range({first},{second})', lambda: excel.get_range(Cell(*first), Cell(*second)))
        probe(f'get_matrix({first},{second})', lambda: excel.get_matrix(Cell(*first), Cell(*second)))
        probe(f'_get_matrix({first},{second})', lambda: excel._get_matrix(Cell(*first), Cell(*second)))
        probe(f'get_similar_second({first},{second})',
              lambda: excel.get_similar_second(Cell('Tab_2', 'B', '2'), Cell(*first), Cell(*second)))
    probe('get_cells count', lambda: [c for c in excel.get_cells() if c.value is not None][:40])
    out('get_cells total', len(excel.get_cells()))


def token_probes():
    out('== reference tokens')
    own = Cell('Own', 3, 4)
    expressions = ['A1', '$A$1', 'A$1', '$A1', 'XFD1048576', 'Data!B2', "'My Sheet'!B2", "'Q1-2024'!$C$3", "''!A1",
                   "'it''s'!A1", '2024!A1', 'Лист1!A1', '_x!A1', '!A1', "'A!B'!C3",
                   'A1:B2', '$A$1:$B$2', 'A$1:$B2', 'Data!A1:B2', "'My Sheet'!A1:B2", 'A:A', '$A:$A', 'A:C', 'Data!A:C',
                   "'My Sheet'!$A:$C", 'A1:A5', 'A1:E1', '$A$1:$A$5', 'Data!A1:A5', "'My Sheet'!A1:E1", 'A1:A', 'A:A5',
                   'A1:C', 'A:C3', 'XFA1:XFD2', "'Q1-2024'!XFA:XFD", 'A1:B2:C3', 'SUM(A1:B2;Data!C3;\'x y\'!D:D)',
                   "Data!A1+'My Sheet'!B2*C3", 'a1', 'A0', 'A01', 'A1B2', "'a'!A1:'b'!B2", 'Data!A1:Data!B2', '1:1',
                   'A1 :B2', "'x'!A1:A3&'y'!B1:B3"]
    for expression in expressions:
        for token_class in (MatrixOfCellIdentifiersToken, CellIdentifierRangeToken, CellIdentifierToken):
            try:
                token, rest = token_class.get(expression, own)
            except BaseException as error:  # noqa
                out(f'{token_class.__name__}.get({expression!r}) raised {type(error).__name__}: {error}')
                continue
            if token is None:
                out(f'{token_class.__name__}.get({expression!r}) -> no match rest={rest!r}')
                continue
            attribute = {MatrixOfCellIdentifiersToken: 'matrix', CellIdentifierRangeToken: 'range',
                         CellIdentifierToken: 'cell'}[token_class]
            first = getattr(token, attribute)
            second = getattr(token, attribute)
            same = first is second if isinstance(first, Cell) else all(a is b for a, b in zip(first, second))
            out(f'{token_class.__name__}.get({expression!r}) -> value={token.value!r} {attribute}={first!r} '
                f'raw={describe(first)} cached={same} str={token} rest={rest!r}')
        try:
            tokens = Lexer.parse('=' + expression, in_cell=own)
            out(f'lexer {expression!r} -> {tokens!r}')
        except BaseException as error:  # noqa
            out(f'lexer {expression!r} raised {type(error).__name__}: {error}')


def facade_run(directory, valid):
    out('== Parser / Executor on a workbook holding the', len(valid), 'formulas that translate')
    path = os.path.join(directory, 'valid.xlsx')
    build_workbook(path, valid)
    translation_path = os.path.join(directory, 'valid_translation.py')
    try:
        parser = Parser().set_excel_file_path(path).disable_safety_check()
        text = parser.get_translation()
        parser.write_translation(translation_path)
    except BaseException as error:  # noqa
        out(f'whole-file translation raised {type(error).__name__}: {error}')
        return
    out('translation digest', digest(text), 'length', len(text))
    executor = Executor().set_executed_class(class_file=translation_path)
    out('titles', executor._titles)
    for number, formula in enumerate(valid, start=1):
        out(f'{number:03d} {formula} ->', attempt(lambda: executor.get_cell(Cell('F', 'A', str(number))).value),
            '|', attempt(lambda: executor.get_cell(Cell(0, 0, number - 1)).value))
    out('-- after set_cells')
    executor.set_cells([Cell('Data', 'A', '1', value=1000), Cell('Data', 'B', '2', value=5), Cell('F', 'C', '1', value=-2),
                        Cell('My Sheet', 'A', '1', value='changed'), Cell('Wide', 'XFD', '1', value=0.25),
                        Cell(1, 2, 2, value=33), Cell('Data', 'A', '9', value=77), Cell('Q1-2024', 'A', '1', value=None)])
    for number, formula in enumerate(valid, start=1):
        out(f'{number:03d} {formula} ->', attempt(lambda: executor.get_cell(Cell('F', 'A', str(number))).value))
    out('sheet Data', attempt(lambda: [[c.value for c in row] for row in executor.get_sheet('Data')]))
    out('sheet 2', attempt(lambda: [[c.value for c in row] for row in executor.get_sheet(2)]))
    out('unknown sheet', attempt(lambda: executor.get_cell(Cell('Nope', 'A', '1')).value))
    out('entry point Data!H2', attempt(lambda: digest(
        Parser().set_excel_file_path(path).set_entrypoint_cell(Cell('Data', 'H', '2')).get_translation())))
    out('entry point Nope!A1', attempt(lambda: digest(
        Parser().set_excel_file_path(path).set_entrypoint_cell(Cell('Nope', 'A', '1')).get_translation())))


def main():
    directory = tempfile.mkdtemp(prefix='c02_demo_')
    try:
        path = os.path.join(directory, 'references.xlsx')
        build_workbook(path, FORMULAS)
        excel = Excel.parse(path)
        valid = formulas_one_by_one(excel, FORMULAS)
        reader_probes(Excel.parse(path))
        token_probes()
        facade_run(directory, valid)
    finally:
        shutil.rmtree(directory, ignore_errors=True)
    out('DIGEST', digest('\n'.join(LINES)), 'lines', len(LINES))
    return 0


if __name__ == '__main__':
    sys.exit(main())
