"""Equivalence demo for r3 (Excel reader: range/matrix builders as comprehensions).

Part 1 calls Excel.get_range / Excel.get_matrix / get_similar_second directly with many coordinate combinations
(0-based ints and Excel-style strings, whole columns, reversed and out-of-sheet areas, unknown sheets) and prints the
exact cells returned (sheet, column, row, value) in order.
Part 2 translates formulas that use every reference form and executes them through Parser/Executor (with overrides).
"""
import datetime
import hashlib
import os
import re
import shutil
import sys
import tempfile

from openpyxl import Workbook

from excel2pycl import Parser, Executor, Cell, Excel, Context, CellTranslator

OUT = []


def emit(*parts):
    line = ' | '.join(str(p) for p in parts)
    OUT.append(line)
    print(line)


def show(value):
    if isinstance(value, float) and value != value:
        return 'float:nan'
    return f'{type(value).__name__}:{value!r}'


def cells_repr(obj):
    if isinstance(obj, list):
        return '[' + ', '.join(cells_repr(i) for i in obj) + ']'
    if isinstance(obj, Cell):
        return f'<{obj.title},{obj.column},{obj.row}={obj.value!r}>'
    return repr(obj)


SHEETS = ['Data', 'Other Sheet', 'Лист3', 'S_4', 'Empty']
FORMULA_COLUMN = 51  # 0-based index of column AZ


def build(path, formula_list):
    wb = Workbook()
    data = wb.active
    data.title = SHEETS[0]
    # dense 6x6 block with distinct values, then ragged / sparse cells
    for r in range(1, 7):
        for c in range(1, 7):
            data.cell(row=r, column=c, value=r * 10 + c)
    data.cell(row=3, column=3, value=None)
    data.cell(row=9, column=2, value='far')
    data.cell(row=2, column=9, value=2.5)
    data.cell(row=12, column=27, value='AA12')      # column AA
    data.cell(row=1, column=703, value='AAA1')      # column AAA
    other = wb.create_sheet(SHEETS[1])
    for r in range(1, 5):
        for c in range(1, 4):
            other.cell(row=r, column=c, value=f'o{r}{c}')
    other.cell(row=2, column=2, value=None)
    third = wb.create_sheet(SHEETS[2])
    third.cell(row=1, column=1, value=100)
    third.cell(row=2, column=1, value=200)
    third.cell(row=3, column=2, value=datetime.datetime(2024, 5, 6))
    fourth = wb.create_sheet(SHEETS[3])
    fourth.cell(row=2, column=2, value=True)
    wb.create_sheet(SHEETS[4])
    # the formulas live on the Data sheet (column AZ) so that bare references denote the Data sheet
    for index, formula in enumerate(formula_list):
        data.cell(row=index + 1, column=FORMULA_COLUMN + 1, value=formula)
    wb.save(path)
    wb.close()


def direct_calls(excel):
    titles = [0, 1, 2, 3, 4, 'Data', 'Other Sheet', 'Лист3', 'Nope', 7, -1]
    int_points = [(0, 0), (0, 2), (2, 0), (2, 2), (1, 5), (5, 1), (5, 5), (0, 8), (8, 1), (11, 26), (0, 702), (20, 3),
                  (3, 20), (2, 1), (1, 2)]
    str_points = [('A', '1'), ('C', '3'), ('A', '6'), ('F', '1'), ('I', '2'), ('AA', '12'), ('AAA', '1'), ('B', ''),
                  ('A', ''), ('C', ''), ('B', '9'), ('b', '2'), ('A', '0'), ('XFD', '2')]
    calls = 0
    for title in titles:
        points = str_points if isinstance(title, str) else [(c, r) for r, c in int_points] + [(0, None), (2, None)]
        for i, (c1, r1) in enumerate(points):
            for j, (c2, r2) in enumerate(points):
                if (i + j) % 3 == 2 and i != j:
                    continue
                for method_name in ('get_range', 'get_matrix'):
                    first, second = Cell(title, c1, r1), Cell(title, c2, r2)
                    try:
                        result = 'OK ' + cells_repr(getattr(excel, method_name)(first, second))
                    except Exception as error:  # noqa
                        result = 'EXC ' + type(error).__name__ + ' ' + str(error)[:120]
                    calls += 1
                    if len(result) > 400:
                        result = result[:200] + ' ... sha=' + hashlib.sha256(result.encode()).hexdigest()
                    emit('D', method_name, title, (c1, r1), (c2, r2), result, cells_repr([first, second]))
    # different sheets in one call, similar-second helper
    for a, b in [(Cell(0, 0, 0), Cell(1, 0, 2)), (Cell('Data', 'A', '1'), Cell('Other Sheet', 'A', '3')),
                 (Cell('Data', 'A', ''), Cell('Other Sheet', 'A', ''))]:
        for method_name in ('get_range', 'get_matrix'):
            try:
                result = 'OK ' + cells_repr(getattr(excel, method_name)(a, b))
            except Exception as error:  # noqa
                result = 'EXC ' + type(error).__name__ + ' ' + str(error)[:120]
            emit('D2', method_name, result)
    for base, first, second in [(Cell(0, 1, 1), Cell(0, 0, 0), Cell(0, 2, 3)),
                                (Cell('Data', 'B', '2'), Cell('Data', 'A', ''), Cell('Data', 'C', '')),
                                (Cell(1, 0, 0), Cell(0, 3, 3), Cell(0, 1, 1))]:
        try:
            result = 'OK ' + cells_repr(excel.get_similar_second(base, first, second))
        except Exception as error:  # noqa
            result = 'EXC ' + type(error).__name__ + ' ' + str(error)[:120]
        emit('D3', result)
    emit('direct-calls', calls)


def formulas():
    areas = ['A1', '$A$1', 'A1:A6', 'A1:F1', '$A$1:$A$6', 'A$1:F$1', 'A1:C3', '$B$2:$D$5', 'B2:B2', 'C3:C3', 'A:A', 'B:B',
             'A:C', '$A:$B', 'I:I', 'A1:A20', 'A1:Z1', 'E5:H8', 'AA12:AA12', 'Z11:AB13', 'AAA1', 'C3:A1', 'A6:A1',
             'F1:A1', 'Data!A1:B2', "'Data'!A1:B2", "'Other Sheet'!A1:C4", "'Other Sheet'!B:B", 'Лист3!A1:A2',
             "'Лист3'!A:B", 'S_4!A1:B2', 'Empty!A1:B2', 'Empty!A:A', 'Nope!A1:B2', "'No Sheet'!A1", 'Other Sheet!A1',
             "'Other Sheet'!$B$2", 'XFD1', 'A1048576', 'XFD1:XFD2', 'A0', 'A1:A0', 'A1:B', '1:1', 'A1:2']
    result = []
    for area in areas:
        result.append(f'=SUM({area})')
        result.append(f'=COUNT({area})')
        result.append(f'=COUNTBLANK({area})')
    for area in areas[:34:3]:
        result.append(f'=INDEX({area},1,1)')
        result.append(f'=MATCH(21,{area},0)')
        result.append(f'=MAX({area})&"|"&MIN({area})')
    result += [
        '=A1', '=$B$2', '=C3', "='Other Sheet'!B2", "='Other Sheet'!C4", '=Лист3!B3', '=S_4!B2', '=Empty!A1', '=J20',
        '=Data!I2', '=AA12', '=AAA1', '=A1+Data!B2*\'Other Sheet\'!A1', '=VLOOKUP(31,A1:F6,3,FALSE)',
        '=VLOOKUP(31,$A$1:$F$6,6,0)', '=SUMIF(A1:A6,">30",B1:B6)', '=SUMIF(A:A,">30",B:B)',
        '=SUMIFS(C1:C6,A1:A6,">20",B1:B6,"<60")', '=COUNTIFS(A1:F1,">12")', '=AVERAGE(A1:C3)', '=AVERAGEIFS(B1:B6,A1:A6,">20")',
        '=SUM(A1:B2,D4:E5)', '=SUM(A1:A3,\'Other Sheet\'!A1:A2,Лист3!A1:A2)', '=INDEX(A1:F6,2,3)', '=INDEX(A:C,4,2)',
        '=INDEX(\'Other Sheet\'!A1:C4,4,3)', '=XMATCH(42,A4:F4,0)', '=MATCH(35,A3:F3,1)', '=COLUMN(C3)', '=COLUMN(AA12)',
        '=CONCATENATE(A1,B1,C1)', '=A1:A3', '=SUM(A1:A3)*A1', '=A1:B2&C1:D2', '=IF(SUM(A:A)>100,MAX(B1:B6),MIN(B1:B6))',
    ]
    return result


FUNCTION_RE = re.compile(r'^    def (_\d+_\d+_\d+(?:_\d+)?)\(self\):\n        return (.*)$', re.M)


def main():
    tmp = tempfile.mkdtemp(prefix='e2p_demo_r3_')
    try:
        all_formulas = formulas()
        book = os.path.join(tmp, 'refs.xlsx')
        build(book, all_formulas)
        excel = Excel.parse(book)
        emit('titles', excel.get_titles(), 'sizes', excel.get_sheets_size())
        direct_calls(excel)

        excel = Excel.parse(book)
        formula_sheet = 0
        good = []
        for index, formula in enumerate(all_formulas):
            context = Context()
            context._titles = excel.get_titles()
            context._sheets_size = excel.get_sheets_size()
            try:
                CellTranslator.translate(Cell(formula_sheet, FORMULA_COLUMN, index), excel, context)
                text = context.build_class()
            except Exception as error:  # noqa
                emit('T', index, formula, 'EXC', type(error).__name__, str(error)[:160])
                continue
            if 'A0' not in formula:  # row 0 yields a function name that is not valid python, keep it translate-only
                good.append(formula)
            found = FUNCTION_RE.findall(text)
            emit('T', index, formula, 'all-functions', len(found), hashlib.sha256(repr(found).encode()).hexdigest())
            for name, code in found:
                # the formula's own functions and every sub-cell function (range / matrix bodies live there)
                if name.startswith(f'_{formula_sheet}_{FORMULA_COLUMN}_') or name.count('_') == 4:
                    if len(code) > 300:
                        code = code[:150] + ' ... sha=' + hashlib.sha256(code.encode()).hexdigest()
                    emit('T', index, formula, name, code)

        book2 = os.path.join(tmp, 'good.xlsx')
        build(book2, good)
        module = os.path.join(tmp, 'translated.py')
        Parser().set_excel_file_path(book2).write_translation(module)
        with open(module, encoding='utf-8') as f:
            functions = FUNCTION_RE.findall(f.read())
        emit('functions', len(functions), hashlib.sha256(repr(functions).encode()).hexdigest())

        override_sets = [
            [],
            [Cell('Data', 'A', '1', value=1000), Cell('Data', 'C', '3', value=5), Cell('Other Sheet', 'B', '2', value=7),
             Cell('Лист3', 'A', '2', value=None), Cell('Data', 'A', '15', value=4)],
            [Cell(0, 0, 0, value=None), Cell(0, 1, 1, value='txt'), Cell(4, 0, 0, value=9), Cell(0, 25, 0, value=3)],
        ]
        for set_number, overrides in enumerate(override_sets):
            executor = Executor().set_executed_class(class_file=module)
            if overrides:
                try:
                    executor.set_cells(overrides)
                except Exception as error:  # noqa
                    emit('set_cells', set_number, 'EXC', type(error).__name__, str(error)[:160])
            for index, formula in enumerate(good):
                try:
                    value = show(executor.get_cell(Cell('Data', 'AZ', str(index + 1))).value)
                    if len(value) > 300:
                        value = value[:150] + ' ... sha=' + hashlib.sha256(value.encode()).hexdigest()
                    emit('V', set_number, index, formula, value)
                except Exception as error:  # noqa
                    emit('V', set_number, index, formula, 'EXC', type(error).__name__, str(error)[:160])
            try:
                sheet = executor.get_sheet('Other Sheet')
                emit('sheet', set_number, [[show(c.value) for c in row] for row in sheet])
            except Exception as error:  # noqa
                emit('sheet', set_number, 'EXC', type(error).__name__, str(error)[:160])
    finally:
        shutil.rmtree(tmp, ignore_errors=True)

    print('LINES', len(OUT))
    print('DIGEST', hashlib.sha256('\n'.join(OUT).encode()).hexdigest())
    return 0


if __name__ == '__main__':
    sys.exit(main())
