"""Equivalence demo for r3: the DATE runtime helper (_date) in both copies of the runtime class."""
import datetime
import hashlib
import importlib.util
import itertools
import os
import shutil
import sys
import tempfile
from decimal import Decimal
from fractions import Fraction

from openpyxl import Workbook

from excel2pycl import Parser, Executor, Cell
from excel2pycl.src.utilities.abstract_excel_in_python_class import AbstractExcelInPython

LINES = []
HASH = hashlib.sha256()


def out(*parts, echo=True):
    line = ' '.join(str(p) for p in parts)
    HASH.update((line + '\n').encode('utf-8'))
    if echo:
        print(line)


def show(value):
    return f'{type(value).__name__}:{value!r}'


def result_of(fn):
    try:
        return show(fn())
    except BaseException as exc:  # noqa
        return 'EXC ' + type(exc).__name__


class Direct(AbstractExcelInPython):
    pass


def build_workbook(path):
    wb = Workbook()
    ws = wb.active
    ws.title = 'Dates'
    ws['A1'] = 2024
    ws['B1'] = 2
    ws['C1'] = 29
    ws['D1'] = '=DATE(A1,B1,C1)'
    ws['E1'] = '=YEAR(D1)*10000+MONTH(D1)*100+DAY(D1)'
    ws['A2'] = '=DATE(2023,14,0)'
    ws['B2'] = '=DATE(99,1,1)'
    ws['C2'] = '=DATE(1900,-11,-30)'
    ws['D2'] = '=DATE(10000,1,1)'
    ws['E2'] = '=DATE("2020","3","15")'
    ws['F2'] = '=DATE("x",1,1)'
    ws['G2'] = '=DATE(2021,1,366)'
    ws['H2'] = '=DAY(DATE(A1,B1+1,0))'
    ws['A3'] = '=DATE(YEAR(D1),MONTH(D1)+12,DAY(D1))'
    ws['B3'] = '=DATE(A1-B1,B1*C1,C1-A1)'
    ws['C3'] = '=MONTH(DATE(2020,0,15))'
    ws['D3'] = '=YEAR(DATE(0,12,31))'
    wb.save(path)
    wb.close()


def load(path):
    spec = importlib.util.spec_from_file_location('generated_r3', path)
    module = importlib.util.module_from_spec(spec)
    spec.loader.exec_module(module)
    return module


def at_depth(depth, fn):
    if depth <= 0:
        return fn()
    return at_depth(depth - 1, fn)


def main():
    tmp = tempfile.mkdtemp(prefix='r3demo')
    try:
        xlsx = os.path.join(tmp, 'dates.xlsx')
        out_py = os.path.join(tmp, 'dates.py')
        build_workbook(xlsx)
        text = Parser().set_excel_file_path(xlsx).get_translation()
        with open(out_py, 'w', encoding='utf-8') as f:
            f.write(text)
        out('cell functions', [line.strip() for line in text.split('{functions}')[-1].splitlines()
                               if line.strip().startswith('return self._date') or 'self._date(' in line][:40])
        module = load(out_py)
        copies = [('template', module.ExcelInPython()), ('class', Direct())]

        # 1. integer grid: every result printed in compact form, cross-checked against the calendar rule
        years = [-1, 0, 1, 4, 99, 1899, 1900, 1901, 1999, 2000, 2023, 2024, 2100, 9998, 9999, 10000, 12345]
        months = list(range(-26, 28)) + [-120000, -96000, -22800, 95000, 96000, 97000, 120000]
        days = [-800, -366, -365, -31, -30, -1, 0, 1, 2, 28, 29, 30, 31, 32, 59, 60, 61, 365, 366, 367, 800,
                2958465, 2958466, -693595, -700000, 4000000]
        for name, instance in copies:
            count = 0
            for year, month, day in itertools.product(years, months, days):
                result = result_of(lambda: instance._date(year, month, day))
                out(name, year, month, day, result, echo=False)
                count += 1
            out(name, 'integer grid rows', count, 'running digest', HASH.copy().hexdigest())

        # 2. the stated rule and the inverse functions on the valid part of the grid
        for name, instance in copies:
            mismatches = 0
            checked = 0
            for year, month, day in itertools.product([1900, 1999, 2000, 2024, 9000], range(-30, 40),
                                                      [-400, -31, -1, 0, 1, 15, 28, 29, 30, 31, 32, 400]):
                value = instance._date(year, month, day)
                total = year * 12 + (month - 1)
                expected = datetime.datetime(total // 12, total % 12 + 1, 1) + datetime.timedelta(days=day - 1)
                checked += 1
                if value != expected or (instance._year(value), instance._month(value), instance._day(value)) != (
                        expected.year, expected.month, expected.day):
                    mismatches += 1
            out(name, 'rule checked', checked, 'mismatches', mismatches)

        # 3. odd argument kinds in every position
        empty = AbstractExcelInPython.EmptyCell()
        odd = [2024, 3, '5', '05', ' 7 ', '+3', '-2', '1.5', '1e3', 'abc', '', '١٢', '1_0', '0x10', '9' * 30,
               True, False, 2.0, 2.5, -0.0, float('nan'), float('inf'), None, empty, Decimal('3'), Decimal('2.5'),
               Fraction(3, 1), 10 ** 30, -10 ** 30, [1], (2,), b'3', 1 + 0j, datetime.datetime(2020, 1, 1)]
        for name, instance in copies:
            for position in range(3):
                for value in odd:
                    args = [2024, 3, 5]
                    args[position] = value
                    out(name, 'odd', position, show(value), result_of(lambda: instance._date(*args)))
            for a, b in itertools.product(['abc', None, '12', -5, 10000, 2.5, '1899', '0'], repeat=2):
                out(name, 'pair', show(a), show(b), result_of(lambda: instance._date(a, b, 1)),
                    result_of(lambda: instance._date(a, 1, b)), result_of(lambda: instance._date(1, a, b)),
                    echo=False)
            out(name, 'pairs digest', HASH.copy().hexdigest())
            out(name, 'keywords', result_of(lambda: instance._date(day='3', month=2, year='1')),
                result_of(lambda: instance._date(2020, 1)), result_of(lambda: instance._date(2020, 1, 1, 1)))

        # 4. arguments are not mutated / shared; repeated calls agree
        for name, instance in copies:
            once = [result_of(lambda: instance._date('2020', m, '31')) for m in range(1, 13)]
            twice = [result_of(lambda: instance._date('2020', m, '31')) for m in range(1, 13)]
            out(name, 'repeat', once == twice, once)

        # 5. close to the interpreter recursion limit the helper fails (or not) at exactly the same depths
        limit = sys.getrecursionlimit()
        for name, instance in copies:
            for args in ((2020, 5, 17), ('2020', '5', '17'), ('2020', 'x', 1), (20000, 1, 1)):
                row = [result_of(lambda: at_depth(depth, lambda: instance._date(*args)))
                       for depth in range(limit - 40, limit)]
                out(name, 'deep', args, [r if r.startswith('EXC') else 'ok:' + r[-28:] for r in row])

        # 6. through the translated workbook and the Executor
        ex = Executor().set_executed_class(class_file=out_py)
        out('grid', [[show(c.value) for c in row] for row in ex.get_sheet('Dates')])
        for overrides in ([Cell('Dates', 'A', '1', value=1899)], [Cell('Dates', 'B', '1', value='14')],
                          [Cell('Dates', 'C', '1', value='zz')], [Cell('Dates', 'C', '1', value=-1)],
                          [Cell('Dates', 'A', '1', value=9999), Cell('Dates', 'B', '1', value=12),
                           Cell('Dates', 'C', '1', value=32)]):
            ex.set_cells(overrides)
            out('override', [(c.uid, show(c.value)) for c in overrides],
                [result_of(lambda: ex.get_cell(Cell('Dates', col, row)).value)
                 for col, row in (('D', '1'), ('E', '1'), ('H', '2'), ('A', '3'), ('B', '3'))])
    finally:
        shutil.rmtree(tmp, ignore_errors=True)

    print('DIGEST', HASH.hexdigest())


if __name__ == '__main__':
    main()
