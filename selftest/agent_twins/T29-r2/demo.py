"""Equivalence demo for r2 (RegexpBaseToken.get with a precompiled pattern, Lexer loop, keyword ordering).

Runs every regexp token class and the whole lexer over hand written and pseudo-random (fixed seed) texts,
including whitespace / newline / unicode-space boundary cases, then translates and executes a workbook whose
formulas differ only in whitespace and separators.  Every outcome (token classes, token values, rests,
exception classes and messages, generated code, computed values) goes into the printed digest.
"""
import hashlib
import os
import random
import shutil
import tempfile
import warnings

warnings.filterwarnings('ignore')

from openpyxl import Workbook

from excel2pycl import Parser, Executor, Cell
from excel2pycl.src.ast_builder import AstBuilder
from excel2pycl.src.lexer import Lexer
from excel2pycl.src.tokens import RegexpBaseToken, KeywordRegexpBaseToken
from excel2pycl.src.tokens.undefined_token import UndefinedToken

ALL = hashlib.sha256()


def out(*parts):
    line = ' | '.join(str(p) for p in parts)
    ALL.update(line.encode('utf-8') + b'\n')
    print(line)


def short(text, limit=90):
    text = str(text)
    return f'{text[:limit]!r} len={len(text)} sha1={hashlib.sha1(text.encode("utf-8")).hexdigest()[:12]}'


def describe_exception(e):
    return f'{type(e).__name__}: {short(e.args)}'


IN_CELL = Cell('Sheet1', 'J', '10')

print('== A. order of the token classes used by the lexer')
out('A', 'Lexer.TOKENS', ' '.join(token.__name__ for token in Lexer.TOKENS))
out('A', 'RegexpBaseToken.subclasses', ' '.join(token.__name__ for token in RegexpBaseToken.subclasses()))
out('A', 'KeywordRegexpBaseToken.subclasses',
    ' '.join(f'{token.__name__}:{token.regexp}' for token in KeywordRegexpBaseToken.subclasses()))

HAND_WRITTEN = [
    '', ' ', '\n', '\t', '=', '= ', ' =', '=\n', '=1', '=1 ', '=1\n', '=1\n\n', '=1\t', '= 1', '=\n1', '=1\n+2', '=1+\n2',
    '=1 +\t2', '=1\r\n+2', '=1+\r\n2', '=\x0b1', '=\x0c1', '=\xa01', '=1\xa0', '= 1', '=　1+2', '=\x1c1', '=1\x85',
    '=SUM(1,2)', '=SUM(1;2)', '=SUM(1~2)', '=SUM( 1 , 2 )', '=SUM (1,2)', '=S UM(1)', '=SUMIF(A1:A3,">1")',
    '=SUMIFS(A1:A3,B1:B3,">1")', '=SUMIFSX(1)', '=SUMX', '=COUNTBLANK(A1)', '=COUNTIFS(A1:A3,"a*")', '=COUNT(A1)',
    '=AVERAGEIFS(A1:A3,B1:B3,1)', '=AVERAGE(A1)', '=IFERROR(1,2)', '=IFS(1,2)', '=IF(1,2)', '=DATEDIF(1,2,"Y")',
    '=DATE(1,2,3)', '=DAY(1)', '=ROUNDDOWN(1,2)', '=ROUNDUP(1,2)', '=ROUND(1,2)', '=XMATCH(1,A1:A2)', '=MATCH(1,A1:A2)',
    '=MAX(1)', '=MIN(1)', '=MID("a",1,1)', '=MONTH(1)', '=OR(1)', '=ORX', '=ANDY', '=TODAY()', '=TEXT(1,"0")', '=VALUE("1")',
    '=A1', '=$A$1', '=A$1', '=$A1', '=AA10', '=A0', '=A', '=A1:B2', '=A1:A2', '=A1:C1', '=$A$1:$A$2', '=A:A', '=A:C',
    '=A1:A', '=A:A1', '=A1:', '=:A1', '=A1:B2:C3', '=A1:A2:A3', '=A1 :A2', '=A1: A2', '=A12', '=A1:A23', '=A1:B23',
    '=Sheet1!A1', "='Sheet 1'!A1", "='Sh!eet'!A1", '=Sheet1!A1:B2', "='Sheet 1'!A1:A2", '=Sheet1!A:A', '=!A1', "=''!A1",
    '=Sheet1!', '=Sheet1!A', '=Лист1!A1', '=A1A1', '=A1.5', '=A1e3', '=1A', '=1A1',
    '=1', '=01', '=1.5', '=1.', '=.5', '=1.5.5', '=1e3', '=1e-3', '=1e+3', '=1E3', '=1e', '=1.5e2', '=1 000', '=1,5', '=1_000',
    '="a"', '=""', '="', '="a', '=a"', '="a""b"', '="a" "b"', '="a"&"b"', '="a\nb"', '="a\tb"', '=" a "', '="a;b,c"', '="(1"',
    '="a*"', '="a?"', '="~*"', '="~~*"', '="a~"', '="*"', '="?"', '="~"', '="~?x*"', '="a*""', '="a*"b"', '="*a"&"b"',
    '=TRUE', '=FALSE', '=TRUE()', '=FALSE()', '=TRUE( )', '=TRUEX', '=True', '=true',
    '=<>', '=<=', '=>=', '=<', '=>', '==', '=<<', '=><', '==>', '=< >', '=< =', '=1<>2', '=1< >2', '=1<=2', '=1=<2', '=1=>2',
    '=+', '=-', '=*', '=/', '=&', '=%', '=~', '=;', '=,', '=(', '=)', '=()', '=^', '=#', '=@', '=!', '=?', '=\\', '={1}', '=[1]',
    '=1+2-3*4/5&6%', '=-(-1)', '=1 %', '=10 % + 1', '=#REF!', '=#N/A', '=A1^2',
    '=sum(1)', '=Sum(1)', '=sUM(1)', '=a1', '=aA1', '=Aa1',
    'SUM(1)', '1', 'A1', '"x"', ' =1', '\n=1', "'=1",
]

ALPHABET = ['=', '+', '-', '*', '/', '&', '%', '<', '>', '(', ')', ',', ';', '~', '"', "'", '!', '$', ':', '.', ' ', '\t', '\n',
            'A', 'B', 'Z', 'a', 'e', 'E', '0', '1', '9', '?', 'SUM', 'SUMIF', 'SUMIFS', 'IF', 'IFS', 'COUNT', 'COUNTIFS',
            'TRUE', 'FALSE', 'A1', 'A1:A3', 'B:B', 'Sheet1!', '">1"', '"a*"', '1.5', '1e3', 'AVERAGEIFS', 'OR', 'AND', 'DATE']
rng = random.Random(29)
RANDOM_TEXTS = []
for _ in range(1500):
    RANDOM_TEXTS.append(('=' if rng.random() < 0.8 else '') + ''.join(rng.choice(ALPHABET) for _ in range(rng.randint(1, 9))))


def lex(text):
    try:
        tokens = Lexer.parse(text, IN_CELL)
    except Exception as e:  # noqa
        return None, 'LEX ' + describe_exception(e)
    return tokens, 'TOKENS ' + short(' '.join(f'{type(t).__name__}={t.value!r}' for t in tokens), 140)


print('== B. the whole lexer (and the parser on top of it)')
for text in HAND_WRITTEN + RANDOM_TEXTS:
    tokens, description = lex(text)
    if tokens is None:
        out('B', repr(text), description)
        continue
    try:
        ast = AstBuilder.parse(tokens, IN_CELL)
        parsed = 'AST ' + short(repr(ast), 0)
    except Exception as e:  # noqa
        parsed = 'AST ' + describe_exception(e)
    out('B', repr(text), description, parsed)

print('== C. every regexp token class on its own')
PIECES = ['', ' ', '\n', '1', '1\n', '1 2', '12abc', '1.5e-3x', '1e', '"a"', '"a"b', '"a*"', '"a*"&B1', '"~*"', '"a', 'TRUE', 'TRUE()',
          'TRUEX', 'FALSE()1', 'A1', 'A1+1', 'A12', 'A1:', 'A1:A2', 'A1:A23', 'A1:B2', 'A1:B2)', 'A1:B2:C3', 'A1:C1,', 'A:A', 'A:B)',
          '$A$1:$A$2+', 'Sheet1!A1)', "'My sheet'!A1:A3,", 'Sheet1!A:A', '(', ')', '()', ' (', '\t1', ';', ',', '~', ';;', '<>', '<>1',
          '>=', '>=1', '<=', '<=\n', '=', '==', '=1', '>', '>1', '<', '<1', '+', '+1', '-', '--', '*', '**', '/', '/2', '&', '&"a"', '%',
          '%%', 'SUM', 'SUM(', 'SUMIF(', 'SUMIFS(', 'SUMIFSS', 'COUNT(', 'COUNTIFS(', 'COUNTBLANK(', 'AVERAGE(', 'AVERAGEIFS(',
          'IF(', 'IFS(', 'IFERROR(', 'ROUND(', 'ROUNDUP(', 'ROUNDDOWN(', 'DATE(', 'DATEDIF(', 'DAY(', 'MATCH(', 'XMATCH(', 'OR(', 'AND(',
          'sum(', 'x', '\xa01', '1\xa0', 'A1\n', 'A1\nB', '"a"\n', 'SUM\n', 'SUM\n(', '"a\nb"']
for token_class in Lexer.TOKENS:
    if token_class is UndefinedToken:
        continue
    for piece in PIECES:
        try:
            token, rest = token_class.get(piece, IN_CELL)
            if token is None:
                if rest is not piece:
                    out('C', token_class.__name__, repr(piece), 'NO-MATCH but different rest', repr(rest))
                continue
            out('C', token_class.__name__, repr(piece), f'value={token.value!r}', f'rest={rest!r}', type(token.value).__name__,
                type(rest).__name__)
        except Exception as e:  # noqa
            out('C', token_class.__name__, repr(piece), describe_exception(e))
for piece in ['', '1', 'x y']:
    try:
        UndefinedToken.get(piece, IN_CELL)
        out('C', 'UndefinedToken', repr(piece), 'no exception')
    except Exception as e:  # noqa
        out('C', 'UndefinedToken', repr(piece), describe_exception(e))

print('== D. end to end: whitespace and separator variants of the same formulas')
VARIANTS = [
    ('=SUM(A1,A2,A3)', '=SUM(A1;A2;A3)', '= SUM ( A1 , A2 ; A3 )', '=SUM(\tA1,\tA2,\tA3)', '=SUM(A1~A2~A3)'),
    ('=IF(A1>2,"y","n")', '=IF(A1>2;"y";"n")', '=IF( A1 > 2 , "y" ; "n" )', '=IF(A1 >2,"y" ,"n")'),
    ('=SUMIF(A1:A6,">2",C1:C6)', '=SUMIF(A1:A6;">2";C1:C6)', '=SUMIF( A1:A6 , ">2" , C1:C6 )', '= SUMIF(A1:A6 ;">2", C1:C6)'),
    ('=SUMIFS(C1:C6,A1:A6,">2",B1:B6,"a*")', '=SUMIFS(C1:C6;A1:A6;">2";B1:B6;"a*")',
     '=SUMIFS( C1:C6 , A1:A6 , ">2" , B1:B6 , "a*" )'),
    ('=COUNTIFS(A1:A6,">2",B1:B6,"?")', '=COUNTIFS(A1:A6;">2";B1:B6;"?")', '=COUNTIFS ( A1:A6 ; ">2" , B1:B6 ; "?" )'),
    ('=AVERAGEIFS(C1:C6,A1:A6,"<5")', '=AVERAGEIFS(C1:C6;A1:A6;"<5")', '=AVERAGEIFS(\tC1:C6 ,A1:A6, "<5" )'),
    ('=ROUND(A1/3,2)+10%', '=ROUND(A1/3;2)+10%', '= ROUND( A1 / 3 , 2 ) + 10 %'),
    ('="a"&B2&" "', '= "a" & B2 & " "'),
    ('=VLOOKUP(3,A1:B6,2,0)', '=VLOOKUP(3;A1:B6;2;0)', '=VLOOKUP( 3 , A1:B6 ; 2 , 0 )'),
    ('=1+2*3', '= 1 + 2 * 3', '=1 +2* 3', '=1+2*3 ', '=1+2*3\n', '=1\n+2*3', '=1+\n2*3'),
    ('=SUMIF(A1:A6,">"&A2)', '=SUMIF(A1:A6;">"&A2)', '=SUMIF(A1:A6 , ">" & A2 )'),
]
tmp_dir = tempfile.mkdtemp(prefix='t29_r2_')
try:
    workbook = Workbook()
    sheet = workbook.active
    sheet.title = 'Sheet1'
    for row in [(1, 'a', 10), (2, 'ab', 20), (3, 'B', 30), (4, 'abc', 40), (5, None, 50), (6, 'b', 60)]:
        sheet.append(row)
    positions = []
    for row_index, variants in enumerate(VARIANTS):
        for column_index, formula in enumerate(variants):
            sheet.cell(row=row_index + 1, column=column_index + 6, value=formula)
            positions.append((row_index, column_index + 5, formula))
    xlsx = os.path.join(tmp_dir, 'book.xlsx')
    workbook.save(xlsx)
    for row_index, column_index, formula in positions:
        target = os.path.join(tmp_dir, f'out_{row_index}_{column_index}.py')
        try:
            code = Parser().set_excel_file_path(xlsx).set_entrypoint_cell(Cell(0, column_index, row_index)) \
                .write_translation(target).get_translation()
        except Exception as e:  # noqa
            out('D', repr(formula), 'TRANSLATE ' + describe_exception(e))
            continue
        functions = code[code.rindex("return '#VALUE!'"):].replace(f'_0_{column_index}_{row_index}', '_CELL')
        try:
            value = Executor().set_executed_class(class_file=target).get_cell(Cell(0, column_index, row_index)).value
            result = f'{type(value).__name__} {value!r}'
        except Exception as e:  # noqa
            result = 'EXEC ' + describe_exception(e)
        out('D', repr(formula), result, short(functions, 0))
finally:
    shutil.rmtree(tmp_dir, ignore_errors=True)

print('DIGEST', ALL.hexdigest())
