"""Equivalence demo for r1 (C16: rounding helpers and percent normalisation).

Exercises _round/_roundup/_rounddown/_normalize_float_number of BOTH copies of the runtime
(the AbstractExcelInPython class and the class generated from the template in context.py),
directly and through formulas of a workbook, and prints a deterministic digest.
"""
import datetime
import hashlib
import os
import random
import re
import shutil
import sys
import tempfile
from decimal import Decimal

import openpyxl

from excel2pycl import Cell, Parser, Executor
from excel2pycl.src.utilities.abstract_excel_in_python_class import AbstractExcelInPython


class Direct(AbstractExcelInPython):
    pass


lines = []


def emit(*parts):
    lines.append(' | '.join(str(p) for p in parts))


def call(fn, *args):
    try:
        value = fn(*args)
    except BaseException as exc:  # noqa
        return 'EXC:' + type(exc).__name__
    return f'{type(value).__name__}:{value!r}'


def numbers():
    rng = random.Random(5816)
    fixed = [0, 0.0, -0.0, 1, -1, 0.5, -0.5, 1.5, 2.5, -2.5, 0.05, 0.15, 0.25, 0.35, 1.005, 2.675, -2.675, 1.045,
             8.325, 1234.5678, -1234.5678, 0.1 + 0.2, 1e-7, 5e-16, 4.9999999999999994e-16, 1e15, 123456789012345.0,
             0.999999999999999, 999999999999999.0, 99999999999999.95, 1e22, 1.7976931348623157e308, 5e-324, 2 ** 53,
             3.14, 3.1415926, 3.141, 14.5, 15.5, 149.99999999999997, 0.285, 1.115, 1.125, 10, 25, 149, 150, 151,
             float('inf'), float('-inf'), float('nan'), True, False]
    out = list(fixed)
    for _ in range(400):
        digits = rng.randint(1, 15)
        mantissa = rng.randint(1, 10 ** digits - 1)
        exponent = rng.randint(-12, 6)
        sign = rng.choice((1, -1))
        out.append(float(f'{sign * mantissa}e{exponent}'))
    for _ in range(150):
        # exact halves at various precisions
        digits = rng.randint(0, 8)
        whole = rng.randint(0, 10 ** 6)
        out.append(float(Decimal(whole * 10 + 5).scaleb(-digits - 1)) * rng.choice((1, -1)))
    return out


ODD_NUMBERS = ['1.5', ' 2.5 ', 'abc', '', None, [], [1], (2.5,), {}, b'3', Decimal('2.675'), 10 ** 400, -10 ** 30,
               datetime.datetime(2024, 1, 1), object, 1 + 2j]
ODD_DIGITS = [0.0, 1.9, -1.9, '2', '-1', ' 3 ', 'x', None, [], True, False, 2.5, float('nan'), float('inf'),
              Decimal('1'), 10 ** 6, -10 ** 6, 400, 399, 385, -400, 1 + 0j]


def exercise(tag, instance):
    nums = numbers()
    digit_counts = list(range(-17, 18)) + [20, 30, 100, 300, 330, -20, -100, -308, -309, -330]
    empty = instance.EmptyCell()
    for name in ('_round', '_roundup', '_rounddown'):
        fn = getattr(instance, name)
        sha = hashlib.sha256()
        count = 0
        for number in nums:
            for num_digits in digit_counts:
                sha.update((call(fn, number, num_digits) + '\n').encode())
                count += 1
        emit(tag, name, 'grid', count, sha.hexdigest())
        # a readable sample
        for number in nums[:53]:
            emit(tag, name, repr(number), [call(fn, number, d) for d in (-2, -1, 0, 1, 2, 3, 15)])
        for number in ODD_NUMBERS + [empty]:
            emit(tag, name, 'oddnum', repr(number) if number is not empty else 'EmptyCell',
                 [call(fn, number, d) for d in (0, 2, -1, 'x', None)])
        for num_digits in ODD_DIGITS + [empty]:
            emit(tag, name, 'odddig', repr(num_digits) if num_digits is not empty else 'EmptyCell',
                 [call(fn, n, num_digits) for n in (2.675, -1234.5678, 'abc', None, 0)])
        # wrong arity / keywords
        emit(tag, name, 'arity', call(fn), call(fn, 1), call(fn, 1, 2, 3),
             call(lambda: fn(number=2.5, num_digits=0)), call(lambda: fn(num_digits=1, number=0.25)))
    fn = instance._normalize_float_number
    sha = hashlib.sha256()
    for number in nums:
        for divisor in (1, 100):
            try:
                arg = number / divisor
            except BaseException as exc:  # noqa
                arg = number
            sha.update((call(fn, arg) + '\n').encode())
    emit(tag, '_normalize_float_number', 'grid', sha.hexdigest())
    for number in nums[:53]:
        emit(tag, '_normalize_float_number', repr(number), call(fn, number), call(fn, number / 100))
    for number in ODD_NUMBERS + [empty]:
        emit(tag, '_normalize_float_number', 'odd', repr(number) if number is not empty else 'EmptyCell',
             call(fn, number))
    emit(tag, '_normalize_float_number', 'arity', call(fn), call(fn, 1, 2), call(lambda: fn(number=0.1 + 0.2)))


def build_workbook(path):
    wb = openpyxl.Workbook()
    ws = wb.active
    ws.title = 'R'
    values = [2.675, -2.675, 1.005, 0.5, 1.5, 2.5, -0.5, 1234.5678, -1234.5678, 0.285, 149.99999999999997, 15,
              0.1, 33, 1e-7, 123456789012345.0, 0, 7, 12.5, 99.995]
    for index, value in enumerate(values, start=1):
        ws.cell(row=index, column=1, value=value)
        ws.cell(row=index, column=2, value=f'=ROUND(A{index}, 2)')
        ws.cell(row=index, column=3, value=f'=ROUNDUP(A{index}, 1)')
        ws.cell(row=index, column=4, value=f'=ROUNDDOWN(A{index}, 1)')
        ws.cell(row=index, column=5, value=f'=ROUND(A{index}, -1)')
        ws.cell(row=index, column=6, value=f'=ROUNDUP(A{index})')
        ws.cell(row=index, column=7, value=f'=ROUNDDOWN(A{index},)')
        ws.cell(row=index, column=8, value=f'=A{index}%')
        ws.cell(row=index, column=9, value=f'=A{index}%*A{index}%')
        ws.cell(row=index, column=10, value=f'=A{index}%+1')
        ws.cell(row=index, column=11, value=f'=ROUND(A{index}%, 3)')
        ws.cell(row=index, column=12, value=f'=ROUNDUP(A{index}*3, 0-2)')
        ws.cell(row=index, column=13, value=f'=ROUNDDOWN(ROUND(A{index}, 3), 2)')
        ws.cell(row=index, column=14, value=f'=ROUND(Z{index}, 1)')
        ws.cell(row=index, column=15, value=f'=15%*A{index}')
    ws.cell(row=1, column=17, value='text')
    ws.cell(row=2, column=17, value='=ROUND(Q1, 1)')
    ws.cell(row=3, column=17, value='=ROUND(1.005, Q1)')
    ws.cell(row=4, column=17, value='=Q1%')
    ws.cell(row=5, column=17, value='=50%')
    ws.cell(row=6, column=17, value='=ROUND(2.5, 0)')
    wb.save(path)
    return len(values)


def main():
    exercise('class', Direct())

    tmp = tempfile.mkdtemp(prefix='t58r1_')
    try:
        xlsx = os.path.join(tmp, 'book.xlsx')
        out_py = os.path.join(tmp, 'book_translation.py')
        rows = build_workbook(xlsx)
        parser = Parser().set_excel_file_path(xlsx)
        parser.write_translation(out_py)
        text = parser.get_translation()
        # the per-cell functions (generated from the formulas) must be identical
        functions = re.findall(r'^    def (_\d+_\d+_\d+(?:_\d+)?)\(self\):\n        return (.*)$', text, re.M)
        emit('generated cell functions', len(functions),
             hashlib.sha256(repr(functions).encode()).hexdigest())
        for name, code in functions:
            if 'round' in code or '_normalize' in code:
                emit('fn', name, code)

        executor = Executor().set_executed_class(class_file=out_py)
        exercise('template', executor.get_executed_class())

        def show(label):
            for row in range(rows):
                emit(label, row + 1, [call(lambda: executor.get_cell(Cell(0, column, row)).value)
                                      for column in range(15)])
            for row in range(6):
                emit(label, 'Q', row + 1, call(lambda: executor.get_cell(Cell('R', 'Q', str(row + 1))).value))

        show('wb')
        executor.set_cells([Cell(0, 0, 0, value=8.325), Cell('R', 'A', '2', value=-0.125),
                            Cell(0, 0, 2, value='7.5'), Cell(0, 0, 3, value='oops'), Cell(0, 0, 4, value=None),
                            Cell(0, 0, 5, value=True), Cell(0, 25, 6, value=0.45), Cell(0, 16, 0, value=2)])
        show('wb+overrides')
        emit('sheet raises', call(executor.get_sheet, 'R'))
        executor.set_cells([Cell(0, 16, 0, value=2), Cell(0, 0, 3, value=0.5), Cell(0, 0, 4, value=3),
                            Cell(0, 0, 2, value=7.5)])
        try:
            grid = executor.get_sheet('R')
            emit('sheet', len(grid), sorted({len(r) for r in grid}),
                 hashlib.sha256(repr([[f'{type(c.value).__name__}:{c.value!r}' for c in r] for r in grid]).encode())
                 .hexdigest())
        except BaseException as exc:  # noqa
            emit('sheet', 'EXC:' + type(exc).__name__)
    finally:
        shutil.rmtree(tmp, ignore_errors=True)

    digest = hashlib.sha256('\n'.join(lines).encode()).hexdigest()
    print('\n'.join(lines))
    print('lines', len(lines))
    print('digest', digest)


if __name__ == '__main__':
    main()
    sys.exit(0)
