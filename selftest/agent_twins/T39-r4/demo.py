"""Equivalence demo for r4: Parser._translate split into _has_changes / _read_excel (the safety gate) /
_forget_changes, and the message of E2PyclSafetyException built by a helper.

Drives Parser objects through many histories (check enabled / disabled / toggled, path set late or never, a file that
changes on disk between calls, failures followed by retries, entry points) and prints after every step what a user
can observe: the exception class, its cells and message, the digest of the translation, the cached translation and
the change flags. Also constructs the exception directly with many argument forms.
"""
import collections
import hashlib
import os
import shutil
import sys
import tempfile

from openpyxl import Workbook

from excel2pycl import Parser, Executor, Cell
from excel2pycl.src.exceptions import E2PyclSafetyException, E2PyclParserException, E2PyclException


def build_workbook(path, sheets):
    wb = Workbook()
    wb.remove(wb.active)
    for title, cells in sheets.items():
        ws = wb.create_sheet(title)
        for address, value in cells.items():
            ws[address] = value
    wb.save(path)
    wb.close()


SAFE = {'calc': {'A1': 2, 'A2': 3, 'B1': '=SUM(A1:A2)', 'B2': '=IF(B1>4;MAX(A1:A2);MIN(A1:A2))'}}
SAFE_2 = {'calc': {'A1': 20, 'A2': 30, 'B1': '=SUM(A1:A2)', 'B2': '=IF(B1>4;MAX(A1:A2);MIN(A1:A2))', 'C1': '=B1*2'}}
UNSAFE = {'calc': {'A1': 2, 'A2': 3, 'B1': '=SUM(A1:A2)', 'D7': 'eval("1")'},
          "o'clock": {'AB3': '__import__("os").system("id")', 'A1': '=MAX(1;2)', 'B2': 'MAX(1) min(2)'},
          'Ünï': {'C2': 'os.path.join(a, b)', 'C3': '=SUM(1;eval(2))'}}
UNSAFE_LOWER_FORMULA = {'s': {'A1': 1, 'A2': '=sum(A1:A1)'}}


SCRATCH = ['<no scratch directory yet>']


def digest(text):
    return None if text is None else f'{len(text)}:{hashlib.sha256(text.encode()).hexdigest()[:20]}'


def state(parser):
    flags = ''.join('1' if getattr(parser, name) else '0' for name in (
        '_excel_file_path_has_been_changed', '_entrypoint_cell_has_been_changed', '_safety_check_has_been_changed'))
    return f'flags={flags} check={parser._safety_check} cached={digest(parser._translation)}'


def step(label, parser, action):
    try:
        result = action()
        if isinstance(result, Parser):
            shown = 'Parser' + (' (same object)' if result is parser else ' (other object)')
        elif isinstance(result, str):
            shown = 'text ' + digest(result)
        else:
            shown = repr(result)
    except E2PyclSafetyException as error:
        shown = (f'{type(error).__name__} cells={list(error.suspicious_cells.items())!r} str={str(error)!r} '
                 f'args={error.args!r} parser_exc={isinstance(error, E2PyclParserException)}')
    except BaseException as error:
        shown = f'{type(error).__name__} {str(error)[:100]!r}'
    shown = shown.replace(SCRATCH[0], '<scratch>')
    print(f'{label}: {shown}\n      {state(parser)}')


def main():
    directory = tempfile.mkdtemp(prefix='r4demo')
    SCRATCH[0] = directory
    try:
        safe, unsafe, lower, moving = (os.path.join(directory, name) for name in
                                       ('safe.xlsx', 'unsafe.xlsx', 'lower.xlsx', 'moving.xlsx'))
        out_py = os.path.join(directory, 'out.py')
        build_workbook(safe, SAFE)
        build_workbook(unsafe, UNSAFE)
        build_workbook(lower, UNSAFE_LOWER_FORMULA)

        print('== no path')
        parser = Parser()
        step('fresh', parser, lambda: None)
        step('get_translation', parser, parser.get_translation)
        step('write_translation', parser, lambda: parser.write_translation(out_py))
        print('   file written:', os.path.exists(out_py))
        step('set empty path + get', parser, lambda: parser.set_excel_file_path('').get_translation())
        step('missing file', parser, lambda: parser.set_excel_file_path(os.path.join(directory, 'nope.xlsx')).get_translation())
        step('disable + missing file', parser, lambda: parser.disable_safety_check().get_translation())

        print('== safe workbook, default check')
        parser = Parser().set_excel_file_path(safe)
        step('get', parser, parser.get_translation)
        step('get again (cached)', parser, parser.get_translation)
        step('disable', parser, parser.disable_safety_check)
        step('get', parser, parser.get_translation)
        step('enable', parser, parser.enable_safety_check)
        step('write', parser, lambda: parser.write_translation(out_py))
        print('   file written:', os.path.exists(out_py), digest(open(out_py, encoding='utf-8').read()))
        executor = Executor().set_executed_class(class_file=out_py)
        print('   B1 =', executor.get_cell(Cell('calc', 'B', '1')).value, ' B2 =', executor.get_cell(Cell('calc', 'B', '2')).value)
        os.remove(out_py)

        print('== unsafe workbook')
        parser = Parser().set_excel_file_path(unsafe)
        step('get', parser, parser.get_translation)
        step('get again', parser, parser.get_translation)
        step('write', parser, lambda: parser.write_translation(out_py))
        print('   file written:', os.path.exists(out_py))
        step('explicit enable + get', parser, lambda: parser.enable_safety_check().get_translation())
        step('disable + get', parser, lambda: parser.disable_safety_check().get_translation())
        step('entry point calc!B1, still disabled', parser,
             lambda: parser.set_entrypoint_cell(Cell('calc', 'B', '1')).get_translation())
        step('get again (cached)', parser, parser.get_translation)
        step('enable + get', parser, lambda: parser.enable_safety_check().get_translation())
        step('get again', parser, parser.get_translation)
        step('switch to the safe file', parser, lambda: parser.set_excel_file_path(safe).get_translation())
        step('switch back to the unsafe file', parser, lambda: parser.set_excel_file_path(unsafe).get_translation())
        step('disable, write', parser, lambda: parser.disable_safety_check().write_translation(out_py))
        print('   file written:', os.path.exists(out_py))
        if os.path.exists(out_py):
            executor = Executor().set_executed_class(class_file=out_py)
            print('   B1 =', executor.get_cell(Cell('calc', 'B', '1')).value)
            os.remove(out_py)

        print('== lower-case formula')
        for enabled in (True, False):
            parser = Parser().set_excel_file_path(lower)
            parser = parser.enable_safety_check() if enabled else parser.disable_safety_check()
            step(f'check {enabled}: get', parser, parser.get_translation)
            step(f'check {enabled}: get again', parser, parser.get_translation)

        print('== a file that changes on disk')
        build_workbook(moving, SAFE)
        parser = Parser().set_excel_file_path(moving)
        step('get', parser, parser.get_translation)
        build_workbook(moving, SAFE_2)
        step('file replaced, get (cached)', parser, parser.get_translation)
        step('same path set again, get', parser, lambda: parser.set_excel_file_path(moving).get_translation())
        build_workbook(moving, UNSAFE)
        step('file became unsafe, get (cached)', parser, parser.get_translation)
        step('enable again, get', parser, lambda: parser.enable_safety_check().get_translation())
        step('get again', parser, parser.get_translation)
        build_workbook(moving, SAFE)
        step('file safe again, get', parser, parser.get_translation)
        step('get (cached)', parser, parser.get_translation)

        print('== two parsers interleaved')
        first, second = Parser().set_excel_file_path(safe), Parser().set_excel_file_path(unsafe).disable_safety_check()
        step('first get', first, first.get_translation)
        step('second get', second, second.get_translation)
        step('second enable + get', second, lambda: second.enable_safety_check().get_translation())
        step('first get (cached)', first, first.get_translation)

        print('== the exception constructed directly')
        cases = [
            ((), {}),
            ((), {'suspicious_cells': {}}),
            ((), {'suspicious_cells': {"'s'A1": ['f(1)']}}),
            ((), {'suspicious_cells': {"'s'A1": ['f(1)', 'g(2)'], "'t'ZZ9": ['h("x")']}}),
            ((), {'suspicious_cells': collections.OrderedDict([('b', [2]), ('a', [1])])}),
            ((), {'suspicious_cells': {1: 2, None: (3,), ('t',): 'text'}}),
            (('message',), {}),
            (('message', 2), {'suspicious_cells': {'k': ['v']}}),
            ((), {'other': 1}),
            ((), {'suspicious_cells': None}),
            ((), {'suspicious_cells': [('a', 1)]}),
            (({'a': 1},), {}),
        ]
        for args, kwargs in cases:
            try:
                error = E2PyclSafetyException(*args, **kwargs)
                print(f'{args!r} {kwargs!r} -> str={str(error)!r} args={error.args!r} cells={error.suspicious_cells!r} '
                      f'bases={[c.__name__ for c in type(error).__mro__[1:4]]} is_e2pycl={isinstance(error, E2PyclException)}')
            except BaseException as failure:
                print(f'{args!r} {kwargs!r} -> raises {type(failure).__name__}')
    finally:
        shutil.rmtree(directory, ignore_errors=True)


if __name__ == '__main__':
    sys.dont_write_bytecode = True
    main()
