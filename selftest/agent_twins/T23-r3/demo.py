"""Equivalence demonstration for r3 (Excel reader: safety scan with precompiled class-level patterns, parse() split
into _read_worksheet/_get_cell_content, sheet sizes via max()).

1. Excel._get_suspicious_constructions on many values (texts with Python-like calls, Excel formulas, numbers, dates...).
2. Excel.parse on several workbooks (hostile texts in constants / formula string literals / sheet titles, ragged rows,
   empty sheets, an array formula): raw data, titles, sheet sizes, the ordered suspicious-cells map, is_safe().
3. Parser with the safety check enabled and disabled: exception class + message, or sha256 of the generated text
   (the runtime template is untouched so the whole text must be the same) and every cell value; hostile constant texts
   must come back as exactly the original strings and must not have been executed.
"""
import builtins
import datetime
import hashlib
import os
import shutil
import tempfile

from openpyxl import Workbook
from openpyxl.worksheet.formula import ArrayFormula

from excel2pycl import Parser, Executor, Cell, Excel

LINES = []


def emit(line):
    LINES.append(line)
    print(line)


def show(value):
    return f'{type(value).__name__}:{value!r}'


def sha(text):
    return hashlib.sha256(text.encode()).hexdigest()


MARKER = '_t23_r3_marker'

SCAN_VALUES = [
    None, 0, 1, -5, 3.25, True, False, '', ' ', 'plain text', 'print(1)', 'SUM(A1)', '=SUM(A1:A3)', '=sum(A1)',
    'os.system("rm -rf /")', '__import__("os").system("x")', 'Exec(1)', 'eXEC(1)', 'execA(1)', 'A(', 'a()', 'A()',
    'a(b(c))', 'A(b(c))', 'a(B(c))', 'f(x) and G(y) and h(z)', 'x = (1)', '(lambda: 1)()', '1(2)', '_(3)', 'é(1)',
    'SUMa(1)', 'aSUM(1)', 'a_SUM(1)', 'a.SUM(1)', 'sum (1)', 'sum\n(1)', 'f(\n)', 'f(a\nb)', 'f(a)\ng(b)', 'F(a)g(b)',
    'g(b)F(a)', '=IF(A1>0;"eval(1)";"ok")', '=IF(A1>0;"EVAL(1)";"ok")', "=LEFT(\"getattr(x,'y')\";3)",
    '{setattr(builtins, "x", 1)}', '"""', "'''", '\\', "\\'); import os; ('", 'self._arguments.clear()',
    'f' * 200 + '(' + 'x' * 200 + ')', 'f(' * 50 + ')' * 50, 'a(1) ' * 30, 'TRUE()', 'true()', 'Dateutil(1)',
    datetime.datetime(2020, 1, 2, 3, 4, 5), datetime.date(2021, 5, 6), datetime.time(1, 2), 10 ** 30, 1e-7,
    float('inf'), b'bytes(1)', ['list(1)'], ('t(1)', 'U(2)'), {'k(1)': 'V(2)'},
]

HOSTILE_TEXTS = [
    f'setattr(__import__("builtins"), "{MARKER}", 1)',
    f"' + str(setattr(__import__('builtins'), '{MARKER}', 2)) + '",
    f'" + str(setattr(__import__("builtins"), "{MARKER}", 3)) + "',
    f"\\' + str(setattr(__import__('builtins'), '{MARKER}', 4)) + \\'",
    "line1\nline2'''\n    def evil(self): pass",
    '{titles}', '{{}}', '{0}', '%s', '\\', '\\\\', "it's", 'say "hi"', ' =1+1', "'=1+1", 'tab\there', '\r\n',
    'юникод(1)', 'ünï(1)', 'Ünï(1)', '🙂(1)', 'NUL\\x00',
]


def workbook_constants(path):
    wb = Workbook()
    ws = wb.active
    ws.title = 'Consts'
    for index, text in enumerate(HOSTILE_TEXTS, start=1):
        ws.cell(row=index, column=1, value=text)
        ws.cell(row=index, column=2, value=index)
    wb.save(path)


def workbook_safe_constants(path):
    wb = Workbook()
    ws = wb.active
    ws.title = "It's \"quoted\" {x} %s sheet"
    texts = [t for t in HOSTILE_TEXTS if not Excel._get_suspicious_constructions(t)]
    for index, text in enumerate(texts, start=1):
        ws.cell(row=index, column=1, value=text)
    ws.cell(row=1, column=3, value='=LEFT(A6;3)')
    ws.cell(row=2, column=3, value='=IF(B1=0;"it\'s";"no")')
    ws.cell(row=3, column=3, value='=CONCATENATE("\\";"{0}";"%s")')
    ws2 = wb.create_sheet("O'Brien")
    ws2['B2'] = "=SUM(1;2)"
    ws2['D5'] = 'far corner'
    wb.create_sheet('Empty')
    wb.save(path)
    return texts


def workbook_formulas(path):
    wb = Workbook()
    ws = wb.active
    ws.title = 'F'
    ws['A1'] = '=IF(1>0;"eval(1)";"ok")'
    ws['A2'] = '=IF(1>0;"EVAL(1)";"ok")'
    ws['B1'] = '=LEFT("print(x)";5)'
    ws['C3'] = '=SUM(1;2)'
    ws['E2'] = 'open(1)'
    ws2 = wb.create_sheet('second(1)')
    ws2['A1'] = 'x(1) y(2) Z(3)'
    ws2['C1'] = 5
    ws2['A4'] = 'tail'
    wb.save(path)


def workbook_lone_equals(path):
    wb = Workbook()
    ws = wb.active
    ws['A1'] = 'fine'
    ws['B2'] = '='
    wb.save(path)


def workbook_ragged(path):
    wb = Workbook()
    ws = wb.active
    ws.title = 'Ragged'
    ws['A1'] = 1
    ws['F2'] = 'wide'
    ws['B4'] = 2.5
    ws['C7'] = datetime.datetime(2024, 2, 29)
    ws['A8'] = True
    ws['A9'] = ArrayFormula('A9:A9', '=SUM(A1:B4) ')
    ws2 = wb.create_sheet('OneCell')
    ws2['J10'] = 'only'
    wb.create_sheet('Nothing')
    ws4 = wb.create_sheet('Calls')
    ws4['B2'] = 'first(1)'
    ws4['A3'] = 'second(2) THIRD(3)'
    ws4['C1'] = 'zeroth(0)'
    wb.save(path)


def dump_excel(path, label):
    try:
        excel = Excel.parse(path)
    except BaseException as error:  # noqa
        emit(f'{label} Excel.parse raised {type(error).__name__}')
        return
    emit(f'{label} titles {excel.get_titles()!r}')
    emit(f'{label} sizes {excel.get_sheets_size()!r}')
    emit(f'{label} data {excel._data!r}')
    emit(f'{label} suspicious {list(excel._suspicious_cells.items())!r}')
    try:
        emit(f'{label} is_safe -> {excel.is_safe()!r}')
    except BaseException as error:  # noqa
        emit(f'{label} is_safe raised {type(error).__name__}: {error} / {error.suspicious_cells!r}')


def run_parser(path, tmp, label, safety):
    parser = Parser().set_excel_file_path(path)
    parser = parser.enable_safety_check() if safety else parser.disable_safety_check()
    try:
        text = parser.get_translation()
    except BaseException as error:  # noqa
        emit(f'{label} safety={safety} translation raised {type(error).__name__}: {error}')
        return
    emit(f'{label} safety={safety} translation sha256 {sha(text)}')
    out_py = os.path.join(tmp, f'generated_{sha(label + str(safety))[:10]}.py')
    with open(out_py, 'w', encoding='utf-8') as f:
        f.write(text)
    executor = Executor().set_executed_class(class_file=out_py)
    instance = executor.get_executed_class()
    emit(f'{label} safety={safety} loaded titles {instance.get_titles()!r}')
    for title, index in instance.get_titles().items():
        for row in executor.get_sheet(index):
            for cell in row:
                if not isinstance(cell.value, instance.EmptyCell):
                    emit(f'{label} safety={safety} {title!r} {cell.column},{cell.row} -> {show(cell.value)}')
    emit(f'{label} safety={safety} marker executed: {hasattr(builtins, MARKER)}')


def main():
    for value in SCAN_VALUES:
        emit(f'scan {show(value)[:120]} -> {Excel._get_suspicious_constructions(value)!r}')

    tmp = tempfile.mkdtemp(prefix='t23_r3_')
    try:
        builders = {'constants': workbook_constants, 'safe_constants': workbook_safe_constants,
                    'formulas': workbook_formulas, 'ragged': workbook_ragged,
                    'lone_equals': workbook_lone_equals}
        for name, builder in builders.items():
            path = os.path.join(tmp, f'{name}.xlsx')
            extra = builder(path)
            dump_excel(path, f'[{name}]')
            for safety in (True, False):
                run_parser(path, tmp, f'[{name}]', safety)
            if name == 'safe_constants':
                # constant texts must round-trip exactly
                out_py = os.path.join(tmp, 'roundtrip.py')
                Parser().set_excel_file_path(path).write_translation(out_py)
                executor = Executor().set_executed_class(class_file=out_py)
                for index, text in enumerate(extra):
                    got = executor.get_cell(Cell(0, 0, index)).value
                    emit(f'[{name}] roundtrip {index} {got == text} {show(got)}')
        dump_excel(os.path.join(tmp, 'missing.xlsx'), '[missing]')
    finally:
        shutil.rmtree(tmp, ignore_errors=True)

    print('lines', len(LINES))
    print('digest', sha('\n'.join(LINES)))


if __name__ == '__main__':
    main()
