"""Equivalence demo for r1: the three duplicated loops of the runtime helper _match merged into one.

Exercises _match (and _xmatch, which delegates to it) of BOTH copies of the runtime class -- the class in
abstract_excel_in_python_class.py and the class printed from the template in context.py -- on many
(lookup value, lookup array, match type) combinations, then MATCH / XMATCH / INDEX(MATCH) / VLOOKUP formulas of a
generated workbook, and prints a deterministic digest.
"""
import datetime
import hashlib
import os
import shutil
import sys
import tempfile

from openpyxl import Workbook

from excel2pycl import Parser, Executor, Cell
from excel2pycl.src.utilities.abstract_excel_in_python_class import AbstractExcelInPython


def show(value):
    if isinstance(value, list):
        return '[' + ', '.join(show(i) for i in value) + ']'
    return f'{type(value).__name__}:{value!r}'


def attempt(function, *args):
    try:
        return show(function(*args))
    except BaseException as error:  # the class name of whatever is raised is part of the observable result
        return 'raises ' + type(error).__name__


class Digest:
    def __init__(self):
        self.lines = []

    def add(self, line):
        self.lines.append(line)

    def dump(self, title, verbose):
        text = '\n'.join(self.lines)
        print(f'== {title}: {len(self.lines)} results, sha256 {hashlib.sha256(text.encode()).hexdigest()}')
        outcomes = {}
        for line in self.lines:
            outcome = line.rsplit('-> ', 1)[-1].rsplit('= ', 1)[-1]
            outcomes[outcome] = outcomes.get(outcome, 0) + 1
        print('   outcomes:', ', '.join(f'{k} x{v}' for k, v in sorted(outcomes.items())))
        if verbose:
            print(text)


def build_workbook(path):
    wb = Workbook()
    ws = wb.active
    ws.title = 'data'
    # A: ascending ints, B: partner values, C: strings (mixed case), D: descending floats, E: with gaps and duplicates
    rows = [
        [10, 'ten', 'apple', 9.5, 1],
        [20, 'twenty', 'Banana', 7.25, None],
        [20, 'twenty-bis', 'cherry', 7.25, 3],
        [30, 'thirty', 'DATE', 5.0, 3],
        [40.0, 'forty', 'elder', 2.5, 'x'],
        [50, 'fifty', 'fig', 1, 7],
        [60, 'sixty', 'Grape', 0.5, 9.0],
    ]
    for row in rows:
        ws.append(row)
    formulas = wb.create_sheet('formulas')
    lookups = [5, 10, 20, 25, 40, 60, 61, 7.25, 0.5, 3]
    row = 1
    for value in lookups:
        formulas.append([
            f'=MATCH({value};data!A1:A7;0)',
            f'=MATCH({value};data!A1:A7;1)',
            f'=MATCH({value};data!A1:A7)',
            f'=MATCH({value};data!D1:D7;-1)',
            f'=MATCH({value};data!E1:E7;0)',
            f'=XMATCH({value};data!A1:A7;0;1)',
            f'=XMATCH({value};data!A1:A7;0;-1)',
            f'=XMATCH({value};data!A1:A7;1;1)',
            f'=XMATCH({value};data!A1:A7;-1;1)',
            f'=XMATCH({value};data!A1:A7)',
            f'=INDEX(data!B1:B7;MATCH({value};data!A1:A7;0))',
            f'=VLOOKUP({value};data!A1:B7;2;FALSE)',
            f'=VLOOKUP({value};data!A1:B7;2)',
        ])
        row += 1
    for text in ['apple', 'BANANA', 'banana', 'date', 'grape', 'zzz', 'a']:
        formulas.append([
            f'=MATCH("{text}";data!C1:C7;0)',
            f'=MATCH("{text}";data!C1:C7;1)',
            f'=XMATCH("{text}";data!C1:C7;0;-1)',
            f'=INDEX(data!A1:A7;MATCH("{text}";data!C1:C7;0))',
        ])
    wb.save(path)
    wb.close()
    return len(lookups) + 7


def arrays(empty):
    e = empty
    return [
        [],
        [[1]],
        [[1], [2], [3], [5], [8]],
        [[8], [5], [3], [2], [1]],
        [[1], [2], [2], [2], [3]],
        [[1.0], [2], [2.5], [3], [4.0]],
        [[3], [1], [2], [3], [1]],
        [[e()], [1], [e()], [2], [3]],
        [[e()], [e()]],
        [['a'], ['B'], ['c'], ['D']],
        [['d'], ['C'], ['b'], ['A']],
        [['b'], ['B'], ['b']],
        [['a'], [1], ['b'], [2.5], [None], [True], ['c'], [3]],
        [[True], [False], [True]],
        [[None], [None]],
        [[datetime.datetime(2020, 1, 1)], [datetime.datetime(2021, 1, 1)], [datetime.datetime(2022, 1, 1)]],
        [[1, 'x'], [2, 'y'], [3, 'z']],
        ['ab', 'cd', 'ef'],
        [[''], ['a'], ['']],
        [[0], [-1], [-2.5], [0.0]],
        [[float('inf')], [float('-inf')], [1]],
        [[2 ** 70], [2 ** 70 + 1], [2.0 ** 70]],
        [[1], ['1'], [1.0], ['1.0']],
        [[[1]], [[2]]],
        [[]],
        [5],
        None,
    ]


def values(empty):
    return [0, 1, 2, 2.0, 2.5, 3, 4, 9, -1, True, False, 'a', 'A', 'b', 'B', 'c', 'e', '', '1', None, empty(),
            datetime.datetime(2021, 1, 1), datetime.date(2021, 1, 1), float('inf'), float('nan'), 2 ** 70, [1], (1,)]


MATCH_TYPES = [0, 1, -1, 2, -7, 0.0, 0.5, -0.5, True, False, None, 'x', '0', float('nan'), float('inf'), [0]]


def exercise(instance, title):
    digest = Digest()
    for array_number, array in enumerate(arrays(instance.EmptyCell)):
        for value in values(instance.EmptyCell):
            for match_type in MATCH_TYPES:
                digest.add(f'{array_number} {show(value)} {show(match_type)} -> '
                           + attempt(instance._match, value, array, match_type))
            digest.add(f'{array_number} {show(value)} default -> ' + attempt(instance._match, value, array))
            for match_mode in (0, 1, -1, 2, None):
                for search_mode in (1, -1, True, 3):
                    digest.add(f'x {array_number} {show(value)} {match_mode} {search_mode} -> '
                               + attempt(instance._xmatch, value, array, match_mode, search_mode))
    digest.dump(title, verbose=False)
    return digest


def main():
    directory = tempfile.mkdtemp(prefix='r1demo')
    try:
        xlsx = os.path.join(directory, 'book.xlsx')
        out_py = os.path.join(directory, 'book.py')
        rows = build_workbook(xlsx)
        Parser().set_excel_file_path(xlsx).write_translation(out_py)
        executor = Executor().set_executed_class(class_file=out_py)

        class Direct(AbstractExcelInPython):
            pass

        first = exercise(Direct(), 'class copy')
        second = exercise(executor.get_executed_class(), 'template copy')
        print('copies agree:', first.lines == second.lines)
        for line in first.lines[::997]:
            print('  sample', line)

        digest = Digest()
        for row in range(rows):
            for column in range(13):
                try:
                    value = show(executor.get_cell(Cell('formulas', column, row)).value)
                except BaseException as error:
                    value = 'raises ' + type(error).__name__
                digest.add(f'formulas!{column},{row} = {value}')
        digest.dump('workbook formulas', verbose=True)

        # overrides: the keys change after translation, MATCH follows
        digest = Digest()
        for key in (10, 25, 'ten', None, 20.0):
            executor.set_cells([Cell('data', 'A', '2', value=key)])
            for column in (0, 1, 5, 6, 10, 11, 12):
                try:
                    value = show(executor.get_cell(Cell('formulas', column, 2)).value)
                except BaseException as error:
                    value = 'raises ' + type(error).__name__
                digest.add(f'A2={key!r}: formulas!{column},2 = {value}')
        digest.dump('after overrides', verbose=True)
    finally:
        shutil.rmtree(directory, ignore_errors=True)


if __name__ == '__main__':
    sys.dont_write_bytecode = True
    main()
