"""Equivalence demo for r3 (Executor facade: set_cells bookkeeping of sheet sizes / overrides, get_sheet grid).

Runs many query/override histories against generated classes and hand-written runtime classes and prints
every value, every exception, the overrides, the reported sheet sizes and the shape of each grid.
"""
import datetime
import hashlib
import itertools
import os
import random
import shutil
import signal
import sys
import tempfile

from openpyxl import Workbook

from excel2pycl import Parser, Executor, Cell, AbstractExcelInPython

signal.alarm(600)

TMP = tempfile.mkdtemp(prefix='t14r3_')
LINES = []


def out(*parts):
    LINES.append(' '.join(str(p) for p in parts).replace(TMP, '<TMP>'))


def show(value):
    return f'{type(value).__name__}:{value!r}'


def attempt(tag, function):
    try:
        result = function()
        return result
    except BaseException as e:  # noqa
        out(tag, 'EXC', type(e).__name__, e)
        return None


def state(tag, executor):
    instance = executor.get_executed_class()
    out(tag, 'sizes', executor._sheets_size, 'instance', instance.get_sheets_size(),
        'same object', executor._sheets_size is instance.get_sheets_size())
    out(tag, 'overrides', [(uid, cell.title, cell.column, cell.row, show(cell.value))
                           for uid, cell in executor._cells.items()])
    out(tag, 'arguments', sorted(instance._arguments.items(), key=lambda item: item[0]),
        'dirty', executor._cells_have_been_changed)


def grid(tag, executor, sheet):
    cells = attempt(f'{tag} get_sheet({sheet!r})', lambda: executor.get_sheet(sheet))
    if cells is None:
        return None
    out(tag, f'get_sheet({sheet!r})', 'rows', len(cells), 'widths', sorted({len(row) for row in cells}),
        'types', type(cells).__name__, sorted({type(row).__name__ for row in cells}))
    for r, row in enumerate(cells):
        for c, cell in enumerate(row):
            out(tag, 'grid', (cell.title, cell.column, cell.row), (r, c), show(cell.value), cell.uid)
    return cells


# ------------------------------------------------------------------ workbook
xlsx = os.path.join(TMP, 'book.xlsx')
wb = Workbook()
ws = wb.active
ws.title = 'Data'
ws.append([1, 2, 3, '=A1+B1+C1'])
ws.append([10, 20, 30, '=SUM(A1:C2)'])
ws.append(['x', None, 'z', '=A3&B3&C3'])
ws.append(['=D1*2', '=IF(B3="";"blank";"set")', '=Other!A1+E5', '=COUNTBLANK(A1:C3)'])
other = wb.create_sheet('Other')
other.append([100, '=Data!D1+A1'])
other.append([None, None, '=B1+F9'])
third = wb.create_sheet("Thi'rd one")
third['B2'] = '=Data!A1&"-"&Other!A1'
wb.create_sheet('Blank')
wb.save(xlsx)
wb.close()
class_file = os.path.join(TMP, 'book.py')
Parser().set_excel_file_path(xlsx).write_translation(class_file)


def fresh():
    return Executor().set_executed_class(class_file=class_file)


SHEETS = [0, 1, 2, 3, 'Data', 'Other', "Thi'rd one", 'Blank']

# ------------------------------------------------------------------ 1. plain grids, every addressing
executor = fresh()
state('plain', executor)
for sheet in SHEETS + [4, -1, -4, -5, 'Nope', None, 1.0, True, 'data']:
    grid('plain', executor, sheet)
state('plain after', executor)

# ------------------------------------------------------------------ 2. grid == single cell == list query, any order
executor = fresh()
reference = {}
for sheet in range(4):
    size = executor._sheets_size[sheet]
    for row in range(size['last_row']):
        for column in range(size['last_column']):
            reference[(sheet, column, row)] = show(fresh().get_cell(Cell(sheet, column, row)).value)
out('reference', sorted(reference.items()))
rng = random.Random(14)
for trial in range(6):
    executor = fresh()
    keys = list(reference)
    rng.shuffle(keys)
    half = keys[:len(keys) // 2]
    listed = executor.get_cells([Cell(*key) for key in half])
    out('order', trial, 'list ok', [show(cell.value) for cell in listed] == [reference[key] for key in half])
    for sheet in rng.sample(SHEETS, len(SHEETS)):
        cells = executor.get_sheet(sheet)
        index = sheet if isinstance(sheet, int) else executor._titles[sheet]
        flat = {(cell.title, cell.column, cell.row): show(cell.value) for row in cells for cell in row}
        expected = {key: value for key, value in reference.items() if key[0] == index}
        out('order', trial, repr(sheet), 'grid ok', flat == expected, len(flat))
    state(f'order {trial}', executor)

# ------------------------------------------------------------------ 3. override histories
OVERRIDES = [
    [Cell(0, 0, 0, value=5)],
    [Cell('Data', 'B', '1', value=7), Cell('Data', 'B', '3', value='now set')],
    [Cell(0, 6, 8, value='beyond')],
    [Cell(1, 5, 8, value=1000), Cell('Other', 'A', '1', value=-1)],
    [Cell(3, 0, 0, value='was blank')],
    [Cell(3, 2, 4, value=None)],
    [Cell(0, 0, 0, value=5), Cell(0, 0, 0, value=6), Cell('Data', 'A', '1', value=7)],
    [Cell(0, 3, 0, value='formula replaced')],
    [Cell(2, 1, 1, value=datetime.datetime(2020, 1, 1))],
    [Cell(0, 4, 4, value=0.5)],
    [],
]
for number, overrides in enumerate(OVERRIDES):
    executor = fresh()
    tag = f'override[{number}]'
    before = executor._cells
    returned = executor.set_cells([Cell(c.title, c.column, c.row, value=c.value) for c in overrides])
    out(tag, 'returns self', returned is executor, 'rebinds', executor._cells is not before)
    state(tag, executor)
    for sheet in range(4):
        grid(tag, executor, sheet)
    state(tag + ' after', executor)

# cumulative history on one executor, with queries in between
executor = fresh()
for number, overrides in enumerate(OVERRIDES):
    tag = f'cumulative[{number}]'
    executor.set_cells([Cell(c.title, c.column, c.row, value=c.value) for c in overrides])
    state(tag, executor)
    for sheet in ('Data', 1, "Thi'rd one", 3):
        cells = attempt(f'{tag} get_sheet({sheet!r})', lambda: executor.get_sheet(sheet))
        if cells is not None:
            out(tag, repr(sheet), len(cells), [len(row) for row in cells][:3],
                hashlib.sha256(repr([[show(cell.value) for cell in row] for row in cells]).encode()).hexdigest()[:16])
    for address in (('Data', 'D', '1'), (0, 2, 3), ('Other', 'B', '1')):
        attempt(f'{tag} get_cell{address}', lambda: out(tag, address, show(executor.get_cell(Cell(*address)).value)))
for sheet in range(4):
    grid('cumulative end', executor, sheet)

# ------------------------------------------------------------------ 4. bad overrides: what is kept when a list fails midway
BAD = [
    [Cell(0, 9, 9, value='kept size'), Cell('Nope', 'A', '1', value=1), Cell(0, 19, 19, value='never')],
    [Cell(0, 9, 1, value='a'), Cell(0, 'A', value='no row')],
    [Cell(0, 1, 9, value='a'), Cell(0, 2, None, value='no row int')],
    [Cell(0, 1, 11, value='a'), Cell(7, 2, 2, value='no such sheet')],
    [Cell(-1, 1, 1, value='negative sheet')],
    [Cell(-9, 1, 1, value='too negative')],
    [Cell(0, 1.5, 2.5, value='floats')],
    [Cell(0, None, 2, value='no column')],
    [Cell(None, 1, 2, value='no sheet')],
    [Cell(0, 'A', '0', value='row zero')],
    [Cell(0, 'a', '1', value='lower column')],
    [Cell(0, '', '1', value='empty column')],
    [Cell(0, 'A', 'x', value='bad row')],
    [Cell('Data', 0, 0, value='mixed')],
    [Cell(0, -3, -3, value='negative')],
    [Cell(True, 0, 0, value='bool sheet')],
]
for number, overrides in enumerate(BAD):
    executor = fresh()
    tag = f'bad[{number}]'
    attempt(tag + ' set_cells', lambda: executor.set_cells(overrides))
    state(tag, executor)
    for sheet in (0, 3):
        cells = attempt(f'{tag} get_sheet({sheet})', lambda: executor.get_sheet(sheet))
        if cells is not None:
            out(tag, sheet, len(cells), sorted({len(row) for row in cells}),
                hashlib.sha256(repr([[show(cell.value) for cell in row] for row in cells]).encode()).hexdigest()[:16])
    state(tag + ' after', executor)
    out(tag, 'cells after', [(c.title, c.column, c.row, c._handled_identifiers) for c in overrides])

# an iterator instead of a list: consumed by the first pass in both versions
executor = fresh()
attempt('iterator', lambda: executor.set_cells(iter([Cell(0, 8, 8, value='from iterator')])))
state('iterator', executor)
attempt('tuple', lambda: executor.set_cells((Cell(0, 8, 8, value='from tuple'),)))
state('tuple', executor)
attempt('none', lambda: executor.set_cells(None))
state('none', executor)


# ------------------------------------------------------------------ 5. hand-written runtime classes
class NoKeys(AbstractExcelInPython):
    def __init__(self, arguments=None):
        super().__init__(arguments)
        self._titles = {'S': 0, 'T': 1, 'U': 2}
        self._sheets_size = [{}, {'last_row': 2}, {'last_column': 3}]

    def _0_0_0(self):
        return 'zero'


class Sized(AbstractExcelInPython):
    calls = []

    def __init__(self, arguments=None):
        super().__init__(arguments)
        self._titles = {'S': 0}
        self._sheets_size = [{'last_row': 2, 'last_column': 3, 'extra': 'kept'}]

    def _0_0_0(self):
        Sized.calls.append('_0_0_0')
        return 1

    def _0_1_0(self):
        Sized.calls.append('_0_1_0')
        return self._cell_preprocessor('_0_0_0') + 1

    def _0_2_1(self):
        Sized.calls.append('_0_2_1')
        raise ZeroDivisionError('boom at C2')


for cls in (NoKeys, Sized):
    executor = Executor().set_executed_class(class_object=cls)
    tag = cls.__name__
    state(tag, executor)
    for sheet in list(range(len(executor._sheets_size))) + ['S', 'T', 'U']:
        grid(tag, executor, sheet)
    for overrides in ([Cell(0, 0, 0, value='ov')], [Cell(1, 4, 4, value='ov')], [Cell(2, 4, 4, value='ov')],
                      [Cell(0, 2, 1, value='no boom')]):
        attempt(tag + ' set_cells', lambda: executor.set_cells(overrides))
        state(tag, executor)
        for sheet in range(len(executor._sheets_size)):
            grid(tag, executor, sheet)
out('Sized calls', Sized.calls)
attempt('no class', lambda: Executor().set_executed_class())
attempt('get_sheet before class', lambda: Executor().get_sheet(0))
attempt('get_sheet title before class', lambda: Executor().get_sheet('S'))
attempt('set_cells before class', lambda: Executor().set_cells([Cell(0, 0, 0, value=1)]))
attempt('set_cells empty before class', lambda: out('empty ok', Executor().set_cells([])._cells))

# ------------------------------------------------------------------ 6. all pairs of operations give the same values
OPS = {
    'cell': lambda e: show(e.get_cell(Cell(0, 3, 1)).value),
    'cellA1': lambda e: show(e.get_cell(Cell('Data', 'D', '4')).value),
    'cells': lambda e: [show(c.value) for c in e.get_cells([Cell(1, 1, 0), Cell('Other', 'C', '2'), Cell(0, 0, 3)])],
    'sheet0': lambda e: [[show(c.value) for c in row] for row in e.get_sheet(0)],
    'sheetT': lambda e: [[show(c.value) for c in row] for row in e.get_sheet("Thi'rd one")],
    'set': lambda e: e.set_cells([Cell(0, 1, 0, value=50), Cell(1, 7, 3, value=9)]) and 'set',
    'set2': lambda e: e.set_cells([Cell('Data', 'B', '1', value=2)]) and 'set2',
}
for names in itertools.permutations(OPS, 3):
    executor = fresh()
    results = [repr(OPS[name](executor)) for name in names]
    out('ops', names, hashlib.sha256('|'.join(results).encode()).hexdigest()[:16], executor._sheets_size,
        list(executor._cells))

shutil.rmtree(TMP, ignore_errors=True)
out('tmp removed', not os.path.exists(TMP))
text = '\n'.join(LINES)
print(text)
print('DIGEST', hashlib.sha256(text.encode('utf-8')).hexdigest(), len(LINES))
sys.exit(0)
