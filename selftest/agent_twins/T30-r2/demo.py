"""Equivalence demo for r2: runtime override table / cell dispatch (_cell_preprocessor, set_arguments).

Exercises both copies of the runtime class: the one printed by the Parser (template copy)
and a direct subclass of AbstractExcelInPython (class copy).
"""
import hashlib
import importlib.util
import os
import shutil
import sys
import tempfile

from openpyxl import Workbook

from excel2pycl import Parser, Executor, Cell
from excel2pycl.src.utilities.abstract_excel_in_python_class import AbstractExcelInPython

LINES = []


def out(*parts):
    line = ' '.join(str(p) for p in parts)
    LINES.append(line)
    print(line)


def show(value):
    return f'{type(value).__name__}:{value!r}'


def attempt(label, fn):
    try:
        result = fn()
    except BaseException as exc:  # noqa
        out(label, '-> EXC', type(exc).__name__, 'context=' + type(exc.__context__).__name__,
            'cause=' + type(exc.__cause__).__name__)
        return None
    out(label, '->', show(result))
    return result


def build_workbook(path, chain):
    wb = Workbook()
    ws = wb.active
    ws.title = 'Main'
    ws['A1'] = 1
    for row in range(2, 6):
        ws[f'A{row}'] = f'=A{row - 1}+1'
    ws['B1'] = '=A1*2'
    ws['C1'] = '=B1+A2'
    ws['D1'] = '=1/E1'
    ws['F1'] = '=SUM(A1:A5)'
    ws['G1'] = '=IF(H1="",1,2)'
    ws['B2'] = 'x'
    ws['C2'] = '=B2&"y"'
    second = wb.create_sheet('Second')
    second['A1'] = '=Main!C1+1'
    second['B2'] = 0
    long = wb.create_sheet('Chain')
    long['A1'] = 1
    for row in range(2, chain + 1):
        long[f'A{row}'] = f'=A{row - 1}+1'
    wb.save(path)
    wb.close()


def load(path):
    spec = importlib.util.spec_from_file_location('generated_r2', path)
    module = importlib.util.module_from_spec(spec)
    spec.loader.exec_module(module)
    return module


class Direct(AbstractExcelInPython):
    def __init__(self, arguments=None):
        super().__init__(arguments)
        self._titles = {'S': 0}
        self._sheets_size = [{'last_row': 3, 'last_column': 3}]

    def _0_0_0(self):
        return 5

    def _0_1_0(self):
        return self._cell_preprocessor('_0_0_0') * 2 + self._cell_preprocessor('_0_9_9')

    def _0_2_0(self):
        return {}['missing']

    def _0_0_1(self):
        return 1 / self._cell_preprocessor('_0_5_5')

    def _0_1_1(self):
        return self._cell_preprocessor(['unhashable'])

    _0_2_1 = 0
    _0_2_2 = 'not callable'
    _0_3_3 = None


UIDS = ['_0_0_0', '_0_1_0', '_0_2_0', '_0_3_0', '_0_5_0', '_0_6_0', '_0_1_1', '_1_0_0', '_1_1_1', '_0_0_1',
        '_0_2_1', '_0_2_2', '_0_3_3', '_9_9_9', '', '_sum', '_cell_preprocessor', '_titles', '_arguments',
        '_sheets_size', 'exec_function_in', 'EmptyCell', '__dict__', '__class__', '_today',
        'set_arguments', None, 0, 1.5, ('_0_0_0',), ['_0_0_0'], {'a': 1}, b'_0_0_0']

ARGUMENT_SETS = [
    [],
    [{'uid': '_0_0_0', 'value': 100}],
    [{'uid': '_0_0_0', 'value': 0}, {'uid': '_0_1_0', 'value': None}],
    [{'uid': '_0_0_0', 'value': ''}, {'uid': '_0_0_0', 'value': False}],
    [{'uid': '_0_9_9', 'value': 4}, {'uid': '_0_5_5', 'value': 0.25}, {'uid': '_0_6_0', 'value': 'free'}],
    [{'uid': '_titles', 'value': 'shadow'}, {'uid': '_sum', 'value': 3}, {'uid': None, 'value': 'none'},
     {'uid': 0, 'value': 'zero'}, {'uid': ('_0_0_0',), 'value': 'tuple'}],
    [{'uid': '_0_0_0', 'value': [1, 2]}, {'uid': '_0_2_0', 'value': 'fixed'}, {'uid': '_0_0_0', 'value': 7,
                                                                                   'extra': 1}],
]

BAD_ARGUMENTS = [None, 5, 'ab', [1], [{}], [{'uid': 'a'}], [{'value': 1}], [{'uid': [], 'value': 1}],
                 [{'uid': '_0_0_0', 'value': 1}, {'uid': 'x'}], [('uid', 'value')], {'uid': 1}, [None]]


def drive(label, factory):
    instance = factory()
    out(label, 'start', show(instance._arguments))
    for round_number, arguments in enumerate(ARGUMENT_SETS):
        attempt(f'{label} set {round_number}', lambda: instance.set_arguments(arguments))
        out(label, 'table', [(show(k), show(v)) for k, v in instance._arguments.items()])
        for order in (UIDS, list(reversed(UIDS))):
            for uid in order:
                attempt(f'{label} r{round_number} exec {uid!r}', lambda: instance.exec_function_in(uid))
                attempt(f'{label} r{round_number} prep {uid!r}', lambda: instance._cell_preprocessor(uid))
        out(label, 'table after', [(show(k), show(v)) for k, v in instance._arguments.items()])
    for bad in BAD_ARGUMENTS:
        before = list(instance._arguments.items())
        table_before = instance._arguments
        attempt(f'{label} bad set {bad!r}', lambda: instance.set_arguments(bad))
        out(label, 'unchanged', before == list(instance._arguments.items()), 'same object',
            table_before is instance._arguments)
    # the table is rebound, never edited in place
    table = instance._arguments
    instance.set_arguments([{'uid': 'zz', 'value': 1}])
    out(label, 'rebound', table is not instance._arguments, 'zz' in table, 'zz' in instance._arguments)
    # instance-level attributes shadow class-level ones
    shadowed = factory()
    shadowed.__dict__['_0_0_0'] = lambda self: 'from instance'
    shadowed.__dict__['_0_6_0'] = lambda self: self._cell_preprocessor('_0_0_0') + '!'
    shadowed.__dict__['_0_7_0'] = 0
    shadowed.__dict__['_0_8_0'] = None
    for uid in ('_0_0_0', '_0_6_0', '_0_7_0', '_0_8_0', '_0_1_0'):
        attempt(f'{label} shadow {uid}', lambda: shadowed.exec_function_in(uid))
    shadowed.set_arguments([{'uid': '_0_0_0', 'value': 'override wins'}])
    for uid in ('_0_0_0', '_0_6_0'):
        attempt(f'{label} shadow+override {uid}', lambda: shadowed.exec_function_in(uid))
    # a uid naming the constructor re-initialises the instance (as it always did)
    reset = factory([{'uid': '_0_0_0', 'value': 'kept?'}])
    attempt(f'{label} exec __init__', lambda: reset.exec_function_in('__init__'))
    out(label, 'after __init__', show(reset._arguments))
    # constructor arguments
    attempt(f'{label} ctor', lambda: factory([{'uid': '_0_0_0', 'value': -1}]).exec_function_in('_0_1_0'))
    attempt(f'{label} ctor bad', lambda: factory([{'uid': '_0_0_0'}]))


def main():
    tmp = tempfile.mkdtemp(prefix='r2demo')
    try:
        chain = 700
        xlsx = os.path.join(tmp, 'book.xlsx')
        out_py = os.path.join(tmp, 'book.py')
        build_workbook(xlsx, chain)
        Parser().set_excel_file_path(xlsx).write_translation(out_py)
        module = load(out_py)

        drive('generated', lambda arguments=None: module.ExcelInPython(arguments))
        drive('direct', lambda arguments=None: Direct(arguments))

        # depth of the dependency chain that still evaluates under the default recursion limit
        out('recursion limit', sys.getrecursionlimit())

        def deepest():
            low, high = 1, chain  # invariant: low works
            while low < high:
                mid = (low + high + 1) // 2
                try:
                    module.ExcelInPython().exec_function_in(f'_2_0_{mid - 1}')
                    low = mid
                except RecursionError:
                    high = mid - 1
            return low

        out('deepest chain evaluated', deepest())
        attempt('chain end', lambda: module.ExcelInPython().exec_function_in(f'_2_0_{chain - 1}'))
        attempt('chain end with override in the middle', lambda: module.ExcelInPython(
            [{'uid': f'_2_0_{chain - 200}', 'value': 0}]).exec_function_in(f'_2_0_{chain - 1}'))

        # through the Executor facade: any order / any API gives the same values
        ex = Executor().set_executed_class(class_file=out_py)
        cells = [Cell(0, 1, 0), Cell(0, 2, 0), Cell(0, 3, 0), Cell(0, 5, 0), Cell(0, 6, 0), Cell(0, 2, 1),
                 Cell(1, 0, 0), Cell(1, 1, 1), Cell(1, 4, 4)]
        for uid_cell in cells:
            attempt(f'facade {uid_cell.uid}', lambda: ex.get_cell(Cell(uid_cell.title, uid_cell.column,
                                                                      uid_cell.row)).value)
        ex.set_cells([Cell('Main', 'E', '1', value=4), Cell('Main', 'H', '1', value=''), Cell('Main', 'A', '1',
                                                                                             value=10)])
        for uid_cell in reversed(cells):
            attempt(f'facade override {uid_cell.uid}', lambda: ex.get_cell(Cell(uid_cell.title, uid_cell.column,
                                                                               uid_cell.row)).value)
        out('facade grid', [[show(c.value) for c in row[:8]] for row in ex.get_sheet('Main')[:3]])
        out('facade grid 2', [[show(c.value) for c in row] for row in ex.get_sheet(1)])
        attempt('facade chain grid', lambda: len(ex.get_sheet('Chain')))
        out('facade chain head', [show(c.value) for c in ex.get_cells([Cell('Chain', 'A', str(n)) for n in (1, 2, 300, 301)])])
        out('facade table', [(k, show(v)) for k, v in ex.get_executed_class()._arguments.items()])
    finally:
        shutil.rmtree(tmp, ignore_errors=True)

    print('DIGEST', hashlib.sha256('\n'.join(LINES).encode('utf-8')).hexdigest())


if __name__ == '__main__':
    main()
