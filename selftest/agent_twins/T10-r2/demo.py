"""Equivalence demo for the safety gate (C19): workbook scanning in Excel.parse, cell labels, Excel.is_safe.

Run as: PYTHONPATH=<tree> /venv/bin/python demo.py
Prints a deterministic digest; must be identical on the unchanged and on the refactored tree.
"""
import datetime
import hashlib
import itertools
import os
import tempfile

from openpyxl import Workbook
from openpyxl.worksheet.formula import ArrayFormula

from excel2pycl import Parser
from excel2pycl.src.excel import Excel

LINES = []


def out(*parts):
    LINES.append(' | '.join(str(p) for p in parts))


def outcome(fn):
    try:
        return 'ok', fn()
    except BaseException as exc:  # noqa
        return type(exc).__name__, str(exc)


# ---------------------------------------------------------------- 1. fragment extraction, direct
HAND_WRITTEN = [
    '', ' ', 'plain text', '=A1+B2', '=SUM(A1:A3)', '=sum(A1:A3)', '=Sum(A1:A3)', 'eval(1)', '=eval(1)',
    'os.system("rm -rf /")', '__import__("os").system("x")', 'print()', 'PRINT()', 'f()', 'F()', 'f ()', 'f(',
    'f)', '()', '(x)', '1(2)', '_(x)', '_A(x)', 'a_B(x)', 'aB(x)', 'Ab(x)', 'fooBAR(x)', 'FOObar(x)',
    'FOO_BAR(x)', 'FOO1(x)', '1FOO(x)', 'SUM(eval(1))', 'eval(SUM(1))', 'eval(SUM(1)) + exec(2)',
    'SUM(1) + eval(2)', 'eval(2) + SUM(1)', 'eval(1)eval(2)', 'eval(1) exec(2) SUM(3) open(4)',
    'a(b(c(d)))', 'a(b)c(d)', 'a(\n)', 'a(\nb)', 'a(b\n)c(d)', 'x\ny(z)', 'a(b)\nC(d)', 'A(\n) b(c)',
    'a(\r)', 'a(\t)', 'IF(a(b), 1, 2)', 'IF(A1>0, len("x"), 2)', '=IF(A1>0, LEN("x"), 2)',
    'привет(мир)', 'éval(1)', 'evalé(1)', 'Éa(1)', 'aÉ(1)', 'ＡＢ(1)', 'a٣(1)', '٣(1)', 'x²(1)',
    'eval((1))', 'eval(()', 'eval())', 'eval(1', 'eval 1)', 'a.b.c(d)', 'a.B(c)', 'A.b(c)', 'a(B(c))',
    'a(B(c)', 'aB(c)D(e)', 'a()B()', 'A()b()', 'lambda: f(x)', '=1+2', '100%', 'Z(', 'z(z(z(z(z()))))',
    'A1(B2)', 'a1(b2)', 'a' * 50 + '(' + 'b' * 50 + ')', 'A' * 50 + '(' + 'b' * 50 + ')',
    'x' + '(' * 10 + ')' * 10, 'f(x) ' * 20, 'F(x) ' * 20, 'f(x)F(y)' * 5,
]
NON_TEXT = [0, 1, -1, 1.5, -0.0, float('inf'), float('nan'), True, False, None, 10 ** 30,
            datetime.datetime(2020, 1, 2, 3, 4, 5), datetime.date(2020, 1, 2), datetime.time(1, 2, 3),
            datetime.timedelta(days=2), b'eval(1)', ('eval(1)',), ['f(x)', 'G(y)'], {'k': 'h(i)'}, 2 + 3j,
            ArrayFormula('A1:A2', '=eval(A1:A2)'), ArrayFormula('A1:A2', '=SUM(A1:A2)')]

out('## direct: hand written')
for text in HAND_WRITTEN:
    out(repr(text), outcome(lambda: Excel._get_suspicious_constructions(text)))

out('## direct: non text values')
for value in NON_TEXT:
    shown = type(value).__name__ if isinstance(value, ArrayFormula) else repr(value)
    kind, result = outcome(lambda: Excel._get_suspicious_constructions(value))
    if isinstance(value, ArrayFormula):
        result = len(result)  # the text of the object contains a memory address
    out(shown, kind, result)

out('## direct: generated strings')
ALPHABET = ['a', 'B', '1', '_', '(', ')', ' ', '\n', '.']
digest = hashlib.sha256()
count = 0
nonempty = 0
for length in range(0, 6):
    for combo in itertools.product(ALPHABET, repeat=length):
        text = ''.join(combo)
        result = Excel._get_suspicious_constructions(text)
        assert isinstance(result, list)
        digest.update(repr((text, result)).encode())
        count += 1
        nonempty += bool(result)
out('generated', count, 'nonempty', nonempty, digest.hexdigest())

out('## direct: result is a fresh list every time')
first = Excel._get_suspicious_constructions('plain')
second = Excel._get_suspicious_constructions('plain')
out(first, second, first is second)
first = Excel._get_suspicious_constructions('f(x)')
first.append('mutated')
out(Excel._get_suspicious_constructions('f(x)'))
out(Excel._get_suspicious_constructions.__self__ is Excel)

# ---------------------------------------------------------------- 2. whole workbooks
tmp = tempfile.mkdtemp(prefix='t10demo')


def build(name, sheets):
    """sheets: list of (title, {address: value})"""
    wb = Workbook()
    wb.remove(wb.active)
    for title, cells in sheets:
        ws = wb.create_sheet(title)
        for address, value in cells.items():
            ws[address] = value
    path = os.path.join(tmp, name + '.xlsx')
    wb.save(path)
    return path


def describe_exception(exc):
    cells = getattr(exc, 'suspicious_cells', None)
    return type(exc).__name__, str(exc), None if cells is None else list(cells.items())


def run_parser(path, safety, entry=None):
    parser = Parser().set_excel_file_path(path)
    if safety is True:
        parser.enable_safety_check()
    elif safety is False:
        parser.disable_safety_check()
    try:
        text = parser.get_translation()
        return 'translated', hashlib.sha256(text.encode()).hexdigest()
    except BaseException as exc:  # noqa
        return describe_exception(exc)


WORKBOOKS = {
    'clean_values': [('Sheet1', {'A1': 1, 'B1': 2.5, 'C1': 'text', 'D1': True, 'A2': None, 'B2': 0, 'C2': ''})],
    'clean_formulas': [('Sheet1', {'A1': 1, 'A2': 2, 'A3': '=SUM(A1:A2)', 'B1': '=IF(A1>0, MAX(A1, A2), MIN(A1, A2))',
                                   'C1': '=A1+A2', 'D1': '=ROUND(A1/3, 2)'})],
    'one_python_cell': [('Sheet1', {'A1': 1, 'B2': 'eval(1)', 'C3': '=SUM(A1:A1)'})],
    'python_text_only': [('Data', {'D4': 'os.system("ls") and exec(code)', 'A1': 'hello', 'AA10': 'print(1)'})],
    'mixed_in_one_cell': [('Sheet1', {'A1': 'SUM(1) eval(2)', 'A2': 'eval(2) SUM(1)', 'A3': 'eval(SUM(1))',
                                      'A4': 'SUM(eval(1))', 'A5': 'fooBAR(x)', 'A6': 'FOObar(x)', 'A7': 'a(\n)',
                                      'A8': 'a(b\n)c(d)'})],
    'many_sheets': [('First', {'A1': 'f(x)', 'B1': 'SUM(1)'}), ('Second sheet', {'C3': 'g(y) h(z)', 'ZZ1': 'q()'}),
                    ("It's", {'B2': 'k(1)'}), ('Лист', {'A1': 'w(1)', 'A2': 'W(1)'}),
                    ('Empty', {}), ('1', {'XFD1': 'm(n)', 'A1048576': 'o(p)'})],
    'same_address_on_sheets': [('S1', {'A1': 'f(1)'}), ('S2', {'A1': 'f(2)'}), ('S3', {'A1': 'F(3)'})],
    'falsy_values': [('Sheet1', {'A1': 0, 'B1': '', 'C1': False, 'D1': 0.0, 'E1': None, 'F1': 'f(x)'})],
    'numbers_dates': [('Sheet1', {'A1': datetime.datetime(2020, 5, 17), 'B1': 12345678901234, 'C1': 1e-9, 'D1': True,
                                  'E1': datetime.time(1, 2, 3)})],
    'python_formula': [('Sheet1', {'A1': '=eval(1)', 'B1': '=__import__("os").system("x")'})],
    'lowercase_excel_function': [('Sheet1', {'A1': 1, 'B1': '=sum(A1:A1)', 'C1': '=Sum(A1:A1)'})],
    'array_formula': [('Sheet1', {'A1': 1, 'A2': 2, 'B1': ArrayFormula('B1:B2', '=SUM(A1:A2)'),
                                  'C1': ArrayFormula('C1:C2', '=eval(A1:A2)')})],
    'gaps': [('Sheet1', {'C5': 'a(1)', 'A9': 'b(2)', 'J2': 'c(3)', 'J9': 'D(4)'})],
    'order_in_row': [('Sheet1', {'C1': 'c(1)', 'A1': 'a(1)', 'B1': 'b(1)', 'B2': 'b(2)', 'A2': 'a(2)'})],
    'column_boundaries': [('Cols', {addr: 'f%s(x)' % addr.lower() for addr in
                                    ('A1', 'Z1', 'AA1', 'AZ1', 'BA1', 'ZZ1', 'AAA1', 'AMJ1', 'Y2', 'Z99', 'AB100',
                                     'A1000', 'IV65536')})],
    'upper_and_lower_neighbours': [('N', {'A1': 'SUM(1)', 'B1': 'sum(1)', 'A2': 'sum(1)', 'B2': 'SUM(1)',
                                          'C3': '=SUM(1)', 'D4': 'x=f(1)'})],
    'truthy_non_text': [('T', {'A1': 7, 'B1': True, 'C1': 2.5, 'D1': datetime.datetime(2021, 2, 3), 'E1': 'e(1)',
                               'A2': ArrayFormula('A2:A3', '=SUM(B1:B2)'), 'B2': '=MAX(1,2)'})],
    'long_cell': [('Sheet1', {'A1': ' '.join('f%d(x%d)' % (i, i) for i in range(200)) + ' SUM(1)'})],
}

paths = {name: build(name, sheets) for name, sheets in WORKBOOKS.items()}

out('## workbooks: Excel.parse')
for name, path in paths.items():
    excel = Excel.parse(path)
    out(name, 'suspicious', list(excel._suspicious_cells.items()))
    kind, result = outcome(excel.is_safe)
    if kind != 'ok':
        try:
            excel.is_safe()
        except BaseException as exc:  # noqa
            kind, result = 'raised', describe_exception(exc)
    out(name, 'is_safe', kind, result)
    out(name, 'titles', excel.get_titles(), 'sizes', excel.get_sheets_size())
    out(name, 'data', hashlib.sha256(repr(excel._data).encode()).hexdigest())

out('## Excel built by hand: is_safe on given dictionaries, repeated calls')
for suspicious in ({}, {"'S'A1": ['f(x)']}, {"'S'A1": []}, {'': ['']}, {"'S'A1": ['a(1)'], "'S'B1": ['b(2)', 'c(3)']}):
    excel = Excel({'data': [[[1]]], 'titles': ['S'], 'suspicious_cells': suspicious, 'sheets_size': []})
    for attempt in range(3):
        try:
            out(repr(suspicious), attempt, 'returned', excel.is_safe())
        except BaseException as exc:  # noqa
            out(repr(suspicious), attempt, describe_exception(exc), exc.suspicious_cells is suspicious)

out('## parsing twice gives independent dictionaries')
one = Excel.parse(paths['many_sheets'])
two = Excel.parse(paths['many_sheets'])
out(one._suspicious_cells == two._suspicious_cells, one._suspicious_cells is two._suspicious_cells,
    [type(v).__name__ for v in one._suspicious_cells.values()], type(one._suspicious_cells).__name__)

out('## workbooks: Parser with the check enabled (default), explicitly enabled, disabled')
for name, path in paths.items():
    for safety in (None, True, False):
        out(name, safety, run_parser(path, safety))

out('## parser history: toggling the check on one parser object')
for name in ('one_python_cell', 'clean_formulas', 'python_text_only'):
    parser = Parser().set_excel_file_path(paths[name])
    steps = []
    for action in ('translate', 'disable', 'translate', 'translate', 'enable', 'translate', 'translate', 'disable',
                   'translate', 'enable', 'enable', 'translate'):
        if action == 'disable':
            parser.disable_safety_check()
            steps.append('disabled')
        elif action == 'enable':
            parser.enable_safety_check()
            steps.append('enabled')
        else:
            try:
                steps.append(hashlib.sha256(parser.get_translation().encode()).hexdigest()[:12])
            except BaseException as exc:  # noqa
                steps.append(describe_exception(exc))
    out(name, steps)

out('## parser history: switching files on one parser object')
parser = Parser()
steps = []
for name in ('clean_values', 'one_python_cell', 'clean_values', 'many_sheets', 'same_address_on_sheets', 'gaps'):
    parser.set_excel_file_path(paths[name])
    try:
        steps.append((name, hashlib.sha256(parser.get_translation().encode()).hexdigest()[:12]))
    except BaseException as exc:  # noqa
        steps.append((name,) + describe_exception(exc))
for step in steps:
    out(*step)

out('## translated classes still compute')
from excel2pycl import Executor, Cell  # noqa: E402

for name, cells in (('clean_formulas', [('A', '3'), ('B', '1'), ('C', '1'), ('D', '1')]),
                    ('lowercase_excel_function', [('A', '1')])):
    target = os.path.join(tmp, name + '.py')
    kind, result = outcome(lambda: Parser().set_excel_file_path(paths[name]).write_translation(target))
    if kind != 'ok':
        out(name, kind, result)
        continue
    executor = Executor().set_executed_class(class_file=target)
    out(name, [executor.get_cell(Cell('Sheet1', column, row)).value for column, row in cells])

body = '\n'.join(LINES)
print(body)
print('DIGEST', hashlib.sha256(body.encode()).hexdigest())
