"""Equivalence demo for r2 (runtime _by_operator: match statement -> lookup table), both runtime copies.

Calls _by_operator and _compare directly on (a) a subclass of AbstractExcelInPython and (b) an instance of the class
generated from the template, over a large operand x operand x operator grid (including unknown / odd operators),
then evaluates comparison formulas of a workbook through Parser/Executor, plain and with overrides.
"""
import datetime
import decimal
import hashlib
import os
import re
import shutil
import sys
import tempfile

from openpyxl import Workbook

from excel2pycl import Parser, Executor, Cell
from excel2pycl.src.object_loader import load_module
from excel2pycl.src.utilities.abstract_excel_in_python_class import AbstractExcelInPython

OUT = []
LINES = 0


def emit(*parts):
    global LINES
    line = ' | '.join(str(p) for p in parts)
    OUT.append(line)
    LINES += 1
    print(line)


def show(value):
    if isinstance(value, float) and value != value:
        return 'float:nan'
    return f'{type(value).__name__}:{value!r}'


class Direct(AbstractExcelInPython):
    pass


class Odd:
    """Only knows the reflected comparisons, so that the operand order is observable."""
    def __init__(self, log):
        self.log = log

    def __repr__(self):
        return 'Odd()'

    def __lt__(self, other):
        self.log.append(('lt', repr(other)))
        return 'odd-lt'

    def __ge__(self, other):
        self.log.append(('ge', repr(other)))
        return NotImplemented

    def __eq__(self, other):
        self.log.append(('eq', repr(other)))
        return 'odd-eq'

    __hash__ = None


OPERATORS = ['>=', '>', '<=', '<', '==', '!=', '=', '<>', '', '=>', ' ==', '>= ', 'eq', None, 5, ('>',), ['>'], b'>']


def operands(instance):
    return [
        0, 1, -1, 2, 10 ** 20, True, False, 0.0, -0.0, 0.1, 0.30000000000000004, 0.3, 1.0, 2.5, float('inf'),
        float('-inf'), float('nan'), '', '0', '1', '1.0', ' 2 ', '2.5', 'abc', 'ABC', 'abd', '10', '9', '1e3', 'nan',
        None, instance.EmptyCell(), datetime.date(2024, 1, 1), datetime.datetime(2024, 1, 1),
        datetime.datetime(2024, 1, 1, 12, 30), datetime.date(2023, 12, 31), '2024-01-01', [], [1], (1,),
        decimal.Decimal('2.5'), 1 + 2j,
    ]


def grid(label, instance):
    values = operands(instance)
    for method_name in ('_by_operator', '_compare'):
        method = getattr(instance, method_name)
        for operator in OPERATORS:
            digest = hashlib.sha256()
            shown = 0
            for li, left in enumerate(values):
                for ri, right in enumerate(values):
                    try:
                        result = 'OK ' + show(method(operator, left, right))
                    except Exception as error:  # noqa
                        result = 'EXC ' + type(error).__name__ + ' ' + str(error)
                    digest.update(f'{li},{ri},{result}\n'.encode())
                    # print a readable sample, digest everything
                    if (li * 7 + ri * 3) % 41 == 0 and shown < 60:
                        shown += 1
                        emit(label, method_name, repr(operator), show(left), show(right), result)
            emit(label, method_name, repr(operator), 'grid-digest', digest.hexdigest())
    # operand order / reflected operations
    for method_name in ('_by_operator', '_compare'):
        for operator in OPERATORS[:6]:
            for odd_left in (True, False):
                log = []
                odd = Odd(log)
                args = (odd, 3) if odd_left else (3, odd)
                try:
                    result = 'OK ' + show(getattr(instance, method_name)(operator, *args))
                except Exception as error:  # noqa
                    result = 'EXC ' + type(error).__name__ + ' ' + str(error)
                emit(label, method_name, repr(operator), 'odd-left' if odd_left else 'odd-right', result, log)


DATA_ROWS = [
    [1, 2.5, 'abc', True, datetime.datetime(2024, 1, 15), None],
    [0, -3, '', False, datetime.datetime(2023, 12, 31, 10, 30), 7],
    [10, 0.1, '12', None, 'ABC', 0.2],
    [1e10, 1e-7, 'x y', 3, '2024-01-15', 0.3],
    [datetime.date(2024, 1, 15), 0.3, '0', -1, None, 100],
]
REFS = ['A1', 'B1', 'C1', 'D1', 'E1', 'F1', 'A2', 'C2', 'D2', 'E2', 'C3', 'E3', 'E4', 'A5', 'F4', 'B5', '0.3', '"abc"',
        '12', 'TRUE', '""', '0']
COMPARISONS = ['=', '<>', '<', '<=', '>', '>=']


def formulas():
    result = []
    for i, left in enumerate(REFS):
        for j, right in enumerate(REFS):
            if (i + 2 * j) % 3 == 0:
                result.append(f'={left}{COMPARISONS[(i + j) % 6]}{right}')
    result += ['=B3+F3=F4', '=(B3+F3)=F4', '=A1+1>=B1', '=IF(A1<B1,"lt","ge")', '=IF(C1=C1,1,0)', '=(A1<B1)=(A2<B2)',
               '=A1<B1<C1', '=SUM(A1:A3)>10', '=50%=0.5', '=A3%<=B3', '=C1&C3>"abc"', '=-A1<-B1']
    return result


FUNCTION_RE = re.compile(r'^    def (_\d+_\d+_\d+(?:_\d+)?)\(self\):\n        return (.*)$', re.M)


def main():
    tmp = tempfile.mkdtemp(prefix='e2p_demo_r2_')
    try:
        wb = Workbook()
        sheet = wb.active
        sheet.title = 'Data'
        for row in DATA_ROWS:
            sheet.append(row)
        all_formulas = formulas()
        for index, formula in enumerate(all_formulas):
            sheet.cell(row=index + 1, column=8, value=formula)
        book = os.path.join(tmp, 'cmp.xlsx')
        wb.save(book)
        wb.close()
        module = os.path.join(tmp, 'translated.py')
        Parser().set_excel_file_path(book).write_translation(module)
        with open(module, encoding='utf-8') as f:
            functions = FUNCTION_RE.findall(f.read())
        emit('functions', len(functions), hashlib.sha256(repr(functions).encode()).hexdigest())

        grid('class', Direct())
        grid('template', load_module(module).ExcelInPython())

        override_sets = [
            [],
            [Cell('Data', 'A', '1', value=None), Cell('Data', 'B', '1', value='1')],
            [Cell(0, 0, 0, value='abc'), Cell(0, 2, 0, value=12), Cell(0, 4, 0, value=datetime.date(2024, 1, 15))],
            [Cell(0, 0, 0, value=0.1 + 0.2), Cell(0, 1, 0, value=0.3), Cell(0, 5, 0, value='')],
        ]
        for set_number, overrides in enumerate(override_sets):
            executor = Executor().set_executed_class(class_file=module)
            if overrides:
                executor.set_cells(overrides)
            for index, formula in enumerate(all_formulas):
                try:
                    emit('V', set_number, index, formula, show(executor.get_cell(Cell(0, 7, index)).value))
                except Exception as error:  # noqa
                    emit('V', set_number, index, formula, 'EXC', type(error).__name__, str(error)[:160])
    finally:
        shutil.rmtree(tmp, ignore_errors=True)

    print('LINES', LINES)
    print('DIGEST', hashlib.sha256('\n'.join(OUT).encode()).hexdigest())
    return 0


if __name__ == '__main__':
    sys.exit(main())
