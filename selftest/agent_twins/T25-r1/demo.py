"""Equivalence demo for r1: translators of IF and IFERROR (argument translation split into named steps).

Builds workbooks with many IF / IFS / IFERROR formulas (nested, inside larger expressions, with omitted
else branch, with aggregate functions that create numbered sub cells), translates them, prints the generated
cell functions, evaluates every cell for several overrides and prints a digest of everything.
"""
import hashlib
import os
import shutil
import tempfile

from openpyxl import Workbook

from excel2pycl import Parser, Executor, Cell

ROWS = [
    # A      B      C       D (formula)
    [10, 3, 'x', '=IF(A1>B1,"gt","le")'],
    [0, 3, 'y', '=IF(A2,"nonzero","zero")'],
    [5, 0, 'z', '=IF(B3,1)'],
    [5, 7, '', '=IF(A4>B4,1)'],
    [1, 2, 'q', '=IF(A5>B5,IF(A5>0,"a","b"),IF(B5>1,"c","d"))'],
    [-1, 2, 'q', '=IF(A6<0,IF(B6>5,"big",IF(B6>1,"mid","small")),"pos")'],
    [4, 0, 'w', '=IFERROR(A7/B7,"div")'],
    [4, 2, 'w', '=IFERROR(A8/B8,"div")'],
    [4, 0, 'w', '=IF(B9=0,"guard",A9/B9)'],
    [4, 0, 'w', '=IF(B10<>0,A10/B10,"guard")'],
    [4, 0, 'w', '=1+IF(A11>3,10,20)*2'],
    [4, 0, 'w', '=IF(A12>3,10,20)+IF(B12>3,1,2)+IFERROR(A12/B12,100)'],
    [4, 0, 'w', '=IFERROR(IF(B13=0,A13/B13,1),IF(A13>3,"in","out"))'],
    [4, 0, 'w', '=IF(IFERROR(A14/B14,0)=0,"zero","nz")'],
    [4, 1, 'w', '=IF(SUM(A1:A14)>10,SUM(A1:B14),MIN(A1:A14))'],
    [4, 1, 'w', '=IF(SUM(A1:A14)>1000,SUM(A1:B14),MAX(A1:A14))'],
    [95, 1, 'w', '=IFS(A17>89,"A",A17>79,"B",A17>69,"C")'],
    [75, 1, 'w', '=IFS(A18>89,"A",A18>79,"B",A18>69,"C")'],
    [5, 1, 'w', '=IFS(A19>89,"A",A19>79,"B",A19>69,"C")'],
    [5, 1, 'w', '=IFERROR(IFS(A20>89,"A",A20>79,"B"),"none")'],
    [5, 1, 'w', '=IF(IFS(A21>89,1,A21>1,2)=2,"two","other")'],
    [5, 1, '#N/A', '=IFERROR(C22,"err")'],
    [5, 1, '#VALUE!', '=IFERROR(C23,"err")&"!"'],
    [5, 1, 'text', '=IFERROR(C24,"err")&"!"'],
    [5, 1, 'text', '=IFERROR(A25+C25,-1)'],
    [5, 1, 'text', '=IF(C26="text",IFERROR(A26/0,IF(B26,"t","f")),0)'],
    [5, 1, None, '=IF(C27,"set","empty")'],
    [5, 1, None, '=IF(C27="","blank","filled")'],
    [5, 1, True, '=IF(C29,"T","F")'],
    [5, 1, False, '=IF(C30,"T")'],
    [5, 1, 0.5, '=IF(AND(A31>1,B31>0),IF(OR(A31>10,C31>0.4),"y","n"),"z")'],
    [5, 1, 0.5, '=IF(A32>1, D1, D2)'],
    [5, 1, 0.5, '=IF(A33<1, D7, D8)&IF(TRUE,"t","f")&IF(FALSE,"t","f")'],
    [5, 1, 0.5, '=ROUND(IF(A34>1,C34*3,C34/3),1)'],
    [5, 1, 0.5, '=IF(A35>1,IF(A35>2,IF(A35>3,IF(A35>4,IF(A35>5,6,5),4),3),2),1)'],
    [5, 1, 0.5, '=IFERROR(IFERROR(A36/0,B36/0),IFERROR(C36/0,"deep"))'],
    [5, 1, 0.5, '=(IF(A37>1,2,3))*(IF(B37>1,2,3))'],
    [5, 1, 0.5, '=IF((A38>1),(2),(3))'],
    [5, 1, 0.5, '=-IF(A39>1,2,3)'],
    [5, 1, 0.5, '=IF(A40>1,"a")&IF(A40<1,"b")'],
    [5, 1, 0.5, '=IF(SUM(A1:A3)>1,SUM(A1:A3),SUM(B1:B3))+IF(SUM(A1:A3)>1,SUM(B1:B3),SUM(A1:A3))'],
    [5, 1, 0.5, '=IFERROR(SUM(A1:A3)/SUM(B42:B42),SUM(A1:A3))'],
]

BAD_FORMULAS = [
    '=IF(A1>1)',
    '=IF(A1>1,2,3,4)',
    '=IF()',
    '=IF(A1>1,2,3',
    '=IFERROR(A1)',
    '=IFERROR(A1,2,3)',
    '=IFERROR()',
    '=IFS()',
    '=IF(A1>1,,3)',
    '=IF(,1,2)',
    '=1+IF(A1,2,)',
    '=IF(A1;2;3)',
    '=IF(IF(A1,1),2,3)',
    '=IFERROR(IF(A1,1,),2)',
]

OVERRIDES = [
    [],
    [Cell(0, 0, r, value=0) for r in range(0, 42)],
    [Cell(0, 1, r, value=0) for r in range(0, 42)],
    [Cell(0, 0, r, value=100) for r in range(0, 42)] + [Cell(0, 1, r, value=9) for r in range(0, 42)],
    [Cell(0, 0, r, value=-3.5) for r in range(0, 42)] + [Cell(0, 2, r, value='#REF!') for r in range(0, 42)],
    [Cell(0, 0, r, value='7') for r in range(0, 42)],
    [Cell(0, 0, r, value=None) for r in range(0, 42)],
    [Cell('Sheet', 'B', str(r), value='#DIV/0!') for r in range(1, 43)],
]


def functions_part(text: str) -> str:
    # the cell functions follow the runtime helpers; their names look like `def _0_3_0(self):`
    lines = text.split('\n')
    first = next(i for i, line in enumerate(lines) if line.startswith('    def _') and line[9:10].isdigit())
    return '\n'.join(lines[first:])


def show(value):
    return f'{type(value).__name__}:{value!r}'


def main():
    out = []
    tmp = tempfile.mkdtemp(prefix='r1demo')
    try:
        xlsx = os.path.join(tmp, 'book.xlsx')
        wb = Workbook()
        ws = wb.active
        ws.title = 'Sheet'
        for row in ROWS:
            ws.append(row)
        wb.save(xlsx)

        py_file = os.path.join(tmp, 'book_translation.py')
        parser = Parser().set_excel_file_path(xlsx)
        parser.write_translation(py_file)
        text = parser.get_translation()
        out.append('WHOLE TEXT sha256 of cell functions: ' + hashlib.sha256(functions_part(text).encode()).hexdigest())
        out.append(functions_part(text))

        # entry point translation: numbering of sub cells when starting from one cell
        for row in (14, 40, 41, 12):
            single = Parser().set_excel_file_path(xlsx).set_entrypoint_cell(Cell(0, 3, row)).get_translation()
            out.append(f'ENTRY D{row + 1}: ' + hashlib.sha256(functions_part(single).encode()).hexdigest())
            out.append(functions_part(single))

        for number, override in enumerate(OVERRIDES):
            executor = Executor().set_executed_class(class_file=py_file)
            if override:
                executor.set_cells(override)
            for row in range(len(ROWS)):
                try:
                    result = show(executor.get_cell(Cell(0, 3, row)).value)
                except BaseException as e:  # noqa
                    result = 'RAISED ' + e.__class__.__name__
                out.append(f'override {number} D{row + 1} -> {result}')

        for number, formula in enumerate(BAD_FORMULAS):
            bad_xlsx = os.path.join(tmp, f'bad{number}.xlsx')
            wb = Workbook()
            ws = wb.active
            ws.append([1, 2, formula])
            wb.save(bad_xlsx)
            try:
                translated = Parser().set_excel_file_path(bad_xlsx).get_translation()
                result = 'OK ' + functions_part(translated).replace('\n', ' | ')
                bad_py = os.path.join(tmp, f'bad{number}.py')
                with open(bad_py, 'w', encoding='utf-8') as f:
                    f.write(translated)
                try:
                    result += ' => ' + show(Executor().set_executed_class(class_file=bad_py).get_cell(Cell(0, 2, 0)).value)
                except BaseException as e:  # noqa
                    result += ' => RAISED ' + e.__class__.__name__
            except BaseException as e:  # noqa
                result = 'REJECTED ' + e.__class__.__name__ + ' ' + str(e)
            out.append(f'bad {formula!r}: {result}')
    finally:
        shutil.rmtree(tmp, ignore_errors=True)

    body = '\n'.join(out)
    print(body)
    print('DIGEST', hashlib.sha256(body.encode()).hexdigest())


if __name__ == '__main__':
    main()
