"""Equivalence demo for r1 (Excel.parse split into helpers).

Builds several workbooks (sparse, ragged, many sheets, all stored types, array formulas,
suspicious content, empty sheets), reads them with Excel.parse and through the Parser/Executor
facades and prints a deterministic digest of everything observable.
"""
import datetime
import hashlib
import os
import shutil
import sys
import tempfile

from openpyxl import Workbook
from openpyxl.worksheet.formula import ArrayFormula

from excel2pycl import Parser, Executor, Cell
from excel2pycl.src.excel import Excel


def sha(text: str) -> str:
    return hashlib.sha256(text.encode('utf-8')).hexdigest()[:16]


def show(value):
    return f'{type(value).__name__}:{value!r}'


def wb_types(path):
    wb = Workbook()
    ws = wb.active
    ws.title = 'Types'
    ws.append([1, -7, 0, 2 ** 40, 1.5, -0.25, 1e-9, 1e20, True, False])
    ws.append(['text', '', ' padded ', 'UPPER(x)', "it's", 'a"b', 'line\nbreak', '=1+2', '=A1*2', None])
    ws.append([datetime.datetime(2020, 2, 29, 13, 14, 15), datetime.date(1999, 12, 31), datetime.time(1, 2, 3),
               datetime.datetime(1900, 3, 1), None, None, 'tail'])
    ws['M9'] = 'far away'
    ws['A12'] = 0.1 + 0.2
    ws['B12'] = '=SUM(A1:C1)'
    ws['C12'] = '=IF(A1>0, "yes", "no")'
    ws['D12'] = '=A12&" x"'
    wb.save(path)


def wb_sparse(path):
    wb = Workbook()
    ws = wb.active
    ws.title = 'Sparse One'
    ws['D7'] = 42
    ws['B2'] = 'b2'
    ws['H3'] = 3.25
    ws2 = wb.create_sheet('Empty')
    ws3 = wb.create_sheet('Один лист')
    ws3['A1'] = '=\'Sparse One\'!D7+1'
    ws3['C5'] = "='Sparse One'!B2"
    ws3['F1'] = True
    ws4 = wb.create_sheet('x-y.z (1)')
    ws4['B1'] = '=A1'
    ws4['A3'] = datetime.datetime(2021, 1, 1)
    ws5 = wb.create_sheet('OnlyFar')
    ws5['Z40'] = 'zz'
    assert ws2 is not None
    wb.save(path)


def wb_array(path):
    wb = Workbook()
    ws = wb.active
    ws.title = 'Arr'
    ws.append([1, 2, 3])
    ws.append([4, 5, 6])
    ws['E1'] = ArrayFormula('E1:E1', '=SUM(A1:C1)')
    ws['E2'] = ArrayFormula('E2:E2', '=SUM(A2:C2)   \n')
    ws['E3'] = ArrayFormula('E3:E4', '=A1+B2')
    ws['F1'] = '=E1+E2'
    ws['G5'] = ArrayFormula('G5:G5', '="eval(1)"&A1')
    wb.save(path)


def wb_array_bad(path):
    wb = Workbook()
    ws = wb.active
    ws.title = 'ArrBad'
    ws.append([1, 2, 3])
    ws['E2'] = ArrayFormula('E2:E2', '  =SUM(A1:C1)   ')
    ws['A3'] = 'after'
    wb.save(path)


def wb_suspicious_constants(path):
    wb = Workbook()
    ws = wb.active
    ws.title = 'Quiet danger'
    ws.append(['eval(1)', 'SUM(A1)', 7, 'getattr(x, y)'])
    ws.append([None, '=A1&"!"', '=C1*2'])
    wb.save(path)


def wb_suspicious(path):
    wb = Workbook()
    ws = wb.active
    ws.title = 'Danger'
    ws.append(['eval(1)', 'SUM(A1)', '__import__(os)', 'print()', 'x', 5, 'f(1) + G(2) + h_1(3)'])
    ws.append(['=SUM(A1:B1)', '=sum(1)', 'os.system("rm")', 0, False, '', None])
    ws2 = wb.create_sheet("Second sheet")
    ws2['C3'] = 'open(file)'
    ws2['A1'] = 'Open(FILE)'
    ws2['B2'] = 'a1(b2(c3))'
    wb.save(path)


def wb_ragged(path):
    wb = Workbook()
    ws = wb.active
    ws.title = 'Ragged'
    ws.append([1])
    ws.append([1, 2, 3, 4, 5, 6])
    ws.append([])
    ws.append([None, None, 'c4'])
    ws.append(['=B2+F2', '=UNKNOWNFUNC(1)', '=1+', '=(1', '=A1 A2'])
    for index in range(8):
        extra = wb.create_sheet(f'S{index}')
        extra.cell(row=index + 1, column=index + 1, value=index)
    wb.save(path)


def wb_single_empty(path):
    wb = Workbook()
    wb.active.title = 'Nothing'
    wb.save(path)


BUILDERS = [wb_types, wb_sparse, wb_array, wb_array_bad, wb_suspicious, wb_suspicious_constants, wb_ragged,
            wb_single_empty]


def digest_excel(path):
    excel = Excel.parse(path)
    print('  titles', excel.get_titles())
    print('  sizes', excel.get_sheets_size())
    for sheet_number, sheet in enumerate(excel._data):
        print(f'  sheet {sheet_number} rows={len(sheet)} lens={[len(r) for r in sheet]}')
        for row_number, row in enumerate(sheet):
            print(f'    r{row_number}', [show(v) for v in row])
    print('  suspicious', list(excel._suspicious_cells.items()))
    try:
        excel.is_safe()
        print('  is_safe ok')
    except Exception as e:
        print('  is_safe', type(e).__name__, str(e).replace('\n', '|'))
    cells = excel.get_cells()
    print('  cells', len(cells), sha(repr([(c.title, c.column, c.row, show(c.value)) for c in cells])))


def digest_translation(path, out_py, safety):
    parser = Parser().set_excel_file_path(path)
    if not safety:
        parser.disable_safety_check()
    try:
        parser.write_translation(out_py)
    except Exception as e:
        print(f'  translate(safety={safety})', type(e).__name__, str(e).replace('\n', '|')[:300])
        return
    text = parser.get_translation()
    print(f'  translate(safety={safety}) ok len={len(text)} sha={sha(text)}')
    executor = Executor().set_executed_class(class_file=out_py)
    print('  exec titles', executor._titles, 'sizes', executor._sheets_size)
    for title, number in executor._titles.items():
        size = executor._sheets_size[number]
        for row in range(size['last_row']):
            line = []
            for column in range(size['last_column']):
                try:
                    line.append(show(executor.get_cell(Cell(number, column, row)).value))
                except Exception as e:
                    line.append(f'!{type(e).__name__}')
            print(f'    {title!r} r{row}', line)
        # one cell beyond the stored size, by Excel-style address
        try:
            print('    beyond', show(executor.get_cell(Cell(title, 'AZ', '999')).value))
        except Exception as e:
            print('    beyond', type(e).__name__)


def main():
    tmp = tempfile.mkdtemp(prefix='t46r1_')
    try:
        for builder in BUILDERS:
            path = os.path.join(tmp, builder.__name__ + '.xlsx')
            builder(path)
            print('==', builder.__name__)
            digest_excel(path)
            for safety in (True, False):
                digest_translation(path, os.path.join(tmp, builder.__name__ + f'_{int(safety)}.py'), safety)
        # unreadable / missing files
        for bad in ('missing.xlsx',):
            try:
                Excel.parse(os.path.join(tmp, bad))
            except Exception as e:
                print('== missing', type(e).__name__)
        not_zip = os.path.join(tmp, 'notzip.xlsx')
        with open(not_zip, 'w') as f:
            f.write('hello')
        try:
            Excel.parse(not_zip)
        except Exception as e:
            print('== notzip', type(e).__name__)
    finally:
        shutil.rmtree(tmp, ignore_errors=True)
    return 0


if __name__ == '__main__':
    sys.exit(main())
