"""Equivalence demo for r1 (ExpressionTokenTranslator / OperatorSubTokenTranslator).

Builds a workbook with many operator formulas (well-formed and malformed), translates every formula
cell on its own (entry point) and the whole workbook, prints the generated member functions, the values
(without and with overrides) and the class names + messages of all exceptions.
"""
import datetime
import hashlib
import os
import re
import shutil
import sys
import tempfile

from openpyxl import Workbook

from excel2pycl import Parser, Executor, Cell
from excel2pycl.src.lexer import Lexer
from excel2pycl.src.ast_builder import AstBuilder
from excel2pycl.src.tokens import (NotEqOperatorToken, EqOperatorToken, GtOperatorToken, GtOrEqualOperatorToken,
                                   LtOperatorToken, LtOrEqualOperatorToken, PlusOperatorToken, MinusOperatorToken,
                                   MultiplicationOperatorToken, DivOperatorToken, AmpersandToken, PercentToken,
                                   BracketStartToken, SeparatorToken)
from excel2pycl.src.translators.operator_sub_token_translator import OperatorSubTokenTranslator

DATA = {
    'A1': 10, 'A2': 3.5, 'A3': 'text', 'A4': True, 'A5': None, 'A6': '7',
    'B1': 0, 'B2': -2, 'B3': '', 'B4': datetime.datetime(2020, 1, 15), 'B5': 0.1, 'B6': 1e308,
    'C1': 'abc', 'C2': 'ABC', 'C3': False, 'C4': 12.5, 'C5': '0', 'C6': 2,
}

FORMULAS = [
    # precedence / associativity
    '=1+2*3', '=(1+2)*3', '=2*3+4', '=10-4-3', '=100/10/5', '=2*3/4*5', '=1-2+3', '=2+3&4', '=1&2+3', '=1&2&3',
    '=1+2&3*4', '=2*3&4/8', '=((1+2)*(3+4))', '=((1))', '=(1)', '=(1+2)*3-4/2', '=(1+2)*(3-4)/(2+2)',
    '=1+(2*3)', '=1+(2+3)*4', '=(A1+A2)*C6', '=A1+A2*C6', '=A1-A2-C6', '=A1/C6/C6', '=(A1)', '=((A1)+1)',
    # unary sign
    '=-A1', '=+A1', '=-A1+5', '=--A1', '=-(A1+1)', '=-A1*2', '=2*-3', '=2--3', '=2-+3', '=-1', '=+1', '=-(1)',
    '=-(-1)', '=-A1-A2', '=-A1*-A2', '=1+-A1', '=-A5', '=-B2', '=-1+2*3', '=-(1+2)*3', '=- 1', '=-"3"',
    # percent
    '=50%', '=A1%', '=50%%', '=50%*2', '=2*50%', '=A1%+1', '=-50%', '=(A1+1)%', '=1+50%', '=50%+50%',
    '=200*A1%', '=A1%*A2%', '=10%&"x"', '=A5%', '=C4%', '=7%', '=0.1%', '=50%=0.5', '=A1%>0', '=50%/2', '=1-10%',
    '=100*10%%', '=A1%%', '=%5', '=5 %',
    # concatenation
    '=A1&A3', '=A5&"x"', '=B4&""', '=A1&A2', '=TRUE&1', '="a"&"b"', '="a"&"b"&"c"', '=A3&A3&A3', '=A4&C3',
    '="x"&1+1', '=1+1&"x"', '="a"&"b"="ab"', '=A3&""=A3', '=B3&B3', '=A5&A5', '="" & ""', '=A2&"%"',
    # comparisons
    '=1<2', '=2<1', '=1<=1', '=2>=3', '=1<>1', '=1<>2', '=1=1', '=A1>=10', '=A1<>A2', '=A3=A3', '=A3="TEXT"',
    '=C1=C2', '=C1<C2', '=C1<>C2', '=A5=0', '=A5=""', '=A5<1', '=A5>-1', '=A5<>0', '=A5>=0', '=A5<=0',
    '=A1+1>A2*2', '=1+2=3', '=(1=1)=TRUE', '=A4=TRUE', '=A4=1', '=C3=0', '=B4>A1', '=B4=B4', '=B4<B4', '=A6=7',
    '=A6>A2', '=A6<A1', '=C5=0', '=C5=B1', '=B3=""', '=B3=A5', '=A3>A1', '=A1>A3', '=A3<"u"', '=1<2<3', '=1=1=1',
    '=A1=10=TRUE', '=0.1+0.2=0.3', '=A1>5&"x"', '="a"<"B"', '="b">"A"', '=A2>3', '=A2<4', '=A2=3.5', '=1<"1"',
    '=TRUE>FALSE', '=TRUE=1', '=A1*2>=A1+A1', '=A1><A2', '=A1=<A2', '=A1=>A2', '=A1==A2', '=A1<', '=<A1',
    # numeric literals
    '=0.1+0.2', '=B5*3', '=1e3+1', '=1.5e-3*2', '=1E3', '=123456789012345678', '=0.30000000000000004', '=1.0',
    '=1.50', '=007', '=1e-7', '=1e400', '=.5', '=5.', '=1.2.3', '=12345678901234567890', '=0', '=0.0', '=1e0',
    '=2e2*2e-2', '=1.7976931348623157e308', '=4.9e-324', '=9007199254740993',
    # blanks / types in arithmetic
    '=A5+1', '=A5*5', '=A5/2', '=1/A5', '=A3+1', '=A1/B1', '=B6*10', '=A4+1', '=A4*A4', '=C3+C3', '=A6+1', '=A6*2',
    '=B3+1', '=B4+1', '=B4-B4', '=A5+A5', '=A5-A1', '=A1+A5',
    # whitespace / malformed
    '=1 + 2', '= 1+2', '=1+2 ', '=(1+2', '=1+2)', '=1+', '=*2', '=1 2', '=', '=()', '=1+*2', '=1//2', '=A1 A2',
    '=1+2\n', '=1+\n2', '="a', '="a""b"', '=""', '="x"&""', "='a'", '=#REF!', '=A1:A2+1', '=A1:B2', '=@A1',
    '=1;2', '=1,2', '=A1!', '=S!A1+1', "='S'!A1*2", '=T!A1', '=AA1+1', '=A0', '=A1048577',
    # operators around functions
    '=SUM(A1:A2)*2+1', '=IF(A1>5;"big";"small")&"!"', '=IF(1<2,1+1,2*2)', '=ROUND(A2*2%;2)', '=-SUM(A1:A2)',
    '=SUM(A1:A2)%', '=MAX(A1;A2)>MIN(A1;A2)', '=IF(A5=0;-A1;+A1)', '=SUM(A1;-A2;A1%)', '=IF(A1&A2="103.5";1;0)',
    '=(SUM(A1:A2))*(2)', '=SUM(A1:A2)&SUM(A1:A2)', '=-IF(TRUE;1;2)', '=IF(TRUE();1;2)', '=TRUE()', '=FALSE',
    '=NOSUCH(1)', '=SUM(1', '=IF(1)', '=SUM()',
]

OVERRIDES = [
    [],
    [('A', '1', '5'), ('A', '5', 2)],
    [('A', '1', None), ('A', '2', 0), ('A', '3', 4)],
    [('A', '1', 2.5), ('A', '5', ''), ('B', '1', 4), ('C', '6', 0)],
    [('A', '1', True), ('A', '2', datetime.datetime(2021, 2, 3)), ('A', '5', 'z'), ('C', '1', 'ABC')],
    [('A', '1', -0.0), ('A', '2', 1e-320), ('B', '5', float('inf')), ('A', '6', ' 7 ')],
]

out = []


def emit(*parts):
    out.append(' | '.join(str(p) for p in parts))


def show(value):
    return f'{type(value).__name__}:{value!r}'


def members(text):
    return re.findall(r'    def (_\w+)\(self\):\n        return (.*)', text)


def attempt(function):
    try:
        return 'ok', function()
    except BaseException as e:  # noqa
        if isinstance(e, (KeyboardInterrupt, SystemExit)):
            raise
        return 'exc', f'{type(e).__qualname__}: {e}'


def main():
    assert sys.getrecursionlimit() == 1000
    tmp = tempfile.mkdtemp(prefix='t31r1_')
    try:
        xlsx = os.path.join(tmp, 'book.xlsx')
        wb = Workbook()
        ws = wb.active
        ws.title = 'S'
        for address, value in DATA.items():
            ws[address] = value
        for i, formula in enumerate(FORMULAS):
            ws.cell(row=i + 1, column=5).value = formula
        other = wb.create_sheet('T')
        other['A1'] = 99
        wb.save(xlsx)

        # 1. every formula on its own
        loadable = []
        for i, formula in enumerate(FORMULAS):
            status, text = attempt(lambda: Parser().set_excel_file_path(xlsx).disable_safety_check()
                                   .set_entrypoint_cell(Cell(0, 4, i)).get_translation())
            if status == 'exc':
                emit(i, repr(formula), 'TRANSLATE', text)
                continue
            emit(i, repr(formula), 'MEMBERS', members(text))
            py = os.path.join(tmp, f'f{i}.py')
            Parser().set_excel_file_path(xlsx).disable_safety_check().set_entrypoint_cell(Cell(0, 4, i)) \
                .write_translation(py)
            status, problem = attempt(lambda: Executor().set_executed_class(class_file=py))
            if status == 'ok':
                loadable.append(i)
            else:
                emit(i, 'LOAD', problem)
                continue
            for n, override in enumerate(OVERRIDES):
                def run():
                    executor = Executor().set_executed_class(class_file=py)
                    if override:
                        executor.set_cells([Cell('S', c, r, value=v) for c, r, v in override])
                    return show(executor.get_cell(Cell('S', 'E', str(i + 1))).value)
                emit(i, n, *attempt(run))

        # 2. the direct translator table
        for token_class, text in [(NotEqOperatorToken, '<>'), (EqOperatorToken, '='), (GtOperatorToken, '>'),
                                  (GtOrEqualOperatorToken, '>='), (LtOperatorToken, '<'), (LtOrEqualOperatorToken, '<='),
                                  (PlusOperatorToken, '+'), (MinusOperatorToken, '-'),
                                  (MultiplicationOperatorToken, '*'), (DivOperatorToken, '/'), (AmpersandToken, '&'),
                                  (PercentToken, '%'), (BracketStartToken, '('), (SeparatorToken, ';')]:
            token, rest = token_class.get(text + 'x', Cell(0, 0, 0))
            emit('OP', token_class.__name__, repr(rest), *attempt(lambda: OperatorSubTokenTranslator.translate(
                token, None, None)))

        # 3. whole workbooks: all formulas that parse, then only those whose own class loaded
        parsing = [f for i, f in enumerate(FORMULAS) if attempt(
            lambda: AstBuilder.parse(Lexer.parse(f, Cell(0, 4, i)), Cell(0, 4, i)))[0] == 'ok']
        for label, good in (('WHOLE-PARSING', parsing), ('WHOLE-LOADABLE', [FORMULAS[i] for i in loadable])):
            xlsx2 = os.path.join(tmp, label + '.xlsx')
            wb = Workbook()
            ws = wb.active
            ws.title = 'S'
            for address, value in DATA.items():
                ws[address] = value
            for i, formula in enumerate(good):
                ws.cell(row=i + 1, column=5).value = formula
            wb.create_sheet('T')['A1'] = 99
            wb.save(xlsx2)
            status, text = attempt(lambda: Parser().set_excel_file_path(xlsx2).disable_safety_check().get_translation())
            emit(label, status, len(good))
            if status != 'ok':
                emit(label, text)
                continue
            for name, code in members(text):
                emit(label, name, code)
            py = os.path.join(tmp, label + '.py')
            Parser().set_excel_file_path(xlsx2).disable_safety_check().write_translation(py)
            for n, override in enumerate(OVERRIDES):
                status, executor = attempt(lambda: Executor().set_executed_class(class_file=py))
                if status != 'ok':
                    emit(label, n, 'LOAD', executor)
                    continue
                if override:
                    executor.set_cells([Cell('S', c, r, value=v) for c, r, v in override])
                for i in range(len(good)):
                    emit(label, n, i, *attempt(lambda: show(executor.get_cell(Cell(0, 4, i)).value)))

        # 4. long chains: the longest one the translator takes under the default recursion limit
        from excel2pycl.src.context import Context
        from excel2pycl.src.translators.entry_point_token_translator import EntryPointTokenTranslator
        cell = Cell(0, 0, 0)
        shapes = {
            'sum': lambda n: '=' + '+'.join(['1'] * n),
            'signs': lambda n: '=' + '-' * n + '1',
            'concat': lambda n: '=' + '&'.join(['"a"'] * n),
            'compare': lambda n: '=' + '<'.join(['1'] * n),
            'percent': lambda n: '=' + '1%*' * n + '1',
            'brackets-left': lambda n: '=' + '(1)+' * n + '1',
        }
        from excel2pycl.src.translators.expression_token_translator import ExpressionTokenTranslator
        for name, shape in shapes.items():
            # parsed once (with a raised limit); the right operands are the shorter chains
            sys.setrecursionlimit(20000)
            try:
                entry = AstBuilder.parse(Lexer.parse(shape(1100), cell), cell)
            finally:
                sys.setrecursionlimit(1000)
            chain = [entry.expression]
            while chain[-1].right_operand is not None:
                chain.append(chain[-1].right_operand)

            def translates(levels):
                return attempt(lambda: ExpressionTokenTranslator.translate(chain[len(chain) - levels], None, Context()))

            emit('CHAIN', name, 'levels', len(chain))
            for levels in (1, 2, 3, 10, 100, 500):
                status, code = translates(levels)
                emit('CHAIN', name, levels, status, code if levels <= 10 or status != 'ok' else hashlib.sha256(
                    code.encode()).hexdigest()[:16])
            emit('CHAIN', name, 'entry point', attempt(lambda: EntryPointTokenTranslator.translate(
                entry, None, Context()))[1][:60])
            low, high = 1, len(chain)
            emit('CHAIN', name, high, translates(high)[0])
            while high - low > 1:
                middle = (low + high) // 2
                if translates(middle)[0] == 'ok':
                    low = middle
                else:
                    high = middle
            emit('CHAIN', name, 'longest ok', low, 'first failing', high, translates(high)[1][:60])
    finally:
        shutil.rmtree(tmp, ignore_errors=True)

    body = '\n'.join(out)
    print(body)
    print('LINES', len(out))
    print('DIGEST', hashlib.sha256(body.encode('utf-8')).hexdigest())


if __name__ == '__main__':
    main()
    sys.exit(0)
