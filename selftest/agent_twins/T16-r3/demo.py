"""Equivalence demo for r3 (LambdaTokenTranslator: precompiled criterion pattern, match groups).

1. Feeds the translator many criterion literals directly (stub tokens, no expression) and prints the
   generated lambda source for each.
2. Translates, one entry point at a time, a workbook full of SUMIF / SUMIFS / COUNTIFS / AVERAGEIFS
   formulas with literal, operator-prefixed, &-assembled and wildcard criteria; prints a digest of the
   generated class text, the computed value or the exception class for every formula.
"""
import datetime
import hashlib
import itertools
import os
import shutil
import tempfile

from openpyxl import Workbook

from excel2pycl import Parser, Executor, Cell
from excel2pycl.src.context import Context
from excel2pycl.src.translators.lambda_token_translator import LambdaTokenTranslator


class StubToken:
    def __init__(self, literal, in_cell):
        self.literal = literal
        self.expression = None
        self.in_cell = in_cell


def direct_literals():
    operators = ['>=', '<=', '>', '<', '<>', '=', '==', '!=', '=>', '=<', '><', '', '>>', '<<', '<>=']
    numbers = ['', '5', '05', '0', '12.5', '12.', '.5', '1e3', '1e-3', '1E3', '2.5e2', '2.5e-2', '1e', '1e+3',
               '-5', '+5', ' 5', '5 ', '5x', 'x', '1,5', '1.2.3', '1e2e3', '٣', '5\n', '1_000', '00.00',
               '9' * 30, '1e400', '1.' + '0' * 20 + '1']
    for operator, number in itertools.product(operators, numbers):
        yield repr(operator + number)
    # forms that are not a repr of a plain string
    yield from ['5', '5.5', '1e3', 'True', 'False', "''", '"it\'s"', '">5\'"', "'>5", ">5'", ">5", "'>5'\n",
                "x'>5'", "'>5'x", "''>5''", "'>'", "'<>'", "'<'", "'>='", "'<='", "'='", None, '', "'abc'",
                "'a*'", "'?'", "'>a'", "'<>a'", "'>=2024-01-01'"]


def run_direct():
    context = Context()
    cell = Cell(0, 0, 0)
    for number, literal in enumerate(direct_literals()):
        try:
            reference = LambdaTokenTranslator.translate(StubToken(literal, cell), None, context)
            index = int(reference.rsplit('_', 1)[1].rstrip("')"))
            code = context._sub_cell_translations[cell.uid][index]
            print('literal', number, repr(literal), '=>', code)
        except BaseException as error:  # noqa
            print('literal', number, repr(literal), '=> EXC', type(error).__name__, error)


def build_workbook(path):
    wb = Workbook()
    ws = wb.active
    ws.title = 'S'
    rows = [
        # A: numbers, B: texts, C: target, D: mixed, E: criteria cells
        [1, 'apple', 10, 5, 5],
        [5, 'Apple', 20, '5', 'apple'],
        [7, 'banana', 30, None, '>5'],
        [2.5, 'a*c', 40, True, 'a*'],
        [10, 'abc', 50, 'x', 2.5],
        [None, 'a?c', 60, 0, '<>'],
        [5, '', 70, 5.0, None],
        [100, 'x', 80, -1, datetime.datetime(2024, 1, 15)],
        [0.001, 'APPLE pie', 90, 1e3, '1e3'],
        [250, 'b', 100, 0.025, 'b'],
    ]
    for r, row in enumerate(rows, start=1):
        for c, value in enumerate(row, start=1):
            if value is not None:
                ws.cell(row=r, column=c, value=value)
    ws.cell(row=1, column=6, value=datetime.datetime(2024, 1, 15))
    ws.cell(row=2, column=6, value=datetime.datetime(2024, 2, 1))
    ws.cell(row=3, column=6, value=datetime.datetime(2023, 12, 31))
    ws.cell(row=4, column=6, value='2024-01-15')

    criteria = ['">5"', '">=5"', '"<5"', '"<=5"', '"<>5"', '"=5"', '5', '"5"', '2.5', '">2.5"', '"<>2.5"',
                '">1e2"', '"<1e-2"', '">=2.5e2"', '"<2.5e-2"', '">05"', '">"', '"<>"', '"<"', '">="',
                '"apple"', '"APPLE"', '"<>apple"', '"=apple"', '">a"', '"a*"', '"*e"', '"a?c"', '"a~*c"',
                '"a~?c"', '"*"', '"?"', '"??????"', '"*p*e*"', '""', '"x"', 'S!E1', 'S!E2', 'S!E3', 'S!E4', 'S!E5',
                'S!E6', 'S!E7', 'S!E8', 'S!E9', '">"&S!E1', '"<>"&S!E1', '"<>"&S!E2', '">="&S!E5', '"<"&S!E5', '"="&S!E1',
                '"<="&S!E9', '">"&S!E7', 'TRUE', '">-1"', '"> 5"', '">5 "', '">5x"', '"1e3"', '">1E2"',
                '"<>"&S!E7', '">"&5', '">5"&""', '">=1e3"', '"<12."', '">.5"', '"=="', '"!=5"', '"=>5"']
    formulas = []
    for criterion in criteria:
        formulas.append(f'=SUMIF(S!A1:A10,{criterion},S!C1:C10)')
        formulas.append(f'=SUMIF(S!B1:B10,{criterion},S!C1:C10)')
        formulas.append(f'=SUMIF(S!D1:D10,{criterion})')
        formulas.append(f'=SUMIFS(S!C1:C10,S!A1:A10,{criterion})')
        formulas.append(f'=SUMIFS(S!C1:C10,S!B1:B10,{criterion},S!A1:A10,">1")')
        formulas.append(f'=COUNTIFS(S!A1:A10,{criterion})')
        formulas.append(f'=COUNTIFS(S!B1:B10,{criterion},S!D1:D10,"<>x")')
        formulas.append(f'=AVERAGEIFS(S!C1:C10,S!A1:A10,{criterion})')
        formulas.append(f'=AVERAGEIFS(S!C1:C10,S!D1:D10,{criterion},S!B1:B10,"<>b")')
    formulas += [
        '=SUMIF(S!F1:F3,">"&S!F3,S!C1:C3)', '=SUMIF(S!F1:F4,S!F1,S!C1:C4)', '=COUNTIFS(S!F1:F4,"2024-01-15")',
        '=COUNTIFS(S!F1:F3,">=2024-01-15")', '=SUMIFS(S!C1:C10,S!A1:A9,">5")', '=COUNTIFS(S!A1:A10,">5",S!B1:B9,"x")',
        '=AVERAGEIFS(S!C1:C10,S!A1:A5,"<5")', '=SUMIF(S!A1:A10,">5",S!C1:C5)', '=SUMIF(S!A1:A10,">5",S!C1)',
        '=SUMIFS(S!C1:C10,S!A1:A10,">1",S!A1:A10,"<100",S!B1:B10,"<>x")', '=COUNTIFS(S!A1:B10,">5")',
        '=SUMIFS(S!C1:D10,S!A1:B10,">1")',
    ]
    fs = wb.create_sheet('F')
    for row, formula in enumerate(formulas, start=1):
        fs.cell(row=row, column=1, value=formula)
    wb.save(path)
    return formulas


def show(value):
    if isinstance(value, float):
        return 'float:' + repr(round(value, 12))
    return type(value).__name__ + ':' + repr(value)


def run_workbook():
    tmp = tempfile.mkdtemp(prefix='r3demo')
    try:
        xlsx = os.path.join(tmp, 'book.xlsx')
        formulas = build_workbook(xlsx)
        for row, formula in enumerate(formulas, start=1):
            line = [formula]
            try:
                text = Parser().set_excel_file_path(xlsx).set_entrypoint_cell(Cell('F', 'A', str(row))) \
                    .get_translation()
                line.append(hashlib.sha256(text.encode('utf-8')).hexdigest()[:16])
                out_py = os.path.join(tmp, f'translation_{row}.py')
                with open(out_py, 'w', encoding='utf-8') as handle:
                    handle.write(text)
                executor = Executor().set_executed_class(class_file=out_py)
                try:
                    line.append(show(executor.get_cell(Cell('F', 'A', str(row))).value))
                except BaseException as error:  # noqa
                    line.append('EXC ' + type(error).__name__ + ' ' + str(error))
                executor.set_cells([Cell('S', 'A', '6', value=6), Cell('S', 'E', '1', value=7),
                                    Cell('S', 'E', '7', value='a?c'), Cell('S', 'B', '7', value='apple')])
                try:
                    line.append(show(executor.get_cell(Cell('F', 'A', str(row))).value))
                except BaseException as error:  # noqa
                    line.append('EXC ' + type(error).__name__ + ' ' + str(error))
            except BaseException as error:  # noqa
                line.append('TRANSLATE EXC ' + type(error).__name__ + ' ' + str(error)[:120])
            print(' | '.join(line))
        # whole-file translation as well
        try:
            text = Parser().set_excel_file_path(xlsx).get_translation()
            print('whole file', hashlib.sha256(text.encode('utf-8')).hexdigest(), len(text))
        except BaseException as error:  # noqa
            print('whole file EXC', type(error).__name__, str(error)[:200])
    finally:
        shutil.rmtree(tmp, ignore_errors=True)


if __name__ == '__main__':
    run_direct()
    run_workbook()
