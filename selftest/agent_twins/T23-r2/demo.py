"""Equivalence demonstration for r2 (COLUMN translator: guard clauses + extracted _translate_matrix_reference).

Builds several workbooks whose formulas use COLUMN in every accepted shape (no reference, a single cell, a one-column
matrix, a multi-column matrix, other sheets, absolute references, nested in arithmetic / ADDRESS / INDEX), translates
them (whole file and with an entry-point cell, safety check on and off), prints the sha256 of the complete generated
text (the refactoring does not touch the runtime template, so the text must be identical) and the value of every cell.
"""
import hashlib
import os
import shutil
import tempfile

from openpyxl import Workbook
from openpyxl.utils import get_column_letter

from excel2pycl import Parser, Executor, Cell

LINES = []


def emit(line):
    LINES.append(line)
    print(line)


def show(value):
    return f'{type(value).__name__}:{value!r}'


def attempt(function, *args):
    try:
        return show(function(*args))
    except BaseException as error:  # noqa
        return f'raised {type(error).__name__}'


def sha(text):
    return hashlib.sha256(text.encode()).hexdigest()


WORKBOOKS = {
    # name -> {sheet title: {address: value}}
    'own_cell': {
        'Sheet1': {'A1': '=COLUMN()', 'C2': '=COLUMN()', 'Z3': '=COLUMN()', 'AB4': '=COLUMN()+1',
                   'E5': '=COLUMN()*10', 'B7': '=IF(COLUMN()>1;"right";"left")'},
    },
    'single_cell': {
        'Sheet1': {'A1': '=COLUMN(A1)', 'A2': '=COLUMN(C5)', 'A3': '=COLUMN($AB$7)', 'A4': '=COLUMN(XFD1)',
                   'A5': '=COLUMN(Z9)+COLUMN(AA9)', 'A6': "=COLUMN(Other!D2)", 'A7': "=COLUMN('My Sheet'!AZ3)",
                   'A8': '=COLUMN(B$2)', 'A9': '=COLUMN($C2)', 'B1': '=ADDRESS(2;COLUMN(E1))',
                   'B2': '=INDEX(D1:F1;COLUMN(B1))', 'D1': 'd', 'E1': 'e', 'F1': 'f'},
        'Other': {'D2': 5},
        'My Sheet': {'AZ3': 'x'},
    },
    'one_column_matrix': {
        'Sheet1': {'A1': '=COLUMN(B1:B5)', 'A2': '=COLUMN(D2:D3)', 'A3': '=COLUMN($F$1:$F$9)', 'A4': '=COLUMN(AA1:AA2)',
                   'A5': '=COLUMN(Other!C1:C4)', 'A6': '=COLUMN(B1:B5)+COLUMN(C5)', 'B1': 1, 'B2': 2, 'D2': '=B1+B2',
                   'F1': 'text', 'AA1': 3},
        'Other': {'C1': 7, 'C4': '=COLUMN()'},
    },
    'multi_column_matrix_a': {
        'Sheet1': {'A1': '=COLUMN(B1:D1)', 'B1': 10, 'C1': 20, 'D1': 30, 'A3': 'below'},
    },
    'multi_column_matrix_b': {
        'Sheet1': {'A1': 1, 'B2': '=COLUMN(C4:F5)', 'C4': 'c', 'F5': 'f', 'G2': 'far', 'A5': '=SUM(A1;1)'},
    },
    'multi_column_matrix_c': {
        'Sheet1': {'A1': 'k', 'C3': "=COLUMN(Data!B2:C3)", 'D5': '=COLUMN(A1:A1)'},
        'Data': {'B2': 1, 'C3': '=B2+1'},
    },
    'reversed_and_columns_only': {
        'Sheet1': {'A1': '=COLUMN(D1:B1)', 'A2': '=COLUMN(C:C)', 'B3': 4, 'C3': 5},
    },
    'mixed': {
        'Sheet1': {'A1': '=COLUMN()', 'B1': '=COLUMN(A1)', 'C1': '=COLUMN(E1:E3)', 'D1': '=COLUMN()+COLUMN(B2)',
                   'E1': 1, 'E2': '=COLUMN()', 'E3': '=COLUMN(E1)', 'A2': '=ADDRESS(COLUMN();COLUMN(C3))',
                   'A3': '=MATCH(COLUMN(E9);E1:E3;0)'},
    },
}


def build(path, sheets):
    wb = Workbook()
    first = True
    for title, cells in sheets.items():
        ws = wb.active if first else wb.create_sheet(title)
        ws.title = title
        first = False
        for address, value in cells.items():
            ws[address] = value
    wb.save(path)


def translate(parser_factory, label):
    try:
        text = parser_factory().get_translation()
    except BaseException as error:  # noqa
        emit(f'{label} translation raised {type(error).__name__}: {error}')
        return None
    emit(f'{label} translation sha256 {sha(text)} ({len(text)} chars)')
    return text


def evaluate(out_py, sheets, label):
    executor = Executor().set_executed_class(class_file=out_py)
    emit(f'{label} titles {executor.get_executed_class().get_titles()} sizes {executor.get_executed_class().get_sheets_size()}')
    for title in sheets:
        size = executor.get_executed_class().get_sheets_size()[executor.get_executed_class().get_titles()[title]]
        for row in range(size['last_row'] + 1):
            for column in range(size['last_column'] + 2):
                value = attempt(lambda: executor.get_cell(Cell(title, get_column_letter(column + 1), str(row + 1))).value)
                if value != 'EmptyCell:0':
                    emit(f'{label} {title}!{get_column_letter(column + 1)}{row + 1} -> {value}')


def main():
    tmp = tempfile.mkdtemp(prefix='t23_r2_')
    try:
        for name, sheets in WORKBOOKS.items():
            xlsx = os.path.join(tmp, f'{name}.xlsx')
            out_py = os.path.join(tmp, f'{name}_generated.py')
            build(xlsx, sheets)

            text = translate(lambda: Parser().set_excel_file_path(xlsx), f'[{name}] whole file')
            translate(lambda: Parser().set_excel_file_path(xlsx).disable_safety_check(), f'[{name}] no safety check')
            if text is not None:
                with open(out_py, 'w', encoding='utf-8') as f:
                    f.write(text)
                evaluate(out_py, sheets, f'[{name}]')

            # every formula cell as the entry point of its own translation
            for title, cells in sheets.items():
                for address, value in cells.items():
                    if not (isinstance(value, str) and value.startswith('=')):
                        continue
                    letters = ''.join(ch for ch in address if ch.isalpha())
                    digits = ''.join(ch for ch in address if ch.isdigit())
                    label = f'[{name}] entry {title}!{address}'
                    entry_text = translate(lambda: Parser().set_excel_file_path(xlsx).set_entrypoint_cell(
                        Cell(title, letters, digits)), label)
                    if entry_text is None:
                        continue
                    entry_py = os.path.join(tmp, f'{name}_{title.replace(" ", "_")}_{address}.py')
                    with open(entry_py, 'w', encoding='utf-8') as f:
                        f.write(entry_text)
                    executor = Executor().set_executed_class(class_file=entry_py)
                    emit(f'{label} -> ' + attempt(lambda: executor.get_cell(Cell(title, letters, digits)).value))
    finally:
        shutil.rmtree(tmp, ignore_errors=True)

    print('lines', len(LINES))
    print('digest', sha('\n'.join(LINES)))


if __name__ == '__main__':
    main()
