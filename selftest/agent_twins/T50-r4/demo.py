"""Equivalence demo for r4: the runtime helper _network_days (both copies).  NETWORKDAYS is evaluated directly on many
intervals (forward, reversed, one day, week-ends only, leap years, the last representable day) with many holiday
matrices (ragged, with blanks, texts, plain dates, None rows, duplicates, holidays on week-ends or outside the
interval) and through a translated workbook."""
import datetime
import os
import shutil
import tempfile

from openpyxl import Workbook

from excel2pycl import Parser, Executor, Cell
from excel2pycl.src.utilities.abstract_excel_in_python_class import AbstractExcelInPython

DT = datetime.datetime


class Direct(AbstractExcelInPython):
    pass


def show(value):
    return f'{type(value).__name__}:{value!r}'


def call(instance, *args):
    try:
        return show(instance._network_days(*args))
    except Exception as error:  # noqa
        return f'EXC {type(error).__name__}: {error}'


def run(label, instance):
    blank = type(instance).EmptyCell()
    anchors = [DT(2023, 4, 1), DT(2023, 4, 3), DT(2023, 4, 7, 23, 59, 59), DT(2023, 4, 8), DT(2023, 4, 9, 12),
               DT(2023, 5, 31), DT(2024, 2, 28), DT(2024, 2, 29), DT(2024, 3, 1), DT(2023, 12, 31), DT(2024, 1, 1),
               DT(9999, 12, 1), DT(9999, 12, 30), DT(9999, 12, 31), DT(2025, 6, 15, 8, 30)]
    far = [DT(1, 1, 1), DT(1, 1, 6), DT(1, 12, 31), DT(1900, 1, 1), DT(1900, 3, 1), DT(2023, 4, 1)]
    holiday_sets = [
        None, [], [[]], [None], [[None]], 0, '',
        [[DT(2023, 4, 3)]], [[DT(2023, 4, 3), DT(2023, 4, 4)], [DT(2023, 4, 5), DT(2023, 4, 8)]],
        [[DT(2023, 4, 3, 15, 30)], [DT(2023, 4, 3)], [DT(2023, 4, 3)]],
        [[blank, 'text', 40, DT(2024, 2, 29)], None, [DT(2024, 1, 1), datetime.date(2024, 3, 1)], []],
        [[DT(2023, 5, 1), DT(2023, 5, 8)], [40, 'ewewwewe']],
        [[DT(9999, 12, 31), DT(1, 1, 1)], [DT(2023, 12, 25)]],
        ([DT(2023, 4, 6)], (DT(2023, 4, 7),)), [(d for d in [DT(2023, 4, 5)])], 'abc', [['x', 'y']], [[blank], [blank]],
    ]
    for start, end in [(far[0], far[0]), (far[0], far[1]), (far[1], far[0]), (far[0], far[2]), (far[3], far[4]),
                       (far[4], far[3]), (far[3], far[5]), (far[5], far[3]), (DT(9990, 1, 1), DT(9999, 12, 31)),
                       (DT(9999, 12, 31), DT(9990, 1, 1)), (DT(9990, 1, 1), DT(9999, 12, 30))]:
        for index in (0, 7, 10, 12):
            print(label, 'FAR', start.isoformat(), end.isoformat(), 'H%d' % index, '->',
                  call(instance, start, end, holiday_sets[index]))
    for start in anchors:
        for end in anchors:
            if abs((end - start).days) > 1000:  # keep the demo fast: the far pairs are covered above
                continue
            for index, holidays in enumerate(holiday_sets):
                if index == 14:  # a fresh generator for every call
                    holidays = [(d for d in [DT(2023, 4, 5)])]
                print(label, start.isoformat(), end.isoformat(), 'H%d' % index, '->',
                      call(instance, start, end, holidays))
    # two-argument form and a sweep of consecutive days
    base = DT(2023, 12, 20)
    for shift_a in range(0, 20):
        for shift_b in range(0, 20):
            a, b = base + datetime.timedelta(days=shift_a), base + datetime.timedelta(days=shift_b, hours=shift_a)
            print(label, 'SWEEP', shift_a, shift_b, '->', call(instance, a, b),
                  call(instance, a, b, [[DT(2023, 12, 25), DT(2024, 1, 1)], [DT(2023, 12, 30)]]))
    # rejected inputs
    bad = [None, blank, 0, 45000, 45000.5, '2023-04-01', datetime.date(2023, 4, 1), DT(2023, 4, 1), [DT(2023, 4, 1)],
           True]
    for a in bad:
        for b in bad:
            print(label, 'BAD', repr(a), repr(b), '->', call(instance, a, b), call(instance, a, b, [[DT(2023, 4, 3)]]))
    for holidays in (5, 1.5, True, [5], [[DT(2023, 4, 3)], 7], {'a': 1}, {DT(2023, 4, 3): 1}, [[[DT(2023, 4, 3)]]],
                     [DT(2023, 4, 3)], object()):
        print(label, 'BADH', repr(holidays) if not isinstance(holidays, object().__class__) or
              type(holidays) is not object else 'object()', '->',
              call(instance, DT(2023, 4, 1), DT(2023, 4, 30), holidays))


def main():
    run('class', Direct())
    tmp = tempfile.mkdtemp(prefix='t50r4_')
    try:
        xlsx = os.path.join(tmp, 'book.xlsx')
        out_py = os.path.join(tmp, 'book_translation.py')
        wb = Workbook()
        ws = wb.active
        ws.title = 'nwd'
        data = [
            [DT(2023, 4, 1), DT(2023, 5, 31), '=NETWORKDAYS(A1,B1)'],
            [DT(2023, 5, 31), DT(2023, 4, 1), '=NETWORKDAYS(A2,B2)'],
            [DT(2023, 5, 1), DT(2023, 5, 8), '=NETWORKDAYS(A1,B1,A3:B4)'],
            [40, 'ewewwewe', '=NETWORKDAYS(A4,B4)'],
            [None, None, '=NETWORKDAYS(A5,B5)'],
            [DT(2023, 5, 9), None, '=NETWORKDAYS(B1,A1,A3:B6)'],
            [DT(2024, 2, 26), DT(2024, 3, 3), '=NETWORKDAYS(A7,B7)'],
            [DT(2024, 2, 29), DT(2024, 2, 29), '=NETWORKDAYS(A8,B8,A7:B8)'],
            [DT(2023, 4, 8), DT(2023, 4, 9), '=NETWORKDAYS(A9,B9)'],
            [None, None, '=NETWORKDAYS(DATE(2023,12,25),DATE(2024,1,7))'],
            [None, None, '=NETWORKDAYS(DATE(2024,1,7),DATE(2023,12,25),A1:B9)'],
            [None, None, '=NETWORKDAYS(EDATE(A1,1),EOMONTH(A1,1))'],
            [None, None, '=NETWORKDAYS(DATE(9999,12,1),DATE(9999,12,31))'],
            [None, None, '=NETWORKDAYS(A1,B1)+NETWORKDAYS(A2,B2)'],
            [None, None, '=NETWORKDAYS(A1,B1,A3:A4)=NETWORKDAYS(A1,B1,A3:B4)'],
        ]
        for r, row in enumerate(data, start=1):
            for c, value in enumerate(row, start=1):
                if value is not None:
                    ws.cell(row=r, column=c, value=value)
        wb.save(xlsx)
        Parser().set_excel_file_path(xlsx).write_translation(out_py)
        executor = Executor().set_executed_class(class_file=out_py)

        def dump(tag):
            for row in range(len(data)):
                try:
                    value = show(executor.get_cell(Cell(0, 2, row)).value)
                except Exception as error:  # noqa
                    value = f'EXC {type(error).__name__}: {error}'
                print(tag, row + 1, data[row][2], '->', value)

        dump('book')
        executor.set_cells([Cell('nwd', 'A', '1', value=DT(2023, 3, 15, 10)), Cell('nwd', 'B', '4', value=DT(2023, 5, 2)),
                            Cell('nwd', 'A', '4', value=DT(2023, 3, 17))])
        dump('book2')
        run('template', executor.get_executed_class())
    finally:
        shutil.rmtree(tmp, ignore_errors=True)


if __name__ == '__main__':
    main()
