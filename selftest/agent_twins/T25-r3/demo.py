"""Equivalence demo for r3: runtime helper _match (both copies), also reached through _xmatch and MATCH / XMATCH
formulas. Calls the helper on the importable base class and on a generated class for a large grid of lookup
values x lookup arrays x match types (including malformed ones) and prints a digest of all results.
"""
import datetime
import hashlib
import itertools
import os
import shutil
import tempfile

from openpyxl import Workbook

from excel2pycl import Parser, Executor, Cell
from excel2pycl.src.object_loader import load_module
from excel2pycl.src.utilities.abstract_excel_in_python_class import AbstractExcelInPython


class Hand(AbstractExcelInPython):
    pass


def show(value):
    if isinstance(value, list):
        return '[' + ', '.join(show(i) for i in value) + ']'
    return f'{type(value).__name__}:{value!r}'


def call(function, *args):
    try:
        return show(function(*args))
    except BaseException as e:  # noqa
        return 'RAISED ' + e.__class__.__name__


def column(*values):
    return [[v] for v in values]


def helper_cases(instance):
    empty = instance.EmptyCell()
    d = datetime.datetime
    arrays = {
        'empty': [],
        'ints_asc': column(1, 3, 5, 7, 9),
        'ints_desc': column(9, 7, 5, 3, 1),
        'ints_dup': column(1, 3, 3, 3, 5),
        'floats': column(0.5, 1.5, 2.5, 3.5),
        'mixed_numbers': column(1, 1.5, 2, 2.5, 3),
        'unsorted': column(5, 1, 9, 3, 7),
        'strings': column('apple', 'Banana', 'cherry', 'DATE'),
        'strings_desc': column('pear', 'Melon', 'kiwi', 'Apple'),
        'mixed_kinds': column('a', 1, 'B', 2.0, None, True, 'c', 3),
        'with_empty': column(empty, 1, empty, 2, 3, empty),
        'only_empty': column(empty, empty),
        'bools': column(False, True, False),
        'dates': column(d(2020, 1, 1), d(2021, 6, 15), d(2022, 12, 31)),
        'nones': column(None, None, 1),
        'wide_rows': [[1, 'x'], [2, 'y'], [3, 'z']],
        'strings_as_rows': ['abc', 'bcd', 'cde'],
        'nan': column(float('nan'), 1.0, 2.0),
        'neg': column(-5, -3, 0, 3),
        'numeric_text': column('1', '2', '10'),
        'bad_scalar_rows': [1, 2, 3],
        'bad_empty_row': [[1], [], [3]],
        'bad_none_row': [[1], None],
        'tuple_rows': ((1,), (2,), (3,)),
        'dict_rows': [{0: 1}, {0: 2}],
        'not_iterable': 7,
        'none_array': None,
    }
    lookups = [0, 1, 3, 4, 10, -4, 2.5, 3.0, 0.4, True, False, 'banana', 'BANANA', 'b', 'zzz', '', 'a', '1', empty, None,
               d(2021, 6, 15), d(2021, 1, 1), float('nan'), [1], (1,)]
    match_types = [0, 1, -1, 2, -7, 0.0, 0.5, -0.5, True, False, None, '1', float('nan'), float('inf'), [0]]
    lines = []
    for (name, array), lookup, match_type in itertools.product(arrays.items(), lookups, match_types):
        lines.append(f'match {name} {show(lookup)} {show(match_type)} -> {call(instance._match, lookup, array, match_type)}')
    for (name, array), lookup in itertools.product(arrays.items(), lookups):
        lines.append(f'match default {name} {show(lookup)} -> {call(instance._match, lookup, array)}')

    # an array that records how far it was read: the helper stops at the first key out of order
    class Recording(list):
        def __init__(self, items):
            super().__init__(items)
            self.reads = []

        def __iter__(self):
            for number, item in enumerate(list.__iter__(self)):
                self.reads.append(number)
                yield item

    for lookup, match_type in itertools.product([0, 4, 5, 100, 'x'], [0, 1, -1]):
        for values in [(1, 3, 5, 7, 9), (9, 7, 5, 3, 1), (5, 5, 5), ('x', 5, 'y')]:
            recording = Recording(column(*values))
            result = call(instance._match, lookup, recording, match_type)
            lines.append(f'match recording {values} {show(lookup)} {match_type} -> {result} reads {recording.reads}')

    # xmatch goes through _match for the linear search modes
    for (name, array), lookup, match_mode, search_mode in itertools.product(
            [(k, arrays[k]) for k in ('ints_asc', 'ints_desc', 'strings', 'with_empty', 'mixed_numbers', 'empty')],
            [0, 3, 4, 2.5, 'banana', empty], [0, 1, -1, 2], [1, -1, 2, -2, 0, None]):
        lines.append(f'xmatch {name} {show(lookup)} {match_mode} {search_mode} -> '
                     f'{call(instance._xmatch, lookup, array, match_mode, search_mode)}')
    return lines


ROWS = [
    [1, 'apple', 9.5, '=MATCH(3,A1:A8,0)'],
    [3, 'Banana', 7.5, '=MATCH(4,A1:A8,1)'],
    [5, 'cherry', 5.5, '=MATCH(4,A1:A8)'],
    [7, 'date', 3.5, '=MATCH(6,C1:C8,-1)'],
    [9, 'elder', 1.5, '=MATCH("CHERRY",B1:B8,0)'],
    [11, 'fig', 0.5, '=MATCH("d",B1:B8,1)'],
    [None, 'grape', None, '=MATCH("zzz",B1:B8,0)'],
    [15, None, -1, '=MATCH(100,A1:A8,1)'],
    [4, 'date', 6, '=MATCH(A9,A1:A8,1)+MATCH(B9,B1:B8,0)'],
    [4, 'date', 6, '=IFERROR(MATCH(0,A1:A8,1)+1,"below")'],
    [4, 'date', 6, '=IF(MATCH(C11,C1:C8,-1)>2,"far","near")'],
    [4, 'date', 6, '=XMATCH(5,A1:A8,0,1)'],
    [4, 'date', 6, '=XMATCH(6,A1:A8,-1,1)'],
    [4, 'date', 6, '=XMATCH(6,A1:A8,1,-1)'],
    [4, 'date', 6, '=XMATCH(7,A1:A6,0,2)'],
    [4, 'date', 6, '=MATCH(E16,A1:A8,0)'],
    [4, 'date', 6, '=MATCH(5.0,A1:A8,0)&"/"&MATCH(5,C1:C8,-1)'],
]

OVERRIDES = [
    [],
    [Cell(0, 0, 8, value=0), Cell(0, 1, 8, value='FIG'), Cell(0, 2, 10, value=100)],
    [Cell(0, 0, 8, value=10.5), Cell(0, 1, 8, value='nothing'), Cell(0, 2, 10, value=-5)],
    [Cell(0, 0, r, value=5) for r in range(8)],
    [Cell(0, 0, 0, value='text'), Cell(0, 0, 2, value=None), Cell(0, 2, 3, value='text')],
    [Cell(0, 0, 8, value='apple'), Cell(0, 1, 8, value=3)],
]


def main():
    out = []
    tmp = tempfile.mkdtemp(prefix='r3demo')
    try:
        xlsx = os.path.join(tmp, 'book.xlsx')
        wb = Workbook()
        ws = wb.active
        for row in ROWS:
            ws.append(row)
        wb.save(xlsx)
        py_file = os.path.join(tmp, 'book_translation.py')
        Parser().set_excel_file_path(xlsx).write_translation(py_file)

        hand_lines = helper_cases(Hand())
        generated_lines = helper_cases(load_module(py_file).ExcelInPython())
        out.append(f'base class and generated class agree: {hand_lines == generated_lines}')
        out.append('BASE sha256 ' + hashlib.sha256('\n'.join(hand_lines).encode()).hexdigest())
        out.append('GENERATED sha256 ' + hashlib.sha256('\n'.join(generated_lines).encode()).hexdigest())
        out += ['base ' + line for line in hand_lines]
        out += ['generated ' + line for line in generated_lines]

        for number, override in enumerate(OVERRIDES):
            executor = Executor().set_executed_class(class_file=py_file)
            if override:
                executor.set_cells(override)
            for row in range(len(ROWS)):
                try:
                    result = show(executor.get_cell(Cell(0, 3, row)).value)
                except BaseException as e:  # noqa
                    result = 'RAISED ' + e.__class__.__name__
                out.append(f'override {number} D{row + 1} -> {result}')
    finally:
        shutil.rmtree(tmp, ignore_errors=True)

    body = '\n'.join(out)
    # the full listing is long; print the workbook results, a sample of the helper results and the digest of all
    for line in out:
        if not line.startswith(('base match', 'generated match', 'generated xmatch')) or ' recording ' in line:
            print(line)
    print('LINES', len(out), 'DIGEST', hashlib.sha256(body.encode()).hexdigest())


if __name__ == '__main__':
    main()
