"""Equivalence demo for r2: the IF translator (if_cc_token_translator.py).

The generated text itself must not change, so the digest covers the complete translation of
every workbook as well as the values computed from it.
"""
import warnings
warnings.filterwarnings('ignore')

import hashlib
import os
import re
import tempfile

import openpyxl

from excel2pycl import Parser, Executor, Cell

LINES = []


def emit(*parts):
    line = ' | '.join(str(p) for p in parts)
    LINES.append(line)
    print(line)


def show(value):
    return f'{type(value).__name__}:{value!r}'


def attempt(fn):
    try:
        return show(fn())
    except BaseException as exc:
        return f'RAISED {type(exc).__name__}'


def nested_if(depth):
    formula = '"deepest"'
    for level in range(depth, 0, -1):
        formula = f'IF(A1>{level * 3},"level {level}",{formula})'
    return '=' + formula


def nested_if_two_args(depth):
    formula = '"inner"'
    for level in range(depth):
        formula = f'IF(A1>{level},{formula})'
    return '=' + formula


FORMULAS = [
    '=IF(A1>3,"big","small")',
    '=IF(A1>3,"big")',
    '=IF(A2,1)',
    '=IF(A2,1,2)',
    '=IF(A2,1,0)',
    '=IF(A2,1,FALSE)',
    '=IF(A2,1,"")',
    '=IF(A4,"full","blank")',
    '=IF(A4,"full")',
    '=IF(A3="x",A1,B1)',
    '=IF(A1>3,IF(A2>0,"a","b"),1/0)',
    '=IF(A1<3,1/0,"lazy")',
    '=IF(A1>3,"t",1/0)',
    '=IF(A1>3,1/0)',
    '=IF(A1<=3,1/0)',
    '=IF(A1>3,SUM(B1:B3),SUM(A1:A2))',
    '=IF(SUM(B1:B3)>50,SUM(B1:B3),SUM(B1:B2))',
    '=IF(SUM(A1:A2)>SUM(B1:B3),MAX(B1:B3))',
    '=IF(MATCH(20,B1:B3,0)=2,VLOOKUP(5,A1:B3,2,FALSE),MATCH(30,B1:B3,0))',
    '=IF(A1>3,MATCH(30,B1:B3,0),VLOOKUP(5,A1:B3,2,FALSE))',
    '=1+IF(A1>3,IFERROR(VLOOKUP(7,A1:B3,2,FALSE),-1),0)*2',
    '=IF(A1>3,1,2)+IF(A2>3,10,20)+IF(A3="x",100)',
    '=IF(IF(A1>3,A2,A1),"inner true","inner false")',
    '=IF(IF(A1>3,A2),"inner true")',
    '=SUM(IF(A1>3,B1,B2),IF(A2>3,B1),IF(A1>3,B3,B1))',
    '=IF(A1>3,"a","b")&IF(A2>3,"c","d")',
    '=IF(A1>3,IFS(A2>0,"p",TRUE,"q"),IFS(A2>0,"r",TRUE,"s"))',
    '=IFS(IF(A1>3,TRUE,FALSE),IF(A2,"x","y"),TRUE,IF(A2,"z"))',
    '=IFERROR(IF(A1>3,1/A2,5),IF(A2,"e1","e2"))',
    '=IF(A1>3,INDEX(B1:B3,MATCH(5,A1:A3,0)),INDEX(B1:B3,3))',
    '=IF(AND(A1>3,A2=0),"both",IF(OR(A1>3,A2=0),"one","none"))',
    '=IF(A1=5,IF(A2=0,IF(A3="x",1,2),3),4)',
    '=-IF(A1>3,2,3)',
    '=IF(A1>3,-2,-3)*IF(A2>3,2)',
    '=IF(A1>3,10%,20%)',
    '=IF((A1>3),(A1+1),(A1-1))',
    '=IF(A1,IF(A1,IF(A1,"3 deep")))',
    nested_if(3),
    nested_if(4),
    nested_if_two_args(2),
    nested_if_two_args(3),
]

OVERRIDES = [
    [],
    [('A', '1', 0)],
    [('A', '1', 2), ('A', '2', 9)],
    [('A', '1', 10), ('A', '2', 1), ('A', '3', 'y')],
    [('A', '1', 37), ('A', '4', 'text')],
    [('A', '1', 80), ('A', '2', -4), ('B', '2', 500)],
    [('A', '1', '#N/A')],
    [('A', '1', -1), ('A', '3', 'X'), ('A', '4', 0)],
    [('A', '1', 3), ('B', '1', 0), ('B', '3', '#DIV/0!')],
    [('A', '1', 3.0000001), ('A', '2', True)],
]


def build_workbook(path, formulas, second_sheet=False):
    wb = openpyxl.Workbook()
    ws = wb.active
    ws.title = 'S'
    cells = {'A1': 5, 'A2': 0, 'A3': 'x', 'A4': None, 'B1': 10, 'B2': 20, 'B3': 30}
    for ref, value in cells.items():
        ws[ref] = value
    for number, formula in enumerate(formulas, start=1):
        ws[f'D{number}'] = formula
    if second_sheet:
        other = wb.create_sheet('Other')
        other['A1'] = '=IF(S!A1>3,S!B1,S!B2)'
        other['A2'] = '=IF(A1=10,IF(S!A2,"p"),"q")'
        other['B1'] = "=IF(S!D1=\"big\",S!D16,0)+1"
    wb.save(path)


def method_bodies(source, prefix):
    return re.findall(r'    def (' + prefix + r'\w*)\(self\):\n        return (.*)\n', source)


def main():
    with tempfile.TemporaryDirectory() as tmp:
        xlsx = os.path.join(tmp, 'book.xlsx')
        out_py = os.path.join(tmp, 'book.py')
        build_workbook(xlsx, FORMULAS, second_sheet=True)
        parser = Parser().set_excel_file_path(xlsx)
        parser.write_translation(out_py)
        source = parser.get_translation()
        emit('TRANSLATION sha256', hashlib.sha256(source.encode()).hexdigest(), len(source))
        for name, body in method_bodies(source, '_0_3_') + method_bodies(source, '_1_'):
            emit('CODE', name, body)

        for override in OVERRIDES:
            executor = Executor().set_executed_class(class_file=out_py)
            if override:
                executor.set_cells([Cell('S', c, r, value=v) for c, r, v in override])
            emit('OVERRIDE', override)
            for number, formula in enumerate(FORMULAS, start=1):
                emit('  D%d' % number, formula[:70],
                     attempt(lambda: executor.get_cell(Cell('S', 'D', str(number))).value))
            for ref in (('A', '1'), ('A', '2'), ('B', '1')):
                emit('  Other!%s%s' % ref, attempt(lambda: executor.get_cell(Cell('Other', *ref)).value))

        # translation from a single entry point, and one workbook per formula
        entry = Parser().set_excel_file_path(xlsx).set_entrypoint_cell(Cell('S', 'D', '19'))
        emit('ENTRYPOINT sha256', hashlib.sha256(entry.get_translation().encode()).hexdigest())
        for number, formula in enumerate(FORMULAS, start=1):
            single = os.path.join(tmp, f'single{number}.xlsx')
            build_workbook(single, [formula])
            text = attempt(lambda: Parser().set_excel_file_path(single).get_translation())
            emit('SINGLE', number, hashlib.sha256(text.encode()).hexdigest())

        # formulas the parser must keep rejecting in the same way
        for number, formula in enumerate(['=IF(A1>3)', '=IF(A1>3,1,2,3)', '=IF(,1,2)', '=IF(A1>3,,2)', '=IF(A1>3,1,)',
                                          '=IF()', '=IF(D1,1,2)', '=IF(A1>3,D2,1)'], start=1):
            bad = os.path.join(tmp, f'bad{number}.xlsx')
            build_workbook(bad, [formula, '=IF(A2,D1,3)'])
            def run():
                out = os.path.join(tmp, f'bad{number}.py')
                Parser().set_excel_file_path(bad).write_translation(out)
                executor = Executor().set_executed_class(class_file=out)
                return [executor.get_cell(Cell('S', 'D', r)).value for r in ('1', '2')]
            emit('REJECT?', formula, attempt(run))

    print('LINES', len(LINES))
    print('DIGEST', hashlib.sha256('\n'.join(LINES).encode()).hexdigest())


if __name__ == '__main__':
    main()
