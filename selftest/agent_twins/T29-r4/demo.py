"""Equivalence demo for r4 (LambdaTokenTranslator: criterion splitting moved to helpers with early returns).

A. translates LambdaToken instances built from many criterion spellings directly (fresh Context each time)
   and prints the returned call plus every sub-cell / cell code registered in the context;
B. translates and executes SUMIF / SUMIFS / COUNTIFS / AVERAGEIFS formulas using the same criteria and prints
   the generated functions and the computed values (or exception classes).
"""
import datetime
import hashlib
import os
import shutil
import tempfile
import warnings

warnings.filterwarnings('ignore')

from openpyxl import Workbook

from excel2pycl import Parser, Executor, Cell
from excel2pycl.src.context import Context
from excel2pycl.src.excel import Excel
from excel2pycl.src.lexer import Lexer
from excel2pycl.src.tokens import LambdaToken
from excel2pycl.src.translators.lambda_token_translator import LambdaTokenTranslator

ALL = hashlib.sha256()


def out(*parts):
    line = ' | '.join(str(p) for p in parts)
    ALL.update(line.encode('utf-8') + b'\n')
    print(line)


def describe_exception(e):
    return f'{type(e).__name__}: {e.args!r}'[:300]


def show(value):
    return f'{type(value).__name__}:{value!r}'


# criterion spellings, as they are written inside a formula
CRITERIA = [
    # operator + number
    '">5"', '">=5"', '"<5"', '"<=5"', '"<>5"', '"=5"', '"5"', '">0"', '">05"', '">1.5"', '">=1.50"', '"<1e1"', '"<=1e-1"',
    '">1.5e1"', '"<>2.5e-1"', '">1e"', '">1.e1"', '">.5"', '">1."', '">1E1"', '">1e+1"', '">-5"', '">+5"', '"> 5"', '">5 "',
    '" >5"', '">5x"', '">x5"', '">>5"', '"><5"', '"=>5"', '"=<5"', '"<<5"', '"<>>5"', '"<=>5"', '"==5"', '">=<5"', '">5>"',
    '">5,5"', '">5;5"', '">1 000"', '">٥"', '">５"', '"<>٣"', '">5\'"', '"\'>5"', '">5\\"',
    # a lone operator, alone and glued to a cell / an expression
    '">"', '"<"', '">="', '"<="', '"<>"', '"="', '">"&A2', '"<"&A2', '">="&A2', '"<="&A2', '"<>"&A2', '"="&A2', '"<>"&B2',
    '">"&B2', '">"&A2+1', '">"&(A2+1)', '">"&A2*2', '">"&SUM(A1:A2)', '">"&"3"', '">"&3', '"<>"&""', '">"&E2',
    '">"&DATE(2024,2,1)', '"<="&E3', '">"&F1', '">"&A2&""',
    # operator + number glued to an expression, text prefixes
    '">5"&A2', '">1.5"&"0"', '"<>5"&A2', '"5"&A2', '"a"&B2', '"a"&"b"', '""&A2', '""&B2', '"x"&A2', '">a"&B1',
    # plain values
    '5', '5.0', '3', '0', '1e1', '1.5', 'TRUE', 'FALSE', 'TRUE()', 'A2', 'A3', 'B2', 'B3', 'D1', 'E2', 'F1', 'A2+1', '(A2)',
    '-3', '-A2', '+3', 'A2*2-1', 'SUM(A1:A2)', 'LEFT("abc",1)', 'IF(A1>0,"a","b")', 'DATE(2024,2,1)', '10%', 'A2%',
    # texts, operator + text, wildcard patterns
    '"a"', '"A"', '"ab"', '"B"', '""', '" "', '"abc"', '"true"', '"TRUE"', '"2024-02-01"', '"1/2/2024"', '"january"',
    '">a"', '"<>a"', '"<>b"', '"<b"', '">=ab"', '"<>"&"a"', '"a*"', '"*"', '"?"', '"??"', '"*b"', '"*b*"', '"a?c"', '"~*"',
    '"~?"', '"a~*"', '"~~*"', '"a*"&"c"', '"<>a*"', '">a*"', '"<>*"', '"<>?"', '"=a*"', '"a*"&B2', '"?"&A2',
]

ROWS = [
    (1, 'a', 10, True, datetime.datetime(2024, 1, 1), None),
    (2, 'ab', 20, False, datetime.datetime(2024, 2, 1), None),
    (3, 'B', 30, True, datetime.datetime(2024, 3, 1), None),
    (4, 'abc', 40, None, '2024-02-01', None),
    (5, None, 50, True, 'a*', None),
    (6, 'b', 60, 0, '*', None),
    (0.5, '5', 70, 1, 5, None),
    (15, '>5', 80, 'TRUE', '?', None),
]

tmp_dir = tempfile.mkdtemp(prefix='t29_r4_')
try:
    workbook = Workbook()
    sheet = workbook.active
    sheet.title = 'Sheet1'
    for row in ROWS:
        sheet.append(row)
    base_xlsx = os.path.join(tmp_dir, 'base.xlsx')
    workbook.save(base_xlsx)

    print('== A. LambdaTokenTranslator.translate on its own')
    IN_CELL = Cell(0, 9, 9)
    for criterion in CRITERIA:
        try:
            lexed = Lexer.parse(criterion, IN_CELL)
            token, rest = LambdaToken.get(lexed, IN_CELL)
        except Exception as e:  # noqa
            out('A', criterion, 'PARSE ' + describe_exception(e))
            continue
        if token is None:
            out('A', criterion, 'no LambdaToken')
            continue
        excel, context = Excel.parse(base_xlsx), Context()
        try:
            returned = LambdaTokenTranslator.translate(token, excel, context)
        except Exception as e:  # noqa
            out('A', criterion, f'rest={len(rest)}', 'TRANSLATE ' + describe_exception(e))
            continue
        out('A', criterion, f'rest={len(rest)}', f'literal={token.literal!r}', returned,
            'sub_cells=' + repr(context._sub_cell_translations), 'cells=' + repr(context._cell_translations))
        # translating the same token again in the same context gives the same call and registers nothing new
        before = repr(context._sub_cell_translations)
        again = LambdaTokenTranslator.translate(token, excel, context)
        out('A', criterion, 'again', again == returned, before == repr(context._sub_cell_translations))

    print('== B. end to end')
    TEMPLATES = [
        '=SUMIF(A1:A8,{c})', '=SUMIF(A1:A8,{c},C1:C8)', '=SUMIF(B1:B8,{c},C1:C8)', '=SUMIF(E1:E8,{c},C1:C8)',
        '=COUNTIFS(A1:A8,{c})', '=COUNTIFS(B1:B8,{c})', '=COUNTIFS(D1:D8,{c})', '=COUNTIFS(C1:C8,">0",A1:A8,{c})',
        '=SUMIFS(C1:C8,A1:A8,{c})', '=SUMIFS(C1:C8,B1:B8,{c})', '=SUMIFS(C1:C8,A1:A8,">0",B1:B8,{c})',
        '=AVERAGEIFS(C1:C8,A1:A8,{c})', '=AVERAGEIFS(C1:C8,E1:E8,{c})',
    ]
    workbook = Workbook()
    sheet = workbook.active
    sheet.title = 'Sheet1'
    for row in ROWS:
        sheet.append(row)
    cells = []
    for criterion_index, criterion in enumerate(CRITERIA):
        for template_index, template in enumerate(TEMPLATES):
            formula = template.format(c=criterion)
            sheet.cell(row=criterion_index + 1, column=template_index + 8, value=formula)
            cells.append((criterion_index, template_index + 7, formula))
    xlsx = os.path.join(tmp_dir, 'book.xlsx')
    workbook.save(xlsx)

    for row_index, column_index, formula in cells:
        target = os.path.join(tmp_dir, 'cell.py')
        try:
            code = Parser().disable_safety_check().set_excel_file_path(xlsx) \
                .set_entrypoint_cell(Cell(0, column_index, row_index)).write_translation(target).get_translation()
        except Exception as e:  # noqa
            out('B', formula, 'TRANSLATE ' + describe_exception(e))
            continue
        functions = code[code.rindex("return '#VALUE!'"):]
        lambdas = sorted(set(line.strip() for line in functions.splitlines() if 'lambda x' in line))
        try:
            value = Executor().set_executed_class(class_file=target).get_cell(Cell(0, column_index, row_index)).value
            result = show(value)
        except Exception as e:  # noqa
            result = 'EXEC ' + describe_exception(e)
        out('B', formula, result, hashlib.sha1(functions.encode()).hexdigest()[:12], lambdas if column_index == 7 else len(lambdas))
finally:
    shutil.rmtree(tmp_dir, ignore_errors=True)

print('DIGEST', ALL.hexdigest())
