"""Equivalence demonstration for r3 (numeric filter, COUNT and COUNTBLANK runtime helpers, both copies).

Part 1 calls the helpers of the library class and of the class generated from a workbook directly, on
many hand-made and pseudo-random cell lists (lists, tuples, one-shot iterators, wrong types).
Part 2 evaluates aggregate formulas over rows, columns, rectangles, whole columns, several areas and
other sheets through Parser/Executor, before and after overriding cells. A digest of everything is printed.
"""
import datetime
import hashlib
import os
import random
import shutil
import sys
import tempfile
from decimal import Decimal
from fractions import Fraction

from openpyxl import Workbook

from excel2pycl import Parser, Executor, Cell
from excel2pycl.src.object_loader import load_module
from excel2pycl.src.utilities.abstract_excel_in_python_class import AbstractExcelInPython


class Lib(AbstractExcelInPython):
    pass


class Text(str):
    """a str subclass whose isdigit answer is not a bool"""

    def isdigit(self):
        return [1] if self.startswith('7') else []


class Shouting:
    def __eq__(self, other):
        raise RuntimeError('compared')

    def __repr__(self):
        return 'Shouting()'


def describe(function, *args, **kwargs):
    try:
        value = function(*args, **kwargs)
        return f'{type(value).__name__}:{value!r}'
    except BaseException as error:
        return f'raised {type(error).__name__}: {error}'


def pool(instance):
    day = datetime.datetime(2024, 2, 29, 13, 5)
    return [0, 1, -1, 2.5, -0.0, 1e308, float('inf'), float('nan'), True, False, None, '', ' ', '7', '42', '-3', '4.5',
            '٣', '²', 'abc', '#N/A', '#DIV/0!', '#VALUE!', '#REF!', instance.EmptyCell(), day, day.date(),
            datetime.time(1, 2), datetime.timedelta(days=1), Decimal('1.5'), Fraction(1, 2), 1 + 1j, [], [1, '2'],
            (3,), {}, b'5', Text('77'), Text('12'), 10 ** 30, -7, 3, 3, 0.1, 0.2]


def lists(instance):
    items = pool(instance)
    rnd = random.Random(3606)
    plain = [x for x in items if not isinstance(x, (list, tuple, dict))]
    result = [[], [1], ['1'], [None], [''], [True], [instance.EmptyCell()], items, plain, plain[::-1],
              [1, 2, 3, 4.5], ['a', 'b'], [True, False, True], [None, '', None, ' '], ['#N/A', 1], [1, '#NUM!', ''],
              [0, 0.0, -0.0], [float('nan'), 1], ['7', '8', 9]]
    for _ in range(160):
        result.append([rnd.choice(plain) for _ in range(rnd.randint(0, 12))])
    return result


def exercise(instance, label, out):
    every = lists(instance)
    for index, cells in enumerate(every):
        tag = f'{label} list{index}'
        for flag in (False, True, 0, 1, 'yes', '', None):
            out.append(f'{tag} numeric[{flag!r}] = ' + describe(instance._only_numeric_list, cells, flag))
        out.append(f'{tag} numeric kw = ' + describe(instance._only_numeric_list, cells, with_string_digits=True))
        out.append(f'{tag} numeric tuple = ' + describe(instance._only_numeric_list, tuple(cells), True))
        out.append(f'{tag} numeric iter = ' + describe(instance._only_numeric_list, iter(cells), True))
        out.append(f'{tag} blank = ' + describe(instance._count_blank, cells))
        out.append(f'{tag} blank tuple = ' + describe(instance._count_blank, tuple(cells)))
        out.append(f'{tag} blank iter = ' + describe(instance._count_blank, iter(cells)))
        for name in ('_sum', '_average', '_min', '_max', '_and', '_or'):
            out.append(f'{tag} {name} = ' + describe(getattr(instance, name), cells))
    out.append(f'{label} blank shouting = ' + describe(instance._count_blank, [1, Shouting(), '']))
    out.append(f'{label} blank none = ' + describe(instance._count_blank, None))
    out.append(f'{label} numeric none = ' + describe(instance._only_numeric_list, None))
    out.append(f'{label} numeric int = ' + describe(instance._only_numeric_list, 5, True))
    out.append(f'{label} numeric str = ' + describe(instance._only_numeric_list, '1a2', True))
    out.append(f'{label} numeric static = ' + describe(type(instance)._only_numeric_list, [1, '2', 'x'], True))
    rnd = random.Random(99)
    for index in range(400):
        matrices = [[[rnd.choice(every[rnd.randrange(len(every))] or [None]) for _ in range(rnd.randint(1, 3))]
                     for _ in range(rnd.randint(1, 3))] for _ in range(rnd.randint(0, 3))]
        args = list(rnd.choice(every))
        arg_cells = list(rnd.choice(every))
        out.append(f'{label} count{index} = ' + describe(instance._count, matrices, args, arg_cells))
    odd = [([], [], []), ([[1]], (), []), ([[1]], [], ()), ((), [], []), ([[1]], None, []), ([[1]], [], None),
           (None, [], []), ([[1, [2, [3, '4']]]], ['5', True], [6.5]), ([[1]], iter([True, '3', 2]), []),
           ([[1]], [1], iter([2])), (iter([[1], [2]]), [], []), ([1, 2], ['x'], [datetime.datetime(2020, 1, 1)]),
           ('ab', [], []), ([[datetime.datetime(2020, 1, 1)]], [datetime.datetime(2021, 1, 1), '9'], [None])]
    for index, (matrices, args, arg_cells) in enumerate(odd):
        out.append(f'{label} count odd{index} = ' + describe(instance._count, matrices, args, arg_cells))
    out.append(f'{label} count arity = ' + describe(instance._count, [], []))


DATA = [  # sheet D, columns A..D
    [1, 2.5, 'text', True],
    [None, '', 7, '12'],
    [-3, 0, False, None],
    ['#N/A', 4, 1e10, 0.1],
    [datetime.datetime(2024, 5, 17), 8, None, ' '],
    [0.2, None, '', -0.5],
]
FORMULAS = [
    '=SUM(D!A1:D1)', '=SUM(D!B1:B6)', '=SUM(D!A1:D6)', '=SUM(D!B:B)', '=SUM(D!B1:B3,D!B4:B6)', '=SUM(D!B1:B3)+SUM(D!B4:B6)',
    '=SUM(D!A1:B3,D!C1:D3,5)', '=SUM(D!B1:B6,D!B1:B6)', '=SUM(D!B2,D!C2,1.5)', '=SUM(D!B:C)', '=SUM(A1:A3)',
    '=AVERAGE(D!B1:B6)', '=AVERAGE(D!A1:D6)', '=AVERAGE(D!B:B)', '=AVERAGE(D!B1:B3,D!D3:D6,10)', '=AVERAGE(D!C3:C5)',
    '=MIN(D!B1:B6)', '=MIN(D!B1:D3)', '=MIN(D!A1:D6)', '=MIN(D!B:B,-100)', '=MIN(D!D1:D6)',
    '=MAX(D!B1:B6)', '=MAX(D!B1:D3)', '=MAX(D!A1:D6)', '=MAX(D!B:B,100)', '=MAX(D!A2:A3,D!C1:C2)',
    '=COUNT(D!A1:D6)', '=COUNT(D!B1:B6)', '=COUNT(D!B:B)', '=COUNT(D!A1:D1,D!A5:D5)', '=COUNT(D!A1:B3,D!D2,5,"7",TRUE,"x")',
    '=COUNT(D!D2)', '=COUNT(1,2,"3","a",FALSE)', '=COUNT(D!A5,D!A1)', '=COUNT(D!B1:B6,D!B1:B6)',
    '=COUNTBLANK(D!A1:D6)', '=COUNTBLANK(D!B1:B6)', '=COUNTBLANK(D!B:B)', '=COUNTBLANK(D!A2:D2,D!A5:D5)',
    '=COUNTBLANK(D!C1:C6)', '=COUNTBLANK(D!B2:D3)', '=COUNTBLANK(D!A4:D4)',
    '=AND(D!D1,D!A1)', '=AND(D!B1:B3)', '=AND(D!A1>0,D!B1>2,TRUE)', '=OR(D!C3,D!B3)', '=OR(D!B2:B3)', '=OR(D!A1<0,D!B1<0)',
    '=AND(D!A1:B1,D!D1)', '=OR(D!A2,D!B2)', '=SUM(D!A1:D6)=SUM(D!A1:B6)+SUM(D!C1:D6)', '=MAX(D!A1:D3)-MIN(D!A1:D3)',
    '=SUM(A1:A3,D!A1)', '=COUNT(A1:A3)', '=AVERAGE(D!C1:C2)', '=AVERAGE(D!A2:B2)', '=MIN(D!C1:C1)', '=MAX(D!A2)',
]
OVERRIDES = [('D', 'B', '2', 40), ('D', 'B', '7', 1000), ('D', 'A', '1', None), ('D', 'C', '1', 3), ('D', 'D', '3', ''),
             ('D', 'A', '4', 5.5), ('D', 'B', '5', '8'), ('D', 'C', '5', datetime.datetime(2025, 1, 1)), ('D', 'D', '1', False)]


def workbook_part(tmp, out):
    path = os.path.join(tmp, 'agg.xlsx')
    wb = Workbook()
    f = wb.active
    f.title = 'F'
    d = wb.create_sheet('D')
    for r, row in enumerate(DATA, start=1):
        for c, value in enumerate(row, start=1):
            d.cell(row=r, column=c, value=value)
    f['A1'], f['A2'], f['A3'] = 10, 'n', 0.5
    for offset, formula in enumerate(FORMULAS):
        f.cell(row=1, column=2 + offset, value=formula)
    wb.save(path)
    wb.close()
    accepted = []
    for offset, formula in enumerate(FORMULAS):
        parser = Parser().set_excel_file_path(path).set_entrypoint_cell(Cell('F', 1 + offset, 0))
        try:
            text = parser.get_translation()
            compile(text, 'generated', 'exec')
            accepted.append(offset)
            functions = text[text.rindex("return '#VALUE!'") + len("return '#VALUE!'"):]
            out.append(f'alone {formula} -> ' + hashlib.sha256(functions.encode()).hexdigest()[:16])
            out.extend('    ' + line.strip() for line in functions.splitlines() if 'return' in line and '_count' in line)
        except BaseException as error:
            out.append(f'alone {formula} -> raised {type(error).__name__}: {error}')
    out.append(f'accepted {len(accepted)} of {len(FORMULAS)}')
    # the whole workbook, without the rejected formulas
    wb = Workbook()
    f = wb.active
    f.title = 'F'
    d = wb.create_sheet('D')
    for r, row in enumerate(DATA, start=1):
        for c, value in enumerate(row, start=1):
            d.cell(row=r, column=c, value=value)
    f['A1'], f['A2'], f['A3'] = 10, 'n', 0.5
    for position, offset in enumerate(accepted):
        f.cell(row=1, column=2 + position, value=FORMULAS[offset])
    path2 = os.path.join(tmp, 'agg_ok.xlsx')
    wb.save(path2)
    wb.close()
    out_py = os.path.join(tmp, 'agg_translated.py')
    text = Parser().set_excel_file_path(path2).write_translation(out_py).get_translation()
    functions = text[text.rindex("return '#VALUE!'") + len("return '#VALUE!'"):]
    out.append('cell functions sha256 ' + hashlib.sha256(functions.encode()).hexdigest())

    def evaluate(executor, label):
        for position, offset in enumerate(accepted):
            result = describe(lambda: executor.get_cell(Cell('F', 1 + position, 0)).value)
            out.append(f'{label} {FORMULAS[offset]} = {result}')

    executor = Executor().set_executed_class(class_file=out_py)
    evaluate(executor, 'sheet')
    for step, (title, column, row, value) in enumerate(OVERRIDES):
        executor.set_cells([Cell(title, column, row, value=value)])
        evaluate(executor, f'override{step}')
    exercise(load_module(out_py).ExcelInPython(), 'generated', out)


def main():
    out = []
    exercise(Lib(), 'library', out)
    tmp = tempfile.mkdtemp(prefix='t36_r3_')
    try:
        workbook_part(tmp, out)
    finally:
        shutil.rmtree(tmp, ignore_errors=True)
    blob = '\n'.join(out)
    print('lines', len(out))
    print('sha256', hashlib.sha256(blob.encode()).hexdigest())
    raised = {}
    for line in out:
        if 'raised ' in line:
            kind = line.split('raised ')[1].split(':')[0]
            raised[kind] = raised.get(kind, 0) + 1
    print('raised', sorted(raised.items()))
    for line in out[::211]:
        print(line[:300])
    for line in out:
        if line.startswith(('alone', '    ', 'accepted', 'cell functions', 'sheet', 'override0', 'override8')) \
                or ' count odd' in line or ' blank shouting' in line or ' numeric ' in line and ' list' not in line:
            print(line[:300])
    return 0


if __name__ == '__main__':
    sys.exit(main())
