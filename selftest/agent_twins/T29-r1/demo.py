"""Equivalence demo for r1 (CompositeBaseToken.get restructuring).

Drives the token-set parser directly (lexer output -> AstBuilder / <Composite>.get) and end to end
(workbook -> Parser -> Executor) on many well-formed and malformed formulas and prints a digest of
every outcome: AST dumps, unparsed rests, exception classes and messages, generated code, values.
"""
import hashlib
import os
import shutil
import tempfile
import warnings

warnings.filterwarnings('ignore')

from openpyxl import Workbook

from excel2pycl import Parser, Executor, Cell
from excel2pycl.src.ast_builder import AstBuilder
from excel2pycl.src.lexer import Lexer
from excel2pycl.src import tokens as T

ALL = hashlib.sha256()


def out(*parts):
    line = ' | '.join(str(p) for p in parts)
    ALL.update(line.encode('utf-8') + b'\n')
    print(line)


def short(text, limit=100):
    text = str(text)
    digest = hashlib.sha1(text.encode('utf-8')).hexdigest()[:12]
    return f'{text[:limit]!r} len={len(text)} sha1={digest}'


def describe_exception(e):
    return f'{type(e).__name__}: {short(e.args)}'


VALID = [
    '=1', '=1+2', '=-1', '=+1', '=--1', '=(1)', '=(1+2)*3', '=2*(1+2)', '=(1+2)*(3+4)', '=1+2*3-4/5',
    '=10%', '=10%+1', '=A1%', '=50%*2', '="a"&"b"', '="a"&A1&B2', '=A1', '=$A$1', '=A1+B1', '=Sheet1!A1',
    "='Sheet1'!A1", '=TRUE', '=FALSE', '=TRUE()', '=1.5e3', '=1e-2', '=""', '="x"="X"', '=1<>2', '=1>=2',
    '=1<=2', '=1<2', '=1>2', '=1=1',
    '=IF(1,2,3)', '=IF(1,2)', '=IF(A1>2,"y","n")', '=IF(A1>2;"y";"n")', '=IF ( A1 > 2 , "y" , "n" )',
    '=IFERROR(1/0,5)', '=IFS(1,2)', '=IFS(A1>5,1,TRUE,2)', '=SUM(1)', '=SUM(1,2,3)', '=SUM(A1:A6)',
    '=SUM(A1:A3,C1:C3,5)', '=SUM(1;2;3)', '=SUM(1~2)', '=AVERAGE(A1:A6)', '=MIN(A1:A6)', '=MAX(A1:A6,100)',
    '=ROUND(1.234,2)', '=ROUNDUP(1.234,2)', '=ROUNDUP(1.234,)', '=ROUNDUP(1.234)', '=ROUNDDOWN(1.234,1)',
    '=ROUNDDOWN(1.9)', '=OR(1,0)', '=AND(1,0)', '=DATE(2020,1,31)', '=YEAR(DATE(2020,1,31))',
    '=MONTH(DATE(2020,1,31))', '=DAY(DATE(2020,1,31))', '=EDATE(DATE(2020,1,31),1)',
    '=EOMONTH(DATE(2020,1,31),1)', '=DATEDIF(DATE(2020,1,1),DATE(2021,1,1),"Y")', '=TODAY()',
    '=LEFT("hello",2)', '=LEFT("hello")', '=RIGHT("hello",2)', '=RIGHT("hello")', '=MID("hello",2,2)',
    '=SEARCH("l","hello")', '=SEARCH("l","hello",4)', '=CONCATENATE("a",1,B1)', '=VALUE("12")',
    '=TEXT(1.5,"0.00")', '=ADDRESS(1,2)', '=ADDRESS(1,2,4)', '=COLUMN()', '=COLUMN(B2)', '=COLUMN(B2:C3)',
    '=COUNT(A1:A6)', '=COUNT(A1:A6,1,"x")', '=COUNTBLANK(A1:C6)', '=MATCH(3,A1:A6,0)', '=MATCH(3,A1:A6)',
    '=XMATCH(3,A1:A6)', '=XMATCH(3,A1:A6,0,1)', '=VLOOKUP(3,A1:B6,2,0)', '=VLOOKUP(3,A1:B6,2)',
    '=INDEX(A1:B6,2,2)', '=INDEX(A1:A6,2)', '=INDEX((A1:A6,B1:B6),2,1,2)', '=NETWORKDAYS(DATE(2020,1,1),DATE(2020,1,31))',
    '=NETWORKDAYS(DATE(2020,1,1),DATE(2020,1,31),D1:D2)',
    '=SUMIF(A1:A6,">2")', '=SUMIF(A1:A6,">2",C1:C6)', '=SUMIF(A1:A6;">2";C1:C6)', '=SUMIF(A1:A6,3)',
    '=SUMIF(B1:B6,"a*",A1:A6)', '=SUMIF(B1:B6,"??",A1:A6)', '=SUMIF(A1:A6,">"&A2,C1:C6)', '=SUMIF(A1:A6,A3)',
    '=SUMIF(A1,">0",C1)', '=SUMIF(A:A,">2",C:C)', '=SUMIF(A1:A6,"<>3")', '=SUMIF(A1:A6,"=3")',
    '=SUMIFS(C1:C6,A1:A6,">2")', '=SUMIFS(C1:C6,A1:A6,">2",B1:B6,"a*")', '=SUMIFS(C1:C6;A1:A6;">2";B1:B6;"b")',
    '=SUMIFS(C1:C6,A1:A6,A3)', '=SUMIFS(C1:C6,A1:A6,">"&A3)', '=COUNTIFS(A1:A6,">2")',
    '=COUNTIFS(A1:A6,">2",B1:B6,"a*")', '=COUNTIFS(A1:A6,">2",B1:B6,"a*",C1:C6,"<50")',
    '=AVERAGEIFS(C1:C6,A1:A6,">2")', '=AVERAGEIFS(C1:C6,A1:A6,">2",B1:B6,"?b")',
    '=SUM(IF(A1>1,2,3),MAX(A1:A3))', '=IF(SUMIF(A1:A6,">2")>5,SUM(A1:A2),0)', '=1+SUMIFS(C1:C6,A1:A6,">2")*2',
    '=\tSUM( 1 ,\t2 )', '= 1 + 2', '=SUMIF( A1:A6 , ">2" , C1:C6 )', '=SUMIFS( C1:C6 ; A1:A6 ; ">2" )',
]

INVALID = [
    '=', '==1', '=1+', '=+', '=*1', '=1*/2', '=(1', '=1)', '=()', '=(1+2', '=1 2', '=1 A1', '=A1 B1', '=1,2', '=1;2',
    '=1%%', '=%1', '="a', '=a', '=foo', '=FOO(1)', '=sum(1)', '=Sum(1)', '=SUM', '=SUM(', '=SUM()', '=SUM(1', '=SUM(1,)',
    '=SUM(,1)', '=SUM(1,,2)', '=SUM(1)2', '=SUM(1))', '=SUM(1)(2)', '=SUM(1) SUM(2)', '=SUM 1', '=SUM((1)', '=IF()',
    '=IF(1)', '=IF(1,2,3,4)', '=IF(1,2,)', '=IF(,1,2)', '=IF(1;2;3;4)', '=IFERROR(1)', '=IFERROR(1,2,3)',
    '=ROUND(1)', '=ROUND(1,2,3)', '=ROUND()', '=ROUNDUP()', '=ROUNDUP(1,2,3)', '=ROUNDDOWN(1,2,3)',
    '=DATE(2020,1)', '=DATE(2020,1,2,3)', '=YEAR()', '=YEAR(1,2)', '=MONTH()', '=DAY(1,2)', '=EDATE(1)',
    '=EOMONTH(1)', '=EOMONTH(1,2,3)', '=DATEDIF(1,2)', '=TODAY(1)', '=TODAY', '=LEFT()', '=LEFT("a",1,2)',
    '=RIGHT("a",1,2)', '=MID("a",1)', '=MID("a",1,2,3)', '=SEARCH("a")', '=SEARCH("a","b",1,2)', '=VALUE()',
    '=VALUE(1,2)', '=TEXT(1)', '=TEXT(1,2,3)', '=ADDRESS(1)', '=COLUMN(1)', '=COLUMN(B2,C3)', '=COUNT()',
    '=COUNTBLANK()', '=MATCH(1)', '=MATCH(1,A1:A6,0,1)', '=XMATCH(1)', '=XMATCH(1,A1:A6,0,1,2)', '=VLOOKUP(1,A1:B6)',
    '=VLOOKUP(1,A1:B6,2,0,1)', '=VLOOKUP(1,2,3)', '=INDEX(A1:B6)', '=INDEX()', '=NETWORKDAYS(1)',
    '=NETWORKDAYS(1,2,3)', '=NETWORKDAYS(1,2,D1:D2,4)', '=CONCATENATE()', '=MIN()', '=MAX()', '=OR()', '=AND()',
    '=AVERAGE()', '=IFS()',
    '=SUMIF()', '=SUMIF(A1:A6)', '=SUMIF(A1:A6,)', '=SUMIF(A1:A6,">2",)', '=SUMIF(A1:A6,">2",C1:C6,1)',
    '=SUMIF(1,">2")', '=SUMIF(A1:A6,">2",5)', '=SUMIF(A1:A6 ">2")', '=SUMIF(A1:A6,">2"', '=SUMIF(A1:A6,">2"))',
    '=SUMIF(A1:A6,">2")1', '=SUMIF(A1:A6,">2",C1:C6)+', '=SUMIFS()', '=SUMIFS(C1:C6)', '=SUMIFS(C1:C6,A1:A6)',
    '=SUMIFS(C1:C6,A1:A6,">2",B1:B6)', '=SUMIFS(C1:C6,A1:A6,">2",)', '=SUMIFS(1,A1:A6,">2")',
    '=SUMIFS(C1:C6,1,">2")', '=SUMIFS(C1:C6,A1:A6,">2"', '=SUMIFS(C1:C6,A1:A6,">2"))', '=SUMIFS(C1:C6,A1:A6,">2")x',
    '=COUNTIFS()', '=COUNTIFS(A1:A6)', '=COUNTIFS(A1:A6,)', '=COUNTIFS(A1:A6,">2",B1:B6)',
    '=COUNTIFS(A1:A6,">2",B1:B6,)', '=COUNTIFS(1,">2")', '=COUNTIFS(A1:A6,">2"', '=COUNTIFS(A1:A6,">2")+',
    '=AVERAGEIFS()', '=AVERAGEIFS(C1:C6)', '=AVERAGEIFS(C1:C6,A1:A6)', '=AVERAGEIFS(C1:C6,A1:A6,">2",B1:B6)',
    '=AVERAGEIFS(C1:C6,A1:A6,">2",)', '=AVERAGEIFS(C1:C6,A1:A6,">2"', '=1+SUMIF(A1:A6)', '=SUM(SUMIF(A1:A6))',
    '=IF(SUMIFS(C1:C6),1,2)', '=SUM(1)+IF(1)', '=A1:', '=A1:B', '=:A1', '=A1:B2:C3', '=$', '=A$', '=1..2', '=1e',
    '=SUM(1) ', '=1 ', '= ', '=SUM(1)\n', '=1\n+2', '=\tSUM( 1 ,\n2 )',
]

IN_CELL = Cell(0, 9, 9)


def parse_whole(formula):
    try:
        lexed = Lexer.parse(formula, IN_CELL)
    except Exception as e:  # noqa
        return 'LEX ' + describe_exception(e)
    try:
        ast = AstBuilder.parse(lexed, IN_CELL)
    except Exception as e:  # noqa
        return f'AST tokens={len(lexed)} ' + describe_exception(e)
    return 'OK ' + short(repr(ast))


print('== A. whole formulas through Lexer + AstBuilder')
for formula in VALID + INVALID:
    out('A', repr(formula), parse_whole(formula))

print('== B. sub-grammars: <Composite>.get on token lists (result class, size of the rest, or exception)')
FRAGMENTS = [
    '', '1', '1+2', '1+', '+1', '(1)', '(1', '1)', '1,2', '1;2;3', 'A1:A6', 'A1', '">2"', '">"&A1', '"a*"', '"a*"&A1',
    'A1:A6,">2"', 'A1:A6,">2",B1:B6,"x"', 'A1:A6,">2",B1:B6', 'A1:A6,A1', 'A1:A6,1+2', 'A1:A6,', ',">2"',
    'SUM(1,2)', 'SUM(1,2', 'SUM(', 'SUM', 'SUM()', 'SUM(1)2', 'SUMIF(A1:A6,">2")', 'SUMIF(A1:A6,">2",C1:C6)',
    'SUMIF(A1:A6)', 'SUMIF(A1:A6,">2",C1:C6,1)', 'SUMIF(', 'SUMIF', 'SUMIFS(C1:C6,A1:A6,">2")', 'SUMIFS(C1:C6)',
    'SUMIFS(C1:C6,A1:A6,">2",B1:B6)', 'COUNTIFS(A1:A6,">2")', 'COUNTIFS(A1:A6,">2",B1:B6,"x")', 'COUNTIFS(A1:A6)',
    'AVERAGEIFS(C1:C6,A1:A6,">2")', 'AVERAGEIFS(C1:C6,A1:A6)', 'IF(1,2,3)', 'IF(1,2,3,4)', 'IF(1)', 'IF', 'TODAY()',
    'TODAY(1)', '10%', '10%%', '10%+1', '=1', '==1', '=', '=SUM(1)', '=SUM(1', ')', '(', ',', '&', '%', '-', '--1',
]
COMPOSITES = [
    T.EntryPointToken, T.ExpressionToken, T.OperandToken, T.OperatorToken, T.IterableExpressionToken, T.LambdaToken,
    T.SimilarCellToken, T.RangeOfCellIdentifierWithConditionToken, T.IterableRangeOfCellIdentifierWithConditionToken,
    T.ControlConstructionCompositeBaseToken, T.SumControlConstructionToken, T.SumIfControlConstructionToken,
    T.SumIfsControlConstructionToken, T.CountIfsControlConstructionToken, T.AverageIfsControlConstructionToken,
    T.IfControlConstructionToken, T.TodayControlConstructionToken, T.OneLeftOperandExpressionToken,
    T.LogicalOperatorToken, T.ArithmeticOperatorToken,
]
for fragment in FRAGMENTS:
    try:
        lexed = Lexer.parse(fragment, IN_CELL)
    except Exception as e:  # noqa
        out('B', repr(fragment), 'LEX ' + describe_exception(e))
        continue
    for composite in COMPOSITES:
        before = list(lexed)
        try:
            token, rest = composite.get(lexed, IN_CELL)
            result = f'{type(token).__name__} rest={len(rest)} same_list={rest is lexed} {short(repr(token), 60)}'
        except Exception as e:  # noqa
            result = describe_exception(e)
        assert lexed == before, 'the input token list must not be mutated'
        out('B', repr(fragment), composite.__name__, result)

print('== C. end to end: workbook -> Parser -> Executor')
tmp_dir = tempfile.mkdtemp(prefix='t29_r1_')
try:
    workbook = Workbook()
    sheet = workbook.active
    sheet.title = 'Sheet1'
    rows = [
        (1, 'a', 10, None),
        (2, 'ab', 20, None),
        (3, 'B', 30, None),
        (4, 'abc', 40, None),
        (5, None, 50, None),
        (6, 'b', 60, None),
    ]
    for row in rows:
        sheet.append(row)
    formulas = VALID + INVALID
    translatable = []
    for index, formula in enumerate(formulas):
        sheet.cell(row=index + 1, column=6, value=formula)
    xlsx = os.path.join(tmp_dir, 'book.xlsx')
    workbook.save(xlsx)

    for index, formula in enumerate(formulas):
        target = os.path.join(tmp_dir, f'out_{index}.py')
        try:
            parser = Parser().disable_safety_check().set_excel_file_path(xlsx).set_entrypoint_cell(Cell(0, 5, index))
            code = parser.get_translation()
            parser.write_translation(target)
        except Exception as e:  # noqa
            out('C', repr(formula), 'TRANSLATE ' + describe_exception(e))
            continue
        translatable.append(formula)
        functions = code[code.rindex("return '#VALUE!'"):]
        try:
            value = Executor().set_executed_class(class_file=target).get_cell(Cell(0, 5, index)).value
            if formula == '=TODAY()':
                value = type(value).__name__
            result = f'{type(value).__name__} {value!r}'
        except Exception as e:  # noqa
            result = 'EXEC ' + describe_exception(e)
        out('C', repr(formula), result, short(functions, 60))

    # safety check stays on by default: the lower-case pseudo functions of the book are reported
    try:
        Parser().set_excel_file_path(xlsx).get_translation()
        out('C-safety', 'no exception')
    except Exception as e:  # noqa
        out('C-safety', describe_exception(e))

    # whole-file translation of the formulas that could be translated one by one
    workbook = Workbook()
    sheet = workbook.active
    sheet.title = 'Sheet1'
    for row in rows:
        sheet.append(row)
    for index, formula in enumerate(translatable):
        sheet.cell(row=index + 1, column=6, value=formula)
    xlsx = os.path.join(tmp_dir, 'valid.xlsx')
    workbook.save(xlsx)
    target = os.path.join(tmp_dir, 'valid.py')
    try:
        code = Parser().set_excel_file_path(xlsx).write_translation(target).get_translation()
        out('C-file', short(code[code.rindex("return '#VALUE!'"):], 0))
        executor = Executor().set_executed_class(class_file=target)
        for index, formula in enumerate(translatable):
            try:
                value = executor.get_cell(Cell(0, 5, index)).value
                if formula == '=TODAY()':
                    value = type(value).__name__
                out('C-file', repr(formula), f'{type(value).__name__} {value!r}')
            except Exception as e:  # noqa
                out('C-file', repr(formula), 'EXEC ' + describe_exception(e))
    except Exception as e:  # noqa
        out('C-file', 'TRANSLATE ' + describe_exception(e))
finally:
    shutil.rmtree(tmp_dir, ignore_errors=True)

print('DIGEST', ALL.hexdigest())
