"""Equivalence demo for r4 (runtime class, both copies: set_arguments and _cell_preprocessor).

The same battery is run against (a) a subclass of AbstractExcelInPython (the class copy) and (b) the
ExcelInPython class generated from a workbook (the template copy) and subclasses of it; then whole
Executor histories are replayed on a generated class.  Everything observable is printed: values,
exception classes and messages, the order of the stored overrides, whether old override dicts are
left untouched, which cell methods were called and in which order.
"""
import datetime
import hashlib
import itertools
import os
import random
import shutil
import signal
import sys
import tempfile

from openpyxl import Workbook

from excel2pycl import Parser, Executor, Cell, AbstractExcelInPython, load_module

signal.alarm(600)

TMP = tempfile.mkdtemp(prefix='t14r4_')
LINES = []


def out(*parts):
    LINES.append(' '.join(str(p) for p in parts).replace(TMP, '<TMP>'))


def show(value):
    return f'{type(value).__name__}:{value!r}'


def attempt(tag, function):
    try:
        return function()
    except BaseException as e:  # noqa
        out(tag, 'EXC', type(e).__name__, e)
        return None


# ------------------------------------------------------------------ workbook -> generated class (template copy)
xlsx = os.path.join(TMP, 'book.xlsx')
wb = Workbook()
ws = wb.active
ws.title = 'Data'
ws.append([1, 2, 3, '=A1+B1+C1'])
ws.append([10, 20, 30, '=SUM(A1:C2)'])
ws.append(['x', None, 'z', '=A3&B3&C3'])
ws.append(['=D1*2', '=IF(B3="";"blank";"set")', '=Other!A1+E5', '=COUNTBLANK(A1:C3)'])
other = wb.create_sheet('Other')
other.append([100, '=Data!D1+A1'])
other.append([None, None, '=B1+F9'])
chain = wb.create_sheet('Chain')
chain['A1'] = 1
for row in range(2, 701):
    chain[f'A{row}'] = f'=A{row - 1}+1'
wb.save(xlsx)
wb.close()
class_file = os.path.join(TMP, 'book.py')
translation = Parser().set_excel_file_path(xlsx).get_translation()
Parser().set_excel_file_path(xlsx).write_translation(class_file)
functions = translation[translation.rindex("return '#VALUE!'"):]
out('generated functions', len(functions), hashlib.sha256(functions.encode()).hexdigest()[:16])
Generated = load_module(class_file).ExcelInPython


# ------------------------------------------------------------------ 1. battery on a runtime class
class Unhashable(dict):
    pass


def battery(tag, base):
    calls = []

    class Book(base):
        marker = 'class attribute, not callable'
        nothing = None
        zero = 0

        def _9_0_0(self):
            calls.append('_9_0_0')
            return 'computed A1'

        def _9_1_0(self):
            calls.append('_9_1_0')
            return self._cell_preprocessor('_9_0_0') + ' -> B1'

        def _9_2_0(self):
            calls.append('_9_2_0')
            return [self._cell_preprocessor('_9_1_0'), self._cell_preprocessor('_9_5_5'),
                    self._cell_preprocessor('_9_0_0')]

        def _9_3_0(self):
            calls.append('_9_3_0')
            raise ZeroDivisionError('D1 fails')

        def _9_4_0(self):
            calls.append('_9_4_0')
            raise KeyError('_9_4_0')

        def _9_6_0(self):
            calls.append('_9_6_0')
            return self._arguments['absent']

        @staticmethod
        def static_cell():
            return 'static'

    class Child(Book):
        pass

    UIDS = ['_9_0_0', '_9_1_0', '_9_2_0', '_9_3_0', '_9_4_0', '_9_5_5', '_9_6_0', '_0_0_0', '', 'marker', 'nothing',
            'zero', '_arguments', '_titles', '_sheets_size', '_sum', '_today', 'get_titles', 'EmptyCell',
            'static_cell', '__init__', '__doc__', '__dict__', '__class__', 'set_arguments', '_cell_preprocessor',
            'exec_function_in', 'instance_attr', 'instance_callable', 'instance_none']

    def probe(label, instance, uids=UIDS):
        for uid in uids:
            for name in ('_cell_preprocessor', 'exec_function_in'):
                del calls[:]
                try:
                    value = getattr(instance, name)(uid)
                    text = show(value)
                except BaseException as e:  # noqa
                    text = f'EXC {type(e).__name__} {e}'
                    context = e.__context__
                    text += f' context={type(context).__name__ if context is not None else None}'
                if ' at 0x' in text:
                    text = text.split(' at 0x')[0]
                out(tag, label, name, repr(uid), text, 'calls', calls)
        out(tag, label, 'arguments', list(instance._arguments.items()))

    instance = Book()
    instance.instance_attr = 'plain instance attribute'
    instance.instance_callable = lambda self: ('called with', type(self).__name__)
    instance.instance_none = None
    probe('fresh', instance)

    # overrides of every kind of value, including falsy ones and None
    histories = [
        [{'uid': '_9_0_0', 'value': 'override A1'}],
        [{'uid': '_9_5_5', 'value': 0}, {'uid': '_9_3_0', 'value': None}],
        [{'uid': '_9_1_0', 'value': ''}, {'uid': '_9_1_0', 'value': False}, {'uid': '_9_0_0', 'value': 'again'}],
        [{'uid': 'marker', 'value': 'marker overridden'}, {'uid': '_titles', 'value': 'titles overridden'}],
        [],
        [{'uid': '_9_4_0', 'value': [1, 2]}, {'uid': 'new', 'value': {'a': 1}, 'extra': 'ignored'}],
        [{'uid': '_9_6_0', 'value': datetime.datetime(2020, 1, 1)}, {'uid': 'absent', 'value': 'present now'}],
        [{'uid': 7, 'value': 'int uid'}, {'uid': None, 'value': 'none uid'}, {'uid': (1, 2), 'value': 'tuple uid'}],
    ]
    for number, history in enumerate(histories):
        before = instance._arguments
        snapshot = list(before.items())
        result = instance.set_arguments(history)
        out(tag, f'history[{number}]', 'returns', result, 'rebinds', instance._arguments is not before,
            'old dict untouched', list(before.items()) == snapshot, type(instance._arguments).__name__)
        probe(f'history[{number}]', instance, UIDS + [7, None, (1, 2)])

    # inputs that fail: the stored overrides must stay exactly as they were
    failing = [
        None, 5, 'text', [None], [5], ['ab'], [{}], [{'uid': 'only uid'}], [{'value': 'only value'}],
        [{'uid': 'ok', 'value': 1}, {'uid': 'second has no value'}],
        [{'uid': 'ok', 'value': 1}, {}], [{'uid': [1], 'value': 1}], [{'uid': [1]}], [{'uid': {}, 'value': 1}],
        [{'uid': 'ok2', 'value': 2}, {'uid': Unhashable(), 'value': 1}], [('uid', 'value')], [['uid', 'value']],
        {'uid': 'a', 'value': 'b'}, [[]], iter([{'uid': 'from iterator', 'value': 1}, {'uid': 'broken'}]),
    ]
    for number, arguments in enumerate(failing):
        before = instance._arguments
        snapshot = list(before.items())
        attempt(f'{tag} failing[{number}]', lambda: instance.set_arguments(arguments))
        out(tag, f'failing[{number}]', 'same object', instance._arguments is before,
            'unchanged', list(instance._arguments.items()) == snapshot, len(instance._arguments))
    good_iterators = [iter([{'uid': 'it1', 'value': 1}]), ({'uid': f'gen{i}', 'value': i} for i in range(3)),
                      ({'uid': 'tuple item', 'value': 1},), {'uid': 'k', 'value': 'v'}.items() and []]
    for number, arguments in enumerate(good_iterators):
        attempt(f'{tag} iterable[{number}]', lambda: instance.set_arguments(arguments))
        out(tag, f'iterable[{number}]', list(instance._arguments.items())[-4:])
    attempt(f'{tag} unhashable lookup', lambda: instance._cell_preprocessor([1]))
    attempt(f'{tag} unhashable lookup dict', lambda: instance.exec_function_in({}))

    # constructor arguments, inherited cell methods (only the own class dict is searched), missing state
    for label, make in [('ctor none', lambda: Book(None)), ('ctor empty', lambda: Book([])),
                        ('ctor values', lambda: Book([{'uid': '_9_0_0', 'value': 'ctor A1'},
                                                      {'uid': '_9_5_5', 'value': 'ctor F6'}])),
                        ('ctor bad', lambda: Book([{'uid': 'x'}])), ('child', lambda: Child()),
                        ('child override', lambda: Child([{'uid': '_9_0_0', 'value': 'child A1'}]))]:
        made = attempt(f'{tag} {label}', make)
        if made is not None:
            probe(label, made, UIDS[:8])
    bare = Book.__new__(Book)
    attempt(f'{tag} bare known', lambda: bare._cell_preprocessor('_9_0_0'))
    attempt(f'{tag} bare unknown', lambda: bare._cell_preprocessor('_9_5_5'))
    attempt(f'{tag} bare set_arguments', lambda: bare.set_arguments([]))

    # random histories: the dict of overrides always equals a straightforward model of it
    rng = random.Random(4)
    instance = Book()
    model = {}
    for step in range(300):
        batch = [{'uid': rng.choice(UIDS[:9] + ['a', 'b', 'c']), 'value': rng.choice([0, 1, None, '', 'v', 2.5, False])}
                 for _ in range(rng.randrange(0, 5))]
        instance.set_arguments(batch)
        for item in batch:
            model[item['uid']] = item['value']
        assert list(instance._arguments.items()) == list(model.items()), step
        uid = rng.choice(UIDS[:9])
        del calls[:]
        try:
            text = show(instance.exec_function_in(uid))
        except BaseException as e:  # noqa
            text = f'EXC {type(e).__name__} {e}'
        if step % 10 == 0:
            out(tag, 'random', step, uid, text, calls, list(instance._arguments.items()))
    out(tag, 'random final', list(instance._arguments.items()))


class Runtime(AbstractExcelInPython):
    pass


battery('class-copy', Runtime)
battery('class-copy-direct', AbstractExcelInPython)
battery('template-copy', Generated)

# ------------------------------------------------------------------ 2. the generated class itself
instance = Generated()
UIDS = [f'_{sheet}_{column}_{row}' for sheet in range(2) for row in range(5) for column in range(6)]
UIDS += ['_2_0_0', '_2_0_1', '_2_0_99', '_2_0_299', '_2_0_450', '_2_0_699', '_2_0_700', '_0_3_0_0', '_0_3_1_0']
for uid in UIDS:
    try:
        text = show(instance.exec_function_in(uid))
    except BaseException as e:  # noqa
        text = f'EXC {type(e).__name__} {str(e)[:80]}'
    out('generated', uid, text)
deepest = None
for row in range(300, 700):
    try:
        Generated().exec_function_in(f'_2_0_{row}')
        deepest = row
    except RecursionError:
        break
out('generated deepest chain row that still evaluates', deepest)
out('generated arguments', instance._arguments, instance.get_titles(), instance.get_sheets_size())
for history in ([{'uid': '_0_0_0', 'value': 41}], [{'uid': '_0_1_2', 'value': 'set'}, {'uid': '_0_4_4', 'value': 8}],
                [{'uid': '_2_0_400', 'value': 0}], [{'uid': '_0_3_0', 'value': None}],
                [{'uid': '_0_3_0', 'value': 0}, {'uid': '_0_0_0', 'value': 1}]):
    before = instance._arguments
    instance.set_arguments(history)
    out('generated history', history, 'rebinds', instance._arguments is not before, list(instance._arguments.items()))
    for uid in UIDS:
        try:
            text = show(instance.exec_function_in(uid))
        except BaseException as e:  # noqa
            text = f'EXC {type(e).__name__} {str(e)[:80]}'
        out('generated history', uid, text)

# ------------------------------------------------------------------ 3. Executor histories on the generated class
ADDRESSES = [(0, 3, 0), ('Data', 'D', '2'), (0, 0, 3), ('Data', 'B', '4'), (0, 2, 3), ('Other', 'B', '1'),
             (1, 2, 1), (0, 7, 7), ('Chain', 'A', '300'), (2, 0, 0)]
OVERRIDE_SETS = [
    [],
    [(0, 0, 0, 5)],
    [('Data', 'B', '3', 'now set'), (0, 4, 4, 0.5)],
    [(1, 5, 8, 1000), ('Other', 'A', '1', -1)],
    [(0, 3, 0, 0), (0, 3, 0, None)],
    [(2, 0, 249, 0)],
]


def query_all(executor):
    values = []
    for address in ADDRESSES:
        try:
            values.append(show(executor.get_cell(Cell(*address)).value))
        except BaseException as e:  # noqa
            values.append(f'EXC {type(e).__name__} {str(e)[:60]}')
    return values


for number, overrides in enumerate(OVERRIDE_SETS):
    executor = Executor().set_executed_class(class_file=class_file)
    executor.set_cells([Cell(t, c, r, value=v) for t, c, r, v in overrides])
    first = query_all(executor)
    grids = []
    for sheet in (0, 'Other'):
        try:
            grids.append([[show(cell.value) for cell in row] for row in executor.get_sheet(sheet)])
        except BaseException as e:  # noqa
            grids.append(f'EXC {type(e).__name__} {e}')
    second = query_all(executor)
    listed = attempt(f'executor {number} get_cells', lambda: [
        show(cell.value) for cell in executor.get_cells([Cell(*a) for a in ADDRESSES[:8]])])
    out('executor', number, 'repeatable', first == second, 'list agrees', listed == first[:8])
    out('executor', number, 'values', first)
    out('executor', number, 'grids', hashlib.sha256(repr(grids).encode()).hexdigest()[:16],
        [len(g) if isinstance(g, list) else g for g in grids])
    out('executor', number, 'arguments', list(executor.get_executed_class()._arguments.items()),
        executor._sheets_size[:2])
executor = Executor().set_executed_class(class_file=class_file)
for order in itertools.permutations(range(1, 5), 2):
    for index in order:
        executor.set_cells([Cell(t, c, r, value=v) for t, c, r, v in OVERRIDE_SETS[index]])
        out('executor cumulative', order, index, query_all(executor)[:8],
            list(executor.get_executed_class()._arguments.items()))

shutil.rmtree(TMP, ignore_errors=True)
out('tmp removed', not os.path.exists(TMP))
text = '\n'.join(LINES)
print(text)
print('DIGEST', hashlib.sha256(text.encode('utf-8')).hexdigest(), len(LINES))
sys.exit(0)
