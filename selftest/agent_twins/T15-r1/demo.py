"""Equivalence demo for r1 (Parser._translate split into steps).

Drives the Parser facade through many histories (set path / entry cell / safety flag,
repeated calls, failing translations followed by retries, writes, threads) and prints a
deterministic digest: sha256 of every returned text, identity of repeated results,
exception class names and the number of times the workbook was actually re-read.
"""
import datetime
import hashlib
import os
import shutil
import tempfile
import threading

from openpyxl import Workbook

from excel2pycl import Parser, Executor, Cell
import excel2pycl.src.excel as excel_module


def sha(text):
    return 'None' if text is None else hashlib.sha256(text.encode('utf-8')).hexdigest()[:16]


def make_books(tmp):
    paths = {}

    wb = Workbook()
    ws = wb.active
    ws.title = 'Main'
    ws.append([1, 2.5, '=A1+B1', '=C1>A1', '=IF(A1<B1;"lt";"ge")'])
    ws.append([None, 'text', '=A2=0', '=B2<>"TEXT"', '=SUM(A1:B1)'])
    ws.append([datetime.date(2024, 1, 1), datetime.datetime(2024, 1, 1), '=A3=B3', '=A3<=B3', '=A3&B2'])
    ws2 = wb.create_sheet('Other')
    ws2.append(['=Main!A1*2', "='Main'!C1&\"x\"", 7])
    paths['a'] = os.path.join(tmp, 'a.xlsx')
    wb.save(paths['a'])

    wb = Workbook()
    ws = wb.active
    ws.title = 'Main'
    ws.append([10, 20, '=A1-B1', '=ROUND(A1/B1;2)'])
    paths['b'] = os.path.join(tmp, 'b.xlsx')
    wb.save(paths['b'])

    wb = Workbook()
    ws = wb.active
    ws.append([1, 'os.system("x")', '=A1+1', 'eval(1)'])
    paths['suspicious'] = os.path.join(tmp, 'suspicious.xlsx')
    wb.save(paths['suspicious'])

    wb = Workbook()
    ws = wb.active
    ws.append([1, '=A1+', '=UNKNOWNFN(A1)'])
    paths['broken'] = os.path.join(tmp, 'broken.xlsx')
    wb.save(paths['broken'])

    wb = Workbook()
    ws = wb.active
    ws.append(['=B1', '=A1'])
    paths['cycle'] = os.path.join(tmp, 'cycle.xlsx')
    wb.save(paths['cycle'])

    paths['missing'] = os.path.join(tmp, 'does_not_exist.xlsx')
    return paths


class ParseCounter:
    """Counts calls of Excel.parse, whichever helper of the Parser performs them."""

    def __init__(self):
        self.count = 0
        self._lock = threading.Lock()
        original = excel_module.Excel.__dict__['parse'].__func__
        counter = self

        def counting_parse(cls, path):
            with counter._lock:
                counter.count += 1
            return original(cls, path)

        excel_module.Excel.parse = classmethod(counting_parse)


def main():
    tmp = tempfile.mkdtemp(prefix='e2p_demo_r1_')
    out = []
    try:
        paths = make_books(tmp)
        counter = ParseCounter()

        def attempt(label, func):
            before = counter.count
            try:
                result = func()
                shown = sha(result) if isinstance(result, (str, type(None))) else type(result).__name__
                out.append(f'{label}: ok {shown} parses={counter.count - before}')
                return result
            except BaseException as exc:  # noqa
                out.append(f'{label}: raised {type(exc).__name__} parses={counter.count - before}')
                return exc

        # 1. nothing set
        parser = Parser()
        attempt('no path get', parser.get_translation)
        attempt('no path get again', parser.get_translation)
        attempt('no path write', lambda: parser.write_translation(os.path.join(tmp, 'never.py')))
        out.append(f'never.py exists: {os.path.exists(os.path.join(tmp, "never.py"))}')
        attempt('empty path', lambda: Parser().set_excel_file_path('').get_translation())

        # 2. path set, repeated calls
        parser.set_excel_file_path(paths['a'])
        t1 = attempt('a first', parser.get_translation)
        t2 = attempt('a second', parser.get_translation)
        out.append(f'a repeated identical: {t1 == t2} same object: {t1 is t2}')
        written = os.path.join(tmp, 'a.py')
        attempt('a write', lambda: parser.write_translation(written))
        with open(written, encoding='utf-8') as f:
            out.append(f'a file equals text: {f.read() == t1}')

        # 3. setting the same value again forces a re-translation with the identical text
        parser.set_excel_file_path(paths['a'])
        t3 = attempt('a re-set same path', parser.get_translation)
        out.append(f'a re-set equal: {t3 == t1}')
        parser.enable_safety_check()
        t4 = attempt('a enable safety again', parser.get_translation)
        out.append(f'a safety equal: {t4 == t1}')

        # 4. entry cells
        for title, column, row in [(0, 2, 0), ('Main', 'E', '1'), ('Other', 'A', '1'), (1, 1, 0), (0, 4, 2),
                                   (0, 30, 30)]:
            parser.set_entrypoint_cell(Cell(title, column, row))
            te = attempt(f'a entry {title}/{column}/{row}', parser.get_translation)
            te2 = attempt(f'a entry {title}/{column}/{row} again', parser.get_translation)
            out.append(f'  equal={te == te2} differs from full={te != t1}')
        attempt('a entry unknown sheet', lambda: parser.set_entrypoint_cell(Cell('Nope', 'A', '1')).get_translation())
        attempt('a entry unknown sheet again', parser.get_translation)
        attempt('a entry without row', lambda: parser.set_entrypoint_cell(Cell(0, 0)).get_translation())
        parser.set_entrypoint_cell(None)
        t5 = attempt('a entry reset to None', parser.get_translation)
        out.append(f'a after entry reset equal to full: {t5 == t1}')

        # 5. path changes
        parser.set_excel_file_path(paths['b'])
        tb = attempt('b first', parser.get_translation)
        out.append(f'b differs from a: {tb != t1}')
        parser.set_excel_file_path(paths['a'])
        t6 = attempt('a after b', parser.get_translation)
        out.append(f'a after b equal: {t6 == t1}')

        # 6. failing translations keep the parser dirty and the old text untouched
        parser.set_excel_file_path(paths['missing'])
        attempt('missing get', parser.get_translation)
        attempt('missing get again', parser.get_translation)
        out.append(f'stale text after failure: {sha(parser._translation)}')
        attempt('missing write', lambda: parser.write_translation(os.path.join(tmp, 'missing.py')))
        out.append(f'missing.py exists: {os.path.exists(os.path.join(tmp, "missing.py"))}')
        parser.set_excel_file_path(paths['broken'])
        attempt('broken get', parser.get_translation)
        attempt('broken get again', parser.get_translation)
        parser.set_excel_file_path(paths['cycle'])
        attempt('cycle get', parser.get_translation)
        parser.set_excel_file_path(paths['a'])
        t7 = attempt('a after failures', parser.get_translation)
        out.append(f'a after failures equal: {t7 == t1}')

        # 7. safety setting
        sp = Parser().set_excel_file_path(paths['suspicious'])
        attempt('suspicious default', sp.get_translation)
        attempt('suspicious default again', sp.get_translation)
        sp.disable_safety_check()
        ts = attempt('suspicious disabled', sp.get_translation)
        attempt('suspicious disabled again', sp.get_translation)
        sp.enable_safety_check()
        attempt('suspicious enabled', sp.get_translation)
        out.append(f'suspicious text kept after failure: {sp._translation == ts}')
        sp.disable_safety_check()
        ts2 = attempt('suspicious disabled 2', sp.get_translation)
        out.append(f'suspicious equal: {ts == ts2}')
        sp.set_entrypoint_cell(Cell(0, 2, 0)).enable_safety_check()
        attempt('suspicious entry enabled', sp.get_translation)
        sp.disable_safety_check()
        attempt('suspicious entry disabled', sp.get_translation)

        # 8. chaining returns the parser itself
        chained = Parser()
        out.append('chain: ' + str([
            chained.set_excel_file_path(paths['b']) is chained,
            chained.enable_safety_check() is chained,
            chained.disable_safety_check() is chained,
            chained.set_entrypoint_cell(None) is chained,
            chained._translate() is chained,
            chained._translate() is chained,
            chained.write_translation(os.path.join(tmp, 'b.py')) is chained,
        ]))
        out.append('flags: ' + str(sorted((k, v) for k, v in vars(chained).items() if k.endswith('_changed'))))
        out.append('flags fresh: ' + str(sorted((k, v) for k, v in vars(Parser()).items() if k.endswith('_changed'))))

        # 9. independent parsers, interleaved and in threads
        fresh = {name: Parser().set_excel_file_path(paths[name]).get_translation() for name in ('a', 'b')}
        out.append(f'fresh a equal: {fresh["a"] == t1} fresh b equal: {fresh["b"] == tb}')
        results = {}

        def work(index):
            name = 'a' if index % 2 else 'b'
            p = Parser().set_excel_file_path(paths[name])
            texts = [p.get_translation() for _ in range(3)]
            results[index] = (name, texts)

        threads = [threading.Thread(target=work, args=(i,)) for i in range(8)]
        for t in threads:
            t.start()
        for t in threads:
            t.join()
        out.append('threads: ' + str(all(all(text == fresh[name] for text in texts)
                                         for name, texts in results.values())))

        # 10. the written class computes
        executor = Executor().set_executed_class(class_file=written)
        for column, row in [(2, 0), (3, 0), (4, 0), (2, 1), (3, 1), (4, 1), (2, 2), (3, 2), (4, 2)]:
            out.append(f'value {column},{row}: {executor.get_cell(Cell(0, column, row)).value!r}')
        out.append(f'value other A1: {executor.get_cell(Cell("Other", "A", "1")).value!r}')
        out.append(f'value other B1: {executor.get_cell(Cell("Other", "B", "1")).value!r}')

        out.append(f'total parses: {counter.count}')
    finally:
        shutil.rmtree(tmp, ignore_errors=True)

    text = '\n'.join(out)
    print(text)
    print('DIGEST', hashlib.sha256(text.encode('utf-8')).hexdigest())


if __name__ == '__main__':
    main()
