"""Equivalence demo for r4 (runtime set_arguments / _cell_preprocessor in both copies).

Uses BOTH runtime copies (a hand-written subclass of AbstractExcelInPython and a class generated from the
template in context.py): feeds set_arguments well-formed and malformed override lists, queries every kind
of cell uid (formula, value, blank, overridden, unknown, odd and unhashable uids) repeatedly and in
shuffled orders, and checks through the Executor that all query APIs agree; prints every value, every
exception and the override table after each step.
"""
import datetime
import hashlib
import os
import random
import re
import shutil
import sys
import tempfile

from openpyxl import Workbook

from excel2pycl import Parser, Executor, Cell
from excel2pycl.src.object_loader import load_module
from excel2pycl.src.utilities.abstract_excel_in_python_class import AbstractExcelInPython


def describe(value):
    if isinstance(value, list):
        return 'list:[' + ', '.join(describe(item) for item in value) + ']'
    return re.sub(r' at 0x[0-9a-fA-F]+', '', f'{type(value).__name__}:{value!r}')


def attempt(function, *args):
    try:
        return describe(function(*args))
    except BaseException as exception:  # noqa
        return re.sub(r' at 0x[0-9a-fA-F]+', '', f'!{type(exception).__name__}:{exception}')


class HandWritten(AbstractExcelInPython):
    """What the translator would print, written by hand, plus some odd class attributes."""
    calls = []

    def __init__(self, arguments=None):
        super().__init__(arguments)
        self._titles = {'Data': 0}
        self._sheets_size = [{'last_column': 3, 'last_row': 3}]
        # instance attributes that look like cells
        self._0_2_2 = lambda me: 'instance attribute wins'
        self._0_1_2 = None
        self._0_0_2 = 0

    def _0_0_0(self):
        self.calls.append('_0_0_0')
        return 1

    def _0_1_0(self):
        self.calls.append('_0_1_0')
        return self._cell_preprocessor('_0_0_0') + self._cell_preprocessor('_0_2_0')

    def _0_2_0(self):
        return self.EmptyCell()

    def _0_0_1(self):
        return self._compare("==", self._cell_preprocessor('_0_1_0'), 1)

    def _0_1_1(self):
        return self._excel_value_to_string(self._cell_preprocessor('_0_9_9')) + 'x'

    def _0_2_2(self):
        return 'class attribute'

    def _0_1_2(self):
        return 'class attribute behind a None instance attribute'

    def _0_0_2(self):
        return 'class attribute behind a zero instance attribute'

    _0_2_1 = 'not callable'
    _0_3_3 = staticmethod(lambda me: 'static')
    _0_4_4 = None


UIDS = ['_0_0_0', '_0_1_0', '_0_2_0', '_0_0_1', '_0_1_1', '_0_2_1', '_0_0_2', '_0_1_2', '_0_2_2', '_0_3_3', '_0_4_4',
        '_0_9_9', '_1_0_0', '_1_1_1', '_1_0_1', '_2_0_0', '_0_5_0', '_0_6_0', '_0_0_any', '', '_', 'x', '_arguments',
        '_titles', '_sheets_size', '_compare', '_sum', '_today', '_cell_preprocessor', 'exec_function_in',
        'set_arguments', 'EmptyCell', '__dict__', '__class__', '__doc__',
        '__module__', 'calls', None, 0, 5, 1.5, True, (), ('_0_0_0',), b'_0_0_0', frozenset()]
UNHASHABLE_UIDS = [[], ['_0_0_0'], {}, {'_0_0_0'}, bytearray(b'x')]

ARGUMENT_LISTS = [
    [],
    [{'uid': '_0_0_0', 'value': 5}],
    [{'uid': '_0_0_0', 'value': None}],
    [{'uid': '_0_2_0', 'value': 2.5}, {'uid': '_0_9_9', 'value': 'far'}],
    [{'uid': '_0_1_0', 'value': 'overridden formula'}, {'uid': '_0_1_0', 'value': 'last wins'}],
    [{'uid': '_0_9_9', 'value': ''}, {'uid': '_0_0_0', 'value': 0}, {'uid': '_0_9_9', 'value': False}],
    [{'uid': '_0_0_0', 'value': 7, 'title': 0, 'column': 0, 'row': 0, 'extra': 'ignored'}],
    ({'uid': '_1_0_0', 'value': datetime.datetime(2024, 2, 29)},),
    'GENERATOR',
    [{'uid': None, 'value': 'none uid'}, {'uid': 5, 'value': 'int uid'}, {'uid': ('_0_0_0',), 'value': 'tuple uid'}],
    [{'uid': '_arguments', 'value': 'shadow'}, {'uid': '_compare', 'value': 'shadow'}, {'uid': '', 'value': 'empty'}],
    # malformed ones: nothing of such a call may be kept
    [{'uid': '_0_0_0', 'value': 'kept?'}, {'uid': '_0_2_0'}],
    [{'uid': '_0_0_0', 'value': 'kept?'}, {'value': 1}],
    [{'uid': '_0_0_0', 'value': 'kept?'}, {}],
    [{'uid': '_0_0_0', 'value': 'kept?'}, {'uid': [], 'value': 1}],
    [{'uid': '_0_0_0', 'value': 'kept?'}, {'uid': []}],
    [{'uid': '_0_0_0', 'value': 'kept?'}, None],
    [{'uid': '_0_0_0', 'value': 'kept?'}, 'text'],
    [{'uid': '_0_0_0', 'value': 'kept?'}, ['uid', 'value']],
    [{'uid': '_0_0_0', 'value': 'kept?'}, ('_0_0_0', 1)],
    {'uid': '_0_0_0', 'value': 1},
    None,
    5,
    'uid',
    [{'uid': '_0_0_0', 'value': [1, [2]]}, {'uid': '_0_2_0', 'value': {'a': 1}}],
]


def arguments_of(entry):
    if entry == 'GENERATOR':
        return ({'uid': f'_0_{index}_0', 'value': index * 10} for index in range(3))
    return entry


def table(instance):
    return '{' + ', '.join(f'{key!r}: {describe(value)}' for key, value in instance._arguments.items()) + '}'


def query_all(tag, instance, lines, rng):
    for run in range(3):
        uids = list(UIDS)
        if run:
            rng.shuffle(uids)
        results = {repr(uid): attempt(instance._cell_preprocessor, uid) for uid in uids}
        public = {repr(uid): attempt(instance.exec_function_in, uid) for uid in reversed(uids)}
        lines.append(f'{tag} run{run} agree={results == public} ' + ' ; '.join(
            f'{key}={results[key]}' for key in sorted(results)))
    for uid in UNHASHABLE_UIDS:
        lines.append(f'{tag} unhashable {uid!r} -> {attempt(instance._cell_preprocessor, uid)} / '
                     f'{attempt(instance.exec_function_in, uid)}')
    lines.append(f'{tag} table {table(instance)} sizes={instance.get_sheets_size()} titles={instance.get_titles()}')


def exercise(tag, factory, lines):
    rng = random.Random(2024)
    # constructor arguments
    for entry in ARGUMENT_LISTS:
        outcome = attempt(lambda: table(factory(arguments_of(entry))))
        lines.append(f'{tag} init {entry!r} -> {outcome}')
    lines.append(f'{tag} init default -> {table(factory())}')
    instance = factory()
    query_all(f'{tag} fresh', instance, lines, rng)
    # a cumulative history of set_arguments calls on one instance
    for number, entry in enumerate(ARGUMENT_LISTS):
        before = instance._arguments
        outcome = attempt(instance.set_arguments, arguments_of(entry))
        lines.append(f'{tag} set#{number} {entry!r} -> {outcome} rebound={instance._arguments is not before} '
                     f'table {table(instance)}')
        query_all(f'{tag} after#{number}', instance, lines, rng)
    # independent instances do not share overrides
    other = factory()
    lines.append(f'{tag} other instance table {table(other)} {attempt(other._cell_preprocessor, "_0_0_0")}')
    if hasattr(instance, 'calls'):
        lines.append(f'{tag} calls {len(instance.calls)} {instance.calls[:40]}')


def build_workbook(path):
    wb = Workbook()
    ws = wb.active
    ws.title = 'Data'
    ws['A1'] = 1
    ws['B1'] = '=A1+C1'
    ws['A2'] = '=B1=1'
    ws['B2'] = '=J10&"x"'
    ws['C2'] = 'not callable'
    ws['A3'] = '=SUM(A1:C1)*2'
    ws['C3'] = '=IF(A1>0,B1,A3)'
    other = wb.create_sheet('Other')
    other['A1'] = '=Data!A1+Data!B1'
    other['B2'] = datetime.datetime(2024, 2, 29)
    wb.save(path)


def through_executor(class_path, lines):
    rng = random.Random(7)
    coordinates = [(sheet, column, row) for sheet in range(2) for column in range(4) for row in range(4)]
    override_sets = [
        [],
        [Cell(0, 0, 0, value=5)],
        [Cell('Data', 'B', '1', value='overridden formula'), Cell('Data', 'C', '1', value=4)],
        [Cell(0, 0, 0, value=None), Cell(0, 0, 0, value=2), Cell('Other', 'D', '4', value='far')],
    ]
    for number, overrides in enumerate(override_sets):
        executor = Executor().set_executed_class(class_file=class_path)
        executor.set_cells(overrides)
        orders = []
        for run in range(3):
            order = list(coordinates)
            rng.shuffle(order)
            values = {}
            for sheet, column, row in order:
                values[(sheet, column, row)] = attempt(lambda: executor.get_cell(Cell(sheet, column, row)).value)
            orders.append(values)
        try:
            listed = [describe(cell.value) for cell in executor.get_cells(
                [Cell(sheet, column, row) for sheet, column, row in coordinates])]
            list_agrees = listed == [orders[0][key] for key in coordinates]
        except Exception as exception:  # noqa
            list_agrees = f'!{type(exception).__name__}:{exception}'
        from_grid = {}
        for sheet in (0, 'Other', 'Data', 1):
            try:
                for line in executor.get_sheet(sheet):
                    for cell in line:
                        from_grid[(sheet, cell.title, cell.column, cell.row)] = describe(cell.value)
            except Exception as exception:  # noqa
                from_grid[(sheet, 'error')] = f'!{type(exception).__name__}:{exception}'
        grid_agrees = all(orders[0].get(key[1:], value) == value for key, value in from_grid.items() if len(key) == 4)
        lines.append(f'X{number} orders agree={orders[0] == orders[1] == orders[2]} list agrees={list_agrees} '
                     f'grid agrees={grid_agrees} grid cells={len(from_grid)}')
        lines.append(f'X{number} values {[orders[0][key] for key in coordinates]}')
        lines.append(f'X{number} grid {sorted(from_grid.items(), key=repr)}')
        lines.append(f'X{number} table {table(executor.get_executed_class())} '
                     f'sizes={executor.get_executed_class().get_sheets_size()}')


def main():
    directory = tempfile.mkdtemp(prefix='r4demo')
    lines = []
    try:
        book_path = os.path.join(directory, 'book.xlsx')
        class_path = os.path.join(directory, 'book.py')
        build_workbook(book_path)
        Parser().set_excel_file_path(book_path).write_translation(class_path)
        generated = load_module(class_path).ExcelInPython

        exercise('hand', HandWritten, lines)
        exercise('generated', generated, lines)
        through_executor(class_path, lines)
    finally:
        shutil.rmtree(directory, ignore_errors=True)

    for index, line in enumerate(lines):
        if ' run' not in line or index % 7 == 0:
            print(line)
    print('LINES', len(lines))
    print('DIGEST', hashlib.sha256('\n'.join(lines).encode('utf-8')).hexdigest())
    return 0


if __name__ == '__main__':
    sys.exit(main())
