"""Equivalence demo for r4 (EmptyCell: how a blank cell compares with everything else).

Uses the EmptyCell class of BOTH copies of the runtime (AbstractExcelInPython.EmptyCell and the
one inside the ExcelInPython class generated from the template).  For ~60 other operands it
prints the result (with type) or exception of: the six dunder methods called directly, the six
operators with the blank on the left and on the right (reflected dispatch), membership tests,
sorting / min / max of mixed lists, _compare with a blank on either side, and the values of
formulas over blank cells in a translated workbook (including cells overridden to blank).
The output must be identical before and after the refactoring.
"""
import warnings
warnings.simplefilter("ignore")
import datetime
import hashlib
import operator as op
import os
import tempfile
from decimal import Decimal
from fractions import Fraction

from openpyxl import Workbook

from excel2pycl import Parser, Executor, Cell
from excel2pycl.src.object_loader import load_module
from excel2pycl.src.utilities.abstract_excel_in_python_class import AbstractExcelInPython

OUT = []


def emit(*parts):
    OUT.append(' '.join(str(p) for p in parts))


class Concrete(AbstractExcelInPython):
    pass


class StrSub(str):
    pass


class IntSub(int):
    pass


class ListSub(list):
    pass


class DateSub(datetime.date):
    pass


class Loud:
    """compares equal to everything, refuses ordering"""

    def __eq__(self, other):
        return True

    __hash__ = None

    def __repr__(self):
        return 'Loud()'


class Raises:
    def __eq__(self, other):
        raise ValueError('ambiguous truth value')

    __hash__ = None

    def __repr__(self):
        return 'Raises()'


def others(blank_class):
    class BlankSub(blank_class):
        pass

    return [
        ('0', 0), ('1', 1), ('-1', -1), ('2**70', 2 ** 70), ('-2**70', -2 ** 70),
        ('0.0', 0.0), ('-0.0', -0.0), ('1e-320', 1e-320), ('-1e-320', -1e-320), ('2.5', 2.5), ('-2.5', -2.5),
        ('nan', float('nan')), ('inf', float('inf')), ('-inf', float('-inf')),
        ('True', True), ('False', False), ('None', None),
        ("''", ''), ("' '", ' '), ("'0'", '0'), ("'a'", 'a'), ("'False'", 'False'), ('StrSub()', StrSub('')),
        ("StrSub('x')", StrSub('x')), ('IntSub(0)', IntSub(0)), ('IntSub(3)', IntSub(3)), ('IntSub(-3)', IntSub(-3)),
        ('date', datetime.date(2024, 1, 1)), ('date.min', datetime.date.min), ('datetime', datetime.datetime(2024, 1, 1)),
        ('datetime.min', datetime.datetime.min), ('DateSub', DateSub(1999, 12, 31)), ('time', datetime.time(0, 0)),
        ('timedelta(0)', datetime.timedelta(0)), ('timedelta(1)', datetime.timedelta(1)),
        ('[]', []), ('[0]', [0]), ("['']", ['']), ('[[]]', [[]]), ('ListSub()', ListSub()), ('ListSub([1])', ListSub([1])),
        ('()', ()), ('(1,)', (1,)), ('{}', {}), ('set()', set()), ("b''", b''), ("b'a'", b'a'),
        ('Decimal(0)', Decimal(0)), ('Decimal(1)', Decimal(1)), ('Decimal(-1)', Decimal(-1)), ('Fraction(0)', Fraction(0)),
        ('Fraction(1,3)', Fraction(1, 3)), ('0j', 0j), ('1j', 1j),
        ('blank', blank_class()), ('blank(5)', blank_class(5)), ('BlankSub', BlankSub()), ('int class', int),
        ('object()', object), ('Loud', Loud()), ('Raises', Raises()),
    ]


def show(value):
    if value is True:
        return 'T'
    if value is False:
        return 'F'
    if value is NotImplemented:
        return 'NI'
    return type(value).__name__ + ':' + repr(value)


def attempt(function, *args):
    try:
        return show(function(*args))
    except Exception as exc:  # noqa
        return 'E:' + type(exc).__name__ + '(' + str(exc)[:50] + ')'


DUNDERS = ['__lt__', '__le__', '__eq__', '__ne__', '__ge__', '__gt__']
OPS = [op.lt, op.le, op.eq, op.ne, op.ge, op.gt]


def table(label, runtime):
    blank_class = runtime.EmptyCell
    lines = []
    for blank_name, blank in (('blank', blank_class()), ('blank(7)', blank_class(7))):
        for name, other in others(blank_class):
            lines.append(f'{label} {blank_name} vs {name} dunder : ' + ' '.join(
                attempt(getattr(blank, d), other) for d in DUNDERS))
            lines.append(f'{label} {blank_name} vs {name} left   : ' + ' '.join(attempt(o, blank, other) for o in OPS))
            lines.append(f'{label} {blank_name} vs {name} right  : ' + ' '.join(attempt(o, other, blank) for o in OPS))
            lines.append(f'{label} {blank_name} vs {name} compare: ' + ' '.join(
                attempt(runtime._compare, sym, blank, other) for sym in ('<', '<=', '==', '!=', '>=', '>')) + ' / ' + ' '.join(
                attempt(runtime._compare, sym, other, blank) for sym in ('<', '<=', '==', '!=', '>=', '>')))
            lines.append(f'{label} {blank_name} vs {name} member : ' + attempt(lambda: blank in [other]) + ' ' + attempt(
                lambda: other in [blank]) + ' ' + attempt(lambda: [other].count(blank)) + ' ' + attempt(
                lambda: [blank].index(other)))
    blank = blank_class()
    lines.append(f'{label} int nature : ' + ' '.join(attempt(f) for f in (
        lambda: blank + 1, lambda: blank * 5, lambda: int(blank), lambda: float(blank), lambda: str(blank),
        lambda: repr(blank), lambda: bool(blank), lambda: hash(blank), lambda: {blank: 1}, lambda: -blank,
        lambda: blank_class('3') + 1, lambda: isinstance(blank, int), lambda: blank_class.__mro__[1].__name__,
        lambda: sorted(k for k in vars(blank_class) if k.startswith('__') and k[2] in 'lgen' and len(k) == 6))))
    mixes = [
        [3, blank, -2, 0.5], [blank, 'b', '', 'a'], [datetime.date(2024, 1, 1), blank, datetime.date(2020, 1, 1)],
        [blank, blank_class(), 0, False], [1, blank], [blank, 1], [-1, blank], [blank, -1], ['', blank], [blank, ''],
        [[], blank], [blank, [1]], [None, blank], [blank, None], [2.5, blank, -2.5, blank, 0],
    ]
    for mix in mixes:
        shown = [('blank' if isinstance(m, blank_class) else repr(m)) for m in mix]

        def names(seq):
            return ['blank' if isinstance(m, blank_class) else repr(m) for m in seq]
        lines.append(f'{label} mix {shown} : sorted=' + attempt(lambda: names(sorted(mix))) + ' rsorted=' + attempt(
            lambda: names(sorted(mix, reverse=True))) + ' min=' + attempt(lambda: names([min(mix)])) + ' max=' + attempt(
            lambda: names([max(mix)])))
    return lines


def workbook(path):
    wb = Workbook()
    ws = wb.active
    ws.title = 'blank'
    # column A: operands (A1 blank, A2 never written), column B onwards: formulas
    values = [None, None, 0, 1, -1, 0.5, -0.5, '', 'a', 'FALSE', False, True, datetime.date(2024, 1, 1),
              datetime.datetime(1900, 1, 1)]
    for i, v in enumerate(values):
        if v is not None:
            ws.cell(row=i + 1, column=1, value=v)
    cells = []
    for i in range(len(values)):
        for k, sym in enumerate(['<', '<=', '=', '<>', '>=', '>']):
            ws.cell(row=i + 1, column=2 + k, value=f'=A1{sym}A{i + 1}')
            ws.cell(row=i + 1, column=8 + k, value=f'=A{i + 1}{sym}Z99')
            cells += [(i, 1 + k), (i, 7 + k)]
    extra = ['=A1=0', '=A1=""', '=A1=FALSE()', '=A1<0.0001', '=A1<"a"', '=A1<A13', '=IF(A1, "y", "n")', '=A1+5',
             '=A1&"x"', '=COUNTBLANK(A1:A14)', '=SUM(A1:A7)', '=IF(A1=A2, "same", "other")', '=MAX(A1:A7)', '=MIN(A1:A7)',
             '=COUNTIFS(A1:A14, "")', '=SUMIF(A1:A7, ">0")', '=MATCH(0, A1:A7, 0)', '=Z98=Z99', '=Z98<Z99', '=Z98>=Z99']
    for i, formula in enumerate(extra):
        ws.cell(row=20 + i, column=1, value=formula)
        cells.append((19 + i, 0))
    wb.save(path)
    return cells


def sheet_values(ex, cells):
    shown = []
    for r, c in cells:
        try:
            shown.append(show(ex.get_cell(Cell(0, c, r)).value))
        except Exception as exc:  # noqa
            shown.append('E:' + type(exc).__name__)
    return ' '.join(shown)


def main():
    tmp = tempfile.mkdtemp(prefix='r4demo')
    xlsx, out = os.path.join(tmp, 'blank.xlsx'), os.path.join(tmp, 'blank.py')
    cells = workbook(xlsx)
    Parser().set_excel_file_path(xlsx).write_translation(out)
    generated = load_module(out).ExcelInPython()
    concrete = Concrete()

    a = table('class', concrete)
    b = table('template', generated)
    emit('lines per copy', len(a))
    emit('copies agree', [x.split(' ', 1)[1] for x in a] == [x.split(' ', 1)[1] for x in b])
    OUT.extend(a)
    OUT.extend(b)
    # blanks of the two copies against each other
    c_blank, g_blank = concrete.EmptyCell(), generated.EmptyCell()
    emit('cross copies', ' '.join(attempt(o, c_blank, g_blank) for o in OPS), '/',
         ' '.join(attempt(o, g_blank, c_blank) for o in OPS))

    ex = Executor().set_executed_class(class_file=out)
    emit('sheet', sheet_values(ex, cells))
    ex.set_cells([Cell('blank', 'A', '1', value=generated.EmptyCell()), Cell('blank', 'A', '4', value=None),
                  Cell('blank', 'A', '9', value=generated.EmptyCell())])
    emit('sheet blank overrides', sheet_values(ex, cells))
    ex.set_cells([Cell('blank', 'A', '1', value=3), Cell('blank', 'Z', '99', value=-1)])
    emit('sheet value overrides', sheet_values(ex, cells))

    print('\n'.join(OUT))
    print('DIGEST', hashlib.sha256('\n'.join(OUT).encode()).hexdigest())


if __name__ == '__main__':
    main()
