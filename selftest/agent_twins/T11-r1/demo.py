"""Equivalence demo for r1 (ExpressionTokenTranslator: operand helper + class-level comparison table).

Builds workbooks in a temp dir, translates every formula on its own (fresh Context) and prints the generated
per-cell functions or the exception, then translates the whole set of good formulas through the Parser facade,
executes them through the Executor (plain and with several override sets) and prints every value.
"""
import datetime
import hashlib
import os
import re
import shutil
import sys
import tempfile

from openpyxl import Workbook

from excel2pycl import Parser, Executor, Cell, Excel, Context, CellTranslator

OUT = []


def emit(*parts):
    line = ' | '.join(str(p) for p in parts)
    OUT.append(line)
    print(line)


def show(value):
    if isinstance(value, float) and value != value:
        return 'float:nan'
    return f'{type(value).__name__}:{value!r}'


DATA_ROWS = [
    # A        B      C       D        E                      F
    [1,        2.5,   'abc',  True,    datetime.datetime(2024, 1, 15), None],
    [0,        -3,    '',     False,   datetime.datetime(2023, 12, 31, 10, 30), 7],
    [10,       0.1,   '12',   None,    'ABC',                 0.2],
    [1e10,     1e-7,  'x y',  3,       '2024-01-15',          -0.0],
    [123456789, 0.3,  '0',    -1,      None,                  100],
]

OPERANDS = ['A1', 'B1', 'C1', 'D1', 'F1', 'A2', 'B2', 'C3', 'B3', 'F3', '2', '0.1', '1.5e3', '"q"', '""', 'TRUE', 'FALSE',
            'Data!B4', "'Data'!A3", '$A$3', 'E1', 'E3']
BINARY = ['+', '-', '*', '/', '&', '=', '<>', '<', '<=', '>', '>=']


def formulas():
    result = []
    # every binary operator over a rotating set of operand pairs
    for i, op in enumerate(BINARY):
        for j in range(len(OPERANDS)):
            left = OPERANDS[(i + j) % len(OPERANDS)]
            right = OPERANDS[(3 * j + i + 1) % len(OPERANDS)]
            result.append(f'={left}{op}{right}')
    # precedence / association / sign / percent / brackets
    result += [
        '=1+2*3', '=2*3+1', '=(1+2)*3', '=2*(3+1)', '=(1+2)*(3+4)', '=10-4-3', '=100/10/5', '=2*3/4', '=1-2+3',
        '=-A1', '=+A1', '=-A1+B1', '=-(A1+B1)', '=-(A1+B1)*2', '=--A1', '=-+A1', '=A1*-B1', '=A1--B1', '=A1-+B1',
        '=50%', '=A3%', '=A3%%', '=A3%+1', '=A3%*B1', '=A3%-A1%', '=A3%&"x"', '=A3%=0.1', '=A3%>B3', '=-A3%', '=-50%',
        '=(A3)%', '=(A3+1)%', '=200%*3%', '=1+50%', '=1&2', '=1&2&3', '="a"&"b"&C1', '=A1&B1', '=F1&"|"&C2&"|"',
        '=E1&""', '=1+2&3+4', '=1&2=12', '="12"=1&2', '=1+1=2', '=2=1+1', '=1<2=TRUE', '=A1=B1=C1', '=(A1=1)=TRUE',
        '=(A1<B1)&"!"', '=((A1))', '=((A1+1))*2', '=(A1', '=A1)', '=A1+', '=*A1', '=A1 + B1', '= A1 * ( B1 - 2 ) ',
        '=0.1+0.2', '=0.1+0.2=0.3', '=1e3', '=1.5e-3*2', '=1e400', '=12345678901234567890', '=0.30000000000000004',
        '=3.0', '=007', '=1/0', '=A1/A2', '=A2/A2', '="a"+1', '=C3+1', '=C1*2', '=D1+D1', '=TRUE+TRUE', '=D2*5',
        '=F1+1', '=F1*5', '=F1&F1', '=F1=0', '=F1=""', '=F1<1', '=F1>-1', '=F1<>0', '=F1<=F1', '=F1>=F1', '=1-F1',
        '=E1=E3', '=E1>E2', '=E1<E2', '=E1<>E2', '=E1>=E1', '=C1="ABC"', '=C1<"abd"', '=C1>C3', '=C3=12', '=C3>A1',
        '=A1+B1*A3-B2/F2', '=A1+B1*(A3-B2)/F2', '=(A1+B1)*A3-(B2/F2)', '=A3%*(A1+B1)', '=(A1+B1)%', '=(A1+B1)%*2',
        '=SUM(A1:A3)+1', '=SUM(A1:A3)*2%', '=-SUM(A1:A3)', '=IF(A1>0,A1+1,A1-1)', '=IF(A1&B1="12.5",1,2)',
        '=ROUND(A1/3,2)*3', '=A1+ROUND(B1,0)', '=MAX(A1,B1)>=2', '=A1<>B1', '=A1<>A1', '="<>"&A1',
    ]
    return result


def build_workbook(path, formula_list):
    wb = Workbook()
    data = wb.active
    data.title = 'Data'
    for row in DATA_ROWS:
        data.append(row)
    # the formulas live on the Data sheet too (column H onward) so that bare references hit the data
    for index, formula in enumerate(formula_list):
        data.cell(row=index + 1, column=8, value=formula)
    wb.save(path)
    wb.close()


FUNCTION_RE = re.compile(r'^    def (_\d+_\d+_\d+(?:_\d+)?)\(self\):\n        return (.*)$', re.M)


def functions_of(class_text):
    return FUNCTION_RE.findall(class_text)


def main():
    tmp = tempfile.mkdtemp(prefix='e2p_demo_r1_')
    try:
        all_formulas = formulas()
        book = os.path.join(tmp, 'all.xlsx')
        build_workbook(book, all_formulas)
        excel = Excel.parse(book)
        good = []
        for index, formula in enumerate(all_formulas):
            context = Context()
            context._titles = excel.get_titles()
            context._sheets_size = excel.get_sheets_size()
            try:
                CellTranslator.translate(Cell(0, 7, index), excel, context)
                text = context.build_class()
            except Exception as error:  # noqa
                emit('T', index, formula, 'EXC', type(error).__name__, str(error)[:160])
                continue
            good.append(formula)
            for name, code in functions_of(text):
                if name.startswith('_0_7_'):
                    emit('T', index, formula, name, code)

        book2 = os.path.join(tmp, 'good.xlsx')
        build_workbook(book2, good)
        module = os.path.join(tmp, 'translated.py')
        Parser().set_excel_file_path(book2).disable_safety_check().write_translation(module)
        with open(module, encoding='utf-8') as f:
            text = f.read()
        emit('functions-digest', hashlib.sha256(repr(functions_of(text)).encode()).hexdigest())

        override_sets = [
            [],
            [Cell('Data', 'A', '1', value=None), Cell('Data', 'B', '1', value='5')],
            [Cell(0, 0, 0, value=0.1), Cell(0, 1, 0, value=0.2), Cell(0, 0, 2, value=-250)],
            [Cell(0, 0, 0, value='text'), Cell(0, 1, 0, value=True), Cell(0, 5, 0, value=3)],
            [Cell(0, 0, 0, value=datetime.datetime(2020, 2, 29)), Cell(0, 1, 0, value=datetime.date(2020, 2, 29)),
             Cell(0, 2, 0, value=10 ** 20)],
        ]
        for set_number, overrides in enumerate(override_sets):
            executor = Executor().set_executed_class(class_file=module)
            if overrides:
                executor.set_cells(overrides)
            for index, formula in enumerate(good):
                try:
                    value = executor.get_cell(Cell(0, 7, index)).value
                    emit('V', set_number, index, formula, show(value))
                except Exception as error:  # noqa
                    emit('V', set_number, index, formula, 'EXC', type(error).__name__, str(error)[:160])
    finally:
        shutil.rmtree(tmp, ignore_errors=True)

    print('DIGEST', hashlib.sha256('\n'.join(OUT).encode()).hexdigest())
    return 0


if __name__ == '__main__':
    sys.exit(main())
