"""Equivalence demo for r3 (_compare: operand coercions extracted into helpers, both copies).

Calls _compare of BOTH copies of the runtime class (the AbstractExcelInPython class and the
ExcelInPython class generated from the template) on the full cross product of a large operand
set and all operators (plus unknown ones), and evaluates comparison formulas through a
translated workbook. Prints per-operand-pair result rows and a digest.
"""
import datetime
import decimal
import fractions
import hashlib
import os
import shutil
import tempfile

from openpyxl import Workbook

from excel2pycl import Parser, Executor, Cell
from excel2pycl.src.utilities.abstract_excel_in_python_class import AbstractExcelInPython


class Direct(AbstractExcelInPython):
    pass


class DateSub(datetime.date):
    pass


class Weird:
    """Not a number, not a text, not a date: only str() works on it."""

    def __init__(self, name):
        self.name = name

    def __str__(self):
        return 'weird-' + self.name

    __repr__ = __str__


class IntLike:
    def __init__(self, n):
        self.n = n

    def __int__(self):
        return self.n

    def __repr__(self):
        return f'IntLike({self.n})'


class FloatOnly:
    def __init__(self, x):
        self.x = x

    def __float__(self):
        return self.x

    def __repr__(self):
        return f'FloatOnly({self.x})'


OPERATORS = ['>=', '>', '<=', '<', '==', '!=']
BAD_OPERATORS = ['=', '<>', '', 'is', None, 1]


def operands(empty_cell_class):
    return [
        ('0', 0), ('1', 1), ('-1', -1), ('2', 2), ('big', 2 ** 70), ('big+1', 2 ** 70 + 1), ('huge', 10 ** 400),
        ('0.0', 0.0), ('-0.0', -0.0), ('0.5', 0.5), ('1.0', 1.0), ('1.5', 1.5), ('-1.5', -1.5), ('0.1+0.2', 0.1 + 0.2),
        ('0.3', 0.3), ('2**70f', float(2 ** 70)), ('inf', float('inf')), ('-inf', float('-inf')), ('nan', float('nan')),
        ('True', True), ('False', False),
        ("''", ''), ("'0'", '0'), ("'1'", '1'), ("' 1 '", ' 1 '), ("'1.5'", '1.5'), ("'1e3'", '1e3'), ("'-2'", '-2'),
        ("'0x10'", '0x10'), ("'1_0'", '1_0'), ("'nan'", 'nan'), ("'inf'", 'inf'), ("'a'", 'a'), ("'A'", 'A'),
        ("'b'", 'b'), ("'text'", 'text'), ("'TEXT'", 'TEXT'), ("'2024-01-01'", '2024-01-01'),
        ("'2024-01-01 00:00:00'", '2024-01-01 00:00:00'), ("'١'", '١'),
        ('date', datetime.date(2024, 1, 1)), ('date+1', datetime.date(2024, 1, 2)), ('date.min', datetime.date.min),
        ('datesub', DateSub(2024, 1, 1)),
        ('dt midnight', datetime.datetime(2024, 1, 1)), ('dt 1s', datetime.datetime(2024, 1, 1, 0, 0, 1)),
        ('dt prev', datetime.datetime(2023, 12, 31, 23, 59, 59)), ('dt max', datetime.datetime.max),
        ('dt aware', datetime.datetime(2024, 1, 1, tzinfo=datetime.timezone.utc)),
        ('time', datetime.time(1, 2, 3)), ('timedelta', datetime.timedelta(days=1)),
        ('Empty', empty_cell_class()), ('None', None),
        ('[]', []), ('[1]', [1]), ('(1,)', (1,)), ('{}', {}),
        ('Decimal 1.5', decimal.Decimal('1.5')), ('Decimal 1', decimal.Decimal(1)), ('Decimal inf', decimal.Decimal('Infinity')),
        ('Decimal nan', decimal.Decimal('NaN')),
        ('Fraction 3/2', fractions.Fraction(3, 2)), ('complex', 1 + 2j), ('bytes', b'1'),
        ('weird a', Weird('a')), ('weird b', Weird('b')), ('IntLike 1', IntLike(1)), ('FloatOnly 1.5', FloatOnly(1.5)),
    ]


def run_cross_product(label, instance, out):
    values = operands(instance.EmptyCell)
    digest = hashlib.sha256()
    for left_name, left in values:
        for right_name, right in values:
            cells = []
            for operator in OPERATORS:
                try:
                    result = instance._compare(operator, left, right)
                    cells.append(f'{type(result).__name__}:{result!r}')
                except BaseException as exc:  # noqa
                    cells.append('!' + type(exc).__name__)
            row = f'{label} {left_name} ? {right_name}: ' + ' '.join(cells)
            digest.update(row.encode('utf-8'))
            out.append(row)
    out.append(f'{label} cross product digest {digest.hexdigest()}')

    # operands must be left untouched and unknown operators rejected the same way
    sample = [('1', 1), ("'a'", 'a'), ('date', datetime.date(2024, 1, 1)), ('Empty', instance.EmptyCell()),
              ('weird', Weird('w')), ('1.5', 1.5)]
    for operator in BAD_OPERATORS:
        for left_name, left in sample:
            for right_name, right in sample:
                try:
                    result = repr(instance._compare(operator, left, right))
                except BaseException as exc:  # noqa
                    result = '!' + type(exc).__name__ + ':' + str(exc)
                out.append(f'{label} bad operator {operator!r} {left_name} {right_name}: {result}')

    # laws from the property statement, checked on the kinds they are stated for
    kinds = {
        'numbers': [0, 1, -1, 0.5, 1.0, -1.5, 2 ** 70, 2 ** 70 + 1, 0.1 + 0.2, 0.3, True, False],
        'texts': ['', 'a', 'A', 'b', 'text', 'TEXT', 'zz'],
        'dates': [datetime.date(2024, 1, 1), datetime.datetime(2024, 1, 1), datetime.datetime(2024, 1, 1, 0, 0, 1),
                  datetime.date(2023, 12, 31), datetime.datetime(2023, 12, 31, 12)],
    }
    for kind, items in kinds.items():
        violations = []
        for a in items:
            for b in items:
                lt, eq, gt = (instance._compare(o, a, b) for o in ('<', '==', '>'))
                ne, le, ge = (instance._compare(o, a, b) for o in ('!=', '<=', '>='))
                if [lt, eq, gt].count(True) != 1 or ne == eq or le == gt or ge == lt \
                        or lt != instance._compare('>', b, a):
                    violations.append((a, b))
        out.append(f'{label} laws {kind}: violations={violations!r}')
    empty = instance.EmptyCell()
    out.append(f'{label} blank: ' + repr([
        instance._compare('==', empty, 0), instance._compare('==', empty, ''), instance._compare('==', empty, False),
        instance._compare('<', empty, 1), instance._compare('<', empty, 0.001), instance._compare('<', empty, 'a'),
        instance._compare('<', empty, datetime.date(1900, 1, 1)), instance._compare('<', empty, datetime.datetime(1900, 1, 1)),
        instance._compare('==', empty, instance.EmptyCell()), instance._compare('<', empty, instance.EmptyCell()),
        instance._compare('>', empty, -1), instance._compare('>', 0, empty), instance._compare('==', 0, empty),
        instance._compare('==', '', empty), instance._compare('>', 'a', empty),
        instance._compare('>', datetime.date(2024, 1, 1), empty),
    ]))
    out.append(f'{label} date vs midnight: ' + repr([
        instance._compare(o, datetime.date(2024, 1, 1), datetime.datetime(2024, 1, 1)) for o in OPERATORS]))


def build_workbook(path):
    wb = Workbook()
    ws = wb.active
    ws.title = 'Cmp'
    rows = [
        (1, 2), (2, 1), (1, 1), (1.5, 1.5), (0.1, 0.3), (-1, -1.5), (2 ** 53, 2 ** 53 + 1), (1, 1.0), (0, None),
        (None, None), (None, 0.5), (None, -3), (None, ''), (None, 'a'), ('', None), ('a', 'b'), ('b', 'a'),
        ('a', 'A'), ('10', '9'), ('10', 9), (10, '9'), ('abc', 1), (True, 1), (False, None), (True, False),
        (datetime.date(2024, 1, 1), datetime.datetime(2024, 1, 1)), (datetime.date(2024, 1, 1), datetime.datetime(2024, 1, 1, 0, 0, 1)),
        (datetime.datetime(2024, 1, 2), datetime.date(2024, 1, 1)), (None, datetime.date(2024, 1, 1)),
        (datetime.date(2024, 1, 1), None), (datetime.date(2024, 1, 1), 'a'), (datetime.date(2024, 1, 1), 45292),
        ('2024-01-01', datetime.date(2024, 1, 1)), (1e308, 1e308), (0.1 + 0.2, 0.3),
    ]
    excel_operators = ['=', '<>', '<', '>', '<=', '>=']
    for index, (a, b) in enumerate(rows, start=1):
        ws.append([a, b] + [f'=A{index}{op}B{index}' for op in excel_operators]
                  + [f'=IF(A{index}{op}B{index};"y";"n")' for op in ('<', '=')]
                  + [f'=(A{index}>B{index})=(B{index}<A{index})'])
    ws.append(['=1<2', '=2<1', '="a"="a"', '="a"<>"a"', '=1.5>=1.5', '=1.5<=1.4', '=TRUE=TRUE', '=1=TRUE',
               '="1"=1', '=DATE(2024;1;1)=DATE(2024;1;1)', '=DATE(2024;1;1)<DATE(2024;1;2)', '=1+1=2', '=(1<2)=(3<4)'])
    wb.save(path)
    return len(rows)


def main():
    tmp = tempfile.mkdtemp(prefix='e2p_demo_r3_')
    out = []
    try:
        xlsx = os.path.join(tmp, 'cmp.xlsx')
        py = os.path.join(tmp, 'cmp.py')
        row_count = build_workbook(xlsx)
        text = Parser().set_excel_file_path(xlsx).write_translation(py).get_translation()
        # cell functions only: the runtime part of the text is allowed to change shape
        functions = text[text.index('    def _0_0_0(self):'):]
        out.append(f'cell functions sha {hashlib.sha256(functions.encode("utf-8")).hexdigest()}')

        executor = Executor().set_executed_class(class_file=py)
        generated = executor.get_executed_class()

        run_cross_product('class', Direct(), out)
        run_cross_product('template', generated, out)

        for row in range(row_count + 1):
            values = [executor.get_cell(Cell(0, column, row)).value for column in range(2, 11 if row < row_count else 13)]
            if row == row_count:
                values = [executor.get_cell(Cell(0, column, row)).value for column in range(0, 13)]
            out.append(f'sheet row {row + 1}: ' + ' '.join(f'{type(v).__name__}:{v!r}' for v in values))

        # overriding the operands at run time
        overrides = [(3, 4), (4, 3), ('x', 'X'), (None, 0), (datetime.date(2020, 5, 5), datetime.datetime(2020, 5, 5)),
                     (1.25, '1.25'), ('', 0)]
        for a, b in overrides:
            executor.set_cells([Cell(0, 0, 0, value=a), Cell(0, 1, 0, value=b)])
            values = [executor.get_cell(Cell(0, column, 0)).value for column in range(2, 11)]
            out.append(f'override {a!r},{b!r}: ' + ' '.join(repr(v) for v in values))
    finally:
        shutil.rmtree(tmp, ignore_errors=True)

    text = '\n'.join(out)
    print(text)
    print('DIGEST', hashlib.sha256(text.encode('utf-8')).hexdigest())


if __name__ == '__main__':
    main()
