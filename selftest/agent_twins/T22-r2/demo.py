"""Equivalence demo for r2: runtime set_arguments / _cell_preprocessor (override lookup, C04).

Exercises both copies of the runtime class: the AbstractExcelInPython class (subclassed by
hand) and the ExcelInPython class generated from the template for a real workbook.
"""
import warnings
warnings.simplefilter('ignore')

import datetime
import hashlib
import os
import random
import shutil
import tempfile

from openpyxl import Workbook

from excel2pycl import Parser, Executor, Cell, load_module
from excel2pycl.src.utilities.abstract_excel_in_python_class import AbstractExcelInPython

LINES = []


def out(*parts):
    line = ' '.join(str(p) for p in parts)
    LINES.append(line)
    print(line)


def show(value):
    if isinstance(value, datetime.datetime):
        return 'dt:' + value.isoformat()
    return f'{type(value).__name__}:{value!r}'


def call(fn, *args):
    try:
        return show(fn(*args))
    except Exception as exc:  # noqa
        return f'EXC:{type(exc).__name__}:{exc}'


class Hand(AbstractExcelInPython):
    """A hand-written stand-in for a translated workbook (class copy of the runtime)."""

    def _0_0_0(self):
        return 5

    def _0_1_0(self):
        return self._cell_preprocessor('_0_0_0') * 2

    def _0_2_0(self):
        return self._cell_preprocessor('_0_1_0') + self._cell_preprocessor('_0_9_9')

    def _0_3_0(self):
        return 1 / self._cell_preprocessor('_0_0_1')

    def _0_4_0(self):
        return self._sum(self._only_numeric_list(self._flatten_list(
            [[self._cell_preprocessor('_0_0_0'), self._cell_preprocessor('_0_1_0')],
             [self._cell_preprocessor('_0_2_0'), self._cell_preprocessor('_0_3_0_0')]])))

    def _0_3_0_0(self):
        return self._cell_preprocessor('_0_3_0')

    _0_5_0 = None          # a falsy class attribute is "no method"
    _0_6_0 = staticmethod(lambda self: 'static')


UIDS = ['_0_0_0', '_0_1_0', '_0_2_0', '_0_3_0', '_0_4_0', '_0_3_0_0', '_0_5_0', '_0_6_0', '_0_0_1', '_0_9_9',
        '_7_7_7', '', 'set_arguments', '_arguments', '_titles']


def probe(instance, label):
    out(label, 'args', [(k, show(v)) for k, v in instance._arguments.items()])
    for uid in UIDS:
        out(label, uid, call(instance._cell_preprocessor, uid), call(instance.exec_function_in, uid))


def drive(make, label):
    inst = make()
    probe(inst, label + '.0')
    histories = [
        [{'uid': '_0_0_0', 'value': 7}],
        [{'uid': '_0_0_1', 'value': 4}, {'uid': '_0_9_9', 'value': 0.5}],
        [{'uid': '_0_0_0', 'value': 1}, {'uid': '_0_0_0', 'value': 2}, {'uid': '_0_0_0', 'value': 3}],
        [{'uid': '_0_3_0', 'value': 0}],                  # falsy override still wins over the formula
        [{'uid': '_0_1_0', 'value': None}],
        [{'uid': '_0_1_0', 'value': ''}, {'uid': '_0_2_0', 'value': False}],
        [{'uid': '_0_3_0_0', 'value': 100}],              # even a sub-cell can be overridden
        [{'uid': '_7_7_7', 'value': 'beyond'}, {'uid': '_0_5_0', 'value': 'x'}, {'uid': '_0_6_0', 'value': [1, 2]}],
        [],
        [{'uid': '_0_0_0', 'value': 9, 'title': 0, 'column': 0, 'row': 0}],
        ({'uid': f'_0_0_{n}', 'value': n} for n in range(3)),
    ]
    for n, history in enumerate(histories):
        out(label, 'set', n, call(inst.set_arguments, history))
        probe(inst, f'{label}.{n + 1}')

    # failing writes leave the previous overrides untouched
    bad = [
        [{'uid': '_0_0_0', 'value': 'kept?'}, {'uid': '_0_1_0'}],
        [{'uid': '_0_0_0', 'value': 'kept?'}, {'value': 1}],
        [{'uid': ['unhashable'], 'value': 1}],
        [{'uid': '_0_0_0', 'value': 'kept?'}, 5],
        None,
        7,
        'ab',
    ]
    for n, history in enumerate(bad):
        before = inst._arguments
        out(label, 'bad', n, call(inst.set_arguments, history).split(':')[1],
            'args', [(k, show(v)) for k, v in inst._arguments.items()], 'untouched', inst._arguments is before)

    # instance attributes shadow class attributes (also falsy ones)
    inst2 = make()
    inst2.__dict__['_0_0_0'] = lambda self: 'instance'
    inst2.__dict__['_0_1_0'] = None
    inst2.__dict__['_0_2_0'] = 0
    inst2.__dict__['_5_5_5'] = lambda self: self._cell_preprocessor('_0_0_0') + '!'
    probe(inst2, label + '.shadow')
    out(label, 'set', call(inst2.set_arguments, [{'uid': '_0_0_0', 'value': 'arg'}, {'uid': '_0_1_0', 'value': 1}]))
    probe(inst2, label + '.shadow2')
    for uid in ('_5_5_5',):
        out(label, uid, call(inst2._cell_preprocessor, uid))

    # constructor arguments
    inst3 = make([{'uid': '_0_0_0', 'value': 50}, {'uid': '_0_0_1', 'value': 2}, {'uid': '_0_0_0', 'value': 60}])
    probe(inst3, label + '.ctor')
    out(label, 'ctor-bad', call(make, [{'uid': 'x'}]).split(':')[1], call(make, 5).split(':')[1])

    # rebinding or not, earlier snapshots of the argument items stay what they were
    inst4 = make()
    inst4.set_arguments([{'uid': 'a', 'value': 1}])
    snapshot = list(inst4._arguments.items())
    inst4.set_arguments([{'uid': 'b', 'value': 2}, {'uid': 'a', 'value': 3}])
    out(label, 'snapshot', snapshot, list(inst4._arguments.items()))

    # random histories, last write wins
    rnd = random.Random(4)
    values = [0, 1, -2.5, '', None, 'x', True, False, [], [3]]
    for n in range(30):
        inst5 = make()
        expected = {}
        for _ in range(rnd.randint(1, 6)):
            batch = [{'uid': rnd.choice(UIDS[:10]), 'value': rnd.choice(values)} for _ in range(rnd.randint(0, 5))]
            inst5.set_arguments(batch)
            for item in batch:
                expected[item['uid']] = item['value']
        out(label, 'rnd', n, list(inst5._arguments.items()) == list(expected.items()),
            [call(inst5._cell_preprocessor, uid) for uid in UIDS[:10]])


def build_workbook(path):
    wb = Workbook()
    ws = wb.active
    ws.title = 'S'
    ws.append([5, '=A1*2', '=B1+J10', '=1/A2', '=SUM(A1:C1, D1)', None, 'static'])
    ws.append([None, '=IFERROR(D1, "err")', '=COUNT(A1:D1)', '=AVERAGE(A1:C1)'])
    wb.save(path)
    wb.close()


def main():
    tmp = tempfile.mkdtemp(prefix='r2demo')
    try:
        drive(lambda *a: Hand(*a), 'hand')

        xlsx = os.path.join(tmp, 'book.xlsx')
        out_py = os.path.join(tmp, 'book.py')
        build_workbook(xlsx)
        text = Parser().set_excel_file_path(xlsx).get_translation()
        functions = text[text.rindex("return '#VALUE!'"):]
        out('functions', hashlib.sha256(functions.encode()).hexdigest(), len(functions))
        with open(out_py, 'w', encoding='utf-8') as f:
            f.write(text)
        generated = load_module(out_py).ExcelInPython
        drive(lambda *a: generated(*a), 'gen')

        # through the facade: override, recalculate, override again
        ex = Executor().set_executed_class(class_file=out_py)
        def row(label):
            out(label, [call(lambda c=c, r=r: ex.get_cell(Cell(0, c, r)).value) for r in range(2) for c in range(7)])
        row('facade.0')
        ex.set_cells([Cell('S', 'A', '2', value=4)]); row('facade.1')
        ex.set_cells([Cell('S', 'D', '1', value=0), Cell('S', 'J', '10', value=1.5)]); row('facade.2')
        ex.set_cells([Cell('S', 'A', '1', value=1), Cell('S', 'A', '1', value=-1)]); row('facade.3')
        ex.set_cells([Cell('S', 'A', '1', value=None)]); row('facade.4')
        ex.set_cells([Cell('S', 'B', '1', value='text')]); row('facade.5')

        out('DIGEST', hashlib.sha256('\n'.join(LINES).encode()).hexdigest())
    finally:
        shutil.rmtree(tmp, ignore_errors=True)


if __name__ == '__main__':
    main()
