"""Equivalence demo for r3 (the shared range/criterion pairing helper of _sumifs / _countifs / _averageifs).

Calls the three runtime helpers directly on BOTH copies of the runtime class (AbstractExcelInPython and the
ExcelInPython class generated from the template in context.py) with a large grid of target ranges and
(range, criterion) lists - empty cells, booleans, None, texts, dates, ranges of different sizes, a missing
last criterion, criteria that raise, no pairs at all - recording results, exception classes/messages and the exact
sequence of criterion calls.  Then runs conditional aggregates end to end through Parser and Executor,
including cell overrides.  Everything is folded into the printed digest.
"""
import datetime
import hashlib
import itertools
import os
import shutil
import tempfile
import warnings

warnings.filterwarnings('ignore')

from openpyxl import Workbook

from excel2pycl import Parser, Executor, Cell
from excel2pycl.src.object_loader import load_module
from excel2pycl.src.utilities.abstract_excel_in_python_class import AbstractExcelInPython

ALL = hashlib.sha256()


def out(*parts):
    line = ' | '.join(str(p) for p in parts)
    ALL.update(line.encode('utf-8') + b'\n')
    print(line)


def show(value):
    if isinstance(value, list):
        return '[' + ', '.join(show(v) for v in value) + ']'
    return f'{type(value).__name__}:{value!r}'


def describe_exception(e):
    return f'{type(e).__name__}: {e.args!r}'


class Direct(AbstractExcelInPython):
    pass


tmp_dir = tempfile.mkdtemp(prefix='t29_r3_')
try:
    # ---------------------------------------------------------------- the generated copy of the runtime class
    workbook = Workbook()
    workbook.active.title = 'Sheet1'
    workbook.active['A1'] = 1
    seed_xlsx = os.path.join(tmp_dir, 'seed.xlsx')
    workbook.save(seed_xlsx)
    seed_py = os.path.join(tmp_dir, 'seed.py')
    Parser().set_excel_file_path(seed_xlsx).write_translation(seed_py)
    Generated = load_module(seed_py).ExcelInPython

    RUNTIMES = [('class', Direct()), ('template', Generated())]

    def make_values(runtime):
        empty = runtime.EmptyCell()
        d1, d2 = datetime.datetime(2024, 1, 1), datetime.datetime(2024, 6, 1)
        targets = {
            'ints_col': [[1], [2], [3], [4]],
            'ints_row': [[1, 2, 3, 4]],
            'ints_2x2': [[1, 2], [3, 4]],
            'floats': [[1.5], [2.5], [-3.0], [0.0]],
            'with_empty': [[1], [empty], [3], [empty]],
            'with_bool': [[True], [2], [False], [4]],
            'with_none': [[1], [None], [3], [None]],
            'with_text': [[1], ['x'], [3], ['4']],
            'all_text': [['a'], ['b'], ['c'], ['d']],
            'all_empty': [[empty], [empty], [empty], [empty]],
            'dates': [[d1], [d2], [d1], [d2]],
            'digits_text': [['1'], ['2'], ['3'], ['4']],
            'flat': [1, 2, 3, 4],
            'three': [[1], [2], [3]],
            'five': [[1], [2], [3], [4], [5]],
            'one': [[7]],
            'none_list': [],
            'nested_empty': [[]],
        }
        ranges = {
            'nums': [[1], [2], [3], [4]],
            'nums_row': [[1, 2, 3, 4]],
            'nums_2x2': [[1, 2], [3, 4]],
            'texts': [['a'], ['B'], ['ab'], ['b']],
            'mixed': [[1], ['a'], [empty], [True]],
            'bools': [[True], [False], [True], [False]],
            'empties': [[empty], [empty], [1], [0]],
            'nones': [[None], [1], [None], [2]],
            'dates': [[d1], [d2], [d2], [d1]],
            'three': [[1], [2], [3]],
            'five': [[1], [2], [3], [4], [5]],
            'one': [[3]],
            'zero': [],
            'flat': [4, 3, 2, 1],
            'deep': [[[1], [2]], [[3, [4]]]],
        }
        return targets, ranges

    def make_criteria(runtime, log):
        def traced(name, function):
            def criterion(x):
                log.append(f'{name}({show(x)})')
                return function(x)
            return criterion

        def raising(x):
            raise KeyError('criterion failed on ' + show(x))

        return {
            'gt2': traced('gt2', lambda x: x > 2),
            'eq_zero': traced('eq_zero', lambda x: x == 0),
            'eq_one': traced('eq_one', lambda x: x == 1),
            'is_b': traced('is_b', lambda x: str(x).lower() == 'b'),
            'truthy': traced('truthy', lambda x: x),
            'never': traced('never', lambda x: False),
            'always': traced('always', lambda x: 1),
            'returns_none': traced('returns_none', lambda x: None),
            'is_int': traced('is_int', lambda x: type(x) is int),
            'is_bool': traced('is_bool', lambda x: isinstance(x, bool)),
            'is_empty': traced('is_empty', lambda x: isinstance(x, runtime.EmptyCell)),
            'pattern': traced('pattern', lambda x: __import__('re').fullmatch(runtime._regexp('?'), str(x))),
            'generated_like': traced('generated_like', lambda x: runtime._parse_date_obj(x) > runtime._parse_date_obj(2)
                                     if runtime._parse_date_obj(2) else str(x).lower() > str(2).lower()
                                     if isinstance(2, str) else x > 2),
            'raises': traced('raises', raising),
        }

    def call(runtime, function_name, *args):
        try:
            return 'OK ' + show(getattr(runtime, function_name)(*args))
        except Exception as e:  # noqa
            return 'EXC ' + describe_exception(e)

    print('== A. direct calls, both copies')
    PAIR_LISTS = [
        (), (('nums', 'gt2'),), (('nums', 'always'),), (('nums', 'never'),), (('nums', 'returns_none'),),
        (('nums_row', 'gt2'),), (('nums_2x2', 'gt2'),), (('flat', 'gt2'),), (('deep', 'gt2'),),
        (('texts', 'is_b'),), (('texts', 'gt2'),), (('texts', 'pattern'),), (('mixed', 'truthy'),), (('mixed', 'is_int'),),
        (('mixed', 'eq_zero'),), (('mixed', 'is_bool'),), (('mixed', 'is_empty'),), (('bools', 'is_bool'),),
        (('bools', 'eq_one'),), (('bools', 'truthy'),), (('empties', 'eq_zero'),), (('empties', 'is_empty'),),
        (('nones', 'truthy'),), (('nones', 'gt2'),), (('dates', 'generated_like'),), (('nums', 'generated_like'),),
        (('nums', 'raises'),), (('three', 'gt2'),), (('five', 'gt2'),), (('one', 'gt2'),), (('zero', 'gt2'),),
        (('nums', 'gt2'), ('texts', 'is_b')), (('nums', 'gt2'), ('nums', 'never')), (('nums', 'never'), ('texts', 'gt2')),
        (('nums', 'gt2'), ('three', 'never')), (('three', 'gt2'), ('nums', 'never')), (('nums', 'raises'), ('three', 'gt2')),
        (('nums', 'gt2'), ('texts', 'raises')), (('nums', 'gt2'), ('bools', 'truthy'), ('empties', 'eq_zero')),
        (('nums', 'always'), ('nums_row', 'always'), ('nums_2x2', 'gt2'), ('flat', 'gt2')),
        (('nums', 'gt2'), ('texts', 'is_b'), ('five', 'always')),
    ]
    for copy_name, runtime in RUNTIMES:
        targets, ranges = make_values(runtime)
        for function_name in ('_sumifs', '_averageifs', '_countifs'):
            for target_name, pair_list in itertools.product(targets, PAIR_LISTS):
                log = []
                criteria = make_criteria(runtime, log)
                arguments = []
                for range_name, criterion_name in pair_list:
                    arguments += [[list(row) if isinstance(row, list) else row for row in ranges[range_name]],
                                  criteria[criterion_name]]
                target = [list(row) if isinstance(row, list) else row for row in targets[target_name]]
                snapshot = show(target)
                if function_name == '_countifs':
                    for count_condition in ('always', 'gt2', 'raises'):
                        result = call(runtime, function_name, target, criteria[count_condition], *arguments)
                        out('A', copy_name, function_name, target_name, count_condition, pair_list, result,
                            'calls=' + hashlib.sha1(';'.join(log).encode()).hexdigest()[:10], len(log),
                            'target_untouched=' + str(show(target) == snapshot))
                        del log[:]
                else:
                    result = call(runtime, function_name, target, *arguments)
                    out('A', copy_name, function_name, target_name, pair_list, result,
                        'calls=' + hashlib.sha1(';'.join(log).encode()).hexdigest()[:10], len(log),
                        'target_untouched=' + str(show(target) == snapshot))

    print('== B. malformed argument lists, both copies')
    for copy_name, runtime in RUNTIMES:
        targets, ranges = make_values(runtime)
        log = []
        criteria = make_criteria(runtime, log)
        gt2, never = criteria['gt2'], criteria['never']
        nums, three = ranges['nums'], ranges['three']
        cases = [
            ('missing last criterion', (nums,)),
            ('missing last criterion after a pair', (nums, gt2, nums)),
            ('missing criterion, wrong size', (nums, gt2, three)),
            ('criterion first', (gt2, nums)),
            ('range is a number', (5, gt2)),
            ('range is a text', ('abcd', gt2)),
            ('range is None', (None, gt2)),
            ('criterion is not callable', (nums, 5)),
            ('criterion is a list', (nums, nums)),
            ('second range is a number', (nums, never, 5, gt2)),
            ('wrong size then a number', (three, never, 5, gt2)),
            ('tuple range', ((1, 2, 3, 4), gt2)),
        ]
        for label, arguments in cases:
            for function_name in ('_sumifs', '_averageifs'):
                del log[:]
                out('B', copy_name, function_name, label, call(runtime, function_name, [[1], [2], [3], [4]], *arguments), log)
            del log[:]
            out('B', copy_name, '_countifs', label,
                call(runtime, '_countifs', [[1], [2], [3], [4]], criteria['always'], *arguments), log)
        for function_name in ('_sumifs', '_averageifs'):
            out('B', copy_name, function_name, 'target is a number', call(runtime, function_name, 5, nums, gt2))
            out('B', copy_name, function_name, 'target is a text', call(runtime, function_name, 'abcd', nums, gt2))
            out('B', copy_name, function_name, 'no arguments', call(runtime, function_name))
        out('B', copy_name, '_countifs', 'no condition', call(runtime, '_countifs', nums))
        out('B', copy_name, '_when_cell_is_empty_cast_to_zero',
            show(runtime._when_cell_is_empty_cast_to_zero([runtime.EmptyCell(), 0, '', None, True, 'a'])))

    print('== C. end to end')
    workbook = Workbook()
    sheet = workbook.active
    sheet.title = 'Sheet1'
    rows = [
        (1, 'a', 10, True, datetime.datetime(2024, 1, 1)),
        (2, 'ab', 20, False, datetime.datetime(2024, 2, 1)),
        (3, 'B', None, True, datetime.datetime(2024, 3, 1)),
        (4, 'abc', 40, None, None),
        (5, None, 50, True, datetime.datetime(2024, 5, 1)),
        (6, 'b', 60, False, '2024-06-01'),
        (None, '?', 70, 1, 0),
        (8, 'a*', '80', 0, ''),
    ]
    for row in rows:
        sheet.append(row)
    FORMULAS = [
        '=SUMIFS(C1:C8,A1:A8,">2")', '=SUMIFS(C1:C8,A1:A8,">=2",A1:A8,"<=5")', '=SUMIFS(C1:C8,A1:A8,"<>3")',
        '=SUMIFS(C1:C8,A1:A8,3)', '=SUMIFS(C1:C8,A1:A8,0)', '=SUMIFS(C1:C8,B1:B8,"b")', '=SUMIFS(C1:C8,B1:B8,"B")',
        '=SUMIFS(C1:C8,B1:B8,"a*")', '=SUMIFS(C1:C8,B1:B8,"a~*")', '=SUMIFS(C1:C8,B1:B8,"?")', '=SUMIFS(C1:C8,B1:B8,"~?")',
        '=SUMIFS(C1:C8,B1:B8,"??")', '=SUMIFS(C1:C8,B1:B8,"*b*")', '=SUMIFS(C1:C8,B1:B8,"*")', '=SUMIFS(C1:C8,D1:D8,TRUE)',
        '=SUMIFS(C1:C8,D1:D8,1)', '=SUMIFS(C1:C8,D1:D8,0)', '=SUMIFS(C1:C8,A1:A8,">"&A2)', '=SUMIFS(C1:C8,A1:A8,A3)',
        '=SUMIFS(C1:C8,A1:A8,">2",B1:B8,"a*")', '=SUMIFS(C1:C8,A1:A8,">2",B1:B8,"b",D1:D8,0)', '=SUMIFS(A1:A8,C1:C8,">30")',
        '=SUMIFS(D1:D8,A1:A8,">0")', '=SUMIFS(C1:C8,E1:E8,">"&E2)', '=SUMIFS(C1:C8,E1:E8,E3)', '=SUMIFS(A1:B4,C1:D4,">15")',
        '=SUMIFS(C1:C8,A1:A7,">2")', '=SUMIFS(C1:C8,A1:A8,">2",B1:B7,"b")', '=SUMIFS(C1:C7,A1:A8,">2")',
        '=SUMIFS(A1:D1,A2:D2,">0")', '=SUMIFS(A1:D1,A1:A4,">0")', '=SUMIFS(C1:C8,A1:A8,">2")+SUMIFS(C1:C8,A1:A8,"<=2")',
        '=COUNTIFS(A1:A8,">2")', '=COUNTIFS(A1:A8,">2",B1:B8,"a*")', '=COUNTIFS(B1:B8,"b")', '=COUNTIFS(B1:B8,"*")',
        '=COUNTIFS(B1:B8,"?",A1:A8,">0")', '=COUNTIFS(A1:A8,0)', '=COUNTIFS(C1:C8,"<>")', '=COUNTIFS(D1:D8,TRUE)',
        '=COUNTIFS(D1:D8,1,A1:A8,"<8")', '=COUNTIFS(A1:A8,">2",B1:B7,"b")', '=COUNTIFS(A1:A8,">2",B1:B8,"b",C1:C9,">0")',
        '=COUNTIFS(A1:B4,">1")', '=COUNTIFS(A1:B4,">1",C1:D4,">10")', '=COUNTIFS(E1:E8,">"&E1)', '=COUNTIFS(A1:A8,A3)',
        '=AVERAGEIFS(C1:C8,A1:A8,">2")', '=AVERAGEIFS(A1:A8,A1:A8,">2")', '=AVERAGEIFS(A1:A6,B1:B6,"a*")',
        '=AVERAGEIFS(A1:A6,B1:B6,"zzz")', '=AVERAGEIFS(A1:A6,C1:C6,">10",D1:D6,TRUE)', '=AVERAGEIFS(A1:A6,D1:D6,1)',
        '=AVERAGEIFS(B1:B6,A1:A6,">2")', '=AVERAGEIFS(A1:A6,A1:A5,">2")', '=AVERAGEIFS(A1:A6,A1:A6,">2",B1:B5,"b")',
        '=AVERAGEIFS(D1:D3,A1:A3,">0")', '=AVERAGEIFS(A1:A8,A1:A8,">=0")', '=AVERAGEIFS(A7:A7,A7:A7,0)',
        '=SUMIF(A1:A8,">2")', '=SUMIF(A1:A8,">2",C1:C8)', '=SUMIF(B1:B8,"a*",A1:A8)', '=SUMIF(A1:A8,">2",C1:C3)',
        '=SUMIF(A1:A3,">0",C1:C8)', '=SUMIF(B1:B8,"b",C1)', '=IF(COUNTIFS(A1:A8,">2")>3,SUMIFS(C1:C8,A1:A8,">2"),0)',
    ]
    for index, formula in enumerate(FORMULAS):
        sheet.cell(row=index + 1, column=8, value=formula)
    xlsx = os.path.join(tmp_dir, 'book.xlsx')
    workbook.save(xlsx)

    whole_py = os.path.join(tmp_dir, 'whole.py')
    try:
        code = Parser().set_excel_file_path(xlsx).write_translation(whole_py).get_translation()
        functions = code[code.rindex("return '#VALUE!'"):]
        out('C', 'whole file functions', len(functions), hashlib.sha1(functions.encode()).hexdigest())
    except Exception as e:  # noqa
        out('C', 'whole file', 'TRANSLATE ' + describe_exception(e))
        whole_py = None

    OVERRIDES = [
        [],
        [Cell(0, 0, 0, value=100), Cell(0, 1, 1, value='b')],
        [Cell(0, 2, 3, value=None), Cell(0, 0, 2, value=None)],
        [Cell(0, 2, 0, value=True), Cell(0, 2, 1, value='x'), Cell(0, 0, 6, value=7)],
        [Cell('Sheet1', 'A', '9', value=9), Cell('Sheet1', 'C', '9', value=90)],
    ]
    for override_number, override in enumerate(OVERRIDES):
        for index, formula in enumerate(FORMULAS):
            if whole_py is None:
                break
            try:
                executor = Executor().set_executed_class(class_file=whole_py)
                if override:
                    executor.set_cells([Cell(c.title, c.column, c.row, value=c.value) for c in override])
                value = executor.get_cell(Cell(0, 7, index)).value
                result = show(value)
            except Exception as e:  # noqa
                result = 'EXEC ' + describe_exception(e)
            out('C', override_number, repr(formula), result)
finally:
    shutil.rmtree(tmp_dir, ignore_errors=True)

print('DIGEST', ALL.hexdigest())
