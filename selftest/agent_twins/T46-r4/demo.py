"""Equivalence demo for r4 (CellTranslator._set_cell_to_context early return / if-chain, Lexer.parse hoisted
lstrip + continue, RegexpBaseToken.get early return with named steps).

Lexes a large battery of strings, calls .get of every regexp token class directly, translates cells of every
stored type (constants, blanks, formulas, dependency chains, circular references) through CellTranslator and the
Parser facade, loads the result both from the written file and as a class object, and measures the dependency
chain length at which the recursive translation overflows (must not move).
"""
import datetime
import hashlib
import os
import shutil
import sys
import tempfile

from openpyxl import Workbook

from excel2pycl import Parser, Executor, Cell
from excel2pycl.src.context import Context
from excel2pycl.src.excel import Excel
from excel2pycl.src.lexer import Lexer
from excel2pycl.src.tokens import RegexpBaseToken
from excel2pycl.src.translators import CellTranslator


def sha(text: str) -> str:
    return hashlib.sha256(text.encode('utf-8')).hexdigest()[:16]


def show(value):
    return f'{type(value).__name__}:{value!r}'


LEX_INPUTS = [
    '', ' ', '\t\n', '=', ' = ', '=1', '= 1', '=1 ', '  =  1  +  2  ', '=\t1\n+\r\n2', '= 1', '=1 2', '=1\x0b2',
    '=A1', '=a1', '=$A$1', '=A$1', '=$A1', '=AA10', '=A1:B2', '=A1:A2', '=A:A', '=A:C', '=$A:$C', '=A1:B', '=1:1',
    '=Sheet1!A1', '=Sheet1!A1:B2', "='My sheet'!A1", "='It''s'!A1", "='a!b'!A1", '=Лист1!A1', "='Лист 1'!A1:A3",
    '=1.5', '=1.', '=.5', '=1e5', '=1E5', '=1e-5', '=1.5e+5', '=007', '=1,5', '=1;5', '=12345678901234567890',
    '="a"', '=""', '="a""b"', '="a b"', '="a?b"', '="a*b"', '="a~?b"', '="a~*"', '="~"', '="*"', '="?"', '="a', '=a"',
    '=TRUE', '=FALSE', '=TRUE()', '=FALSE()', '=true', '=TRUEX', '=TRUE1',
    '=1+2', '=1-2', '=1*2', '=1/2', '=1^2', '=1&2', '=1%', '=1=2', '=1<>2', '=1<=2', '=1>=2', '=1<2', '=1>2', '=1><2',
    '=(1)', '=((1)', '=)(', '=1~2',
    '=IF(1,2,3)', '=IFS(1,2)', '=IFERROR(1,2)', '=IFX(1)', '=SUM(1)', '=SUMIF(A1:A2,1)', '=SUMIFS(A1:A2,B1:B2,1)',
    '=SUMX', '=COUNT(1)', '=COUNTBLANK(A1)', '=COUNTIFS(A1:A2,1)', '=ROUND(1,2)', '=ROUNDUP(1,2)', '=ROUNDDOWN(1,2)',
    '=DATE(1,2,3)', '=DATEDIF(A1,B1,"D")', '=DAY(A1)', '=EDATE(A1,1)', '=EOMONTH(A1,1)', '=MATCH(1,A1:A2)',
    '=XMATCH(1,A1:A2)', '=MAX(1)', '=MIN(1)', '=MID("a",1,1)', '=MONTH(A1)', '=YEAR(A1)', '=TODAY()', '=LEFT("a")',
    '=RIGHT("a")', '=SEARCH("a","b")', '=ADDRESS(1,1)', '=NETWORKDAYS(A1,B1)', '=COLUMN()', '=INDEX(A1:B2,1,1)',
    '=VALUE("1")', '=TEXT(1,"0")', '=CONCATENATE("a")', '=AVERAGE(1)', '=AVERAGEIFS(A1:A2,B1:B2,1)', '=AND(1)',
    '=OR(1)', '=VLOOKUP(1,A1:B2,1)',
    '=sum(1)', '=Sum(1)', '=FOO(1)', '=_x', '=x', '=#REF!', '=#N/A', '=@A1', '={1}', '=[1]', '=A1#', '=1 \\ 2', "='",
    '="', '=!', '=?', '=*', '=é', '=1+é', 'no equals', '1+2', '==', '=+-+1',
]

TOKEN_INPUTS = [
    '', ' ', '1', '12rest', '1.5)', '1e3,', '"a"&', '"a?c")', 'TRUE', 'TRUE()', 'FALSE,1', 'A1', 'A1+1', 'A1:B2)',
    'A1:A5,', 'A:A)', 'A1:B', "'s s'!A1+", 'S!A1:B2', '(', ')', '(1)', ' ', '  x', ',1', ';1', '~1', '+1', '-1',
    '*1', '/1', '&1', '%', '%+1', '=1', '<>1', '<=1', '>=1', '<1', '>1', 'IF(', 'IFS(', 'IFERROR(', 'SUM(', 'SUMIF(',
    'SUMIFS(', 'ROUND(', 'ROUNDUP(', 'COUNT(', 'COUNTBLANK(', 'COUNTIFS(', 'DATE(', 'DATEDIF(', 'DAY(', 'TODAY()',
    'MATCH(', 'XMATCH(', 'LEFT(', 'x', 'é', '\n1', '1\n2', 'A1\nB1',
]


def lex(text):
    cell = Cell(0, 0, 0)
    cell._handled_identifiers = True
    try:
        tokens = Lexer.parse(text, cell)
    except Exception as e:
        return f'!{type(e).__name__}: {str(e)[:160]}'
    return ' '.join(f'{type(t).__name__}{t.value!r}' for t in tokens) + f' (same in_cell: {all(t.in_cell is cell for t in tokens)})'


def direct_token_gets():
    cell = Cell(0, 0, 0)
    classes = RegexpBaseToken.subclasses()
    print(' classes', [c.__name__ for c in classes])
    for text in TOKEN_INPUTS:
        outcomes = []
        for token_class in classes:
            try:
                token, rest = token_class.get(text, cell)
            except Exception as e:
                outcomes.append(f'{token_class.__name__}:!{type(e).__name__}')
                continue
            if token is None:
                if rest is not text:
                    outcomes.append(f'{token_class.__name__}:None but rest changed')
                continue
            outcomes.append(f'{token_class.__name__}:{token.value!r}|{rest!r}')
        print(f' {text!r} -> {outcomes}')


def make_excel(rows, titles=('S',)):
    """An Excel reader object made by hand: a list of sheets, each a list of rows."""
    return Excel({'data': rows, 'titles': list(titles), 'suspicious_cells': {},
                  'sheets_size': [{'last_column': max(map(len, sheet), default=0), 'last_row': len(sheet)}
                                  for sheet in rows]})


def translate_cells():
    values = [None, 0, 1, -1, 2 ** 70, 0.0, -0.0, 1.5, 1e300, float('inf'), True, False, '', ' ', 'text', "it's",
              'a"b', '\\', 'line\nbreak', '= not first', ' =1', "'=1", '=1', '=1+1', '="x"&"y"', '=B1', '=A1',
              datetime.datetime(2020, 1, 2, 3, 4, 5), datetime.date(2020, 1, 2), datetime.time(1, 2),
              datetime.timedelta(days=1, seconds=5), b'bytes', (1, 2), '=', '=)', '=FOO()', '=SUM(', 'ёж', '=Ё1']
    for value in values:
        excel = make_excel([[[value, 5]]])
        context = Context()
        try:
            reference = CellTranslator.translate(Cell(0, 0, 0), excel, context)
            again = CellTranslator.translate(Cell(0, 0, 0), excel, context)
            print(f' {value!r}: ref={reference} again={again == reference} translations={context._cell_translations} '
                  f'sub={context._sub_cell_translations} in_progress={context._cells_in_progress}')
        except Exception as e:
            print(f' {value!r}: !{type(e).__name__}: {str(e)[:200]} translations={context._cell_translations} '
                  f'in_progress={context._cells_in_progress}')
    print(' -- addresses')
    excel = make_excel([[[1, '=A1+1'], ['=B1*2']], [['=S!A2']]], titles=('S', 'T'))
    for cell in [Cell('S', 'A', '1'), Cell('S', 'B', '1'), Cell('T', 'A', '1'), Cell('T', 'Z', '9'), Cell(1, 0, 0),
                 Cell(5, 0, 0), Cell('U', 'A', '1'), Cell('S', 'A', ''), Cell('S', 'A'), Cell(0, -1, 0)]:
        context = Context()
        try:
            print(f'  {cell}: {CellTranslator.translate(cell, excel, context)} {sorted(context._cell_translations.items())}')
        except Exception as e:
            print(f'  {cell}: !{type(e).__name__}: {str(e)[:160]}')
    print(' -- pre-handled cell keeps its own value')
    for value in ('=1+2', 7, None, '=A1'):
        cell = Cell(0, 3, 3, value=value)
        cell._handled_identifiers = True
        context = Context()
        try:
            print(f'  {value!r}: {CellTranslator.translate(cell, excel, context)} {context._cell_translations}')
        except Exception as e:
            print(f'  {value!r}: !{type(e).__name__}: {str(e)[:160]}')
    print(' -- translate_file')
    context = Context()
    result = CellTranslator.translate_file(excel, context)
    print(' ', result, context._cell_translations, context._sub_cell_translations, context._cells_in_progress)
    print(' -- circular')
    for rows in ([[['=A1']]], [[['=B1', '=A1']]], [[['=B1', '=C1', '=A1+1']]], [[['=SUM(A1:A2)'], [1]]],
                 [[['=B1+B1', 2]]], [[['=IF(B1,A2,A2)', 1], ['=B1']]]):
        excel = make_excel(rows)
        context = Context()
        try:
            CellTranslator.translate_file(excel, context)
            print(f'  {rows}: ok {context._cell_translations}')
        except Exception as e:
            print(f'  {rows}: !{type(e).__name__}: {str(e)[:160]} in_progress={context._cells_in_progress}')


def chain_ok(length):
    rows = [[[f'=A{row + 2}+1'] for row in range(length)] + [[1]]]
    excel = make_excel(rows)
    try:
        CellTranslator.translate(Cell(0, 0, 0), excel, Context())
        return True
    except RecursionError:
        return False


def longest_chain():
    low, high = 1, 400
    while low < high:
        middle = (low + high + 1) // 2
        if chain_ok(middle):
            low = middle
        else:
            high = middle - 1
    return low


def workbook_round_trip(tmp):
    wb = Workbook()
    ws = wb.active
    ws.title = 'Data sheet'
    ws.append([1, 2.5, True, 'text', None, datetime.datetime(2021, 2, 3, 4, 5, 6), '', "q'uote", 'dq"uote'])
    ws.append(['=A1+B1', '=IF(C1,"yes","no")', '=D1&"!"', '=SUM(A1:B1)', '=E1', '=YEAR(F1)', '=A2*2', '=Second!A1',
               '=  A1  +  1'])
    ws['C5'] = '=A2+G2'
    second = wb.create_sheet('Second')
    second['A1'] = "='Data sheet'!A1+100"
    second['B4'] = False
    path = os.path.join(tmp, 'book.xlsx')
    out_py = os.path.join(tmp, 'book.py')
    wb.save(path)
    parser = Parser().set_excel_file_path(path)
    parser.write_translation(out_py)
    text = parser.get_translation()
    with open(out_py, encoding='utf-8') as f:
        print(' written == returned:', f.read() == text, 'len', len(text), 'sha', sha(text))
    namespace = {}
    exec(compile(text, '<translation>', 'exec'), namespace)
    from_file = Executor().set_executed_class(class_file=out_py)
    from_class = Executor().set_executed_class(class_object=namespace['ExcelInPython'])
    for name, executor in (('file', from_file), ('class', from_class)):
        print(f' [{name}] titles {executor._titles} sizes {executor._sheets_size}')
        for sheet in executor._titles:
            for row_number, row in enumerate(executor.get_sheet(sheet)):
                print(f'  [{name}] {sheet!r} r{row_number}', [show(c.value) for c in row])
    from_file.set_cells([Cell('Data sheet', 'A', '1', value=10), Cell('Second', 'D', '6', value='new')])
    print(' after set_cells', [show(from_file.get_cell(Cell('Data sheet', column, '2')).value) for column in 'ABCDEFGHI'],
          show(from_file.get_cell(Cell('Second', 'A', '1')).value), show(from_file.get_cell(Cell('Second', 'D', '6')).value),
          from_file._sheets_size)
    members = sorted(line.strip() for line in text.splitlines() if line.startswith('    def _') and line[9:10].isdigit())
    print(' members', members)
    entry = Parser().set_excel_file_path(path).set_entrypoint_cell(Cell('Data sheet', 'C', '5'))
    entry_text = entry.get_translation()
    print(' entrypoint members', sorted(line.strip() for line in entry_text.splitlines()
                                        if line.startswith('    def _') and line[9:10].isdigit()))
    for bad in ('=1+', '=FOO(1)', '=IF(1,2', '=A1 A1', '=  A1  +  1  ', '=1 ', '= '):
        ws['A9'] = bad
        wb.save(path)
        try:
            Parser().set_excel_file_path(path).get_translation()
            print(f' {bad!r}: translated')
        except Exception as e:
            print(f' {bad!r}: !{type(e).__name__}: {str(e)[:200]}')


def main():
    print('== lexer')
    for text in LEX_INPUTS:
        print(f' {text!r}: {lex(text)}')
    print('== regexp token classes')
    direct_token_gets()
    print('== cell translator')
    translate_cells()
    print('== dependency chains')
    for length in (1, 5, 20, 50):
        print(' ', length, chain_ok(length))
    print(' longest chain without RecursionError:', longest_chain())
    print('== workbook round trip')
    tmp = tempfile.mkdtemp(prefix='t46r4_')
    try:
        workbook_round_trip(tmp)
    finally:
        shutil.rmtree(tmp, ignore_errors=True)
    return 0


if __name__ == '__main__':
    sys.exit(main())
