"""Equivalence demonstration for r2 (ExpressionTokenTranslator: percent / operators / brackets).

Every formula of a long list is translated on its own (entry point = that cell) so that a rejected
formula is recorded with the class of the exception it raises; then the whole workbook is translated,
the full text of the generated class is digested (the runtime template is untouched by this refactoring,
so the text has to be identical) and every formula cell is evaluated, also after overriding inputs.
"""
import hashlib
import os
import shutil
import sys
import tempfile

from openpyxl import Workbook

from excel2pycl import Parser, Executor, Cell

INPUTS = [  # columns A..D of every row
    (50, 8, 'x', 12.5),
    (12.345678901234567, -3, '', 0.07),
    (0.1, 0.2, 'abc', 1e-9),
    (-250, 4, 'tail', 33),
    (1e15, 7, None, None),
    (None, None, 'only text', 3),
    (True, 2, '5', 15),
    (7, 0, 'zero divisor', 1),
    (123456789.123456789, 1e-5, 'q', 100),
    (29, 3, '%', 45.5),
]

TEMPLATES = [
    # percent
    '=A{r}%', '=50%', '=12.5%', '=A{r}%%', '=A{r}%+B{r}', '=A{r}%-B{r}%', '=A{r}%*B{r}%', '=A{r}%/D{r}%',
    '=A{r}*10%', '=A{r}*10%+B{r}*20%', '=10%*(A{r}+B{r})', '=(A{r}+B{r})*10%', '=-A{r}%', '=-(A{r}%)', '=(A{r}%)',
    '=(A{r}%)+1', '=(A{r}%+1)*2', '=A{r}%=B{r}', '=A{r}%>B{r}%', '=A{r}%<>0.5', '=A{r}%&C{r}', '=C{r}&A{r}%',
    '=ROUND(A{r}%,3)', '=ROUNDUP(D{r}%,2)', '=ROUNDDOWN(A{r}%*B{r},1)', '=IF(A{r}%>0.1,A{r}%,B{r}%)',
    '=SUM(A{r}:B{r})%', '=SUM(A{r}%,B{r}%,1%)', '=MAX(A{r}%,B{r})', '=1%+2%+3%', '=0.1%+0.2%', '=33%*3', '=7%^2',
    '=100%-A{r}%', '=(A{r}+B{r})%', '=A{r}%%+1', '=A{r}%+B{r}%+D{r}%', '=2*A{r}%*3', '=1e2%', '=1.5e-3%',
    '=A{r} %', '=A{r}% + B{r}', '=AVERAGE(A{r}%,D{r}%)', '=IFERROR(A{r}%/B{r},"e")', '=MIN(1%,A{r}%)',
    # plain operators, brackets, comparisons, concatenation
    '=A{r}+B{r}', '=A{r}-B{r}*D{r}', '=(A{r}-B{r})*D{r}', '=(A{r}+B{r})*(B{r}+D{r})', '=A{r}/(B{r}+1)', '=-A{r}',
    '=-(A{r}+B{r})', '=+A{r}', '=-A{r}+B{r}', '=-(A{r})*-(B{r})', '=A{r}^2', '=2^B{r}', '=A{r}=B{r}', '=A{r}<>B{r}',
    '=A{r}>=B{r}', '=A{r}<=B{r}', '=A{r}>B{r}', '=A{r}<B{r}', '=(A{r}>B{r})', '=(A{r}+1)>(B{r}-1)', '=A{r}&B{r}',
    '=A{r}&"-"&C{r}', '=C{r}&C{r}&C{r}', '="p"&A{r}%', '=(A{r}&B{r})&C{r}', '=C{r}=""', '=C{r}<>"x"', '=1+2*3',
    '=(1+2)*3', '=((1+2))*3', '=((A{r}))', '=(((A{r}+1)))', '=1+(2*(3+(4*5)))', '=A{r}+B{r}>D{r}', '=TRUE',
    '=FALSE', '="text"', '=1', '=1.5', '=A{r}', '=A{r}:B{r}', '=SUM(A{r}:B{r})+SUM(B{r}:D{r})*2',
    '=IF(A{r}>B{r},A{r}-B{r},B{r}-A{r})', '=IF((A{r}>B{r}),1,2)', '=AND(A{r}>0,B{r}>0)', '=OR(A{r}%>1,B{r}<0)',
    # rejected or odd ones
    '=A{r}%B{r}', '=%A{r}', '=A{r}+', '=*A{r}', '=(A{r}', '=A{r})', '=A{r}++B{r}', '=A{r}+-B{r}', '=A{r}--B{r}',
    '=()', '=A{r}%(', '=A{r}&', '=&A{r}', '=A{r}==B{r}', '=A{r}=>B{r}', '=A{r}><B{r}', '=A{r} B{r}', '=%', '=',
    '=A{r}%%%', '=1 2', '=ROUND(A{r}%)', '=A{r}!', '=A{r}%%B{r}',
]


def build(tmp):
    path = os.path.join(tmp, 'expr.xlsx')
    wb = Workbook()
    ws = wb.active
    ws.title = 'E'
    for index, row in enumerate(INPUTS, start=1):
        for column, value in enumerate(row, start=1):
            ws.cell(row=index, column=column, value=value)
        for offset, template in enumerate(TEMPLATES):
            ws.cell(row=index, column=5 + offset, value=template.format(r=index))
    other = wb.create_sheet('O')
    other['A1'] = '=E!A1%+E!B2%'
    other['A2'] = "='E'!A3%*2"
    other['A3'] = '=(E!A1+E!B1)*E!D1%'
    wb.save(path)
    wb.close()
    return path


def describe(function):
    try:
        value = function()
        return f'{type(value).__name__}:{value!r}'
    except BaseException as error:
        return f'raised {type(error).__name__}: {error}'


def main():
    out = []
    tmp = tempfile.mkdtemp(prefix='t36_r2_')
    try:
        path = build(tmp)
        good = {}
        # 1. every formula of rows 1 and 2 on its own
        for row in (0, 1):
            for offset, template in enumerate(TEMPLATES):
                column = 4 + offset
                parser = Parser().set_excel_file_path(path).disable_safety_check() \
                    .set_entrypoint_cell(Cell(0, column, row))
                try:
                    text = parser.get_translation()
                except BaseException as error:
                    out.append(f'alone r{row + 1} {template} -> raised {type(error).__name__}: {error}')
                    good[offset] = False
                    continue
                try:
                    compile(text, 'generated', 'exec')
                    good.setdefault(offset, True)
                except SyntaxError as error:
                    out.append(f'alone r{row + 1} {template} -> generated text does not compile: {error.text!r}')
                    good[offset] = False
                functions = text[text.rindex("return '#VALUE!'") + len("return '#VALUE!'"):]
                out.append(f'alone r{row + 1} {template} -> {hashlib.sha256(text.encode()).hexdigest()[:16]}')
                out.extend('    ' + line for line in functions.splitlines() if line.strip())
        # 2. a workbook with only the accepted formulas, translated as a whole
        accepted = [offset for offset in range(len(TEMPLATES)) if good.get(offset)]
        out.append(f'accepted {len(accepted)} of {len(TEMPLATES)}')
        path2 = os.path.join(tmp, 'accepted.xlsx')
        wb = Workbook()
        ws = wb.active
        ws.title = 'E'
        for index, row in enumerate(INPUTS, start=1):
            for column, value in enumerate(row, start=1):
                ws.cell(row=index, column=column, value=value)
            for position, offset in enumerate(accepted):
                ws.cell(row=index, column=5 + position, value=TEMPLATES[offset].format(r=index))
        other = wb.create_sheet('O')
        other['A1'] = '=E!A1%+E!B2%'
        other['A2'] = "='E'!A3%*2"
        other['A3'] = '=(E!A1+E!B1)*E!D1%'
        wb.save(path2)
        wb.close()
        out_py = os.path.join(tmp, 'accepted_translated.py')
        text = Parser().set_excel_file_path(path2).write_translation(out_py).get_translation()
        out.append('whole class sha256 ' + hashlib.sha256(text.encode()).hexdigest())
        out.append(f'whole class lines {len(text.splitlines())}')

        def evaluate(executor, label):
            for row in range(len(INPUTS)):
                for position, offset in enumerate(accepted):
                    result = describe(lambda: executor.get_cell(Cell(0, 4 + position, row)).value)
                    out.append(f'{label} r{row + 1} {TEMPLATES[offset]} = {result}')
            for row in range(3):
                out.append(f'{label} O!A{row + 1} = ' + describe(lambda: executor.get_cell(Cell('O', 'A', str(row + 1))).value))

        executor = Executor().set_executed_class(class_file=out_py)
        evaluate(executor, 'sheet')
        executor.set_cells([Cell(0, 0, 0, value=33.333333333333336), Cell(0, 1, 0, value=0), Cell('E', 'A', '2', value='7'),
                            Cell('E', 'D', '3', value=None), Cell(0, 0, 3, value=1e-300), Cell(0, 0, 4, value=-0.0),
                            Cell(0, 1, 5, value=2.5), Cell(0, 0, 5, value=99.99999999999999),
                            Cell(0, 2, 6, value=12), Cell(0, 3, 7, value=0)])
        evaluate(executor, 'override')
    finally:
        shutil.rmtree(tmp, ignore_errors=True)
    blob = '\n'.join(out)
    print('lines', len(out))
    print('sha256', hashlib.sha256(blob.encode()).hexdigest())
    for line in out:
        if line.startswith(('alone', '    ', 'accepted', 'whole')):
            print(line)
    for line in out:
        if line.startswith('sheet r1 ') or line.startswith('override r2 ') or ' O!A' in line:
            print(line)
    return 0


if __name__ == '__main__':
    sys.exit(main())
