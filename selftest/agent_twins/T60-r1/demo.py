"""Equivalence demo for r1: _compare / _by_operator of the runtime (both copies).

Run as: PYTHONPATH=<tree> /venv/bin/python demo.py
Prints every result (values and exception class names) and a digest; the
output must be identical on the unchanged and on the refactored tree.
"""
import datetime
import hashlib
import importlib.util
import itertools
import os
import shutil
import sys
import tempfile

from openpyxl import Workbook

from excel2pycl import Parser, Executor, Cell
from excel2pycl.src.utilities.abstract_excel_in_python_class import AbstractExcelInPython

LINES = []


def out(line):
    LINES.append(line)
    print(line)


def show(value):
    return f'{type(value).__name__}:{value!r}'


def attempt(function, *args):
    try:
        return show(function(*args))
    except BaseException as error:  # noqa - the class name is the observable
        return 'raises ' + type(error).__name__


class Handwritten(AbstractExcelInPython):
    pass


def load_generated(path):
    spec = importlib.util.spec_from_file_location('generated_r1_demo', path)
    module = importlib.util.module_from_spec(spec)
    spec.loader.exec_module(module)
    return module.ExcelInPython


EXCEL_OPERATORS = ['=', '<>', '<', '<=', '>', '>=']

WORKBOOK_PAIRS = [
    (1, 2), (2, 1), (2, 2), (1.5, 1.25), (-1.5, -1.25), (0.1, 0.3), (2, 2.0), (2, 2.5), (-2, -2.5),
    (0, -0.0), (10 ** 15, 10 ** 15 + 1), (1e-9, 0), (-1e-9, 0), (3, 3.0000001),
    ('a', 'b'), ('b', 'a'), ('a', 'a'), ('a', 'A'), ('abc', 'abd'), ('10', '9'), ('10', 9), (10, '9'),
    ('1.5', 1.5), ('x', 1), (1, 'x'), ('', 'a'), ('a', None), (None, 'a'),
    (None, 0), (0, None), (None, 1), (1, None), (None, -1), (-1, None), (None, 0.5), (None, -0.5),
    (None, None), (None, ''), (None, False), (None, True), (False, None), (True, None),
    (True, 1), (True, False), (False, 0),
    (datetime.date(2024, 1, 1), datetime.datetime(2024, 1, 1, 0, 0, 0)),
    (datetime.date(2024, 1, 1), datetime.datetime(2024, 1, 1, 1, 10, 10)),
    (datetime.datetime(2024, 1, 1, 1, 10, 10), datetime.date(2024, 1, 1)),
    (datetime.date(2024, 1, 1), datetime.date(2024, 1, 2)),
    (datetime.date(2024, 1, 2), datetime.date(2024, 1, 1)),
    (datetime.date(2024, 1, 2), datetime.date(2024, 1, 2)),
    (datetime.datetime(2024, 1, 1, 12), datetime.datetime(2024, 1, 1, 13)),
    (None, datetime.date(2024, 1, 1)), (datetime.date(2024, 1, 1), None),
    (None, datetime.datetime(1900, 1, 1, 0, 0, 0)), (datetime.datetime(1900, 1, 1, 0, 0, 0), None),
    (datetime.date(2024, 1, 1), 'abc'), ('abc', datetime.date(2024, 1, 1)),
    (datetime.date(2024, 1, 1), 45292), (45292, datetime.datetime(2024, 1, 1)),
]


def workbook_section(directory):
    workbook = Workbook()
    sheet = workbook.active
    for row, (left, right) in enumerate(WORKBOOK_PAIRS, start=1):
        sheet.cell(row=row, column=1, value=left)
        sheet.cell(row=row, column=2, value=right)
        for offset, operator in enumerate(EXCEL_OPERATORS):
            sheet.cell(row=row, column=3 + offset, value=f'=A{row}{operator}B{row}')
        # literals and nested expressions on either side
        sheet.cell(row=row, column=9, value=f'=A{row}<1.5')
        sheet.cell(row=row, column=10, value=f'="b">=B{row}')
        sheet.cell(row=row, column=11, value=f'=(A{row}=B{row})=(B{row}=A{row})')
        sheet.cell(row=row, column=12, value=f'=IF(A{row}<B{row};"lt";IF(A{row}=B{row};"eq";"gt"))')
    xlsx = os.path.join(directory, 'compare.xlsx')
    workbook.save(xlsx)
    translation = os.path.join(directory, 'compare_translation.py')
    Parser().set_excel_file_path(xlsx).write_translation(translation)

    text = open(translation, encoding='utf-8').read()
    cells_text = text[text.index('    def _0_0_0(self):'):]
    out('generated cell methods sha256 ' + hashlib.sha256(cells_text.encode()).hexdigest())
    for line in cells_text.splitlines():
        if '_compare' in line and ("'_0_0_0'" in line or "'_0_0_1'" in line):
            out('  ' + line.strip())

    executor = Executor().set_executed_class(class_file=translation)
    for row, (left, right) in enumerate(WORKBOOK_PAIRS):
        results = []
        for column in range(2, 12):
            results.append(attempt(lambda: executor.get_cell(Cell(0, column, row)).value))
        out(f'row {row + 1} {left!r} ? {right!r} -> ' + ' | '.join(results))

    # the same formulas with overridden operands
    overrides = [(5, 5.0), ('q', 'Q'), (datetime.datetime(2030, 5, 5), datetime.date(2030, 5, 5)), (-0.25, None)]
    for left, right in overrides:
        fresh = Executor().set_executed_class(class_file=translation)
        fresh.set_cells([Cell(0, 0, 0, value=left), Cell(0, 1, 0, value=right)])
        results = [attempt(lambda: fresh.get_cell(Cell(0, column, 0)).value) for column in range(2, 12)]
        out(f'override {left!r} ? {right!r} -> ' + ' | '.join(results))
    return translation


class Texty:
    """Neither number nor date: only the text stage can compare it."""

    def __init__(self, text):
        self.text = text

    def __str__(self):
        return self.text

    def __repr__(self):
        return f'Texty({self.text!r})'


class BadFloat:
    def __float__(self):
        raise ValueError('no float')

    def __str__(self):
        return 'badfloat'

    def __repr__(self):
        return 'BadFloat()'


def direct_section(generated_class):
    runtimes = [('base', Handwritten()), ('generated', generated_class())]
    operators = ['>=', '>', '<=', '<', '==', '!=', '=', '<>', '', 'unknown', None, 7]

    for name, runtime in runtimes:
        blank = runtime.EmptyCell()
        operands = [
            0, 1, -1, 2, 2.0, 2.5, -2.5, 0.1 + 0.2, 0.3, 1e308, -1e308, float('inf'), float('-inf'), float('nan'),
            10 ** 20, 10 ** 20 + 1, True, False, None, blank,
            '', 'a', 'A', 'b', 'abc', '10', '9', '1.5', ' 7 ', '1e3', 'nan', '2024-01-01 00:00:00',
            datetime.date(2024, 1, 1), datetime.datetime(2024, 1, 1), datetime.datetime(2024, 1, 1, 1, 10, 10),
            datetime.date(2023, 12, 31), datetime.date(1, 1, 1), datetime.datetime(9999, 12, 31, 23, 59, 59),
            datetime.time(1, 2), datetime.timedelta(days=1), [], [1], (1,), Texty('abc'), Texty('abd'), BadFloat(),
        ]
        digest = hashlib.sha256()
        count = 0
        for operator in operators:
            for left, right in itertools.product(operands, repeat=2):
                line = f'{name} _compare {operator!r} {left!r} {right!r} -> ' + attempt(runtime._compare, operator, left, right)
                digest.update(line.encode())
                count += 1
                if operator in ('<', '==') or left is blank or right is blank:
                    out(line)
        out(f'{name} _compare total {count} sha256 {digest.hexdigest()}')

        digest = hashlib.sha256()
        count = 0
        for operator in operators:
            for left, right in itertools.product(operands, repeat=2):
                line = f'{name} _by_operator {operator!r} {left!r} {right!r} -> ' + attempt(runtime._by_operator, operator, left, right)
                digest.update(line.encode())
                count += 1
                if operator in ('>=', '!='):
                    out(line)
        out(f'{name} _by_operator total {count} sha256 {digest.hexdigest()}')

        # the laws of the property, checked on operands of one kind
        kinds = {
            'numbers': [0, 1, -1, 2, 2.0, 2.5, -2.5, 0.3, 0.1 + 0.2, 10 ** 20, 10 ** 20 + 1, 1e308],
            'texts': ['', 'a', 'A', 'b', 'abc', 'abd', 'x y'],
            'dates': [datetime.date(2024, 1, 1), datetime.datetime(2024, 1, 1), datetime.datetime(2024, 1, 1, 1, 10),
                      datetime.date(2023, 12, 31), datetime.datetime(2025, 6, 6, 6, 6, 6)],
            'blank': [blank, runtime.EmptyCell()],
        }
        for kind, values in kinds.items():
            broken = 0
            for left, right in itertools.product(values, repeat=2):
                lt, eq, gt = (runtime._compare(op, left, right) for op in ('<', '==', '>'))
                ne, le, ge = (runtime._compare(op, left, right) for op in ('!=', '<=', '>='))
                lawful = [lt, eq, gt].count(True) == 1 and ne == (not eq) and le == (not gt) and ge == (not lt) \
                    and lt == runtime._compare('>', right, left)
                broken += not lawful
            out(f'{name} laws {kind}: pairs {len(values) ** 2} broken {broken}')

    # a subclass that overrides _by_operator still gets every comparison routed through it
    calls = []

    class Spy(Handwritten):
        def _by_operator(self, operator, left_operand, right_operand):
            calls.append((operator, repr(left_operand), repr(right_operand)))
            return super()._by_operator(operator, left_operand, right_operand)

    spy = Spy()
    for left, right in [(1, 2), ('1', 2.5), ('a', 1), (datetime.date(2024, 1, 1), 'a'),
                        (datetime.date(2024, 1, 1), datetime.datetime(2024, 1, 1)), (spy.EmptyCell(), 'a')]:
        del calls[:]
        result = attempt(spy._compare, '<', left, right)
        out(f'spy {left!r} < {right!r} -> {result} via {calls}')

    helper_names = [sorted(n for n in vars(cls) if not n.startswith('__')) for cls in (AbstractExcelInPython, generated_class)]
    out('base helpers: ' + ' '.join(helper_names[0]))
    out('generated helpers: ' + ' '.join(n for n in helper_names[1] if not n.startswith('_0_')))


def main():
    directory = tempfile.mkdtemp(prefix='t60_r1_')
    try:
        translation = workbook_section(directory)
        direct_section(load_generated(translation))
    finally:
        shutil.rmtree(directory, ignore_errors=True)
    out('lines ' + str(len(LINES)))
    print('digest ' + hashlib.sha256('\n'.join(LINES).encode()).hexdigest())
    return 0


if __name__ == '__main__':
    sys.exit(main())
