"""Equivalence demo for r4: Context bookkeeping that decides the generated text (cell / sub-cell function tables)."""
import hashlib
import itertools
import os
import shutil
import tempfile
import threading

from openpyxl import Workbook

from excel2pycl import Parser, Executor, Cell
from excel2pycl.src.context import Context

OUT = []


def emit(*parts):
    OUT.append(' | '.join(str(p) for p in parts))


def digest(text):
    return f'{len(text)}:{hashlib.sha256(text.encode("utf-8")).hexdigest()[:24]}'


def functions_of(text):
    tail = text[text.rfind("return '#VALUE!'"):]
    lines = tail.splitlines()[2:]
    return lines


def call(label, fn):
    try:
        value = fn()
    except BaseException as e:  # noqa
        emit(label, 'EXC', type(e).__name__)
        return None
    emit(label, repr(value) if not isinstance(value, str) or len(value) < 200 else digest(value))
    return value


def dump(label, context):
    emit(label, 'cells', list(context._cell_translations.items()))
    emit(label, 'subs', [(k, list(v)) for k, v in context._sub_cell_translations.items()])
    emit(label, 'progress', dict(context._cells_in_progress))
    emit(label, 'divided', list(context._get_divided_sub_cell_translations().items()))
    text = call(f'{label} build', context.build_class)
    if text is not None:
        emit(label, 'functions', functions_of(text))
        emit(label, 'build twice identical', text == context.build_class())
    emit(label, 'cells after build', list(context._cell_translations.items()))


def direct_context():
    # 1. empty context
    c = Context()
    dump('empty', c)

    # 2. cells and repeated / interleaved sub-cells
    c = Context()
    c._titles = {'main': 0, 'other': 1}
    c._sheets_size = [{'last_row': 3, 'last_column': 2}, {'last_row': 1, 'last_column': 1}]
    a1, a2, b1, o1 = Cell(0, 0, 0), Cell(0, 0, 1), Cell(0, 1, 0), Cell(1, 0, 0)
    call('get before set', lambda: c.get_cell(a1))
    call('set a1', lambda: c.set_cell(a1, '1'))
    call('get after set', lambda: c.get_cell(a1))
    call('get equal cell object', lambda: c.get_cell(Cell(0, 0, 0, value='other value')))
    call('get other cell', lambda: c.get_cell(a2))
    codes = ['[self._cell_preprocessor(\'_0_0_0\')]', 'self._sum(x)', '[self._cell_preprocessor(\'_0_0_0\')]',
             "{'a': 1}", '{}', 'self._sum(x)', '', '', "'{name}'", '{code}', 'x' * 50, 'self._sum(x) ', '0', 0, None,
             'None']
    for n, code in enumerate(codes):
        call(f'sub b1 #{n} {code!r}', lambda: c.set_sub_cell(b1, code))
        if n % 3 == 0:
            call(f'sub a2 #{n} {code!r}', lambda: c.set_sub_cell(a2, code))
        if n % 4 == 1:
            call(f'sub o1 #{n} {code!r}', lambda: c.set_sub_cell(o1, code))
    dump('direct.1 (non-str codes)', c)
    # drop the codes that cannot be printed as functions and go on
    for name in list(c._sub_cell_translations):
        c._sub_cell_translations[name] = [x for x in c._sub_cell_translations[name] if isinstance(x, str)]
    call('set b1', lambda: c.set_cell(b1, "self._cell_preprocessor('_0_1_0_0')"))
    call('set a2', lambda: c.set_cell(a2, "'two'"))
    call('set a1 again', lambda: c.set_cell(a1, 'self.EmptyCell()'))
    call('sub after cleanup', lambda: c.set_sub_cell(b1, 'self._sum(x)'))
    call('sub new after cleanup', lambda: c.set_sub_cell(b1, 'brand_new'))
    dump('direct.2', c)

    # 3. every order of inserting three codes for two cells: numbering follows first appearance
    for order in itertools.permutations([(a1, 'p'), (a1, 'q'), (b1, 'p'), (a1, 'p'), (b1, 'r')], 5):
        c = Context()
        got = [c.set_sub_cell(cell, code) for cell, code in order]
        emit('perm', [(cell.uid, code) for cell, code in order], got,
             list(c._get_divided_sub_cell_translations().items()))

    # 4. pre-seeded tables: empty list, foreign entries
    c = Context()
    c._sub_cell_translations['_0_0_0'] = []
    c._sub_cell_translations['_0_1_0'] = ['kept']
    call('seeded empty', lambda: c.set_sub_cell(a1, 'first'))
    call('seeded kept', lambda: c.set_sub_cell(b1, 'kept'))
    call('seeded new', lambda: c.set_sub_cell(b1, 'second'))
    dump('seeded', c)

    # 5. a cell whose function name collides with a sub-cell function name: position of the cell, code of the sub-cell
    c = Context()
    odd = Cell(0, 1, '2_0', _handled_identifiers=True)
    plain = Cell(0, 1, 2)
    call('collide set odd', lambda: c.set_cell(odd, "'odd cell'"))
    call('collide set a1', lambda: c.set_cell(a1, "'a1'"))
    call('collide sub', lambda: c.set_sub_cell(plain, "'sub of plain'"))
    call('collide sub a1', lambda: c.set_sub_cell(a1, "'sub of a1'"))
    call('collide set plain', lambda: c.set_cell(plain, "self._cell_preprocessor('_0_1_2_0')"))
    dump('collide', c)

    # 6. cells that cannot name a function
    c = Context()
    for label, cell in (('letters', Cell('main', 'A', '1')), ('no-row', Cell(0, 0)), ('none-col', Cell(0, None, 0)),
                        ('handled-letters', Cell('main', 'A', '1', _handled_identifiers=True)),
                        ('handled-no-row', Cell(0, 0, None, _handled_identifiers=True)), ('not-a-cell', 'A1'),
                        ('none', None)):
        call(f'bad {label} get', lambda: c.get_cell(cell))
        call(f'bad {label} set', lambda: c.set_cell(cell, "'v'"))
        call(f'bad {label} sub', lambda: c.set_sub_cell(cell, "'s'"))
        call(f'bad {label} sub again', lambda: c.set_sub_cell(cell, "'s'"))
        call(f'bad {label} start', lambda: c.start_cell_translation(cell))
    dump('bad', c)

    # 7. circular reference bookkeeping is untouched
    c = Context()
    name = call('start', lambda: c.start_cell_translation(a1))
    call('start again', lambda: c.start_cell_translation(Cell(0, 0, 0)))
    call('finish', lambda: c.finish_cell_translation(name))
    call('finish again', lambda: c.finish_cell_translation(name))
    call('start after finish', lambda: c.start_cell_translation(a1))


def save(path, sheets):
    wb = Workbook()
    first = True
    for title, cells in sheets.items():
        ws = wb.active if first else wb.create_sheet(title)
        ws.title = title
        first = False
        for ref, value in cells.items():
            ws[ref] = value
    wb.save(path)
    wb.close()


BOOKS = {
    'ranges': {'main': {'A1': 1, 'A2': 2, 'A3': 3, 'B1': '=SUM(A1:A3)+SUM(A1:A3)', 'B2': '=SUM(A1:A3)+MAX(A1:A3)',
                        'B3': '=SUM(A1:A2)+SUM(A2:A3)+SUM(A1:A2)', 'C1': '=AVERAGE(A1:A3)+MIN(A1:A3)+SUM(A1:A3,B1:B3)',
                        'C2': '=SUMIF(A1:A3,">1")+SUMIF(A1:A3,">1",B1:B3)', 'C3': '=COUNT(A1:B3)+COUNT(A1:B3)'}},
    'lookups': {'data': {'A1': 'k1', 'B1': 10, 'A2': 'k2', 'B2': 20, 'A3': 'k3', 'B3': 30,
                         'D1': '=VLOOKUP("k2",A1:B3,2,0)', 'D2': '=INDEX(A1:B3,2,2)+INDEX(A1:B3,3,2)',
                         'D3': '=MATCH("k3",A1:A3,0)+MATCH("k1",A1:A3,0)', 'E1': '=IF(D1>10,D2,D3)',
                         'E2': '=IFERROR(1/0,"e")&LEFT(A1,1)&MID(A2,1,2)'},
                'second sheet': {'A1': '=data!E1+SUM(data!B1:B3)', 'B2': '=A1+SUM(data!B1:B3)', 'C5': 'tail'}},
    'plain': {'s': {'A1': 1, 'B1': 'text', 'C1': None, 'D1': True, 'A2': 2.5, 'D4': "it's", 'A3': '=A1'}},
    'cross': {'one': {'A1': '=two!A1+1', 'A2': '=SUM(two!A1:A2)', 'B1': '=A2+SUM(two!A1:A2)'},
              'two': {'A1': 5, 'A2': '=A1*0+3', 'B1': '=one!B1+SUM(A1:A2)+SUM(A1:A2)'}},
}


def through_parser(tmp):
    texts = {}
    for name, book in BOOKS.items():
        path = os.path.join(tmp, f'{name}.xlsx')
        save(path, book)
        out = os.path.join(tmp, f'{name}.py')

        def translate():
            return Parser().set_excel_file_path(path).write_translation(out).get_translation()

        text = call(f'book {name}', translate)
        if text is None:
            continue
        texts[name] = (path, text)
        emit(f'book {name}', 'file equals text', open(out, encoding='utf-8').read() == text)
        for line in functions_of(text):
            emit(f'book {name} fn', line)
        emit(f'book {name}', 'again', digest(Parser().set_excel_file_path(path).get_translation()))
        try:
            ex = Executor().set_executed_class(class_file=out)
            for sheet in book:
                emit(f'book {name} values {sheet}',
                     [[(type(c.value).__name__, c.value) for c in row] for row in ex.get_sheet(sheet)])
        except BaseException as e:  # noqa
            emit(f'book {name} values', 'EXC', type(e).__name__)
        # entry points: only the reachable cells, in discovery order
        first_sheet = next(iter(book))
        for ref in list(book[first_sheet])[:6]:
            column, row = ref[0], ref[1:]
            entry = call(f'book {name} entry {ref}', lambda: Parser().set_excel_file_path(path).set_entrypoint_cell(
                Cell(first_sheet, column, row)).get_translation())
            if entry:
                emit(f'book {name} entry {ref}', [line.strip() for line in functions_of(entry) if 'def ' in line])

    # the same texts from concurrent threads and after unrelated translations
    results = {}

    def worker(i, name):
        path, _ = texts[name]
        results[(i, name)] = digest(Parser().set_excel_file_path(path).get_translation())

    threads = [threading.Thread(target=worker, args=(i, name)) for i in range(3) for name in texts]
    [t.start() for t in threads]
    [t.join() for t in threads]
    for key in sorted(results):
        emit('thread', key, results[key], results[key] == digest(texts[key[1]][1]))


def main():
    tmp = tempfile.mkdtemp(prefix='r4demo')
    try:
        direct_context()
        through_parser(tmp)
    finally:
        shutil.rmtree(tmp, ignore_errors=True)

    text = '\n'.join(OUT)
    print(text)
    print('lines', len(OUT))
    print('sha256', hashlib.sha256(text.encode('utf-8')).hexdigest())


if __name__ == '__main__':
    main()
