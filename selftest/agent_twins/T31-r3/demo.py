"""Equivalence demo for r3 (CompositeBaseToken.get, the token-set parser).

Parses a large set of formulas - well-formed ones for every function, every prefix of them, formulas with a
token removed or doubled, operator formulas, deep formulas up to and beyond the recursion limit - prints the
syntax tree or the exception for each; calls get() of individual composite token classes on crafted token
lists; translates workbooks (whole and per entry point) and evaluates them.
"""
import datetime
import hashlib
import os
import re
import shutil
import sys
import tempfile

from openpyxl import Workbook

from excel2pycl import Parser, Executor, Cell
from excel2pycl.src.ast_builder import AstBuilder
from excel2pycl.src.lexer import Lexer
from excel2pycl.src import tokens as T
from excel2pycl.src.tokens.composite_base_token import CompositeBaseToken
from excel2pycl.src.tokens.base_token import BaseToken

VALID = [
    '=1+2*3', '=(1+2)*3', '=-A1+5', '=2*-3', '=50%*2', '=A1%+1', '=A1&A3&"x"', '=A1+1>A2*2', '=1<2<3',
    '=((1+2)*(3+4))', '=(A1)', '="a"&"b"="ab"', '=TRUE()', '=FALSE', '=""', "='S'!A1*2", '=S!A1+T!A1',
    '=$A$1+A$2+$A3', '=A1:A3', '=SUM(A1:A3)', '=SUM(A1;A2;3)', '=SUM(A1:B2)*2+1', '=SUM(A:A)', '=SUM(A1:A3;B1:B3)',
    '=AVERAGE(A1:A3)', '=MIN(A1:A3)', '=MAX(A1:A3;B1)', '=IF(A1>5;"big";"small")', '=IF(A1>5;1)',
    '=IF(1<2,1+1,2*2)&"!"', '=IF(IF(A1>1;TRUE;FALSE);SUM(A1:A2);-1)', '=IFS(A1>89,"A",A1>79,"B")',
    '=IFERROR(A1/B1,5)', '=AND(C4, C5)', '=OR(B4, B5)', '=ROUND(A2, 2)', '=ROUNDUP(A2)', '=ROUNDUP(A2,)',
    '=ROUNDDOWN(A2, 1)', '=ROUND(A2*2%;2)', '=SUMIF(A1:A3, ">6")', '=SUMIF(A1:A3;">1";B1:B3)',
    '=SUMIFS($A$2:$A$9, $C$2:$C$9, "Tom", B2:B9, "Bananas")', '=COUNTIFS(A4:A7;"*")',
    '=COUNTIFS(B4:B7;"<>"&B5)', '=COUNTIFS(A4:A7;"яблоки";B4:B7;">55")', '=AVERAGEIFS(A1:A3;B1:B3;">0")',
    '=COUNT(B6:H6; 2; 3)', '=COUNT(B4; C4)', '=COUNTBLANK(A1:E2)', '=VLOOKUP(5, D4:D13, 1, FALSE())',
    '=VLOOKUP(A1;A1:B3;2)', '=MATCH(30;T4:T12;1)', '=MATCH(A1;A1:A3)', '=XMATCH(50;U4:U12;1;1)',
    '=INDEX(A1:C3;2;2)', '=INDEX((A1:C1; A1:A3; A1:C3);3;3;3)', '=INDEX(A1:A3&B1:B3, 0)', '=INDEX(A1:A3;2)',
    '=DATE(2024, 5, 24) - TODAY()', '=DATE(A4, A5, A6)', '=DATEDIF(A4, A5, "D")', '=DAY(TODAY())', '=MONTH(B4)',
    '=YEAR(B4)', '=EDATE(B4, 2)', '=EOMONTH(B4, -2)', '=TODAY() + 5', '=TODAY() = TODAY()',
    '=NETWORKDAYS(A1,B1)', '=NETWORKDAYS(A1,B1,A3:B4)', '=LEFT(A3,2)', '=LEFT(A3)', '=RIGHT(A3,-2)',
    '=MID(A3, 1, 5)', '=SEARCH(A1,B1)', '=SEARCH(A2,B2,2)', '=ADDRESS(3;1)', '=ADDRESS(3;7;2;FALSE;"mid")',
    '=COLUMN()', '=COLUMN(B3)', '=COLUMN(C3:E3)', '=CONCATENATE("a", B1)', '=CONCATENATE("a", DATE(2024, 9, 12), "b")',
    '=TEXT("1234567", "#,##0")', '=VALUE("123")', '=VALUE(50% /100)', '=VALUE(B1)',
    '=SUM(A1:A3)+IF(A1>1;MAX(A1;A2);MIN(A1;A2))*ROUND(A2;1)', '=-SUM(A1:A2)', '=SUM(A1:A2)%', '=IF(A1&A2="103.5";1;0)',
]

BROKEN = [
    '=', '=()', '=1+', '=*2', '=1 2', '=1+*2', '=(1+2', '=1+2)', '=1;2', '=A1 A2', '=50%%', '=(A1+1)%', '=%5',
    '=A1><A2', '=A1==A2', '=A1<', '=<A1', '=SUM', '=SUM(', '=SUM()', '=SUM(1', '=SUM(1;', '=SUM(1;)', '=SUM 1',
    '=SUM(1))', '=IF', '=IF(', '=IF(1)', '=IF(1;2;3;4)', '=IF(;1;2)', '=IF(1;;2)', '=IFS(1)', '=IFS(1;2;3)',
    '=IFERROR(1)', '=VLOOKUP(1)', '=VLOOKUP(1;2)', '=SUMIF(A1:A3)', '=SUMIFS(A1:A3)', '=COUNTIFS(A1:A3)',
    '=MATCH(1)', '=XMATCH(1)', '=INDEX(1)', '=INDEX()', '=DATE(1;2)', '=DATE(1;2;3;4)', '=DATEDIF(1;2)', '=DAY()',
    '=TODAY(1)', '=TODAY', '=LEFT()', '=MID(A1;1)', '=SEARCH(A1)', '=ADDRESS(1)', '=COLUMN(1;2)', '=COLUMN(A1:B2;1)',
    '=CONCATENATE()', '=TEXT(1)', '=VALUE()', '=VALUE(1;2)', '=ROUND()', '=ROUND(1;2;3)', '=AND()', '=OR()',
    '=NETWORKDAYS(A1)', '=EDATE(A1)', '=EOMONTH(A1)', '=AVERAGE()', '=MIN()', '=MAX()', '=COUNT()', '=COUNTBLANK()',
    '=1+SUM(', '=SUM(1)+IF(', '=IF(SUM(;1;2)', '=IF(1;SUM(;2)', '=SUM(IF(1;2;3);IF()', '=1+IF', '=IF+1', '=SUM%',
    '=(SUM)', '=SUM(A1:A3', '=SUM(A1:)', '=SUM(:A3)', '=SUM(A1:A3;)', '=SUM(;A1)', '=TRUE(', '=TRUE)', '=FALSE()()',
    '=NOSUCH(1)', '=SUMX(1)', '=XSUM(1)', '=sum(1)', '=Sum(1)',
]

DATA = {
    'A1': 10, 'A2': 3.5, 'A3': 'text', 'A4': 2020, 'A5': 5, 'A6': 7, 'A7': 'яблоки',
    'B1': 0, 'B2': -2, 'B3': '', 'B4': datetime.datetime(2020, 1, 15), 'B5': 0.1, 'B6': 60, 'B7': 70,
    'C1': 'abc', 'C2': 'Tom', 'C3': False, 'C4': True, 'C5': False, 'D4': 5, 'D5': 6, 'T4': 10, 'T5': 30, 'U4': 50,
}

out = []


def emit(*parts):
    out.append(' | '.join(str(p) for p in parts))


def show(value):
    return f'{type(value).__name__}:{value!r}'[:160]


def attempt(function):
    try:
        return 'ok', function()
    except BaseException as e:  # noqa
        if isinstance(e, (KeyboardInterrupt, SystemExit)):
            raise
        return 'exc', f'{type(e).__qualname__}: {str(e)[:300]}'


def dump(token):
    if isinstance(token, (list, tuple)) and any(isinstance(i, BaseToken) for i in token):
        return '[' + ', '.join(dump(i) for i in token) + ']'
    if isinstance(token, BaseToken):
        if isinstance(token.value, list):
            return f'{type(token).__name__}{dump(token.value)}'
        return f'{type(token).__name__}({token.value!r})'
    return repr(token)


def members(text):
    return re.findall(r'    def (_\w+)\(self\):\n        return (.*)', text)


def parse(formula):
    cell = Cell(0, 9, 9)
    return dump(AstBuilder.parse(Lexer.parse(formula, cell), cell))


def variants(formula):
    """every prefix, and the formula with one lexical token removed or doubled"""
    seen = set()
    for i in range(1, len(formula)):
        seen.add(formula[:i])
    status, lexed = attempt(lambda: Lexer.parse(formula, Cell(0, 9, 9)))
    if status == 'ok':
        texts = [t.value if isinstance(t.value, str) else t.value[0] for t in lexed]
        pieces = re.findall(r'"[^"]*"|\'[^\']*\'![A-Z$\d:]+|[A-Za-z$!:\d.]+|<>|>=|<=|\S', formula)
        for i in range(len(pieces)):
            seen.add(' '.join(pieces[:i] + pieces[i + 1:]))
            seen.add(' '.join(pieces[:i] + [pieces[i]] + pieces[i:]))
        seen.add('LEXED ' + ' '.join(texts))
    return sorted(seen)


def direct_calls():
    cell = Cell(0, 0, 0)

    def lex(text):
        return Lexer.parse(text, cell)

    classes = [T.ExpressionToken, T.OperandToken, T.OperatorToken, T.ArithmeticOperatorToken, T.LogicalOperatorToken,
               T.OneLeftOperandExpressionToken, T.OneOperandArithmeticOperatorToken, T.IterableExpressionToken,
               T.LambdaToken, T.EntryPointToken, T.ControlConstructionCompositeBaseToken, T.SumControlConstructionToken,
               T.IfControlConstructionToken, T.TodayControlConstructionToken, T.MatrixOfCellIdentifiersExpressionToken,
               T.SimilarCellToken, T.PercentOperatorToken, T.AmpersandOperatorToken, CompositeBaseToken]
    texts = ['', '1', '1+2', '+', '-1', '=1', '=', 'SUM(1)', 'SUM(', 'SUM', 'IF(1;2;3)', 'IF(1', 'TODAY()', 'TODAY(',
             'A1', 'A1:B2', 'A1:B2&C1:D2', 'A1:A3', '%', '1%', '1%%', '&', '"a"&1', '">5"', '"a*"', '1;2;3', '1;2;',
             ')', '(1)', '(1', '<>', '<', '1 2', 'SUM(1) 2', 'SUM(1))', 'IF(SUM(1;2)']
    for text in texts:
        status, lexed = attempt(lambda: lex(text))
        if status != 'ok':
            emit('DIRECT', repr(text), 'LEX', lexed)
            continue
        for token_class in classes:
            before = dump(lexed)

            def call():
                token, rest = token_class.get(lexed, cell)
                return f'{dump(token)} REST {dump(rest)} SAME-LIST {rest is lexed}'
            emit('DIRECT', repr(text), token_class.__name__, *attempt(call))
            if dump(lexed) != before:
                emit('DIRECT', repr(text), token_class.__name__, 'INPUT MUTATED')


def deep():
    shapes = {
        'sum': lambda n: '=' + '+'.join(['1'] * n),
        'brackets': lambda n: '=' + '(' * n + '1' + ')' * n,
        'signs': lambda n: '=' + '-' * n + '1',
        'ifs': lambda n: '=' + 'IF(1;' * n + '1' + ';2)' * n,
        'percent': lambda n: '=' + '1%*' * n + '1',
        'unclosed': lambda n: '=' + 'SUM(' * n,
        'concat': lambda n: '=' + '&'.join(['"a"'] * n),
    }
    cell = Cell(0, 0, 0)
    for name, shape in shapes.items():
        for n in (1, 2, 3, 5, 8, 13, 40, 100):
            if (name == 'brackets' and n > 8) or (name == 'ifs' and n > 5):
                continue  # the parser backtracks exponentially on these
            status, result = attempt(lambda: parse(shape(n)))
            emit('DEEP', name, n, status, hashlib.sha256(result.encode()).hexdigest()[:16] if status == 'ok' else result)

    # the longest chain that still parses under the default recursion limit (bisection)
    for name in ('sum', 'signs', 'concat'):
        lexed = {}

        def parses(n):
            if n not in lexed:
                lexed[n] = Lexer.parse(shapes[name](n), cell)
            return attempt(lambda: AstBuilder.parse(lexed[n], cell))

        low, high = 1, 4000
        status, problem = parses(high)
        emit('LIMIT', name, high, status, '' if status == 'ok' else problem[:60])
        while high - low > 1:
            middle = (low + high) // 2
            if parses(middle)[0] == 'ok':
                low = middle
            else:
                high = middle
        emit('LIMIT', name, 'longest ok', low, 'first failing', high, parses(high)[1][:60])


def main():
    assert sys.getrecursionlimit() == 1000
    tmp = tempfile.mkdtemp(prefix='t31r3_')
    try:
        for formula in VALID:
            emit('VALID', repr(formula), *attempt(lambda: parse(formula)))
        for formula in BROKEN:
            emit('BROKEN', repr(formula), *attempt(lambda: parse(formula)))
        done = set(VALID) | set(BROKEN)
        for formula in VALID:
            for variant in variants(formula):
                if variant in done or variant.startswith('LEXED'):
                    continue
                done.add(variant)
                status, result = attempt(lambda: parse(variant))
                emit('VARIANT', repr(variant), status,
                     hashlib.sha256(result.encode()).hexdigest()[:16] if status == 'ok' else result)
        direct_calls()
        deep()

        # workbooks
        formulas = VALID + BROKEN
        xlsx = os.path.join(tmp, 'book.xlsx')
        wb = Workbook()
        ws = wb.active
        ws.title = 'S'
        for address, value in DATA.items():
            ws[address] = value
        for i, formula in enumerate(formulas):
            ws.cell(row=i + 1, column=12).value = formula
        wb.create_sheet('T')['A1'] = 99
        wb.save(xlsx)
        emit('WHOLE-ALL', *attempt(lambda: len(Parser().set_excel_file_path(xlsx).disable_safety_check()
                                               .get_translation())))
        translated = []
        for i, formula in enumerate(formulas):
            parser = Parser().set_excel_file_path(xlsx).disable_safety_check().set_entrypoint_cell(Cell(0, 11, i))
            status, text = attempt(parser.get_translation)
            if status != 'ok':
                emit('ENTRY', repr(formula), 'TRANSLATE', text)
                continue
            emit('ENTRY', repr(formula), 'MEMBERS', members(text))
            status, problem = attempt(lambda: compile(text, 'x', 'exec'))
            if status != 'ok':
                emit('ENTRY', repr(formula), 'COMPILE', problem)
                continue
            translated.append(formula)
            py = os.path.join(tmp, f'f{i}.py')
            parser.write_translation(py)
            value = attempt(lambda: show(Executor().set_executed_class(class_file=py)
                                         .get_cell(Cell('S', 'L', str(i + 1))).value))
            if 'TODAY' in formula and value[0] == 'ok' and 'True' not in value[1]:
                value = ('ok', 'depends on the day')
            emit('ENTRY', repr(formula), 'VALUE', *value)

        xlsx2 = os.path.join(tmp, 'good.xlsx')
        wb = Workbook()
        ws = wb.active
        ws.title = 'S'
        for address, value in DATA.items():
            ws[address] = value
        for i, formula in enumerate(translated):
            ws.cell(row=i + 1, column=12).value = formula
        wb.create_sheet('T')['A1'] = 99
        wb.save(xlsx2)
        py = os.path.join(tmp, 'good.py')
        parser = Parser().set_excel_file_path(xlsx2).disable_safety_check()
        status, text = attempt(parser.get_translation)
        emit('WHOLE-GOOD', status, len(translated), text if status != 'ok' else '')
        if status == 'ok':
            for name, code in members(text):
                emit('WHOLE-GOOD', name, code)
            parser.write_translation(py)
            executor = Executor().set_executed_class(class_file=py)
            for i, formula in enumerate(translated):
                value = attempt(lambda: show(executor.get_cell(Cell(0, 11, i)).value))
                if 'TODAY' in formula and value[0] == 'ok' and 'True' not in value[1]:
                    value = ('ok', 'depends on the day')
                emit('WHOLE-GOOD', repr(formula), *value)
    finally:
        shutil.rmtree(tmp, ignore_errors=True)

    body = '\n'.join(out)
    print(body)
    print('LINES', len(out))
    print('DIGEST', hashlib.sha256(body.encode('utf-8')).hexdigest())


if __name__ == '__main__':
    main()
    sys.exit(0)
