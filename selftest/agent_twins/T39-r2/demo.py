"""Equivalence demo for r2: the VLOOKUP / MATCH / XMATCH / INDEX translators translate their arguments in named
steps and share one helper for the omitted optional arguments.

Builds workbooks whose formulas use every argument form of the four functions (all optional arguments given, some
omitted, all omitted; nested calls as arguments, so that the numbering of the sub cells depends on the order of the
translation), translates them (whole file and by entry point), and prints the sha256 of the generated class text
together with every computed value, also after cell overrides.
"""
import hashlib
import os
import shutil
import sys
import tempfile

from openpyxl import Workbook

from excel2pycl import Parser, Executor, Cell


def show(value):
    if isinstance(value, list):
        return '[' + ', '.join(show(i) for i in value) + ']'
    return f'{type(value).__name__}:{value!r}'


def cell_value(executor, *address):
    try:
        return show(executor.get_cell(Cell(*address)).value)
    except BaseException as error:
        return 'raises ' + type(error).__name__


KEYS = [3, 8, 8, 15, 21.5, 30, 42]
NAMES = ['ant', 'Bee', 'bee-2', 'cat', 'Dog', 'eel', 'fox']
DESC = [90, 70, 70, 50.5, 30, 10, 0]

FORMULAS = []
for probe in [1, 3, 8, 9, 21.5, 30, 42, 100]:
    FORMULAS += [
        f'=VLOOKUP({probe};data!A1:C7;2;FALSE)',
        f'=VLOOKUP({probe};data!A1:C7;2;TRUE)',
        f'=VLOOKUP({probe};data!A1:C7;3)',
        f'=VLOOKUP({probe}+0;data!A1:C7;1+1;0)',
        f'=VLOOKUP(data!A4;data!A1:C7;MATCH({probe};data!A1:A7);FALSE)',
        f'=MATCH({probe};data!A1:A7;0)',
        f'=MATCH({probe};data!A1:A7;1)',
        f'=MATCH({probe};data!A1:A7)',
        f'=MATCH({probe};data!C1:C7;-1)',
        f'=MATCH({probe};data!A1:A7;MATCH(3;data!A1:A7;0)-1)',
        f'=XMATCH({probe};data!A1:A7)',
        f'=XMATCH({probe};data!A1:A7;0)',
        f'=XMATCH({probe};data!A1:A7;0;1)',
        f'=XMATCH({probe};data!A1:A7;0;-1)',
        f'=XMATCH({probe};data!A1:A7;1;1)',
        f'=XMATCH({probe};data!A1:A7;-1;1)',
        f'=XMATCH({probe};data!A1:A7;1;2)',
        f'=XMATCH({probe};data!A1:A7;-1;2)',
        f'=XMATCH({probe};data!C1:C7;0;-2)',
        f'=XMATCH({probe};data!A1:A7;0;5)',
        f'=INDEX(data!B1:B7;MATCH({probe};data!A1:A7;0))',
        f'=INDEX(data!B1:B7;MATCH({probe};data!A1:A7))',
    ]
FORMULAS += [
    '=INDEX(data!A1:C1;2)', '=INDEX(data!A1:A7;2)', '=INDEX(data!A1:C7;2;2)', '=INDEX(data!A1:C7;7;3)',
    '=INDEX(data!A1:C7;8;1)', '=INDEX(data!A1:C7;1;4)', '=INDEX(data!A1:C7;0;0)', '=INDEX(data!A1:C7;2;0)',
    '=INDEX((data!A1:C1; data!A1:A7; data!A1:C7);3;3;3)', '=INDEX((data!A1:C1; data!A1:A7);2;1;2)',
    '=INDEX((data!A1:C1; data!A1:A7);1;1;3)', '=INDEX(data!A1:A3&data!B1:B3, 0)',
    '=INDEX(data!B1:B7;XMATCH(8;data!A1:A7;0;-1))', '=INDEX(data!A1:C7;MATCH("cat";data!B1:B7;0);1)',
    '=MATCH("bee";data!B1:B7;0)', '=MATCH("BEE-2";data!B1:B7;0)', '=MATCH("zebra";data!B1:B7;0)',
    '=MATCH("cow";data!B1:B7)', '=VLOOKUP("Dog";data!B1:C7;2;FALSE)', '=VLOOKUP("dog";data!B1:C7;2;FALSE)',
    '=COLUMN()', '=COLUMN(D5)', '=COLUMN(data!B1:B7)', '=ADDRESS(3;704)', '=ADDRESS(MATCH(15;data!A1:A7;0);2)',
]


def build_workbook(path):
    wb = Workbook()
    ws = wb.active
    ws.title = 'data'
    for row in zip(KEYS, NAMES, DESC):
        ws.append(list(row))
    sheet = wb.create_sheet('f')
    for formula in FORMULAS:
        sheet.append([formula])
    wb.save(path)
    wb.close()


def main():
    directory = tempfile.mkdtemp(prefix='r2demo')
    try:
        xlsx = os.path.join(directory, 'book.xlsx')
        out_py = os.path.join(directory, 'book.py')
        build_workbook(xlsx)

        parser = Parser().set_excel_file_path(xlsx)
        parser.write_translation(out_py)
        text = parser.get_translation()
        print('whole file: generated text', len(text), 'chars, sha256', hashlib.sha256(text.encode()).hexdigest())
        calls = sorted(line.strip() for line in text.splitlines()
                       if line.strip().startswith('return self._') and any(
                           name in line for name in ('_vlookup(', '_match(', '_xmatch(', '_index(')))
        print('  lookup call lines:', len(calls), 'sha256', hashlib.sha256('\n'.join(calls).encode()).hexdigest())
        for line in calls[:6] + calls[-6:]:
            print('   ', line[:200])

        executor = Executor().set_executed_class(class_file=out_py)
        for number, formula in enumerate(FORMULAS):
            print(f'f!A{number + 1} {formula} -> {cell_value(executor, "f", 0, number)}')

        print('-- after overrides data!A2=9, data!B4="Bee", data!A7=None')
        executor.set_cells([Cell('data', 'A', '2', value=9), Cell('data', 'B', '4', value='Bee'),
                            Cell('data', 'A', '7', value=None)])
        for number, formula in enumerate(FORMULAS):
            print(f'f!A{number + 1} -> {cell_value(executor, "f", 0, number)}')

        print('-- entry point translations')
        for number in (0, 2, 4, 7, 9, 10, 13, 19, 20, len(FORMULAS) - 17, len(FORMULAS) - 13, len(FORMULAS) - 1):
            entry_py = os.path.join(directory, f'entry{number}.py')
            entry_parser = Parser().set_excel_file_path(xlsx).set_entrypoint_cell(Cell('f', 'A', str(number + 1)))
            entry_parser.write_translation(entry_py)
            entry_text = entry_parser.get_translation()
            entry_executor = Executor().set_executed_class(class_file=entry_py)
            print(f'f!A{number + 1}: text sha256 {hashlib.sha256(entry_text.encode()).hexdigest()[:24]}'
                  f' value {cell_value(entry_executor, "f", "A", str(number + 1))}')
    finally:
        shutil.rmtree(directory, ignore_errors=True)


if __name__ == '__main__':
    sys.dont_write_bytecode = True
    main()
