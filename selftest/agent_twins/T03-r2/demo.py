"""
Equivalence demonstration for r2 (CompositeBaseToken.get: if/elif chain -> guard clauses, the
"is this a control construction" test moved out of the inner loop to the single place where it matters).

Lexes a corpus of formulas, then calls EVERY composite token class directly on every token list (whole and
without the leading '='), dumps the resulting token trees / rests / exceptions, runs the AST builder, and
translates + evaluates a workbook per formula.  Prints a deterministic digest.
"""
import hashlib
import os
import tempfile

from openpyxl import Workbook

from excel2pycl import Parser, Executor, Cell
from excel2pycl.src.ast_builder import AstBuilder
from excel2pycl.src.lexer import Lexer
from excel2pycl.src.tokens import CompositeBaseToken, ControlConstructionCompositeBaseToken

LINES = []


def out(*parts):
    LINES.append(' | '.join(str(p) for p in parts))


def describe(call):
    try:
        return 'ok', call()
    except BaseException as e:  # noqa
        return 'exc', f'{type(e).__module__}.{type(e).__name__}:{e.args!r}'


def tree(token):
    if token is None:
        return 'None'
    if isinstance(token, CompositeBaseToken):
        return f'{type(token).__name__}[' + ', '.join(tree(t) for t in token.value) + ']'
    return f'{type(token).__name__}({token.value!r})'


TEXTS = [
    '', ' ', '=', '==', '=A1', 'A1', 'A1+B2', 'A1:B2', 'A1:A9', 'A:A', 'A:C', '$A$1', '$A$1:$B$2', 'A1:B', 'A1:1',
    "'My sheet'!A1", "'My sheet'!A1:B3", 'Sheet2!C3', 'Sheet2!C3:C9+1', "'a!b'!A1", "''!A1", '!A1', 'A1B2', 'A12:A',
    'AA10', 'A1 ', 'A1\n', 'A1\n+1', 'A1+\nB1', '\n', '\t+', '1', '1.5', '1.', '.5', '1e5', '1e-5', '1.5e3', '1.5e-3x',
    '12abc', '007', '"text"', '""', '"a""b"', '"unterminated', '"a*"', '"?x"', '"~*"', '"a~*b*"', '"a\nb"', '"*"&A1',
    'TRUE', 'TRUE()', 'FALSE', 'FALSE()', 'TRUEX', 'true', '(', ')', '((', ';', ',', '~', ';;', '<>', '>=', '<=', '<',
    '>', '=<', '+', '-', '*', '/', '&', '%', '%%', '^', '#', '@', '{', 'a1', 'SUM', 'SUM(', 'SUMIF(', 'SUMIFS(A1',
    'IF', 'IFS', 'IFERROR', 'IFX', 'COUNT', 'COUNTBLANK', 'COUNTIFS', 'COUNTIF', 'DATE', 'DATEDIF', 'DAY', 'DAYS',
    'ROUND', 'ROUNDUP', 'ROUNDDOWN', 'AVERAGE', 'AVERAGEIFS', 'MATCH', 'XMATCH', 'MAX', 'MIN', 'MID', 'LEFT', 'RIGHT',
    'TEXT', 'VALUE', 'TODAY()', 'VLOOKUP(', 'NETWORKDAYS', 'EOMONTH', 'EDATE', 'ADDRESS', 'COLUMN', 'INDEX', 'OR',
    'AND', 'ORA1', 'SEARCH', 'CONCATENATE', 'YEAR', 'MONTH', 'Лист1!A1', "'Лист 1'!B2", 'ÄB1', 'A1:B2:C3', 'A1:$A$5',
    'B2:D2', 'B$2:D$2', 'B2:D3', 'A1:A', 'A:A1', '1:1', 'A1.5', 'A1e5', 'A1"x"', '1A', '1 2', 'x' * 200,
    'A' * 50 + '1', '"' + 'a' * 300 + '"', '\x1c', ' A1', 'A1 +1', '\r\n=',
]

FORMULAS = [
    '=1', '=1+2', '= 1 + 2', '=1+', '=+1', '=-A1', '=--1', '=(1+2)*3', '=(1+2', '=1+2)', '=()', '=A1', '=A1+B1*2',
    '=A1 B1', '=A1,B1', '=SUM(A1:A3)', '=SUM(A1:A3;B1)', '=SUM(A1:A3,B1)', '=SUM( A1:A3 ; B1 )', '=SUM(A1:A3', '=SUM()',
    '=SUM', '=SUM(A1:A3))', '=SUM(A1:A3)1', '=SUM(A1:A3) 1', '=SUM(A1:A3)+', '=IF(A1>1;2;3)', '=IF(A1>1,2,3)',
    '=IF(A1>1;2)', '=IF(A1>1)', '=IF(A1>1;2;3;4)', '=IF(;;)', '=IF(A1>1; "y"; "n")', '=IF(A1<>1,"y","n")&"z"',
    '=IFERROR(1/0;5)', '=IFERROR(1/0)', '=ROUND(1.234;2)', '=ROUND(1.234)', '=ROUND(1.234;2;3)', '=LEFT("abc";2)',
    '=LEFT("abc")', '=LEFT()', '=MID("abc";1;2)', '=MID("abc";1)', '=RIGHT("abc",1)', '=MAX(A1:A3)', '=MIN(A1;2)',
    '=AVERAGE(A1:A3)', '=VLOOKUP(1;A1:B3;2;FALSE)', '=VLOOKUP(1;A1:B3;2)', '=VLOOKUP(1;A1:B3)', '=MATCH(2;A1:A3;0)',
    '=MATCH(2;A1:A3)', '=MATCH(2)', '=XMATCH(2;A1:A3)', '=COUNTIFS(A1:A3;">1")', '=COUNTIFS(A1:A3;"a*")',
    '=COUNTIFS(A1:A3)', '=SUMIF(A1:A3;">1")', '=SUMIF(A1:A3;">1";B1:B3)', '=SUMIF(A1:A3)', '=SUMIFS(B1:B3;A1:A3;">1")',
    '=AVERAGEIFS(B1:B3;A1:A3;">1")', '=COUNT(A1:A3)', '=COUNTBLANK(A1:A3)', '=DATE(2020;1;2)', '=DATE(2020;1)',
    '=YEAR(A1)', '=MONTH(A1)', '=DAY(A1)', '=TODAY()', '=TODAY(1)', '=EDATE(A1;1)', '=EOMONTH(A1;1)',
    '=DATEDIF(A1;B1;"d")', '=NETWORKDAYS(A1;B1)', '=ADDRESS(1;2)', '=COLUMN(B1)', '=COLUMN()', '=INDEX(A1:B3;1;2)',
    '=IFS(A1>1;1;A1>2;2)', '=ROUNDUP(1.5;0)', '=ROUNDDOWN(1.5;0)', '=VALUE("1")', '=TEXT(1;"0")',
    '=CONCATENATE("a";"b")', '=SEARCH("a";"abc")', '=SEARCH("a";"abc";1)', '=OR(A1;B1)', '=AND(A1;B1)', '=50%',
    '=A1%', '=A1%+1', '=50%%', '=A1&B1', '="a"&"b"', '=A1>=B1', '=A1<=B1', '=A1<B1', '=A1>B1', '=A1=B1', '=A1<>B1',
    '=TRUE', '=FALSE()', "='My sheet'!A1+1", '=Sheet2!A1', '=Nope!A1', '=A1:A3', '=A:A', '=SUM(A:A)', '=SUM(A:C)',
    '=SUM(A1:C3)', '=SUM(A1:C)', '=FOO(1)', '=foo', '=sum(A1)', '=1e3', '=1.5e-2', '=1.', '=.5', '=1..2', '="a', '=#REF!',
    '=A1^2', '=A1+\nB1', '=A1\n', '=\nA1', '= \t A1', '=A1+B1 ', '=  ', '=', '==1', '=SUM(A1:A3;)', '=SUM(;A1)',
    '=IF(A1>1;SUM(A1:A3;IF(B1;1;2));MAX(1;2))', '=IF(A1>1;SUM(A1:A3;IF(B1;1));MAX(1;2)', '=((((1))))', '=((((1)))',
    '=1~2', '=SUM(1~2)', '=A1:B2:C3', '=$A$1+$B2+C$3', '=SUM($A$1:$A$3)', '=LEFT("a,b";1)', '=LEFT("a;b",1)',
    '=IF(A1="";"e";"f")', '=1 2', '=1 +2', '=-(1+2)', '=-(1+2)*3', '=(1)+(2)', '=(1)(2)', '=SUM((A1:A3))',
]



EXTRA = [
    '=SUM(', '=SUM(1', '=SUM(1;', '=SUM 1', '=SUM)', '=1+SUM', '=1+SUM(', '=IF', '=IF(', '=IF(1', '=IF(1;', '=IF(1;2',
    '=IF(1;2;', '=IF(1;2;3', '=IF 1', '=LEFT', '=LEFT(', '=LEFT("a"', '=LEFT("a";', '=LEFT("a";1', '=LEFT("a";1;2)',
    '=TODAY', '=TODAY(', '=TODAY)', '=1+TODAY()', '=MAX(1;MIN(2;3', '=MAX(1;MIN(2;3)', '=MAX(1;MIN(2;3))',
    '=MAX(MIN)', '=MAX(MIN())', '=SUMIF(A1:A3;">1";B1:B3;C1)', '=SUMIFS(B1:B3)', '=SUMIFS(B1:B3;A1:A3)',
    '=COUNTIFS()', '=INDEX(A1:B3)', '=INDEX()', '=VLOOKUP()', '=ADDRESS(1)', '=ADDRESS()', '=DATE()', '=DATE(1;2;3;4)',
    '=IFS(1)', '=IFS()', '=IFS(1;2;3)', '=ROUNDUP(1)', '=VALUE()', '=TEXT(1)', '=CONCATENATE()', '=SEARCH("a")',
    '=OR()', '=AND()', '=NETWORKDAYS(A1)', '=DATEDIF(A1;B1)', '=EDATE(A1)', '=EOMONTH(A1)', '=YEAR()', '=MONTH(1;2)',
    '=DAY()', '=COUNT()', '=COUNTBLANK()', '=COLUMN(1;2)', '=MATCH()', '=XMATCH(1)', '=MID("a")', '=RIGHT()',
    '=AVERAGE()', '=AVERAGEIFS(B1:B3)', '=IFERROR()', '=IFERROR(1;2;3)', '=ROUND()', '=MIN()', '=MAX()',
    '=SUM(1)SUM(2)', '=SUM(1)+SUM(2', '=SUM(1)+SUM(2)', '=1;2', '=1;', '=;', '=)', '=(', '=%', '=1%%1', '=&', '=1&',
    '=*1', '=/1', '=1*', '=1*/2', '=1<', '=<1', '=1<>', '=A1:A3:A5', '=SUM(A1:A3 A5)',
]


def main():
    in_cell = Cell(0, 0, 0)
    classes = list(CompositeBaseToken.subclasses())
    out('composite classes', [c.__name__ for c in classes])
    out('control constructions',
        sorted(t[0].__name__ for t in ControlConstructionCompositeBaseToken.get_token_sets()))

    lexed = []
    for formula in FORMULAS + EXTRA + TEXTS:
        kind, tokens = describe(lambda: Lexer.parse(formula, in_cell))
        if kind == 'ok':
            lexed.append((formula, tokens))
        else:
            out('L', repr(formula), tokens)

    # 1. every composite class on every token list (with and without the leading token), twice
    for formula, tokens in lexed:
        for label, token_list in (('whole', tokens), ('tail', tokens[1:])):
            for token_class in classes:
                for attempt in range(2):
                    before = list(token_list)
                    kind, result = describe(lambda: token_class.get(token_list, in_cell))
                    if token_list != before:
                        out('MUTATED INPUT', token_class.__name__, repr(formula))
                    if kind == 'exc':
                        out('C', label, token_class.__name__, repr(formula), 'EXC', result)
                        continue
                    token, rest = result
                    if token is None:
                        if rest is not token_list:
                            out('C', label, token_class.__name__, repr(formula), 'REST-NOT-SAME-OBJECT', rest)
                        continue
                    if attempt == 0:
                        out('C', label, token_class.__name__, repr(formula), tree(token), repr(rest))

    # 2. ast builder
    for formula, tokens in lexed:
        kind, result = describe(lambda: AstBuilder.parse(tokens, in_cell))
        out('A', repr(formula), kind, tree(result) if kind == 'ok' else result)

    # 3. whole translation, one workbook per formula
    with tempfile.TemporaryDirectory() as tmp:
        for number, formula in enumerate(FORMULAS + EXTRA):
            wb = Workbook()
            ws = wb.active
            ws.title = 'My sheet'
            wb.create_sheet('Sheet2')['A1'] = 7
            for row, (a, b, c) in enumerate([(1, 10, 'abc'), (2, 20, 'b'), (3, 30, None)], start=1):
                ws.cell(row, 1, a)
                ws.cell(row, 2, b)
                ws.cell(row, 3, c)
            ws['E1'] = formula
            path = os.path.join(tmp, f'w{number}.xlsx')
            wb.save(path)
            parser = Parser().set_excel_file_path(path).disable_safety_check()
            kind, result = describe(parser.get_translation)
            if kind == 'exc':
                out('W', repr(formula), 'EXC', result.replace(tmp, '<tmp>'))
                continue
            out('W', repr(formula), 'text', hashlib.sha256(result.encode()).hexdigest())
            py = os.path.join(tmp, f'w{number}.py')
            parser.write_translation(py)
            kind, executor = describe(lambda: Executor().set_executed_class(class_file=py))
            if kind == 'exc':
                out('W', repr(formula), 'LOAD-EXC', executor.replace(tmp, '<tmp>'))
                continue
            kind, result = describe(lambda: executor.get_cell(Cell(0, 4, 0)).value)
            if 'TODAY' in formula:
                result = type(result).__name__
            out('W', repr(formula), 'value', kind, repr(result))

    # 4. nesting depth: the longest chains that still parse (the recursion uses the same number of frames)
    def parses(formula):
        kind, result = describe(lambda: AstBuilder.parse(Lexer.parse(formula, in_cell), in_cell))
        return kind == 'ok', result if kind == 'exc' else 'ok'

    def longest(make, low=1, high=3000):
        assert parses(make(low))[0] and not parses(make(high))[0]
        while high - low > 1:
            middle = (low + high) // 2
            if parses(make(middle))[0]:
                low = middle
            else:
                high = middle
        return low, high, parses(make(high))[1][:80]

    out('D', 'plus chain', longest(lambda n: '=1' + '+1' * n))
    out('D', 'unary minus chain', longest(lambda n: '=' + '-' * n + '1'))
    out('D', 'SUM arguments', longest(lambda n: '=SUM(1' + ';1' * n + ')'))
    out('D', 'ampersand chain', longest(lambda n: '="a"' + '&A1' * n))

    text = '\n'.join(LINES)
    print(f'lines: {len(LINES)}')
    print(f'sha256: {hashlib.sha256(text.encode()).hexdigest()}')
    shown = [line for line in LINES if line[0] in 'LAWD' or ' EXC ' in line]
    print('\n'.join(shown))


if __name__ == '__main__':
    main()
