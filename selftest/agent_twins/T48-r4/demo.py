"""Equivalence demo for r4 (criteria_range / criteria pairing of _averageifs, _countifs, _sumifs in the
importable base class and in the emitted runtime).

Calls the three helpers of a trivial subclass of AbstractExcelInPython and of a freshly generated class
with the same (large) set of arguments -- well-formed, ragged, odd-length, wrongly typed --, checks that
the two classes agree and prints every result (value with type, or exception class and message) together
with the order in which the criteria were called.  Also evaluates SUMIFS / COUNTIFS / AVERAGEIFS formulas
of a workbook end to end.  Run: PYTHONPATH=<tree> /venv/bin/python demo.py
"""
import datetime
import hashlib
import itertools
import os
import shutil
import tempfile
import warnings

warnings.simplefilter('ignore')

from openpyxl import Workbook

from excel2pycl import Parser, Executor, Cell
from excel2pycl.src.object_loader import load_module
from excel2pycl.src.utilities.abstract_excel_in_python_class import AbstractExcelInPython

LINES = []


def out(*parts):
    LINES.append(' '.join(str(p) for p in parts))


def show(value):
    if isinstance(value, float):
        return 'float:' + repr(value)
    if isinstance(value, datetime.datetime):
        return 'dt:' + value.isoformat()
    if isinstance(value, (list, tuple)):
        return type(value).__name__ + ':[' + ', '.join(show(v) for v in value) + ']'
    return type(value).__name__ + ':' + repr(value)


def attempt(fn):
    try:
        return 'OK ' + show(fn())
    except BaseException as exc:  # noqa
        return 'EXC ' + type(exc).__name__ + ' ' + str(exc)


class Hand(AbstractExcelInPython):
    pass


EMPTY = object()   # placeholder replaced by the EmptyCell of the instance under test
CALLS = []


class Criteria:
    """A named, logging criteria callable (the generated code passes lambdas)."""

    def __init__(self, name, fn):
        self.name, self.fn = name, fn

    def __call__(self, value):
        CALLS.append((self.name, show(value)))
        return self.fn(value)

    def __repr__(self):
        return 'C<' + self.name + '>'


def materialise(obj, instance):
    if obj is EMPTY:
        return instance.EmptyCell()
    if isinstance(obj, list):
        return [materialise(o, instance) for o in obj]
    if isinstance(obj, tuple):
        return tuple(materialise(o, instance) for o in obj)
    return obj


def label(obj):
    if obj is EMPTY:
        return 'EMPTY'
    if isinstance(obj, (list, tuple)):
        return type(obj).__name__[0] + '[' + ','.join(label(o) for o in obj) + ']'
    return show(obj)


def col(*values):
    return [[v] for v in values]


D = datetime.datetime

TARGETS = [
    col(1, 2, 3, 4),
    col(10, 20.5, True, False),
    col(5, EMPTY, 7, 'text'),
    col(EMPTY, EMPTY, EMPTY, EMPTY),
    [[1, 2], [3, 4]],
    [1, 2, 3, 4],
    col('a', 'b', 'c', 'd'),
    col(None, 1, None, 2),
    col(D(2020, 1, 1), 1, 2, 3),
    col(1),
    [],
    [[]],
    'abcd',
    EMPTY,
    None,
    7,
]

RANGES = [
    col(1, 2, 3, 4),
    col('Tom', 'Sarah', 'tom', EMPTY),
    col(True, False, EMPTY, 0),
    col(EMPTY, EMPTY, EMPTY, EMPTY),
    [[5, 6], [7, 8]],
    [9, 8, 7, 6],
    col(1, 2, 3),
    col(1, 2, 3, 4, 5),
    col(3),
    [],
    None,
    'wxyz',
]


def criteria_set():
    return [
        Criteria('gt2', lambda v: v > 2),
        Criteria('is_tom', lambda v: v == 'Tom'),
        Criteria('zero', lambda v: v == 0),
        Criteria('always', lambda v: True),
        Criteria('never', lambda v: False),
        Criteria('is_int', lambda v: type(v) is int),
        Criteria('boom', lambda v: 1 / 0),
    ]


def helper_runs(instances):
    count = 0
    crits = criteria_set()

    def run(tag, call, args_label):
        nonlocal count
        results = []
        for instance in instances:
            del CALLS[:]
            res = attempt(lambda: call(instance))
            results.append((res, list(CALLS)))
        assert results[0] == results[1], (tag, args_label, results)
        out(tag, args_label, '=>', results[0][0], 'calls', hashlib.sha256(repr(results[0][1]).encode()).hexdigest()[:12],
            len(results[0][1]))
        count += 1

    count_conditions = [Criteria('cc_true', lambda v: True), Criteria('cc_num', lambda v: isinstance(v, (int, float))),
                        Criteria('cc_gt1', lambda v: v > 1)]

    for target in TARGETS:
        # no pairs at all
        run('AVG0', lambda inst: inst._averageifs(materialise(target, inst)), label(target))
        run('SUM0', lambda inst: inst._sumifs(materialise(target, inst)), label(target))
        for cc in count_conditions:
            run('CNT0', lambda inst: inst._countifs(materialise(target, inst), cc), label(target) + ' ' + repr(cc))
        # one pair, and a lone range without criteria (odd number of arguments)
        for rng in RANGES:
            run('AVG-odd', lambda inst: inst._averageifs(materialise(target, inst), materialise(rng, inst)),
                label(target) + ' ' + label(rng))
            run('SUM-odd', lambda inst: inst._sumifs(materialise(target, inst), materialise(rng, inst)),
                label(target) + ' ' + label(rng))
            run('CNT-odd', lambda inst: inst._countifs(materialise(target, inst), count_conditions[0],
                                                      materialise(rng, inst)), label(target) + ' ' + label(rng))
            for crit in crits:
                lab = label(target) + ' ' + label(rng) + ' ' + repr(crit)
                run('AVG1', lambda inst: inst._averageifs(materialise(target, inst), materialise(rng, inst), crit), lab)
                run('SUM1', lambda inst: inst._sumifs(materialise(target, inst), materialise(rng, inst), crit), lab)
                for cc in count_conditions:
                    run('CNT1', lambda inst: inst._countifs(materialise(target, inst), cc, materialise(rng, inst), crit),
                        lab + ' ' + repr(cc))

    # two and three pairs, odd tails, a criteria where a range is expected and the reverse
    small_targets = [TARGETS[0], TARGETS[1], TARGETS[2], TARGETS[4], TARGETS[9]]
    small_ranges = [RANGES[0], RANGES[1], RANGES[2], RANGES[4], RANGES[6], RANGES[8], RANGES[10]]
    for target in small_targets:
        for r1, r2 in itertools.product(small_ranges, repeat=2):
            for c1, c2 in itertools.product(crits[:5], repeat=2):
                lab = ' '.join([label(target), label(r1), repr(c1), label(r2), repr(c2)])
                run('AVG2', lambda inst: inst._averageifs(materialise(target, inst), materialise(r1, inst), c1,
                                                          materialise(r2, inst), c2), lab)
                run('SUM2', lambda inst: inst._sumifs(materialise(target, inst), materialise(r1, inst), c1,
                                                      materialise(r2, inst), c2), lab)
                run('CNT2', lambda inst: inst._countifs(materialise(target, inst), count_conditions[1],
                                                        materialise(r1, inst), c1, materialise(r2, inst), c2), lab)
            c1 = crits[0]
            lab = ' '.join([label(target), label(r1), repr(c1), label(r2)])
            run('AVG-tail', lambda inst: inst._averageifs(materialise(target, inst), materialise(r1, inst), c1,
                                                          materialise(r2, inst)), lab)
            run('SUM-tail', lambda inst: inst._sumifs(materialise(target, inst), materialise(r1, inst), c1,
                                                      materialise(r2, inst)), lab)
            run('CNT-tail', lambda inst: inst._countifs(materialise(target, inst), count_conditions[0],
                                                        materialise(r1, inst), c1, materialise(r2, inst)), lab)
            run('SUM3', lambda inst: inst._sumifs(materialise(target, inst), materialise(r1, inst), crits[3],
                                                  materialise(r2, inst), crits[0], materialise(r1, inst), crits[5]), lab)
        run('AVG-crit-first', lambda inst: inst._averageifs(materialise(target, inst), crits[0], col(1, 2, 3, 4)), label(target))
        run('SUM-crit-first', lambda inst: inst._sumifs(materialise(target, inst), crits[0], col(1, 2, 3, 4)), label(target))
        run('CNT-crit-first', lambda inst: inst._countifs(materialise(target, inst), count_conditions[0], crits[0],
                                                          col(1, 2, 3, 4)), label(target))
        run('SUM-range-as-crit', lambda inst: inst._sumifs(materialise(target, inst), col(1, 2, 3, 4), col(1, 2, 3, 4)),
            label(target))
        run('SUM-none-crit', lambda inst: inst._sumifs(materialise(target, inst), col(1, 2, 3, 4), None), label(target))

    # the caller's lists are left alone
    for instance in instances:
        target, rng = materialise(col(1, True, EMPTY, 4), instance), materialise(col(True, EMPTY, 'x', 2), instance)
        before = (show(target), show(rng))
        res = [attempt(lambda: instance._sumifs(target, rng, crits[3])),
               attempt(lambda: instance._averageifs(target, rng, crits[3])),
               attempt(lambda: instance._countifs(target, count_conditions[0], rng, crits[3]))]
        out('inputs-untouched', type(instance).__name__, before == (show(target), show(rng)), res)
    out('helper-cases', count)


def build_workbook(path):
    wb = Workbook()
    ws = wb.active
    ws.title = 'Sales'
    rows = [
        [5, 'Apples', 'Tom', True],
        [3, 'Apples', 'Sarah', False],
        [15, 'Artichokes', 'Tom', True],
        [3, 'Artichokes', 'Sarah', None],
        [22, 'Bananas', 'Tom', True],
        [12, 'Bananas', 'Sarah', False],
        [10, 'Carrots', 'Tom', None],
        [None, 'Carrots', 'Sarah', True],
    ]
    for r in rows:
        ws.append(r)
    formulas = [
        '=SUMIFS(A1:A8, C1:C8, "Tom")',
        '=SUMIFS(A1:A8, C1:C8, "Tom", B1:B8, "Bananas")',
        '=SUMIFS(A1:A8, B1:B8, "A*")',
        '=SUMIFS(A1:A8, A1:A8, ">10")',
        '=SUMIFS(A1:A8, A1:A8, "<10", D1:D8, TRUE())',
        '=SUMIFS(A1:A8, C1:C8, "Sarah", C1:C8, "Tom")',
        '=COUNTIFS(B1:B8, "Apples")',
        '=COUNTIFS(B1:B8, "Apples", A1:A8, ">3")',
        '=COUNTIFS(A1:A8, ">3", C1:C8, "Tom", B1:B8, "*an*")',
        '=COUNTIFS(B1:B8, "*")',
        '=COUNTIFS(A1:A8, "<>"&A2)',
        '=AVERAGEIFS(A1:A7, C1:C7, "Tom")',
        '=AVERAGEIFS(A1:A7, C1:C7, "Tom", A1:A7, ">5")',
        '=AVERAGEIFS(A1:A8, C1:C8, "Sarah")',
        '=AVERAGEIFS(A1:A7, B1:B7, "Zucchini")',
        '=AVERAGEIFS(A1:A7, D1:D7, TRUE())',
        '=SUMIFS(A1:A8, C1:C7, "Tom")',
        '=COUNTIFS(A1:A8, ">3", C1:C7, "Tom")',
        '=AVERAGEIFS(A1:A7, C1:C8, "Tom")',
        '=IFERROR(SUMIFS(A1:A8, C1:C7, "Tom"), "caught")',
    ]
    for n, f in enumerate(formulas):
        ws.cell(row=n + 1, column=6, value=f)
    wb.save(path)
    return len(formulas)


def main():
    tmp = tempfile.mkdtemp(prefix='t48r4_')
    try:
        xlsx = os.path.join(tmp, 'book.xlsx')
        py = os.path.join(tmp, 'book.py')
        n_formulas = build_workbook(xlsx)
        Parser().set_excel_file_path(xlsx).write_translation(py)
        generated = load_module(py).ExcelInPython()
        hand = Hand()

        def helpers(cls):
            return sorted(n for n, v in vars(cls).items() if n.startswith('_') and not n.startswith('__')
                          and not n[1:2].isdigit() and n != '_abc_impl')

        out('helpers-equal', helpers(AbstractExcelInPython) == helpers(type(generated)))
        helper_runs([hand, generated])

        ex = Executor().set_executed_class(class_file=py)
        for r in range(n_formulas):
            out('cell', r, attempt(lambda: ex.get_cell(Cell(0, 5, r)).value))
        ex.set_cells([Cell('Sales', 'A', '8', value=100), Cell('Sales', 'C', '2', value='Tom'),
                      Cell('Sales', 'D', '4', value=True), Cell('Sales', 'B', '9', value='Apples')])
        for r in range(n_formulas):
            out('cell-ov', r, attempt(lambda: ex.get_cell(Cell(0, 5, r)).value))
        out('grid', attempt(lambda: [[show(c.value) for c in row] for row in ex.get_sheet('Sales')]))
        grid = [[attempt(lambda: ex.get_cell(Cell('Sales', c, r)).value) for c in range(6)] for r in range(21)]
        out('grid-cellwise', hashlib.sha256(repr(grid).encode()).hexdigest())
    finally:
        shutil.rmtree(tmp, ignore_errors=True)

    text = '\n'.join(LINES)
    big = ('AVG', 'SUM', 'CNT')
    print('\n'.join(l for l in LINES if not l.startswith(big)))
    groups = {}
    for l in LINES:
        if l.startswith(big):
            tag = l.split(' ')[0]
            res = l.split(' => ')[1]
            kind = res.split(' calls ')[0]
            kind = ' '.join(kind.split(' ')[:2]) if kind.startswith('EXC') else kind
            groups.setdefault(tag, []).append((l, kind))
    for tag in sorted(groups):
        kinds = {}
        for _, k in groups[tag]:
            kinds[k] = kinds.get(k, 0) + 1
        print(tag, len(groups[tag]), hashlib.sha256('\n'.join(l for l, _ in groups[tag]).encode()).hexdigest()[:24],
              sorted(kinds.items())[:14])
    print('LINES', len(LINES))
    print('DIGEST', hashlib.sha256(text.encode()).hexdigest())


if __name__ == '__main__':
    main()
