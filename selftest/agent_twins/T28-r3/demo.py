"""Equivalence demo for r3 (Parser facade: when and how the translation is (re)built).

Drives Parser objects through many histories of set_excel_file_path / set_entrypoint_cell /
enable_safety_check / disable_safety_check / get_translation / write_translation calls, including failing
ones, counts how often the workbook is really re-read, compares the written file with the returned text,
and repeats the translations in child processes with different hash seeds and in concurrent threads.
Prints a deterministic digest that must not change with the refactoring.
"""
import hashlib
import os
import shutil
import subprocess
import sys
import tempfile
import threading

from openpyxl import Workbook

from excel2pycl import Cell, Executor, Parser
from excel2pycl.src.excel import Excel

LINES = []


def out(*parts):
    LINES.append(' '.join(str(p) for p in parts))


def sha(text):
    if text is None:
        return 'None'
    return hashlib.sha256(text.encode('utf-8')).hexdigest()[:20] + f'/{len(text)}'


def attempt(label, fn):
    try:
        out(label, '=>', fn())
    except Exception as e:  # noqa
        out(label, '=> EXC', type(e).__name__, str(e)[:200])


def make_books(tmp):
    books = {}

    wb = Workbook()
    ws = wb.active
    ws.title = 'Main'
    for r in range(1, 6):
        ws.cell(row=r, column=1, value=r)
        ws.cell(row=r, column=2, value=f'=A{r}*2')
    ws['C1'] = '=SUM(B1:B5)'
    ws['C2'] = '=IF(C1>10,"big","small")'
    ws['C3'] = "=VLOOKUP(3,A1:B5,2,0)+Second!A1"
    second = wb.create_sheet('Second')
    second['A1'] = 100
    second['A2'] = '=Main!C1+A1'
    books['a'] = os.path.join(tmp, 'a.xlsx')
    wb.save(books['a'])

    wb = Workbook()
    ws = wb.active
    ws.title = 'Main'
    ws['A1'] = 7
    ws['A2'] = '=A1+1'
    ws['B1'] = '=SUM(A1:A2)&"x"'
    books['b'] = os.path.join(tmp, 'b.xlsx')
    wb.save(books['b'])

    wb = Workbook()
    ws = wb.active
    ws.title = 'Main'
    ws['A1'] = 1
    ws['A2'] = 'print(1)'
    ws['A3'] = '=A1+2'
    ws['B1'] = '__import__(os)'
    books['unsafe'] = os.path.join(tmp, 'unsafe.xlsx')
    wb.save(books['unsafe'])

    wb = Workbook()
    ws = wb.active
    ws.title = 'Main'
    ws['A1'] = 1
    ws['A2'] = '=A1+'
    ws['A3'] = '=A1*3'
    books['broken'] = os.path.join(tmp, 'broken.xlsx')
    wb.save(books['broken'])

    wb = Workbook()
    ws = wb.active
    ws.title = 'Main'
    ws['A1'] = '=B1'
    ws['B1'] = '=A1'
    ws['C1'] = 5
    books['cycle'] = os.path.join(tmp, 'cycle.xlsx')
    wb.save(books['cycle'])

    books['missing'] = os.path.join(tmp, 'does_not_exist.xlsx')
    return books


class ParseCounter:
    """Counts real workbook reads without changing them."""

    def __init__(self):
        self.calls = []
        self._original = Excel.__dict__['parse']

    def __enter__(self):
        counter = self
        original = self._original.__func__

        def parse(cls, path):
            counter.calls.append(os.path.basename(str(path)))
            return original(cls, path)

        Excel.parse = classmethod(parse)
        return self

    def __exit__(self, *exc):
        Excel.parse = self._original
        return False


def history_part(tmp, books):
    with ParseCounter() as counter:
        def step(label, fn):
            before = len(counter.calls)
            attempt(label, fn)
            out('    reads', counter.calls[before:])

        p = Parser()
        step('H1 nothing set: get', lambda: sha(p.get_translation()))
        target = os.path.join(tmp, 'never.py')
        step('H1 nothing set: write', lambda: p.write_translation(target) is p)
        out('H1 file created', os.path.exists(target))
        step('H1 empty path', lambda: sha(p.set_excel_file_path('').get_translation()))
        step('H1 None path', lambda: sha(p.set_excel_file_path(None).get_translation()))
        step('H1 missing file', lambda: sha(p.set_excel_file_path(books['missing']).get_translation()))
        step('H1 missing file again', lambda: sha(p.get_translation()))
        step('H1 set a', lambda: sha(p.set_excel_file_path(books['a']).get_translation()))
        first = p.get_translation()
        step('H1 repeat', lambda: (sha(p.get_translation()), p.get_translation() is first))
        step('H1 set b', lambda: sha(p.set_excel_file_path(books['b']).get_translation()))
        step('H1 back to a', lambda: (sha(p.set_excel_file_path(books['a']).get_translation()),
                                      p.get_translation() == first))
        step('H1 same path set again', lambda: (sha(p.set_excel_file_path(books['a']).get_translation()),
                                                p.get_translation() is first))
        step('H1 chain identity', lambda: (p.enable_safety_check() is p, p.disable_safety_check() is p,
                                           p.set_entrypoint_cell(None) is p, p.set_excel_file_path(books['a']) is p))
        step('H1 after chain', lambda: sha(p.get_translation()))

        # entry points
        p = Parser().set_excel_file_path(books['a'])
        for entry in [Cell('Main', 'C', '1'), Cell('Main', 'C', '3'), Cell(1, 0, 1), Cell('Main', 'A', '1'),
                      Cell('Main', 'Z', '99'), None, Cell('Main', 'C', '1'), Cell('Nope', 'A', '1'),
                      Cell('Main', 'C', None), Cell('Second', 'A', '2')]:
            step(f'H2 entry {entry}', lambda: sha(p.set_entrypoint_cell(entry).get_translation()))
            step(f'H2 entry {entry} repeat', lambda: sha(p.get_translation()))
        step('H2 entry kept, path b', lambda: sha(p.set_excel_file_path(books['b']).get_translation()))
        step('H2 entry cleared', lambda: sha(p.set_entrypoint_cell(None).get_translation()))

        # safety setting
        p = Parser().set_excel_file_path(books['unsafe'])
        step('H3 default safety', lambda: sha(p.get_translation()))
        step('H3 default safety again', lambda: sha(p.get_translation()))
        step('H3 disabled', lambda: sha(p.disable_safety_check().get_translation()))
        step('H3 disabled again', lambda: sha(p.get_translation()))
        step('H3 enabled', lambda: sha(p.enable_safety_check().get_translation()))
        target = os.path.join(tmp, 'unsafe_out.py')
        step('H3 enabled write', lambda: p.write_translation(target) is p)
        out('H3 file created', os.path.exists(target))
        step('H3 disabled write', lambda: p.disable_safety_check().write_translation(target) is p)
        with open(target, encoding='utf-8') as f:
            out('H3 written equals returned', f.read() == p.get_translation())
        step('H3 safe book with safety', lambda: sha(p.enable_safety_check().set_excel_file_path(books['a'])
                                                      .get_translation()))
        step('H3 toggle without change of value', lambda: sha(p.enable_safety_check().get_translation()))
        step('H3 entry in unsafe book, safety off', lambda: sha(
            p.disable_safety_check().set_excel_file_path(books['unsafe']).set_entrypoint_cell(Cell('Main', 'A', '3'))
            .get_translation()))
        step('H3 entry in unsafe book, safety on', lambda: sha(p.enable_safety_check().get_translation()))

        # failing translations do not poison later ones
        p = Parser()
        step('H4 broken', lambda: sha(p.set_excel_file_path(books['broken']).get_translation()))
        step('H4 broken again', lambda: sha(p.get_translation()))
        step('H4 broken entry ok cell', lambda: sha(p.set_entrypoint_cell(Cell('Main', 'A', '3')).get_translation()))
        step('H4 broken entry bad cell', lambda: sha(p.set_entrypoint_cell(Cell('Main', 'A', '2')).get_translation()))
        step('H4 cycle', lambda: sha(p.set_entrypoint_cell(None).set_excel_file_path(books['cycle']).get_translation()))
        step('H4 cycle entry C1', lambda: sha(p.set_entrypoint_cell(Cell('Main', 'C', '1')).get_translation()))
        step('H4 recover', lambda: sha(p.set_entrypoint_cell(None).set_excel_file_path(books['b']).get_translation()))
        good = p.get_translation()
        step('H4 fail after success', lambda: sha(p.set_excel_file_path(books['broken']).get_translation()))
        step('H4 back to good', lambda: (sha(p.set_excel_file_path(books['b']).get_translation()),
                                         p.get_translation() == good))

        # the workbook changes on disk
        p = Parser()
        moving = os.path.join(tmp, 'moving.xlsx')
        shutil.copyfile(books['a'], moving)
        step('H5 first', lambda: sha(p.set_excel_file_path(moving).get_translation()))
        shutil.copyfile(books['b'], moving)
        step('H5 file replaced, no setter', lambda: sha(p.get_translation()))
        step('H5 file replaced, path set again', lambda: sha(p.set_excel_file_path(moving).get_translation()))
        os.remove(moving)
        step('H5 file removed, no setter', lambda: sha(p.get_translation()))
        step('H5 file removed, path set again', lambda: sha(p.set_excel_file_path(moving).get_translation()))

        # written file == returned text, and it runs
        for name in ('a', 'b'):
            p = Parser().set_excel_file_path(books[name])
            target = os.path.join(tmp, f'{name}_out.py')
            step(f'H6 write {name}', lambda: p.write_translation(target) is p)
            with open(target, 'rb') as f:
                raw = f.read()
            out(f'H6 {name} file', sha(raw.decode('utf-8')), raw == p.get_translation().encode('utf-8'))
            executor = Executor().set_executed_class(class_file=target)
            attempt(f'H6 {name} values', lambda: [[c.value for c in row] for row in executor.get_sheet(0)])
            step(f'H6 write {name} into missing dir',
                 lambda: p.write_translation(os.path.join(tmp, 'no_such_dir', 'x.py')) is p)
            step(f'H6 {name} after failed write', lambda: sha(p.get_translation()))

        # two parsers do not influence each other
        p1, p2 = Parser(), Parser()
        step('H7 p1 a', lambda: sha(p1.set_excel_file_path(books['a']).get_translation()))
        step('H7 p2 unsafe', lambda: sha(p2.set_excel_file_path(books['unsafe']).disable_safety_check()
                                         .get_translation()))
        step('H7 p1 still a', lambda: sha(p1.get_translation()))
        step('H7 p2 enable', lambda: sha(p2.enable_safety_check().get_translation()))
        step('H7 p1 entry', lambda: sha(p1.set_entrypoint_cell(Cell('Second', 'A', '2')).get_translation()))
        out('total reads', len(counter.calls))


def translations_of(books):
    result = []
    for name in ('a', 'b', 'unsafe'):
        parser = Parser().set_excel_file_path(books[name]).disable_safety_check()
        result.append(f'{name}:{sha(parser.get_translation())}')
        parser.set_entrypoint_cell(Cell(0, 0, 2))
        result.append(f'{name}@A3:{sha(parser.get_translation())}')
    return ' '.join(result)


def process_part(tmp, books):
    for seed in ('0', '1', '4242', 'random'):
        env = dict(os.environ, PYTHONHASHSEED=seed)
        done = subprocess.run([sys.executable, os.path.abspath(__file__), '--child', tmp], env=env,
                              capture_output=True, text=True)
        out(f'child seed={seed} rc={done.returncode}', done.stdout.strip())
    out('parent', translations_of(books))


def thread_part(books):
    expected = translations_of(books)
    results = {}
    barrier = threading.Barrier(6)

    def work(index):
        barrier.wait()
        collected = []
        for _ in range(3):
            collected.append(translations_of(books))
        results[index] = collected

    threads = [threading.Thread(target=work, args=(i,)) for i in range(6)]
    for t in threads:
        t.start()
    for t in threads:
        t.join()
    out('threads all equal to sequential',
        all(item == expected for i in sorted(results) for item in results[i]), len(results))
    out('threads value', expected)


def main():
    if len(sys.argv) > 2 and sys.argv[1] == '--child':
        tmp = sys.argv[2]
        books = {name: os.path.join(tmp, f'{name}.xlsx') for name in ('a', 'b', 'unsafe')}
        print(translations_of(books))
        return 0

    tmp = tempfile.mkdtemp(prefix='t28r3_')
    try:
        books = make_books(tmp)
        history_part(tmp, books)
        process_part(tmp, books)
        thread_part(books)
    finally:
        shutil.rmtree(tmp, ignore_errors=True)
    text = '\n'.join(LINES).replace(tmp, '<TMP>')
    print(text)
    print('lines', len(LINES))
    print('digest', hashlib.sha256(text.encode()).hexdigest())
    return 0


if __name__ == '__main__':
    sys.exit(main())
