"""Equivalence demonstration for the MATCH / XMATCH runtime helpers (both copies of the runtime class).

Run as: PYTHONPATH=<tree> /venv/bin/python demo.py
Prints a deterministic digest; must be identical on the unchanged and on the refactored tree.
"""
import datetime
import hashlib
import importlib.util
import itertools
import os
import shutil
import sys
import tempfile

from openpyxl import Workbook

from excel2pycl import Parser, Executor, Cell
from excel2pycl.src.context import Context
from excel2pycl.src.utilities.abstract_excel_in_python_class import AbstractExcelInPython


class ClassCopy(AbstractExcelInPython):
    pass


def template_copy():
    namespace = {}
    exec(compile(Context().build_class(), '<template>', 'exec'), namespace)
    return namespace['ExcelInPython']


def show(value):
    if isinstance(value, list):
        return '[' + ','.join(show(i) for i in value) + ']'
    return f'{type(value).__name__}:{value!r}'


def call(function, *args):
    try:
        return show(function(*args))
    except BaseException as error:  # noqa
        return 'raised ' + type(error).__name__ + ': ' + str(error)


class Odd:
    """A key that cannot be ordered and has no lower()."""

    def __repr__(self):
        return 'Odd()'


def arrays(empty):
    d = datetime.datetime
    yield 'asc_int', [[1], [2], [2], [5], [9]]
    yield 'desc_int', [[9], [5], [5], [2], [1]]
    yield 'asc_mixed_numbers', [[1], [2.0], [2], [3.5], [7]]
    yield 'floats', [[0.5], [1.5], [1.5], [2.5]]
    yield 'texts', [['apple'], ['Banana'], ['banana'], ['cherry']]
    yield 'texts_desc', [['cherry'], ['BANANA'], ['banana'], ['Apple']]
    yield 'mixed', [['a'], [1], [empty], [2.0], ['B'], [None], [True], [3], ['b']]
    yield 'with_empty', [[empty], [1], [empty], [3], [empty]]
    yield 'only_empty', [[empty], [empty]]
    yield 'nothing', []
    yield 'unsorted', [[5], [1], [4], [1], [9], [0]]
    yield 'bools', [[False], [True], [True]]
    yield 'dates', [[d(2020, 1, 1)], [d(2021, 1, 1)], [d(2021, 1, 1)], [d(2022, 6, 1)]]
    yield 'date_and_datetime', [[datetime.date(2020, 1, 1)], [d(2021, 1, 1)]]
    yield 'wide_rows', [[1, 'x'], [2, 'y'], [3, 'z']]
    yield 'bad_row', [[1], [], [3]]
    yield 'flat', [1, 2, 3]
    yield 'odd', [[Odd()], [1], ['a']]
    yield 'none_keys', [[None], [None]]
    yield 'text_numbers', [['1'], ['2'], ['10']]
    yield 'not_iterable', 5
    yield 'text_as_array', 'abc'


def lookups(empty):
    d = datetime.datetime
    return [0, 1, 2, 2.0, 3, 4.2, 9, 10, -1, 1.5, True, False, 'banana', 'BANANA', 'b', 'a', 'zebra', '', '2',
            empty, None, d(2021, 1, 1), d(2019, 1, 1), d(2030, 1, 1), datetime.date(2021, 1, 1), Odd(), float('nan')]


def direct(cls, label):
    lines = []
    instance = cls()
    empty = cls.EmptyCell()
    match_types = [0, 1, -1, 2, -3, 0.0, 1.5, -0.5, True, False, None, 'a', float('nan'), empty, [], Odd()]
    for (name, array), lookup, match_type in itertools.product(arrays(empty), lookups(empty), match_types):
        lines.append(f'{label} match {name} {show(lookup)} {show(match_type)} -> '
                     + call(instance._match, lookup, array, match_type))
    for (name, array), lookup in itertools.product(arrays(empty), lookups(empty)):
        lines.append(f'{label} match default {name} {show(lookup)} -> ' + call(instance._match, lookup, array))
        lines.append(f'{label} xmatch default {name} {show(lookup)} -> ' + call(instance._xmatch, lookup, array))

    match_modes = [0, -1, 1, 2, -1.0, 1.0, True, False, None, empty, 'x', [], float('nan')]
    search_modes = [1, -1, 2, -2, 0, 3, True, False, None, 2.0, -2.0, -1.0, 'x', empty, [], float('nan')]
    small_lookups = [0, 2, 2.0, 4.2, 10, -1, 'banana', 'B', 'zebra', empty, None, datetime.datetime(2021, 1, 1), Odd()]
    for (name, array), lookup, match_mode, search_mode in itertools.product(arrays(empty), small_lookups, match_modes,
                                                                            search_modes):
        lines.append(f'{label} xmatch {name} {show(lookup)} {show(match_mode)} {show(search_mode)} -> '
                     + call(instance._xmatch, lookup, array, match_mode, search_mode))
    return lines


def end_to_end(directory):
    wb = Workbook()
    ws = wb.active
    ws.title = 'keys'
    keys = [1, 2, 2, 5, 9, None, 12.5, 20]
    words = ['apple', 'Banana', 'banana', 'cherry', None, 'date', 'fig', 'Grape']
    down = [90, 70, 70, 50, 30, 10, 5, 1]
    partners = ['one', 'two', 'two again', 'five', 'nine', 'void', 'twelve', 'twenty']
    for row, (key, word, low, partner) in enumerate(zip(keys, words, down, partners), start=1):
        ws.cell(row=row, column=1, value=key)
        ws.cell(row=row, column=2, value=word)
        ws.cell(row=row, column=3, value=low)
        ws.cell(row=row, column=4, value=partner)

    formulas = []
    for lookup in ['0', '1', '2', '2.5', '5', '9', '12.5', '13', '20', '21', '70', '100', '"banana"', '"BANANA"',
                   '"cherry"', '"zzz"', '"a"', '""', 'TRUE', 'F1', 'F2', 'F3']:
        column = 'B' if lookup.startswith('"') or lookup == 'F2' else 'A'
        for match_type in ['0', '1', '-1', None]:
            tail = f';{match_type}' if match_type is not None else ''
            formulas.append(f'=MATCH({lookup};{column}1:{column}8{tail})')
            formulas.append(f'=MATCH({lookup};C1:C8{tail})')
        for match_mode, search_mode in itertools.product(['0', '-1', '1'], ['1', '-1', '2', '-2', '3', None]):
            tail = f';{match_mode}' + (f';{search_mode}' if search_mode is not None else '')
            formulas.append(f'=XMATCH({lookup};{column}1:{column}8{tail})')
        formulas.append(f'=XMATCH({lookup};{column}1:{column}8)')
        formulas.append(f'=INDEX(D1:D8;MATCH({lookup};{column}1:{column}8;0))')
        formulas.append(f'=IFERROR(INDEX(D1:D8;MATCH({lookup};{column}1:{column}8;1));"none")')
        formulas.append(f'=VLOOKUP({lookup};A1:D8;4;FALSE)')
        formulas.append(f'=VLOOKUP({lookup};A1:D8;4;TRUE)')
    ws['F1'] = 5
    ws['F2'] = 'FIG'
    # F3 stays empty
    for row, formula in enumerate(formulas, start=1):
        ws.cell(row=row, column=8, value=formula)

    xlsx = os.path.join(directory, 'lookup.xlsx')
    module = os.path.join(directory, 'lookup_translation.py')
    wb.save(xlsx)
    Parser().set_excel_file_path(xlsx).write_translation(module)
    executor = Executor().set_executed_class(class_file=module)

    lines = []
    for row, formula in enumerate(formulas):
        try:
            value = show(executor.get_cell(Cell(0, 7, row)).value)
        except BaseException as error:  # noqa
            value = 'raised ' + type(error).__name__ + ': ' + str(error)
        lines.append(f'e2e {formula} -> {value}')

    executor.set_cells([Cell(0, 5, 0, value=9), Cell(0, 5, 1, value='banana'), Cell(0, 0, 0, value=2)])
    for row, formula in enumerate(formulas):
        if 'F1' in formula or 'F2' in formula or ';A1:' in formula:
            try:
                value = show(executor.get_cell(Cell(0, 7, row)).value)
            except BaseException as error:  # noqa
                value = 'raised ' + type(error).__name__ + ': ' + str(error)
            lines.append(f'e2e overridden {formula} -> {value}')
    return lines


def main():
    lines = []
    lines += direct(ClassCopy, 'class')
    lines += direct(template_copy(), 'template')
    class_lines = [line.split(' ', 1)[1] for line in lines if line.startswith('class ')]
    template_lines = [line.split(' ', 1)[1] for line in lines if line.startswith('template ')]
    lines.append(f'copies agree: {class_lines == template_lines}')

    directory = tempfile.mkdtemp(prefix='t57_r2_')
    try:
        sys.dont_write_bytecode = True
        lines += end_to_end(directory)
    finally:
        shutil.rmtree(directory, ignore_errors=True)

    for line in lines:
        if line.startswith('e2e') or line.startswith('copies'):
            print(line)
    # a sample of the direct calls in clear, all of them in the digest
    for line in lines[::997]:
        print(line)
    print('lines', len(lines))
    print('sha256', hashlib.sha256('\n'.join(lines).encode('utf-8')).hexdigest())


if __name__ == '__main__':
    main()
