"""Equivalence demo for the safety gate (C19): fragment extraction + workbook scan.

Run as: PYTHONPATH=<tree> /venv/bin/python demo.py
Prints a deterministic digest; must be identical on the unchanged and on the refactored tree.
"""
import datetime
import hashlib
import itertools
import os
import shutil
import tempfile

from openpyxl import Workbook

from excel2pycl import Parser
from excel2pycl.src.excel import Excel

LINES = []


def emit(*parts):
    LINES.append(' | '.join(str(p) for p in parts))


# ---------------------------------------------------------------- 1. direct calls
HAND_MADE = [
    '', ' ', '()', '(', ')', 'a', 'A', 'a(', 'a)', 'a()', 'A()', 'aA()', 'Aa()', 'a1()', '1()', '_()', '__import__("os")',
    'eval(1)', 'EVAL(1)', 'Eval(1)', 'eVAL(1)', 'evaL(1)', 'eval (1)', 'eval\n(1)', 'eval(\n)', 'eval(1\n)', 'a(\n)b()',
    'os.system("rm -rf /")', 'OS.system(1)', 'os.SYSTEM(1)', 'os.System(1)',
    '=SUM(A1:A3)', '=sum(A1:A3)', '=Sum(A1:A3)', '=SUM(a1:a3)', '=IF(A1>0,SUM(B1:B2),max(C1:C2))',
    '=SUM(A1)+eval(2)+MIN(B2)+exec(3)', 'f(g(h(1)))', 'F(g(H(1)))', 'f(G(1))', 'f(G(1)) g(2)', 'fG(1)', 'Gf(1)',
    'x(y)z(w)', 'x(Y())', 'x(Y()) Z()', 'abc(DEF(', 'abc(DEF()', 'abc(DEF())', 'ABC(def())', 'ABC(def()) ghi()',
    'print(1);print(2)', 'print(1);PRINT(2)', 'a_b(1)', 'A_B(1)', 'A_b(1)', '_A(1)', 'A_(1)', '9A(1)', 'A9(1)', '9a(1)',
    'a9(1)', 'Ab9(1)', 'ab9C(1)', 'ab9C(d(1))', 'ab(C(1))', 'ab(C(1)', 'ab(C1)', 'ab(c)D(e)', 'ab(c)d(E())',
    'привет(1)', 'éval(1)', 'ÉVAL(1)', 'eval(1)' * 5, 'x' * 300 + '(1)', 'X' * 300 + '(1)', 'a(' + ')' * 20, 'a' + '(' * 20 + ')',
    'a()b()c()', 'A()b()C()', 'a ( )', 'a\t()', 'lambda: f()', '"text with call()"', "'quoted(1)'", 'f(x)=1', 'm(1)(2)', 'M(1)(2)',
    'm(1) (2)', 'm((1))', 'M((1))', 'm(())', 'a.b.c(d.e(f))', 'A.B.C(D.E(F))', 'a.B(c)', 'A.b(C)', 'a(B)', 'a(B())',
    '0(1)', '00(A())', '_9(Z(1))', 'Z(_9(1))', 'zZ(1)zz(2)ZZ(3)', 'zz(ZZ(3)', 'zz(ZZ)(3)', 'zz(ZZ)( 3)',
]
OTHER_VALUES = [0, 1, -1, 1.5, True, False, None, datetime.datetime(2020, 1, 2, 3, 4, 5), datetime.date(2020, 1, 2),
                datetime.time(1, 2), ['f(1)'], ('g(2)', 'H(3)'), {'k(1)': 'V(2)'}, b'bytes(1)', 12345678901234567890, float('inf')]

for value in HAND_MADE + OTHER_VALUES:
    try:
        result = Excel._get_suspicious_constructions(value)
        emit('direct', repr(value)[:70], type(result).__name__, result)
    except Exception as e:  # pragma: no cover - digest whatever happens
        emit('direct', repr(value)[:70], 'EXC', type(e).__name__, e)

# systematic: every string over a small alphabet, length <= 5
ALPHABET = 'aB1_() \n'
digest = hashlib.sha256()
count = 0
hits = 0
for length in range(0, 6):
    for chars in itertools.product(ALPHABET, repeat=length):
        text = ''.join(chars)
        result = Excel._get_suspicious_constructions(text)
        digest.update(repr((text, result)).encode())
        count += 1
        hits += bool(result)
emit('systematic', count, hits, digest.hexdigest())

# systematic 2: concatenations of fragments
PIECES = ['ab', 'AB', 'aB', '9', '_', '(', ')', '(x)', '(X)', '()', '.', ' ', '=', ',']
digest = hashlib.sha256()
count = hits = 0
for length in range(1, 5):
    for pieces in itertools.product(PIECES, repeat=length):
        text = ''.join(pieces)
        result = Excel._get_suspicious_constructions(text)
        digest.update(repr((text, result)).encode())
        count += 1
        hits += bool(result)
emit('pieces', count, hits, digest.hexdigest())

# ---------------------------------------------------------------- 2. workbooks
tmp_dir = tempfile.mkdtemp(prefix='t20_r1_')
try:
    def build(name, sheets):
        wb = Workbook()
        wb.remove(wb.active)
        for title, cells in sheets:
            ws = wb.create_sheet(title)
            for address, value in cells.items():
                ws[address] = value
        path = os.path.join(tmp_dir, name + '.xlsx')
        wb.save(path)
        wb.close()
        return path

    WORKBOOKS = {
        'clean': [('Data', {'A1': 1, 'B1': 2, 'C1': '=SUM(A1:B1)', 'A2': 'plain text', 'B2': '=IF(A1>1,MAX(A1,B1),MIN(A1,B1))'})],
        'one_bad': [('Data', {'A1': 1, 'B1': 'eval(1)', 'C1': '=SUM(A1:A1)'})],
        'many_bad': [
            ('First sheet', {'A1': 'os.system("ls")', 'B2': 'print(1);exec(2)', 'C3': '=SUM(A1:A2)', 'D4': 'Mixed(1) UPPER(2) lower(3)',
                             'AA10': '__import__("os")', 'E5': 'no call here', 'F6': 0, 'G7': '', 'H8': 'f(G(1))'}),
            ("it's", {'A1': 'getattr(x, "y")', 'B1': '=MAX(A1:A1)', 'C1': 'SUM(open(1))', 'Z1': 'open(SUM(1))'}),
            ('Пустой', {}),
            ('Last', {'B2': 5, 'C2': 'zz(1)', 'A3': 'zz(1)', 'A1': 'aa()'}),
        ],
        'only_upper': [('S', {'A1': 'SUM(1)', 'A2': 'TEXT LIKE THIS(really)', 'A3': '=MIN(A1:A1)', 'A4': 'X(y(1))'})],
        'numbers': [('N', {'A1': 0, 'B1': 1.5, 'C1': True, 'D1': False, 'E1': datetime.datetime(2021, 5, 6), 'A2': '0', 'B2': 'f(0)'})],
        'lower_formula': [('L', {'A1': 2, 'B1': '=sum(A1:A1)', 'C1': '=Sum(A1:A1)'})],
    }

    for name, sheets in WORKBOOKS.items():
        path = build(name, sheets)
        excel = Excel.parse(path)
        emit('parse', name, 'titles', excel.get_titles())
        emit('parse', name, 'sizes', excel.get_sheets_size())
        emit('parse', name, 'suspicious', list(excel._suspicious_cells.items()))
        emit('parse', name, 'data', hashlib.sha256(repr(excel._data).encode()).hexdigest())
        try:
            emit('is_safe', name, excel.is_safe())
        except Exception as e:
            emit('is_safe', name, type(e).__name__, getattr(e, 'suspicious_cells', None), repr(str(e)))

        for mode in ('default', 'enabled', 'disabled', 'disabled_then_enabled'):
            parser = Parser().set_excel_file_path(path)
            if mode == 'enabled':
                parser.enable_safety_check()
            elif mode == 'disabled':
                parser.disable_safety_check()
            elif mode == 'disabled_then_enabled':
                parser.disable_safety_check().enable_safety_check()
            try:
                translation = parser.get_translation()
                emit('parser', name, mode, 'OK', hashlib.sha256(translation.encode()).hexdigest())
            except Exception as e:
                emit('parser', name, mode, type(e).__name__, [c.__name__ for c in type(e).__mro__][:4],
                     list(getattr(e, 'suspicious_cells', {'-': '-'}).items()), repr(str(e))[:400])
finally:
    shutil.rmtree(tmp_dir, ignore_errors=True)

emit('tmp removed', not os.path.exists(tmp_dir))
print('\n'.join(LINES))
print('TOTAL', len(LINES), hashlib.sha256('\n'.join(LINES).encode()).hexdigest())
