"""
Equivalence demo for r1 (reference tokens: sheet title helper, named corner cells).

Exercises MatrixOfCellIdentifiersToken / CellIdentifierRangeToken / CellIdentifierToken directly, through the
lexer and end to end (workbook -> generated class -> evaluated values) and prints a deterministic digest.
"""
import hashlib
import os
import sys
import tempfile
import warnings

warnings.simplefilter('ignore')

from openpyxl import Workbook

from excel2pycl import Parser, Executor, Cell
from excel2pycl.src.lexer import Lexer
from excel2pycl.src.tokens import MatrixOfCellIdentifiersToken, CellIdentifierRangeToken, CellIdentifierToken

LINES = []


def out(*parts):
    LINES.append(' '.join(str(p) for p in parts))


def show(value):
    return f'{type(value).__name__}:{value!r}'


def attempt(label, func):
    try:
        out(label, '->', func())
    except Exception as exc:  # noqa
        out(label, '!!', type(exc).__name__, str(exc)[:300])


# ---------------------------------------------------------------- part A: the token classes called directly
REFERENCES = [
    'A1', '$A$1', 'A$1', '$A1', 'XFD1048576', 'AA10', 'Sheet1!A1', "'My Sheet'!B2", "'My Sheet'!$B$2", 'Other!$C3',
    "''!A1", '!A1', "'a!b'!A1", "'It''s'!A1", 'Лист!A1', "'Лист 2'!A1", 'Sheet_1!ZZ99', '1!A1', "'1'!A1",
    'A1:A5', 'A1:D1', 'A1:B2', '$A$1:$B$2', 'A:A', 'A:C', '$A:$C', 'A1:A', 'A:A5', 'Other!A1:A3', "'My Sheet'!A1:B2",
    "'My Sheet'!A:A", 'Other!$A$1:$A$3', 'B2:A1', 'XFC1:XFD2', 'A1:A5+1', 'A1:D1)', 'A1:B2;3', 'A1+B2', 'A1:B2:C3',
    'A1 ', 'A1)', 'A10', 'A1B', 'a1', 'A', '1', '', 'A1:', ':A1', "'x'A1", "Other!'A1'", 'Other!Other!A1',
    "'My Sheet'!A1:'My Sheet'!B2", 'A1:B', 'AB12:AB15', 'AB12:AD12', 'C3:C3', '$C$3:$C$3', 'A01', 'A0',
]
IN_CELLS = [Cell(0, 0, 0), Cell('Main', 'F', '7'), Cell(3, 2, 9), None]

for token_class, attribute in ((MatrixOfCellIdentifiersToken, 'matrix'), (CellIdentifierRangeToken, 'range'),
                               (CellIdentifierToken, 'cell')):
    for reference in REFERENCES:
        for in_cell in IN_CELLS:
            def run(token_class=token_class, attribute=attribute, reference=reference, in_cell=in_cell):
                token, rest = token_class.get(reference, in_cell)
                if token is None:
                    return f'no match, rest={rest!r}'
                first = getattr(token, attribute)
                second = getattr(token, attribute)
                same = first is second
                cells = first if isinstance(first, tuple) else (first,)
                described = [(c.title, c.column, c.row, c.value, c.has_handled_identifiers()) for c in cells]
                return f'{token!r} value={token.value!r} cells={described!r} cached={same} rest={rest!r}'
            attempt(f'A {token_class.__name__} {reference!r} in {in_cell!r}', run)

# ---------------------------------------------------------------- part B: the lexer
FORMULAS = [
    '=A1', '=$A$1+B$2+$C3', '=SUM(A1:A5)', '=SUM(A1:D1)', '=SUM(A1:B2)', '=SUM(A:A)', '=SUM(A:B)',
    "=Other!A1+'My Sheet'!B2", "=SUM('My Sheet'!A1:B2)", '=SUM(Other!$A$1:$A$3)', '=A1:A', '=Nope!A1',
    "=VLOOKUP(2;Other!A1:B3;2)", "=INDEX((A1:B2;C1:D2);1;1;2)", '=A1:A5&B1:B5', "='Sheet-2'!A1*2",
    '=SUM(A1:A5;Other!A1:A3;XFD1)', '=MATCH(3;Other!A:A;0)', "=COUNTIFS('My Sheet'!A1:A3;\"x\")",
    '=SUMIF(A1:A5;">20";B1:B5)', '=Лист!A1+1', "=IF(Other!A1=1;'My Sheet'!B2;Main!A1)",
]
for formula in FORMULAS:
    for in_cell in (Cell(0, 5, 0), Cell('Other', 'B', '2')):
        attempt(f'B lex {formula!r} in {in_cell!r}', lambda: repr(Lexer.parse(formula, in_cell)))

# ---------------------------------------------------------------- part C: end to end
def build_workbook(path):
    wb = Workbook()
    main = wb.active
    main.title = 'Main'
    for row in range(1, 7):
        for column in range(1, 5):
            if (row, column) in ((3, 2), (5, 4)):
                continue  # never written cells inside the area
            main.cell(row, column, row * 10 + column)
    main['A6'] = 'text'
    main['XFD1'] = 7
    main['AB12'] = 1
    main['AB13'] = 2
    main['AC12'] = 4
    other = wb.create_sheet('Other')
    for row in range(1, 4):
        other.cell(row, 1, row)
        other.cell(row, 2, f'v{row}')
    my = wb.create_sheet('My Sheet')
    my['A1'] = 1
    my['B2'] = 7
    my['A2'] = 'x'
    my['A3'] = 'X'
    dash = wb.create_sheet('Sheet-2')
    dash['A1'] = 21
    cyr = wb.create_sheet('Лист')
    cyr['A1'] = 100
    digits = wb.create_sheet('2024')
    digits['A1'] = 5
    under = wb.create_sheet('Sheet_1')
    under['ZZ99'] = 3
    return wb


E2E_FORMULAS = [
    '=A1', '=$A$1', '=A$1+$B2', '=B3', '=D5', '=E9', '=XFD1', '=XFD1+A1', '=SUM(A1:A5)', '=SUM(A1:D1)', '=SUM(A1:B2)',
    '=SUM($A$1:$B$2)', '=SUM(A:A)', '=SUM(A:B)', '=SUM(A1:D6)', '=SUM(B2:A1)', '=SUM(A1:A)', '=SUM(A:A5)',
    '=Other!A1', '=Other!A3+Other!$A$2', "='My Sheet'!B2", "='My Sheet'!$B$2*2", "=SUM('My Sheet'!A1:B2)",
    "=SUM('My Sheet'!A:A)", '=SUM(Other!$A$1:$A$3)', '=SUM(Other!A:A)', "='Sheet-2'!A1", '=Sheet-2!A1', '=Лист!A1',
    "='Лист'!A1+1", '=2024!A1', "='2024'!A1", '=Sheet_1!ZZ99', '=Nope!A1', "='No pe'!A1", '=SUM(Nope!A1:A2)',
    '=main!A1', "=''!A1", '=Main!A1', '=Main!A1:A3', '=A1:A3', '=VLOOKUP(2;Other!A1:B3;2)',
    '=VLOOKUP(3;Other!A1:B3;2;0)', '=INDEX(Other!A1:B3;2;2)', '=INDEX((A1:B2;C1:D2);1;1;2)', '=MATCH(3;Other!A:A;0)',
    '=MATCH(31;A1:A5;0)', "=COUNTIFS('My Sheet'!A1:A3;\"x\")", '=SUMIF(A1:A5;">20";B1:B5)', '=SUMIF(Other!A1:A3;">1")',
    '=COUNTBLANK(A1:D6)', '=COUNT(A1:D6)', '=MAX(A1:D5)', '=MIN(Other!A1:A3;A1)', '=AVERAGE(AB12:AB13)',
    '=SUM(AB12:AC12)', '=SUM(AB12:AC13)', '=SUM(A1:A5;Other!A1:A3;XFD1)', '=COLUMN(C1)', '=COLUMN(B1:B3)',
    "=IF(Other!A1=1;'My Sheet'!B2;Main!A1)", '=CONCATENATE(Other!B1;Other!B2;A6)', '=A6&Other!B3',
    '=SUM(A1:A5)+SUM(Other!A1:A3)', "=AVERAGEIFS(B1:B5;A1:A5;\">10\")", "=SUMIFS(B1:B5;A1:A5;\">10\";C1:C5;\"<50\")",
]

with tempfile.TemporaryDirectory() as tmp:
    xlsx = os.path.join(tmp, 'book.xlsx')
    generated = os.path.join(tmp, 'generated.py')
    for number, formula in enumerate(E2E_FORMULAS):
        for sheet_title, address in (('Main', 'F8'), ('Other', 'D2')):
            wb = build_workbook(xlsx)
            wb[sheet_title][address] = formula
            wb.save(xlsx)
            wb.close()
            label = f'C {formula!r} at {sheet_title}!{address}'
            try:
                text = Parser().set_excel_file_path(xlsx).set_entrypoint_cell(
                    Cell(sheet_title, address[0], address[1:])).get_translation()
                with open(generated, 'w', encoding='utf-8') as f:
                    f.write(text)
                executor = Executor().set_executed_class(class_file=generated)
                before = executor.get_cell(Cell(sheet_title, address[0], address[1:])).value
                executor.set_cells([Cell('Main', 'A', '1', value=1000), Cell('Other', 0, 0, value=-5),
                                    Cell('My Sheet', 'B', '2', value=0.5), Cell(0, 1, 2, value=9)])
                after = executor.get_cell(Cell(sheet_title, address[0], address[1:])).value
                out(label, '->', show(before), '| overridden ->', show(after), '| text',
                    hashlib.sha256(text.encode()).hexdigest()[:16])
            except Exception as exc:  # noqa
                out(label, '!!', type(exc).__name__, str(exc)[:300])

    # whole-file translation of one workbook with many reference forms at once
    wb = build_workbook(xlsx)
    good = ['=A1', '=SUM(A1:A5)', '=SUM(A:B)', "=SUM('My Sheet'!A1:B2)", '=Other!A3+Лист!A1', "='Sheet-2'!A1+'2024'!A1",
            '=SUM(AB12:AC13)+XFD1', '=Sheet_1!ZZ99', '=INDEX(Other!A1:B3;2;2)', '=SUM(F1:F3)']
    for index, formula in enumerate(good):
        wb['Main'].cell(index + 1, 6, formula)
    wb.save(xlsx)
    wb.close()
    text = Parser().set_excel_file_path(xlsx).write_translation(generated).get_translation()
    out('C whole file text', hashlib.sha256(text.encode()).hexdigest(), len(text))
    executor = Executor().set_executed_class(class_file=generated)
    for index in range(len(good)):
        out('C whole file', good[index], '->', show(executor.get_cell(Cell(0, 5, index)).value))
    for title in ('Other', 'My Sheet', 'Лист'):
        sheet = executor.get_sheet(title)
        out('C sheet', title, [[show(c.value) for c in row] for row in sheet])
    left_over = os.listdir(tmp)
    out('temp files before cleanup', sorted(left_over))

out('temp dir removed', not os.path.exists(tmp))
print('\n'.join(LINES))
print('DIGEST', hashlib.sha256('\n'.join(LINES).encode()).hexdigest(), 'lines', len(LINES))
sys.exit(0)
