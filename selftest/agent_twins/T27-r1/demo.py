"""Equivalence demo for r1: Excel._get_suspicious_constructions (the safety gate's detector).

Calls the detector directly on many values and runs the whole gate (Parser with the safety check
enabled / disabled) on generated workbooks.  Prints a deterministic digest.
"""
import datetime
import hashlib
import os
import random
import shutil
import tempfile

from openpyxl import Workbook

from excel2pycl import Parser
from excel2pycl.src.excel import Excel
from excel2pycl.src.exceptions import E2PyclSafetyException

FIXED = [
    '', ' ', 'plain text', 'eval(1)', 'eval()', 'os.system("rm -rf /")', '__import__("os").system("x")',
    '=SUM(A1:A3)', '=SUM(A1:A3)+eval(1)', '=sum(A1:A3)', '=Sum(A1)', '=sUM(A1)', '=SUMx(A1)', '=xSUM(A1)',
    '=IF(A1>0;print(1);2)', '=IF(A1>0;MAX(1;2);2)', 'f(', 'f)', '()', '(x)', '1(2)', '_(_)', 'a_b1(c)',
    'A(', 'A()', 'a()', 'aA()', 'Aa()', 'a A()', 'a.A()', 'A.a()', 'é(1)', 'Ж(1)', 'SUMÉ(1)', 'f(g(h(1)))',
    'F(g(1))', 'f(G(1))', 'f(1) G(2) h(3)', 'F(1)G(2)', 'f(1)g(2)', 'f(\n)', 'f(1\n)', 'f\n(1)', 'f (1)',
    'f\t(1)', 'x=f(1);y=G(2)', 'lambda: f(1)', 'TRUE()', 'true()', 'A1(2)', 'a1(2)', '1A(2)', '1a(2)',
    '=A1*(B1+C1)', '=A1(B1+C1)', '=a1*(b1+c1)', '=ROUND(A1;2)*exec(B1)', 'SUM(exec(1))', 'exec(SUM(1))',
    'exec(SUM(1)) SUM(2)', 'f(1)' * 5, 'F(1)' * 5, 'f(' * 5 + ')' * 5, 'X' * 50 + '(1)', 'x' * 50 + '(1)',
    '"f(1)"', "'f(1)'", '=CONCATENATE("f(1)";"b")', '=concatenate("F(1)")', 'a(b)c(d)E(f)g(H(i))',
    'os.system(SUM(1))', 'OS.SYSTEM(1)', 'Os.System(1)', 'os.SYSTEM(1)', '9(9)', 'Z9(9)', 'z9(9)', 'Z_(9)', '_Z(9)',
]
NON_STRINGS = [0, 1, -1, 1.5, -2.25, 1e100, True, False, None, datetime.datetime(2020, 1, 2, 3, 4, 5),
               datetime.date(2021, 2, 3), datetime.time(1, 2, 3), b'f(1)', ('f(1)',), ['F(1)'], {'f(1)': 'G(2)'}]


def generated(count: int):
    rnd = random.Random(20260930)
    alphabet = ['a', 'b', 'A', 'B', '_', '1', '0', '(', ')', '(', ')', '.', ' ', '=', ';', '"', '\n', 'é', 'SUM', 'eval']
    for _ in range(count):
        yield ''.join(rnd.choice(alphabet) for _ in range(rnd.randint(0, 14)))


def digest(text: str) -> str:
    return hashlib.sha256(text.encode('utf-8')).hexdigest()[:16]


def direct_calls():
    print('== direct calls')
    values = FIXED + NON_STRINGS + list(generated(1500))
    lines = []
    for value in values:
        try:
            result = Excel._get_suspicious_constructions(value)
            line = f'{value!r} -> {type(result).__name__} {result!r}'
        except Exception as e:  # noqa
            line = f'{value!r} -> raised {type(e).__name__}: {e}'
        lines.append(line)
    for line in lines[:len(FIXED) + len(NON_STRINGS)]:
        print(line)
    print('generated digest', digest('\n'.join(lines)), len(lines))


def run_gate(path: str, name: str):
    for mode in ('enabled', 'disabled', 'default'):
        parser = Parser().set_excel_file_path(path)
        if mode == 'enabled':
            parser.enable_safety_check()
        elif mode == 'disabled':
            parser.disable_safety_check()
        try:
            text = parser.get_translation()
            print(name, mode, 'translated', digest(text))
        except E2PyclSafetyException as e:
            print(name, mode, 'SAFETY', type(e).__mro__[1].__name__)
            for key, fragments in e.suspicious_cells.items():
                print('   ', key, fragments)
            print('    message digest', digest(str(e)))
        except Exception as e:  # noqa
            print(name, mode, 'raised', type(e).__name__, digest(str(e)))


def workbooks(tmp: str):
    print('== workbooks')
    # 1. every fixed value in its own cell, several sheets with unusual titles
    wb = Workbook()
    titles = ['Sheet1', "it's", 'Лист 2', 'a(b)', 'eval(1)']
    sheets = [wb.active] + [wb.create_sheet() for _ in titles[1:]]
    for sheet, title in zip(sheets, titles):
        sheet.title = title
    safe_values = [v for v in FIXED if '\n' not in v]
    for index, value in enumerate(safe_values):
        sheet = sheets[index % len(sheets)]
        sheet.cell(row=index // 7 + 1, column=index % 7 + 1).value = value
    sheets[0].cell(row=40, column=30).value = 12.5
    sheets[1].cell(row=41, column=2).value = datetime.datetime(2020, 5, 6)
    sheets[2].cell(row=42, column=3).value = True
    path = os.path.join(tmp, 'all.xlsx')
    wb.save(path)
    run_gate(path, 'all')

    # 2. only excel calls and plain cells: never rejected
    wb = Workbook()
    ws = wb.active
    ws.title = 'Only Excel'
    for index, value in enumerate([1, 2, 3, '=SUM(A1:A3)', '=IF(A1>1;MAX(A1;A2);MIN(A1;A2))', 'text', '=A1*(A2+A3)',
                                   '=ROUND(A1/3;2)', True, None, 'TRUE()']):
        ws.cell(row=index + 1, column=1).value = value
    path = os.path.join(tmp, 'clean.xlsx')
    wb.save(path)
    run_gate(path, 'clean')

    # 3. one offending cell each, at boundary addresses
    for number, (address, value) in enumerate([('A1', 'eval(1)'), ('XFD1', 'os.system("x")'), ('A1048', 'f(1) G(2) h(3)'),
                                               ('AA27', '=SUM(A1)+exec(2)'), ('B2', '=sum(A1)'),
                                               ('C3', 'F(g(1))'), ('D4', 'f(G(1))')]):
        wb = Workbook()
        ws = wb.active
        ws.title = f"T{number} 'q'"
        ws['A2'] = 3
        ws[address] = value
        path = os.path.join(tmp, f'one{number}.xlsx')
        wb.save(path)
        run_gate(path, f'one{number}')

    # 4. pseudo-random workbooks
    rnd = random.Random(7)
    pool = [v for v in list(generated(400)) if '\n' not in v and v.strip()] + safe_values
    for number in range(6):
        wb = Workbook()
        ws = wb.active
        ws.title = f'R{number}'
        other = wb.create_sheet(f'R{number} second')
        for _ in range(40):
            target = rnd.choice([ws, other])
            value = rnd.choice(pool)
            if value.startswith('='):
                value = "'" + value  # keep as text with call syntax, not as a (possibly malformed) formula
            target.cell(row=rnd.randint(1, 12), column=rnd.randint(1, 8)).value = value
        path = os.path.join(tmp, f'rnd{number}.xlsx')
        wb.save(path)
        run_gate(path, f'rnd{number}')


def main():
    tmp = tempfile.mkdtemp(prefix='t27r1_')
    try:
        direct_calls()
        workbooks(tmp)
    finally:
        shutil.rmtree(tmp, ignore_errors=True)


if __name__ == '__main__':
    main()
