"""Equivalence demo for r4: the Excel reader's area functions (C11).

Excel.get_range / get_matrix (and the private row, column, rectangle and whole-column readers
behind them) are called directly with a large grid of coordinates, valid and invalid, and a
workbook whose formulas aggregate over every kind of area is translated and evaluated.
"""
import warnings
warnings.simplefilter('ignore')

import hashlib
import itertools
import os
import shutil
import tempfile

from openpyxl import Workbook

from excel2pycl import Parser, Executor, Cell
from excel2pycl.src.excel import Excel

LINES = []


def out(*parts):
    line = ' '.join(str(p) for p in parts)
    LINES.append(line)
    print(line)


def cell_repr(c):
    return f'{c.title}/{c.column}/{c.row}={c.value!r}{"h" if c.has_handled_identifiers() else ""}'


def shape(result):
    if isinstance(result, list):
        return '[' + ', '.join(shape(r) for r in result) + ']'
    if isinstance(result, Cell):
        return cell_repr(result)
    return f'{type(result).__name__}:{result!r}'


def call(fn, *args):
    try:
        return shape(fn(*args))
    except Exception as exc:  # noqa
        return f'EXC:{type(exc).__name__}:{exc}'


def build_workbook(path, with_broken=True):
    wb = Workbook()
    ws = wb.active
    ws.title = 'Data'
    grid = [
        [1, 2.5, 'text', True, None, -4],
        [10, None, '7', False, '', 0.5],
        ['x', 3, 4],
        [],
        [5, '', 6, 7, 8, 9, 11],
    ]
    for row in grid:
        ws.append(row)
    small = wb.create_sheet('Small')
    small.append([42])
    wb.create_sheet('Empty')
    f = wb.create_sheet("F s")
    areas = {
        'row': 'Data!A1:F1', 'col': 'Data!A1:A5', 'rect': 'Data!B2:E5', 'whole': 'Data!C:C', 'whole2': 'Data!A:B',
        'single': 'Data!F3:F3', 'blankrow': 'Data!A4:F4', 'all': 'Data!A1:G5', 'beyond': 'Data!E4:I8',
        'abs': 'Data!$A$1:$C$3', 'small': 'Small!A:A', 'small2': 'Small!A1:C2', 'emptywhole': 'Empty!A:B',
        'local': 'H1:H6', 'localrow': 'H1:J1', 'quoted': "'F s'!H:H",
    }
    formulas = []
    for fn in ('SUM', 'AVERAGE', 'MIN', 'MAX', 'COUNT', 'COUNTBLANK', 'AND', 'OR'):
        for name, area in areas.items():
            formulas.append((f'{fn} {name}', f'={fn}({area})'))
        formulas.append((f'{fn} multi', f'={fn}(Data!A1:F1, Data!A2:F2, Data!A3:F5, Small!A1:A1)'))
        formulas.append((f'{fn} mixed', f'={fn}(Data!A:A, Data!B1:B5, 5, Data!F1)'))
    formulas += [
        ('split1', '=SUM(Data!A1:F5)-SUM(Data!A1:C5)-SUM(Data!D1:F5)'),
        ('split2', '=SUM(Data!A:C)-SUM(Data!A:A)-SUM(Data!B:B)-SUM(Data!C:C)'),
        ('split3', '=COUNT(Data!A1:F5)-COUNT(Data!A1:F2)-COUNT(Data!A3:F5)'),
        ('sumif', '=SUMIF(Data!A1:A5, ">1", Data!C1:C5)'),
        ('sumifrow', '=SUMIF(Data!A1:F1, ">1")'),
        ('vlookup', '=VLOOKUP(10, Data!A1:C5, 2, FALSE())'),
        ('match', '=MATCH(4, Data!C1:C5, 0)'),
        ('index', '=INDEX(Data!A1:C3, 2, 1)'),
        ('diag', '=SUM(Data!A1:B2)+SUM(Data!B1:B2)'),
    ]
    if with_broken:
        formulas += [
        ('crosssheet', '=SUM(Data!A1:Small!A1)'),
        ('reversed', '=SUM(Data!C3:A1)'),
        ('openend', '=SUM(Data!A1:A)'),
        ('openstart', '=SUM(Data!A:A5)'),
        ('openrect', '=SUM(Data!A1:C)'),
    ]
    for n, (name, formula) in enumerate(formulas):
        f.cell(row=n + 1, column=1, value=name)
        f.cell(row=n + 1, column=2, value=formula)
    for n, v in enumerate([3, 'n', 4.5, None, -2, True]):
        f.cell(row=n + 1, column=8, value=v)
    f.cell(row=1, column=9, value=20)
    f.cell(row=1, column=10, value=30)
    wb.save(path)
    wb.close()
    return formulas


def direct(excel):
    out('titles', excel.get_titles(), 'sizes', excel.get_sheets_size())
    out('data', [[len(r) for r in sheet] for sheet in excel._data[:3]])

    titles = [0, 1, 2, 'Data', 'Small', 5, -1, 'Nope']
    columns = [0, 2, 6, 9, 'A', 'C', 'J', -1]
    rows = [0, 2, 4, 7, '1', '3', '', None, -1]

    # ranges and matrices inside one sheet: every pair of corners from a reduced grid
    corners = list(itertools.product([0, 2, 6, 'B'], [0, 1, 4, 7, '2', '', None, -1]))
    n = 0
    for title in (0, 'Data', 1, 2):
        for (c1, r1), (c2, r2) in itertools.product(corners, corners):
            res_range = call(lambda: excel.get_range(Cell(title, c1, r1), Cell(title, c2, r2)))
            res_matrix = call(lambda: excel.get_matrix(Cell(title, c1, r1), Cell(title, c2, r2)))
            LINES.append(f'pair {n} {title} {c1!r},{r1!r} {c2!r},{r2!r} R {res_range} M {res_matrix}')
            n += 1
    out('pairs', n, hashlib.sha256('\n'.join(LINES).encode()).hexdigest())

    # a sample of the pairs printed in full
    samples = [
        (0, 0, 0, 0, 5, 0), (0, 0, 0, 0, 0, 4), (0, 1, 1, 4, 4, 4), (0, 2, None, 2, None, None),
        (0, 0, None, 1, None, None), (0, 1, None, 0, None, None), (0, 5, 2, 5, 2, 2), (0, 4, 3, 8, 7, 7),
        (1, 0, None, 0, None, None), (1, 0, 0, 2, 1, 1), (2, 0, None, 1, None, None), (2, 0, 0, 1, 1, 1),
        (0, 2, 2, 0, 0, 0), (0, 0, 0, 0, None, None), (0, 0, None, 0, 4, 4), (0, 0, 0, 2, None, None),
        (0, 0, -1, 0, 2, 2), (0, 0, 1, 0, -1, -1), (0, -1, 0, 1, 0, 0), (0, 0, 0, 1, 1, 1),
    ]
    for t, c1, r1, c2, r2, _ in samples:
        out('range', t, c1, r1, c2, r2, call(lambda: excel.get_range(Cell(t, c1, r1), Cell(t, c2, r2))))
        out('matrix', t, c1, r1, c2, r2, call(lambda: excel.get_matrix(Cell(t, c1, r1), Cell(t, c2, r2))))

    # titles: same, different, unknown, by name and by index
    for t1, t2 in itertools.product(titles, titles):
        out('titles', t1, t2,
            call(lambda: excel.get_range(Cell(t1, 'A', '1'), Cell(t2, 'A', '2'))),
            call(lambda: excel.get_matrix(Cell(t1, 'A', '1'), Cell(t2, 'B', '2'))),
            call(lambda: excel.get_matrix(Cell(t1, 'A', ''), Cell(t2, 'B', ''))))

    # exotic coordinates
    exotic = [
        (Cell(0, 0.0, None), Cell(0, 0.0, None)), (Cell(0, 1.0, 0), Cell(0, 1.0, 1)), (Cell(0, 0, 0.0), Cell(0, 0, 1.0)),
        (Cell(0, 0, True), Cell(0, 1, True)), (Cell(0, 'A', 1), Cell(0, 'A', 2)), (Cell(0, 0, '0'), Cell(0, 0, '1')),
        (Cell(0, 'a', '1'), Cell(0, 'a', '2')), (Cell(0, '', '1'), Cell(0, '', '2')), (Cell(0, 0, 0), Cell(0, 0, 10 ** 3)),
        (Cell(None, 0, 0), Cell(None, 0, 1)), (Cell(0, None, 0), Cell(0, None, 1)), (Cell(0.0, 0, 0), Cell(0.0, 1, 1)),
        (Cell(9, 0, None), Cell(9, 0, None)), (Cell(9, 0, None), Cell(9, 1, None)), (Cell(9, 0, 0), Cell(9, 0, 0)),
        (Cell(0, 3, None), Cell(0, 1, None)), (Cell(0, 0, 3), Cell(0, 0, 1)),
    ]
    for n, (a, b) in enumerate(exotic):
        import copy
        out('exotic', n, call(excel.get_range, copy.copy(a), copy.copy(b)), call(excel.get_matrix, copy.copy(a), copy.copy(b)))

    # private readers called directly
    for n, (a, b) in enumerate([(Cell(0, 0, 0), Cell(0, 0, 2)), (Cell(0, 1, None), Cell(0, 1, None)),
                                (Cell(0, 1, None), Cell(0, 1, 3)), (Cell(0, 1, 2), Cell(0, 1, None)),
                                (Cell(0, 0, 1), Cell(0, 3, 1)), (Cell(0, 3, 1), Cell(0, 0, 1)),
                                (Cell(0, 0, 0), Cell(1, 1, 1)), (Cell(1, 0, 0), Cell(1, 1, 1)),
                                (Cell(7, 0, None), Cell(7, 0, None)), (Cell(0, 0, 2), Cell(0, 0, 0))]):
        out('private', n, 'v', call(excel._get_vertical_range, a, b), 'h', call(excel._get_horizontal_range, a, b),
            'm', call(excel._get_matrix, a, b))

    # the corner cells are handled in place, the produced cells are fresh
    a, b = Cell('Data', 'A', '1'), Cell('Data', 'B', '2')
    m = excel.get_matrix(a, b)
    out('inplace', cell_repr(a), cell_repr(b), m[0][0] is a, m[0][0] == Cell(0, 0, 0, 1))
    again = excel.get_matrix(a, b)
    out('fresh', again[0][0] is m[0][0], again == m)


def main():
    tmp = tempfile.mkdtemp(prefix='r4demo')
    try:
        xlsx = os.path.join(tmp, 'book.xlsx')
        out_py = os.path.join(tmp, 'book.py')
        formulas = build_workbook(xlsx)
        direct(Excel.parse(xlsx))

        # every formula translated on its own (a failing one must not hide the others)
        good = []
        for n, (name, formula) in enumerate(formulas):
            parser = Parser().set_excel_file_path(xlsx).set_entrypoint_cell(Cell('F s', 1, n))
            try:
                text = parser.get_translation()
                out('translate', name, hashlib.sha256(text.encode()).hexdigest()[:16], len(text))
                good.append(n)
            except Exception as exc:  # noqa
                out('translate', name, f'EXC:{type(exc).__name__}:{exc}')

        try:
            Parser().set_excel_file_path(xlsx).write_translation(out_py)
            out('whole file translated')
        except Exception as exc:  # noqa
            out('whole file', f'EXC:{type(exc).__name__}:{exc}')

        # the same workbook without the malformed formulas, translated as a whole
        xlsx2 = os.path.join(tmp, 'book2.xlsx')
        build_workbook(xlsx2, with_broken=False)
        text = Parser().set_excel_file_path(xlsx2).get_translation()
        out('whole text', hashlib.sha256(text.encode()).hexdigest(), len(text))
        with open(out_py, 'w', encoding='utf-8') as fh:
            fh.write(text)
        ex = Executor().set_executed_class(class_file=out_py)
        for label in ('sheet', 'sheet-after'):
            for r in range(ex._sheets_size[3]['last_row']):
                try:
                    v = ex.get_cell(Cell(3, 1, r)).value
                    out(label, r, f'{type(v).__name__}:{v!r}')
                except Exception as exc:  # noqa
                    out(label, r, f'EXC:{type(exc).__name__}:{exc}')
            ex.set_cells([Cell('Data', 'D', '4', value=-50), Cell('Data', 'B', '9', value=2), Cell('F s', 'H', '2', value=8)])

        for n in good:
            parser = Parser().set_excel_file_path(xlsx).set_entrypoint_cell(Cell('F s', 1, n))
            parser.write_translation(out_py)
            ex = Executor().set_executed_class(class_file=out_py)
            try:
                v = ex.get_cell(Cell('F s', 1, n)).value
                res = f'{type(v).__name__}:{v!r}'
            except Exception as exc:  # noqa
                res = f'EXC:{type(exc).__name__}:{exc}'
            ex.set_cells([Cell('Data', 'C', '4', value=1000), Cell('Data', 'A', '1', value='t'), Cell('Small', 'A', '1', value=0)])
            try:
                v = ex.get_cell(Cell('F s', 1, n)).value
                res2 = f'{type(v).__name__}:{v!r}'
            except Exception as exc:  # noqa
                res2 = f'EXC:{type(exc).__name__}:{exc}'
            out('value', formulas[n][0], res, '->', res2)

        out('DIGEST', hashlib.sha256('\n'.join(LINES).encode()).hexdigest())
    finally:
        shutil.rmtree(tmp, ignore_errors=True)


if __name__ == '__main__':
    main()
