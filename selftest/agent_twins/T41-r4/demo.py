"""Equivalence demonstration: prints a deterministic digest; run on the unchanged and the refactored tree."""
import warnings
warnings.simplefilter("ignore")
import datetime
import hashlib
import os
import shutil
import sys
import tempfile

import openpyxl

from excel2pycl import Parser, Executor, Cell

DATA = {
    'A1': 7, 'A2': 2.5, 'A3': 'abc', 'A4': '12', 'A5': None, 'A6': True, 'A7': False,
    'A8': 0, 'A9': -3, 'A10': '#N/A', 'A11': '#DIV/0!', 'A12': datetime.datetime(2024, 2, 29),
    'A13': '', 'A14': 0.1, 'A15': 1e-7, 'A16': 'ABC', 'A17': '2024-02-29', 'A18': 1234567890123,
}


def functions_part(text):
    marker = "        return '#VALUE!'\n\n"
    return text[text.rindex(marker) + len(marker):]


def show(value):
    return f'{type(value).__name__}:{value!r}'


def run(formulas, overrides=(), tag=''):
    """formulas: list of formula strings placed in D1.. ; overrides: list of lists of (col,row,value)"""
    tmp = tempfile.mkdtemp(prefix='e2p_demo_')
    try:
        wb = openpyxl.Workbook()
        ws = wb.active
        ws.title = 'S1'
        for k, v in DATA.items():
            ws[k] = v
        for i, f in enumerate(formulas):
            ws.cell(row=i + 1, column=4).value = f
        xlsx = os.path.join(tmp, 'book.xlsx')
        wb.save(xlsx)
        for i, f in enumerate(formulas):
            line = [tag, repr(f)]
            try:
                text = Parser().set_excel_file_path(xlsx).set_entrypoint_cell(Cell(0, 3, i)).get_translation()
            except BaseException as e:
                line.append(f'TRANSLATE-EXC {type(e).__name__}: {str(e)[:200]}')
                print(' | '.join(line))
                continue
            line.append('code=' + hashlib.sha256(functions_part(text).encode()).hexdigest()[:12])
            code = functions_part(text)
            out_py = os.path.join(tmp, f'out_{i}.py')
            with open(out_py, 'w', encoding='utf-8') as fh:
                fh.write(text)
            for ov in [()] + list(overrides):
                try:
                    ex = Executor().set_executed_class(class_file=out_py)
                    if ov:
                        ex.set_cells([Cell(0, c, r, value=v) for c, r, v in ov])
                    value = ex.get_cell(Cell(0, 3, i)).value
                    line.append(show(value))
                except BaseException as e:
                    line.append(f'EXC {type(e).__name__}: {str(e)[:120]}')
            print(' | '.join(line))
            if os.environ.get('SHOWCODE'):
                print(code)
    finally:
        shutil.rmtree(tmp, ignore_errors=True)


os.environ['SHOWCODE'] = '1'

FORMULAS = [
    '=IF(A1>3,"y","n")', '=IF(A8,1)', '=IF(A8,1,)', '=IF(A5,1,2)', '=IF(A3,1,2)', '=IF(A13,1,2)', '=IF(A6,1/0,2)', '=IF(A7,1/0,2)',
    '=IF(A1>3,IF(A2>3,1,2),3)+1', '=1+IF(A1,2,3)*2', '=IF(IF(A1>3,A7,A6),"in","out")', '=IF(A10,1,2)', '=IF(A1>3,A10,A11)',
    '=IF(A1>3,1,2)&IF(A2>3,"a","b")', '=IF(A1>3,1)', '=IF(A1<3,1)', '=IF()', '=IF(1)', '=IF(1,2,3,4)', '=IF(A1>3;1;2)',
    '=IF(SUM(A1:A2)>9,SUM(A1:A2),MAX(A1:A2))', '=IF(MAX(A1:A2)>3,MIN(A1:A2),SUM(A1:A2))', '=IF(SUM(A1:A2)>9,SUM(A1:A2))',
    '=IF(IFS(A1>3,TRUE),IFS(A2>3,"p",TRUE,"q"),IFS(TRUE,"r"))', '=IF(A1>3,FALSE)', '=IF(A1>3,FALSE,FALSE)', '=IF(A1>3,0,"")',
    '=IF(IF(IF(A1,A6,A7),IF(A2,A7,A6),A6),IF(A8,1,2),IF(A9,3,4))', '=IF(A1=7,"seven",IF(A1=100,"hundred",IF(A1="zz","text","other")))',
    '=IFERROR(1/0,"e")', '=IFERROR(A10,"e")', '=IFERROR(A11,A10)', '=IFERROR(A1,"e")', '=IFERROR(A5,"e")', '=IFERROR(A3+1,"e")',
    '=IFERROR(IFERROR(1/0,A10),"outer")', '=IFERROR(1/A8,IFERROR(1/A8,"deep"))', '=1+IFERROR(A3*2,10)*2', '=IFERROR(A1/A8,0)&"%"',
    '=IFERROR(IF(A1>3,1/0,1),"e")', '=IF(IFERROR(A10,FALSE),1,2)', '=IFERROR(1/0)', '=IFERROR()', '=IFERROR(1,2,3)',
    '=IFERROR(VLOOKUP(5,A1:B3,2,FALSE),"nf")', '=IFERROR(A1:A3,"e")', '=IFERROR("#N/A","e")', '=IFERROR("#ERROR!","e")',
    '=IFERROR(SUM(A1:A2)/A8,SUM(A1:A2))', '=IFERROR(MAX(A1:A2),MIN(A1:A2))+IFERROR(MIN(A1:A2),MAX(A1:A2))',
    '=IFERROR(IFS(A7,1),IFS(A6,"second"))', '=IFERROR(A1>A2,A1<A2)', '=IFERROR(-A3,-A1)', '=IFERROR(A1%,A2%)',
    '=IFS(A1>10,1,A1>5,2)', '=IFS(A1>10,1)', '=IFS(A8,1,A10,2)', '=IFS(A1)', '=IFERROR(IFS(A1),"odd")', '=IFS(A7,1,A6,2,A6,3)',
    '=IFS(A5,1,TRUE,"else")', '=IFS(A1>3,IFS(A2>3,"a",A2>2,"b"),TRUE,"c")', '=IFS(A1>3,1/0,TRUE,2)', '=IFS(A7,1/0,TRUE,2)',
    '=IFS(A1>3,A11)', '=IFS(A7,A11,TRUE,1)', '=IFS()', '=IFS(A3,1)', '=IFS(A13,1,A3,2)', '=IFS(A1>3,1)+IFS(A2>3,1,TRUE,5)*2',
    '=IFERROR(IFS(A7,1),"none")', '=IF(IFS(A1>3,TRUE),IFERROR(1/0,"z"),"w")', '=IFS(A1:A2,1)', '=IFS(A1>3,A1:A2)',
    '=IFS(A8,1,A7,2,A5,3,A13,4)', '=IFS(A1>3,1,A10,2)', '=IFS(A1>3,"#N/A")', '=-IF(A1>3,1,2)', '=IF(A1>3,1,2)%', '=IF(-A9,1,2)',
    '=IFS(SUM(A1:A2)>9,SUM(A1:A2),TRUE,MAX(A1:A2))', '=IFS(A1>3,1)&IFS(A1>3,1)', '=IFS(A1>3,1,)', '=IFS(,1)', '=IFS(A1>3;1;TRUE;2)',
    '=SUM(IF(A1>3,1,2),IFS(A2>3,10,TRUE,20),IFERROR(1/0,100))', '=MAX(IF(A1>3,A1,A2),IFERROR(A3*1,0))', '=AND(IF(A1,A6,A7),IFS(A2,A6))',
    '=IF(IF(A1>3,1)', '=IF(A1>3,1))', '=IFERROR(IF(A1>3,1,"a",2),0)', '=IFS(IF(),1)',
]
run(FORMULAS, overrides=[[(0, 0, 1), (0, 1, 5)], [(0, 0, None), (0, 7, 1)], [(0, 0, '#REF!'), (0, 6, True)],
                         [(0, 9, 0), (0, 10, 'ok'), (0, 5, False)]], tag='r4')


def whole_file():
    """Translate a whole workbook (two sheets, cross references) and print the generated functions and all values."""
    tmp = tempfile.mkdtemp(prefix='e2p_demo_')
    try:
        wb = openpyxl.Workbook()
        first = wb.active
        first.title = 'S1'
        second = wb.create_sheet('Other')
        for row, value in enumerate([5, 0, None, 'txt', '#N/A', True], start=1):
            first.cell(row=row, column=1).value = value
        first['B1'] = '=IF(A1>3,IFERROR(A1/A2,"div"),IFS(A1>1,"mid",TRUE,"low"))'
        first['B2'] = '=IFS(B1="div",IF(A6,SUM(A1:A2),0),TRUE,IFERROR(A5,"na"))'
        first['B3'] = '=IFERROR(IF(Other!A1>1,Other!B1,B2),IF(A3,1))'
        first['B4'] = '=IF(B3=5,IF(B2=5,IF(B1="div","all","b1"),"b2"),"b3")'
        second['A1'] = 2
        second['B1'] = '=IF(S1!A1>S1!A2,S1!B2,IFERROR(1/0,S1!A4))'
        xlsx = os.path.join(tmp, 'book.xlsx')
        wb.save(xlsx)
        out_py = os.path.join(tmp, 'whole.py')
        Parser().set_excel_file_path(xlsx).write_translation(out_py)
        with open(out_py, encoding='utf-8') as fh:
            print(functions_part(fh.read()))
        for overrides in ([], [Cell('S1', 'A', '1', value=1)], [Cell('S1', 'A', '2', value=2), Cell('Other', 'A', '1', value=0)],
                          [Cell('S1', 'A', '6', value=False), Cell('S1', 'A', '5', value='fine')]):
            executor = Executor().set_executed_class(class_file=out_py)
            if overrides:
                executor.set_cells(overrides)
            for sheet in ('S1', 'Other'):
                try:
                    values = [[show(cell.value) for cell in row] for row in executor.get_sheet(sheet)]
                except BaseException as e:
                    values = f'EXC {type(e).__name__}: {e}'
                print('whole', [(c.column, c.row, c.value) for c in overrides], sheet, values)
    finally:
        shutil.rmtree(tmp, ignore_errors=True)


whole_file()
