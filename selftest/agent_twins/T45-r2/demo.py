"""Equivalence demo for r2: CompositeBaseToken.get (the token-set parser).

Builds syntax trees for many formulas (accepted, truncated, over-long, with every
separator / whitespace variant), calls `get` of individual grammar classes on token
lists to show the consumed part and the unparsed rest, and runs formulas through the
whole Parser/Executor pipeline.  Prints one deterministic line per probe.
"""
import hashlib
import os
import shutil
import tempfile

from openpyxl import Workbook

from excel2pycl import Parser, Executor, Cell
from excel2pycl.src.ast_builder import AstBuilder
from excel2pycl.src.lexer import Lexer
from excel2pycl.src import tokens as T
from excel2pycl.src.tokens.composite_base_token import CompositeBaseToken

IN_CELL = Cell(0, 0, 0)


def show_exc(e):
    return f'EXC {e.__class__.__name__}: {e}'


def dump(token):
    if token is None:
        return 'None'
    if isinstance(token, CompositeBaseToken):
        return f'{token.__class__.__name__}[{", ".join(dump(item) for item in token.value)}]'
    return repr(token)


FUNCTIONS = {
    'LEFT': (1, 2), 'RIGHT': (1, 2), 'MID': (3, 3), 'SEARCH': (2, 3), 'VALUE': (1, 1), 'CONCATENATE': (1, 4),
    'IF': (2, 3), 'IFERROR': (2, 2), 'ROUND': (2, 2), 'ROUNDUP': (1, 2), 'ROUNDDOWN': (1, 2), 'DATE': (3, 3),
    'DATEDIF': (3, 3), 'EOMONTH': (2, 2), 'EDATE': (2, 2), 'DAY': (1, 1), 'MONTH': (1, 1), 'YEAR': (1, 1),
    'SUM': (1, 4), 'AVERAGE': (1, 4), 'MIN': (1, 4), 'MAX': (1, 4), 'AND': (1, 4), 'OR': (1, 4), 'IFS': (2, 4),
    'COUNTBLANK': (1, 2), 'COUNT': (1, 3), 'TEXT': (2, 2), 'ADDRESS': (2, 5), 'TODAY': (0, 0), 'COLUMN': (0, 1),
    'NETWORKDAYS': (2, 3), 'XMATCH': (2, 4), 'MATCH': (2, 3), 'VLOOKUP': (3, 4), 'INDEX': (2, 4),
    'SUMIF': (2, 3), 'SUMIFS': (3, 5), 'COUNTIFS': (2, 4), 'AVERAGEIFS': (3, 5),
}

ARGS = ['A1', '2', '"x"', 'B1:B3', 'C1+1', '(1+2)', '-1', '10%', 'LEFT(A1,1)', '">1"', '"a*"', 'TRUE']


def generated_formulas():
    out = []
    for name, (low, high) in FUNCTIONS.items():
        for count in range(0, high + 2):
            for shift in (0, 3):
                args = [ARGS[(i + shift + len(name)) % len(ARGS)] for i in range(count)]
                out.append(f'={name}({",".join(args)})')
            out.append(f'={name}( {" ; ".join(ARGS[i % 3] for i in range(count))} )')
        out.append(f'={name}')
        out.append(f'={name}(')
        out.append(f'={name}(A1')
        out.append(f'={name}(A1,')
        out.append(f'={name}(A1,2))')
        out.append(f'={name}(A1,2)+1')
        out.append(f'=1+{name}(A1,2)')
        out.append(f'={name}(A1,2){name}(A1,2)')
        out.append(f'={name}(A1 2)')
        out.append(f'={name}(,A1)')
        out.append(f'={name}(A1,,2)')
    return out


HAND_WRITTEN = [
    '=1', '=1+2', '=1+2+3', '=1+', '=+', '=+1', '=-1', '=--1', '=-(-1)', '=1--1', '=1*-1', '=1**2', '=1//2', '=(1)', '=((1))',
    '=(1', '=1)', '=()', '=(1+2)*3', '=3*(1+2)', '=(1+2)*(3+4)', '=(1+2)(3+4)', '=1+(2', '=(1+2)*', '=10%', '=10%+1',
    '=10%%', '=%10', '=A1%*2', '=A1&B1', '=A1&B1&C1', '=A1&', '=&A1', '=A1&&B1', '=A1=B1', '=A1<>B1', '=A1>=B1',
    '=A1<=B1', '=A1>B1', '=A1<B1', '=A1=', '==A1', '=A1==B1', '=A1<>', '=A1,B1', '=A1;B1', '=,', '=A1:B2', '=A1:A3',
    '=A:A', '=A1 B1', '=A1B1', '="a"', '="a*"', '="a"&"b*"', '="a*"&"b"', '=TRUE', '=TRUE()', '=FALSE&TRUE',
    '=LEFT(A1,2)&RIGHT(A1,2)', '=LEFT(RIGHT(A1,3),2)', '=LEFT(LEFT(LEFT(A1,3),2),1)', '=LEFT(RIGHT(A1,3,4),2)',
    '=LEFT(A1,RIGHT(B1))', '=LEFT(A1,RIGHT(B1,))', '=MID(A1,SEARCH("l",A1),2)', '=MID(A1,SEARCH("l",A1,),2)',
    '=IF(LEFT(A1,1)="H",MID(A1,2,3),RIGHT(A1,2))', '=IF(LEFT(A1,1)="H",MID(A1,2),RIGHT(A1,2))',
    '=VALUE(CONCATENATE(1,2))+1', '=VALUE(CONCATENATE(1,2,))+1', '=CONCATENATE(LEFT(A1,1),MID(A1,2,100))',
    '=SUM(A1:A3,B1:B3)', '=SUM(A1:A3;B1:B3;1)', '=SUM((1+2),3)', '=SUM(1,2)+SUM(3,4)', '=SUM(1,2)SUM(3,4)',
    '=SUMIF(A1:A3,">1",B1:B3)', '=SUMIF(A1:A3,">1",B1:B3,C1:C3)', '=SUMIF(A1:A3)', '=SUMIF(1,">1")',
    '=SUMIFS(A1:A3,B1:B3,">1",C1:C3,"a*")', '=SUMIFS(A1:A3,B1:B3,">1",C1:C3)', '=SUMIFS(A1:A3,B1:B3)',
    '=COUNTIFS(A1:A3,">1",B1:B3,"x")', '=COUNTIFS(A1:A3,">1",B1:B3)', '=COUNTIFS(A1:A3)', '=COUNTIFS(A1:A3,"<>"&B1)',
    '=AVERAGEIFS(A1:A3,B1:B3,1,C1:C3,"?")', '=AVERAGEIFS(A1:A3,B1:B3)', '=INDEX(A1:B2,1,2)', '=INDEX((A1:B2,C1:D2),1,2,2)',
    '=INDEX((A1:B2,C1:D2,1,2,2)', '=INDEX(A1:A3&B1:B3,2)', '=INDEX(A1:A3&B1:B3,2,1)', '=MATCH(1,A1:A3&B1:B3,0)',
    '=MATCH(1,A1:A3&B1:B3)', '=MATCH(1,A1:A3)', '=MATCH(1,A1,0)', '=MATCH(1)', '=XMATCH(1,A1:A3,0,1)', '=XMATCH(1,A1:A3,0,1,2)',
    '=VLOOKUP(1,A1:B3,2,FALSE)', '=VLOOKUP(1,A1:B3)', '=VLOOKUP(1,A1,2)', '=NETWORKDAYS(A1,B1,C1:C3)', '=NETWORKDAYS(A1,B1,C1)',
    '=COLUMN(A1)', '=COLUMN(A1:B2)', '=COLUMN(1)', '=COLUMN(A1,B1)', '=TODAY()', '=TODAY(1)', '=TODAY', '=TODAY()+1',
    '=ADDRESS(1,2,"4","False","S")', '=ADDRESS(1)', '=ROUNDUP(1.5,)', '=ROUNDDOWN(1.5,)', '=ROUNDUP(1.5,,)', '=ROUND(1.5,)',
    '=IFS(A1>1,"a",TRUE,"b")', '=IFS()', '=IFERROR(1/0,"e")', '=IFERROR(1/0)', '=IFERROR(LEFT(A1,),"e")',
    '=IF(A1>1,"y")', '=IF(A1>1,"y",)', '=IF(,1,2)', '=IF(IF(A1>1,1,2)>1,IF(B1,1),3)', '=IF(IF(A1>1,1,2,3)>1,IF(B1,1),3)',
    '=DATE(2020,1,1)-DATE(2019,1,1)', '=DATE(2020,1)', '=DATEDIF(A1,B1,"D")', '=DAY(TODAY())', '=DAY(TODAY(),1)',
    '=TEXT(A1,"0.00")', '=TEXT(A1)', '=COUNT(A1:A3,1,"2",B1)', '=COUNT()', '=COUNTBLANK(A1:A3)', '=COUNTBLANK()',
]

DIRECT = [
    ('LeftControlConstructionToken', 'LEFT(A1,2)'), ('LeftControlConstructionToken', 'LEFT(A1,2)+1'),
    ('LeftControlConstructionToken', 'LEFT(A1)'), ('LeftControlConstructionToken', 'LEFT(A1,2,3)'),
    ('LeftControlConstructionToken', 'RIGHT(A1,2)'), ('LeftControlConstructionToken', ''),
    ('LeftControlConstructionToken', 'LEFT'), ('LeftControlConstructionToken', '(A1,2)'),
    ('RightControlConstructionToken', 'RIGHT(A1,2),3'), ('MidControlConstructionToken', 'MID(A1,2,3)&"x"'),
    ('MidControlConstructionToken', 'MID(A1,2)'), ('SearchControlConstructionToken', 'SEARCH("a",B1,2))'),
    ('SearchControlConstructionToken', 'SEARCH("a")'), ('ValueControlConstructionToken', 'VALUE(A1)%'),
    ('ConcatenateControlConstructionToken', 'CONCATENATE(A1,B1,"x"),1'),
    ('ConcatenateControlConstructionToken', 'CONCATENATE(A1,B1,'), ('ControlConstructionCompositeBaseToken', 'LEFT(A1,2)'),
    ('ControlConstructionCompositeBaseToken', 'A1'), ('ControlConstructionCompositeBaseToken', 'SUM(1,2),3'),
    ('ControlConstructionCompositeBaseToken', 'SUM(1,2'), ('ExpressionToken', '1+2,3'), ('ExpressionToken', '1+2)'),
    ('ExpressionToken', '1+'), ('ExpressionToken', '+'), ('ExpressionToken', ''), ('ExpressionToken', '(1+2)*3 4'),
    ('ExpressionToken', 'A1&B1&'), ('ExpressionToken', '10%%'), ('ExpressionToken', '-A1:B2'),
    ('IterableExpressionToken', '1,2;3)'), ('IterableExpressionToken', '1,2,'), ('IterableExpressionToken', ',1'),
    ('IterableExpressionToken', '1 2'), ('OperandToken', '"a*"'), ('OperandToken', '"a"'), ('OperandToken', 'A1:A3'),
    ('OperandToken', 'A1:B3'), ('OperandToken', 'LEFT(A1,1)'), ('OperandToken', 'LEFT(A1,1,1)'), ('OperandToken', ')'),
    ('OperatorToken', '+1'), ('OperatorToken', '<>1'), ('OperatorToken', '&'), ('OperatorToken', '%'), ('OperatorToken', '1'),
    ('LambdaToken', '">1"&A1)'), ('LambdaToken', '">1")'), ('LambdaToken', 'A1>1)'), ('LambdaToken', ')'),
    ('SimilarCellToken', 'A1,'), ('SimilarCellToken', 'A1:A3'), ('SimilarCellToken', '1'),
    ('OneLeftOperandExpressionToken', '10%%+1'), ('OneLeftOperandExpressionToken', '10+1'),
    ('IterableMatrixOfCellIdentifiersToken', '(A1:B2,C1:D2),1'), ('IterableMatrixOfCellIdentifiersToken', 'A1:B2,C1:D2,1'),
    ('MatrixOfCellIdentifiersExpressionToken', 'A1:A3&B1:B3&C1:C3,1'), ('MatrixOfCellIdentifiersExpressionToken', 'A1:A3&1'),
    ('RangeOfCellIdentifierWithConditionToken', 'A1:A3,">1",B1:B3'), ('RangeOfCellIdentifierWithConditionToken', 'A1:A3,B1+1)'),
    ('IterableRangeOfCellIdentifierWithConditionToken', 'A1:A3,">1",B1:B3,2)'),
    ('IterableRangeOfCellIdentifierWithConditionToken', 'A1:A3,">1",B1:B3)'),
    ('EntryPointToken', '=1+2'), ('EntryPointToken', '=1+2)'), ('EntryPointToken', '1+2'), ('EntryPointToken', '='),
    ('EntryPointToken', '=LEFT(A1,2'), ('TodayControlConstructionToken', 'TODAY()'), ('TodayControlConstructionToken', 'TODAY(1)'),
    ('IfControlConstructionToken', 'IF(1,2,3)+IF(1,2)'), ('IfControlConstructionToken', 'IF(1,2,3,4)'),
]


def tree_probe():
    digest = hashlib.sha256()
    formulas = HAND_WRITTEN + generated_formulas()
    accepted = rejected = 0
    for text in formulas:
        try:
            out = dump(AstBuilder.parse(Lexer.parse(text, in_cell=IN_CELL), in_cell=IN_CELL))
            accepted += 1
        except Exception as e:  # noqa
            out = show_exc(e)
            rejected += 1
        line = f'AST {text!r} -> {out}'
        digest.update(line.encode())
        if len(line) > 400:
            line = line[:200] + f' ...[{len(line)} chars, sha {hashlib.sha256(line.encode()).hexdigest()[:12]}]'
        print(line)
    print(f'AST total={len(formulas)} accepted={accepted} rejected={rejected} digest={digest.hexdigest()}')


def direct_probe():
    for class_name, text in DIRECT:
        cls = getattr(T, class_name)
        try:
            lexed = Lexer.parse(text, in_cell=IN_CELL)
            before = list(lexed)
            token, rest = cls.get(lexed, IN_CELL)
            out = f'{dump(token)} | rest={rest!r} | input_untouched={lexed == before} same_object={rest is lexed}'
        except Exception as e:  # noqa
            out = show_exc(e)
        print(f'GET {class_name} {text!r} -> {out}')


PIPELINE = [
    '=LEFT(A1,2)', '=LEFT(A1;2)', '= LEFT( A1 , 2 )', '=LEFT(A1)', '=LEFT(A1,2,3)', '=LEFT(A1,)', '=LEFT(A1,2)+',
    '=RIGHT(A1,3)', '=RIGHT(A1;3)', '=RIGHT(A1,3,3)', '=MID(A1,2,3)', '=MID(A1;2;3)', '=MID(A1,2)', '=MID(A1,2,3,4)',
    '=SEARCH("o",A1)', '=SEARCH("o";A1;6)', '=SEARCH("o",A1,6,1)', '=SEARCH("o")', '=VALUE(B1)', '=VALUE(B1;B2)',
    '=CONCATENATE(A1,"-",B1)', '=CONCATENATE(A1;"-";B1)', '=CONCATENATE(A1,"-",)', '=A1&"-"&B1', '=A1 & "-" & B1',
    '=A1&"-"&', '=LEFT(A1,5)&MID(A1,6,100)', '=LEFT(A1,5)&MID(A1,6,100', '=IF(SEARCH("w",A1)>3,LEFT(A1,2),RIGHT(A1,2))',
    '=IF(SEARCH("w",A1)>3,LEFT(A1,2),RIGHT(A1,2)),1', '=SUM(C1:C2,1)', '=SUM(C1:C2;1)', '=SUM(C1:C2 1)',
    '=VALUE(LEFT(B1,2))+C1', '=VALUE(LEFT(B1,2)))+C1', '=(C1+C2)*2', '=(C1+C2)*2)', '=((C1+C2)*2', '=C1%+1', '=-C1+-C2',
]


def pipeline_probe(tmp):
    xlsx = os.path.join(tmp, 'book.xlsx')
    wb = Workbook()
    ws = wb.active
    ws.title = 'Data'
    ws['A1'], ws['B1'], ws['C1'] = 'Hello world', '12.5', 7
    ws['A2'], ws['B2'], ws['C2'] = 'excel', ' 3 ', 2.25
    for n, formula in enumerate(PIPELINE):
        ws.cell(row=n + 1, column=5).value = formula
    wb.save(xlsx)
    for n, formula in enumerate(PIPELINE):
        out_py = os.path.join(tmp, f'out_{n}.py')
        try:
            parser = Parser().set_excel_file_path(xlsx).disable_safety_check().set_entrypoint_cell(Cell(0, 4, n))
            text = parser.get_translation()
            parser.write_translation(out_py)
            executor = Executor().set_executed_class(class_file=out_py)
            try:
                value = repr(executor.get_cell(Cell('Data', 'E', str(n + 1))).value)
            except Exception as e:  # noqa
                value = show_exc(e)
            out = f'OK sha={hashlib.sha256(text.encode()).hexdigest()[:16]} value={value}'
        except Exception as e:  # noqa
            out = show_exc(e)
        print(f'RUN {formula!r} -> {out}')


def main():
    direct_probe()
    tree_probe()
    tmp = tempfile.mkdtemp(prefix='t45_r2_')
    try:
        pipeline_probe(tmp)
    finally:
        shutil.rmtree(tmp, ignore_errors=True)


if __name__ == '__main__':
    main()
