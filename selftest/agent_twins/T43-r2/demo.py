"""Equivalence demo for r2 (Context bookkeeping: get_cell / set_cell / set_sub_cell /
_get_divided_sub_cell_translations / build_class restructured).

Drives the Context directly with long sequences of cells and sub-expressions (duplicates, cells
without a row, unhandled cells), then builds several workbooks in a temp dir, translates them from
many entry cells and as a whole and prints the generated text digests, the set of translated cells,
the computed values and the exception class names of cyclic / broken workbooks.
"""
import hashlib
import os
import re
import shutil
import sys
import tempfile

from openpyxl import Workbook

from excel2pycl import Parser, Executor, Cell, Context, Excel, CellTranslator

TMP = tempfile.mkdtemp(prefix='t43r2_')
OUT = []


def emit(*parts):
    OUT.append(' '.join(str(p) for p in parts))


def digest(text):
    return hashlib.sha256(text.encode('utf-8')).hexdigest()[:16]


def save(name, sheets):
    wb = Workbook()
    first = True
    for title, rows in sheets:
        ws = wb.active if first else wb.create_sheet(title)
        ws.title = title
        first = False
        for row in rows:
            ws.append(row)
    path = os.path.join(TMP, name + '.xlsx')
    wb.save(path)
    return path


def functions_of(text):
    return re.findall(r'^    def (_\d+_\d+_\d+(?:_\d+)?)\(self\)', text, flags=re.M)


def show(value):
    return f'{type(value).__name__}:{value!r}'


def run(code_path, uid_cells):
    executor = Executor().set_executed_class(class_file=code_path)
    result = {}
    for title, column, row in uid_cells:
        try:
            result[(title, column, row)] = show(executor.get_cell(Cell(title, column, row)).value)
        except Exception as e:  # noqa
            result[(title, column, row)] = f'EXC {type(e).__name__}: {e}'
    return result


MAIN = [
    # A            B                        C                      D                              E
    [1,            '=A1+1',                 '=SUM(A1:A4)',         "='Other sheet'!A1*2",          '=VLOOKUP(3,A1:B4,2,FALSE)'],
    [2,            '=B1*A2',                '=SUM(A1:B2)',         '=Data!B2&"x"',                 '=INDEX(A1:B4,2,2)'],
    [3,            '=IF(A3>2,B2,C1)',       "=MAX('Other sheet'!A:A)",          "=SUM('Other sheet'!A1:A3)",    '=MATCH(3,A1:A4,0)'],
    [4,            '=SUM(B1:B3)+C3',        '=COUNT(A1:C3)',       '=SUM(Data!A1:B2)+D1',          '=E1+E2+E3'],
    [None,         'text',                  True,                  2.5,                            '=A5'],
    ['=B5&"!"',    '=C5',                   '=D5*2',               '=E5',                          '=Z99'],
    ['=SUM(A1:E1)', '=IFERROR(A1/0,B4)',    '=ROUND(D5,0)',        '=LEFT(B5,2)',                  '=AVERAGE(A1:A4)'],
]
OTHER = [[10, '=A1+A2'], [20, '=Main!A1'], [30, '=SUM(A1:A3)']]
DATA = [[5, 6], [7, '=A1+B1+A2'], ['=B2', "='Other sheet'!B3"]]


def closed_slice_section():
    path = save('main', [('Main', MAIN), ('Other sheet', OTHER), ('Data', DATA)])
    whole_py = os.path.join(TMP, 'whole.py')
    whole_text = Parser().set_excel_file_path(path).get_translation()
    with open(whole_py, 'w', encoding='utf-8') as f:
        f.write(whole_text)
    whole_functions = functions_of(whole_text)
    emit('whole', digest(whole_text), len(whole_functions))
    emit('whole-functions', ' '.join(whole_functions))

    entries = [(0, c, r) for r in range(7) for c in range(5)]
    entries += [(1, c, r) for r in range(3) for c in range(2)] + [(2, c, r) for r in range(3) for c in range(2)]
    entries += [(0, 25, 98), (0, 7, 7), (1, 0, 40)]
    parser = Parser().set_excel_file_path(path)
    for index, (title, column, row) in enumerate(entries):
        entry_py = os.path.join(TMP, f'entry_{index}.py')
        try:
            text = parser.set_entrypoint_cell(Cell(title, column, row)).write_translation(entry_py).get_translation()
        except Exception as e:  # noqa
            emit('entry', (title, column, row), 'EXC', type(e).__name__, e)
            continue
        names = functions_of(text)
        cells = sorted({tuple(int(i) for i in n.split('_')[1:4]) for n in names})
        in_slice = run(entry_py, cells)
        in_whole = run(whole_py, cells)
        emit('entry', (title, column, row), digest(text), 'functions', ' '.join(names))
        emit('  values', [in_slice[c] for c in cells])
        emit('  agree-with-whole', in_slice == in_whole, 'entry-value', in_slice.get((title, column, row)))

    # Excel-style identifiers for the entry point, and a second translation with the same Parser (history)
    parser = Parser().set_excel_file_path(path)
    for title, column, row in [('Main', 'D', '4'), ('Other sheet', 'B', '1'), ('Data', 'B', '3'), ('Main', 'E', '6')]:
        text = parser.set_entrypoint_cell(Cell(title, column, row)).get_translation()
        emit('named-entry', title, column, row, digest(text), ' '.join(functions_of(text)))
        emit('  again', digest(parser.get_translation()))
    try:
        Parser().set_excel_file_path(path).set_entrypoint_cell(Cell('Nope', 'A', '1')).get_translation()
    except Exception as e:  # noqa
        emit('unknown-title', type(e).__name__, e)
    try:
        Parser().set_excel_file_path(path).set_entrypoint_cell(Cell('Main', 'A')).get_translation()
    except Exception as e:  # noqa
        emit('no-row', type(e).__name__, e)


CYCLES = {
    'self': [['=A1']],
    'pair': [['=B1', '=A1']],
    'triple': [['=B1+1', '=C1*2', '=IF(A1>0,1,2)']],
    'range': [[1, 2, '=SUM(A1:D1)', '=C1']],
    'matrix': [[1, 2], [3, '=SUM(A1:B2)']],
    'column': [['=SUM(A:A)'], [1]],
    'vlookup': [[1, '=VLOOKUP(1,A1:B2,2,FALSE)'], [2, 3]],
    'no-cycle-diamond': [['=B1+C1', '=D1', '=D1', 5]],
    'late': [[1, '=A1', '=B1', '=E1', '=D1']],
    'bad-formula': [['=SUM(']],
    'unknown-function': [['=NOSUCH(A2)'], [1]],
}


def cycle_section():
    for name, rows in CYCLES.items():
        path = save('cycle_' + name.replace('-', '_'), [('S', rows)])
        try:
            text = Parser().set_excel_file_path(path).get_translation()
            emit('cycle', name, 'ok', digest(text), ' '.join(functions_of(text)))
        except Exception as e:  # noqa
            emit('cycle', name, 'EXC', type(e).__name__, type(e).__mro__[1].__name__, e)
        for column in range(len(rows[0])):
            try:
                text = Parser().set_excel_file_path(path).set_entrypoint_cell(Cell(0, column, 0)).get_translation()
                emit('  from', column, 'ok', digest(text), ' '.join(functions_of(text)))
            except Exception as e:  # noqa
                emit('  from', column, 'EXC', type(e).__name__, e)
    # cycle across sheets
    path = save('cycle_sheets', [('One', [['=Two!A1', 1]]), ('Two', [['=One!A1', '=One!B1']])])
    for title, column in [(0, 0), (0, 1), (1, 0), (1, 1)]:
        try:
            text = Parser().set_excel_file_path(path).set_entrypoint_cell(Cell(title, column, 0)).get_translation()
            emit('sheets', title, column, 'ok', digest(text), ' '.join(functions_of(text)))
        except Exception as e:  # noqa
            emit('sheets', title, column, 'EXC', type(e).__name__, e)


def direct_section():
    path = save('direct', [('Main', MAIN), ('Other sheet', OTHER), ('Data', DATA)])
    excel = Excel.parse(path)
    context = Context()
    context._titles = excel.get_titles()
    context._sheets_size = excel.get_sheets_size()
    for cell in [Cell(0, 1, 3), Cell(0, 1, 3), Cell('Main', 'B', '4'), Cell(0, 0, 4), Cell(0, 1, 4), Cell(0, 2, 4),
                 Cell(0, 3, 4), Cell(0, 30, 30), Cell('Data', 'A', '3'), Cell(0, 4, 5), Cell(0, 0, 0, value='=B9+1')]:
        before = sorted(context._cell_translations)
        try:
            code = CellTranslator.translate(cell, excel, context)
        except Exception as e:  # noqa
            code = f'EXC {type(e).__name__}: {e}'
        added = [k for k in context._cell_translations if k not in before]
        emit('direct', cell, show(cell.value), code, 'added', added)
        emit('  in-progress', dict(context._cells_in_progress))
    emit('direct-class', digest(context.build_class()))
    for name in sorted(context._cell_translations):
        emit('  code', name, context._cell_translations[name])
    for name in sorted(context._sub_cell_translations):
        emit('  sub', name, context._sub_cell_translations[name])
    # a cycle leaves the context exactly as the unchanged code leaves it
    path = save('direct_cycle', [('S', [['=B1', '=C1', '=A1', 7]])])
    excel = Excel.parse(path)
    context = Context()
    for column in (0, 3, 1):
        try:
            emit('direct-cycle', column, CellTranslator.translate(Cell(0, column, 0), excel, context))
        except Exception as e:  # noqa
            emit('direct-cycle', column, 'EXC', type(e).__name__, e)
        emit('  state', sorted(context._cell_translations), dict(context._cells_in_progress))
    context = Context()
    try:
        CellTranslator.translate_file(excel, context)
    except Exception as e:  # noqa
        emit('direct-file', 'EXC', type(e).__name__, e)
    emit('  state', sorted(context._cell_translations), dict(context._cells_in_progress))


def context_section():
    context = Context()
    context._titles = {'S': 0, 'T': 1}
    context._sheets_size = [{'last_column': 3, 'last_row': 3}, {'last_column': 1, 'last_row': 1}]
    cells = [Cell(0, 0, 0), Cell(0, 1, 0), Cell(1, 0, 0), Cell(0, 0, None, _handled_identifiers=True), Cell(0, 11, 110)]
    for cell in cells:
        emit('get-before', cell, context.get_cell(cell))
    for index, cell in enumerate(cells):
        emit('set', cell, context.set_cell(cell, f'{index} + 1'), context.get_cell(cell))
    emit('set-again', context.set_cell(cells[0], "'other'"), context.get_cell(Cell(0, 0, 0)))
    codes = ['[1]', 'self._sum([1])', '[1]', '', '[2]', 'self._sum([1])', '[1] ', '[2]', '{x}', '{{y}}']
    for round_number in range(2):
        for cell in cells:
            for code in codes:
                emit('sub', round_number, cell, repr(code), context.set_sub_cell(cell, code))
    emit('sub-map', context._sub_cell_translations)
    emit('divided', context._get_divided_sub_cell_translations())
    emit('cells', context._cell_translations)
    for cell in [Cell('S', 'A', '1'), Cell(0, 'A', 0), Cell(0, 0, '1'), Cell(0, 0)]:
        for action in (context.get_cell, lambda c: context.set_cell(c, '1'), lambda c: context.set_sub_cell(c, '1'),
                       context.start_cell_translation):
            try:
                emit('unhandled', cell, action(cell))
            except Exception as e:  # noqa
                emit('unhandled', cell, 'EXC', type(e).__name__, e)
    try:
        text = context.build_class()
        emit('class', digest(text), functions_of(text))
        emit('class-tail', text[text.index('    def _0_0_0(self)'):])
    except Exception as e:  # noqa
        emit('class', 'EXC', type(e).__name__, e)
    # cycle bookkeeping
    context = Context()
    first = context.start_cell_translation(Cell(0, 0, 0))
    second = context.start_cell_translation(Cell(0, 1, 0))
    emit('progress', first, second, dict(context._cells_in_progress))
    for cell in (Cell(0, 0, 0), Cell(0, 1, 0), Cell(0, 2, 0)):
        try:
            emit('restart', cell, context.start_cell_translation(cell))
        except Exception as e:  # noqa
            emit('restart', cell, 'EXC', type(e).__name__, e)
    context.finish_cell_translation(second)
    context.finish_cell_translation(second)
    context.finish_cell_translation('_9_9_9')
    emit('progress', dict(context._cells_in_progress), context.start_cell_translation(Cell(0, 1, 0)))
    empty = Context()
    emit('empty-class', digest(empty.build_class()), functions_of(empty.build_class()), empty._get_divided_sub_cell_translations())


try:
    context_section()
    closed_slice_section()
    cycle_section()
    direct_section()
finally:
    shutil.rmtree(TMP, ignore_errors=True)

text = '\n'.join(OUT).replace(TMP, '<tmp>')
print(text)
print('DIGEST', digest(text), len(OUT))
sys.exit(0)
