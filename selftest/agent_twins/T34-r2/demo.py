"""Equivalence demo for r2: runtime set_arguments / _cell_preprocessor (both copies of the runtime class)."""
import datetime
import hashlib
import os
import re
import shutil
import sys
import tempfile

from openpyxl import Workbook

from excel2pycl import Parser, Executor, Cell
from excel2pycl.src.object_loader import load_module
from excel2pycl.src.utilities.abstract_excel_in_python_class import AbstractExcelInPython

OUT = []


def emit(*parts):
    OUT.append(' | '.join(str(p) for p in parts))


def show(value):
    if isinstance(value, list):
        return '[' + ', '.join(show(v) for v in value) + ']'
    if isinstance(value, (int, float, str, bool, type(None), datetime.date, tuple, dict)):
        return f'{type(value).__name__}:{value!r}'
    return f'{type(value).__name__}:<object>'


def call(label, fn):
    try:
        value = fn()
    except BaseException as e:  # noqa
        emit(label, 'EXC', type(e).__name__)
        return None
    emit(label, show(value))
    return value


def build_workbook(path, chain=0):
    wb = Workbook()
    ws = wb.active
    ws.title = 'main'
    ws['A1'] = 1
    ws['A2'] = 2
    ws['A3'] = 3
    ws['B1'] = '=A1+A2'
    ws['B2'] = '=SUM(A1:A3)'
    ws['B3'] = '=1/A1'
    ws['C1'] = '=B1+B2+B3'
    ws['C2'] = '=IF(A1>1,"big","small")'
    ws['C3'] = '=SUM(A1:A6)'
    ws['D1'] = '=other!A1+A1'
    ws['D2'] = '=IFERROR(B3,"err")'
    ws['D3'] = '=A10+1'
    ws['E1'] = '=LEFT(E2,2)&"!"'
    ws['E2'] = 'text'
    other = wb.create_sheet('other')
    other['A1'] = 100
    other['A2'] = '=A1*2'
    other['B2'] = '=main!C1+A2'
    if chain:
        deep = wb.create_sheet('deep')
        deep['A1'] = 1
        for n in range(2, chain + 1):
            deep[f'A{n}'] = f'=A{n - 1}+1'
    wb.save(path)
    wb.close()


UIDS = ['_0_0_0', '_0_0_1', '_0_0_2', '_0_1_0', '_0_1_1', '_0_1_2', '_0_2_0', '_0_2_1', '_0_2_2', '_0_3_0', '_0_3_1',
        '_0_3_2', '_0_4_0', '_0_4_1', '_1_0_0', '_1_0_1', '_1_1_1', '_0_0_9', '_5_5_5', '_0_2_0_0', '_0_2_2_0',
        '_0_2_2_1', '_0_9']

ODD_UIDS = ['_arguments', '_titles', '_sheets_size', '_compare', '_cell_preprocessor', 'exec_function_in',
            'set_arguments', 'EmptyCell', 'ExcelInPythonException', '__init__', '__doc__', '__module__', '__dict__',
            '__class__', '_today', '_regexp', '', 'nope', None, 0, 1.5, ('a',), frozenset(), ['list'], {'d': 1},
            {1, 2}, '_only_numeric_list', '__weakref__', '_abc_impl', '__abstractmethods__', '__qualname__']


def state(label, inst):
    emit(label, 'arguments', [(k, show(v)) for k, v in inst._arguments.items()])
    for uid in UIDS:
        call(f'{label} exec {uid}', lambda: inst.exec_function_in(uid))


def exercise(label, make):
    inst = make()
    state(f'{label}.0', inst)
    batches = [
        [{'uid': '_0_0_0', 'value': 10}],
        [{'uid': '_0_0_0', 'value': 11}, {'uid': '_0_0_0', 'value': 12}],
        [{'uid': '_0_1_0', 'value': 1000}],
        [{'uid': '_0_1_2', 'value': '#DIV/0!'}],
        [{'uid': '_0_0_9', 'value': 5}, {'uid': '_5_5_5', 'value': 'far'}],
        [{'uid': '_0_0_0', 'value': 0}],
        [{'uid': '_0_0_0', 'value': None}, {'uid': '_0_1_1', 'value': ''}, {'uid': '_0_0_1', 'value': False}],
        [{'uid': '_0_2_2_0', 'value': 7}, {'uid': '_0_2_0', 'value': datetime.datetime(2021, 2, 3)}],
        [],
        [{'uid': '_1_0_0', 'value': 0.5, 'title': 1, 'column': 0, 'row': 0}],
        [{'uid': '_0_4_1', 'value': 'zebra'}, {'uid': '_0_0_0', 'value': 1}, {'uid': '_0_0_1', 'value': 2}],
        ({'uid': '_0_1_0', 'value': [1, 2]},),
    ]
    for n, batch in enumerate(batches, 1):
        before = inst._arguments
        call(f'{label}.{n} set', lambda: inst.set_arguments(batch))
        emit(f'{label}.{n}', 'rebound', before is not inst._arguments, 'old', list(before))
        state(f'{label}.{n}', inst)

    # rejected argument lists leave the overrides untouched
    bad = {
        'missing-value': [{'uid': '_0_0_0', 'value': 77}, {'uid': '_0_0_1'}],
        'missing-uid': [{'uid': '_0_0_0', 'value': 77}, {'value': 1}],
        'not-dict': [{'uid': '_0_0_0', 'value': 77}, 5],
        'unhashable-uid': [{'uid': '_0_0_0', 'value': 77}, {'uid': [1], 'value': 2}],
        'none': None,
        'string': 'ab',
        'generator': ({'uid': f'_7_7_{i}', 'value': i} for i in range(3)),
        'dict-of-dicts': {'k': {'uid': 'x', 'value': 1}},
        'tuple-entries': [('uid', 'value')],
    }
    for name, batch in bad.items():
        before = inst._arguments
        call(f'{label}.bad.{name}', lambda: inst.set_arguments(batch))
        emit(f'{label}.bad.{name}', 'same-object', before is inst._arguments,
             [(k, show(v)) for k, v in inst._arguments.items()])

    # uids that are not cells
    inst = make()
    for uid in ODD_UIDS:
        call(f'{label}.odd {uid!r}', lambda: inst.exec_function_in(uid))
        call(f'{label}.odd-pre {uid!r}', lambda: inst._cell_preprocessor(uid))
    # ...and overriding them wins over whatever the lookup would have found
    hashable = [u for u in ODD_UIDS if not isinstance(u, (list, dict, set))]
    inst.set_arguments([{'uid': u, 'value': f'ov-{n}'} for n, u in enumerate(hashable)])
    for uid in ODD_UIDS:
        call(f'{label}.odd-overridden {uid!r}', lambda: inst.exec_function_in(uid))

    # instance attributes shadow class attributes; falsy ones mean "empty cell"
    shadows = [None, 0, '', False, [], (lambda self: 'instance-lambda'), (lambda: 'no-arg'), 'string', 5, {},
               (lambda self: self._cell_preprocessor('_0_0_0'))]
    for n, shadow in enumerate(shadows):
        inst = make()
        inst.__dict__['_0_1_0'] = shadow
        inst.__dict__['_3_3_3'] = shadow
        call(f'{label}.shadow{n} class-cell', lambda: inst.exec_function_in('_0_1_0'))
        call(f'{label}.shadow{n} dependent', lambda: inst.exec_function_in('_0_2_0'))
        call(f'{label}.shadow{n} new-cell', lambda: inst.exec_function_in('_3_3_3'))
        inst.set_arguments([{'uid': '_0_1_0', 'value': 'ov'}, {'uid': '_3_3_3', 'value': None}])
        call(f'{label}.shadow{n} class-cell overridden', lambda: inst.exec_function_in('_0_1_0'))
        call(f'{label}.shadow{n} new-cell overridden', lambda: inst.exec_function_in('_3_3_3'))

    # constructor arguments, and a subclass of the class (cell methods are looked up on the exact class only)
    cls = type(make())
    inst = cls([{'uid': '_0_0_0', 'value': 40}, {'uid': '_0_0_0', 'value': 41}])
    state(f'{label}.ctor', inst)
    call(f'{label}.ctor-bad', lambda: cls([{'uid': 1}]))
    call(f'{label}.ctor-none', lambda: cls(None)._arguments)
    sub = type('Sub', (cls,), {'_0_0_1': lambda self: 'sub-cell'})
    state(f'{label}.subclass', sub([{'uid': '_0_0_2', 'value': 30}]))

    # an object without overrides storage
    inst = make()
    del inst.__dict__['_arguments']
    call(f'{label}.no-arguments exec', lambda: inst.exec_function_in('_0_0_0'))
    call(f'{label}.no-arguments set', lambda: inst.set_arguments([{'uid': 'a', 'value': 1}]))
    call(f'{label}.no-arguments set-empty', lambda: inst.set_arguments([]))


def make_abstract_class(chain=0):
    """The runtime class used directly: cells written by hand the way the translator prints them."""
    namespace = {
        '_0_0_0': lambda self: 1,
        '_0_0_1': lambda self: 2,
        '_0_0_2': lambda self: 3,
        '_0_1_0': lambda self: self._cell_preprocessor('_0_0_0') + self._cell_preprocessor('_0_0_1'),
        '_0_1_1': lambda self: self._sum(self._flatten_list([self._cell_preprocessor('_0_1_1_0')])),
        '_0_1_1_0': lambda self: [[self._cell_preprocessor('_0_0_0')], [self._cell_preprocessor('_0_0_1')],
                                  [self._cell_preprocessor('_0_0_2')]],
        '_0_1_2': lambda self: 1 / self._cell_preprocessor('_0_0_0'),
        '_0_2_0': lambda self: self._cell_preprocessor('_0_1_0') + self._cell_preprocessor('_0_1_1')
        + self._cell_preprocessor('_0_1_2'),
        '_0_2_1': lambda self: 'big' if self._compare('>', self._cell_preprocessor('_0_0_0'), 1) else 'small',
        '_0_3_2': lambda self: self._cell_preprocessor('_0_0_9') + 1,
        '_1_0_0': lambda self: 100,
        '_1_0_1': lambda self: self._cell_preprocessor('_1_0_0') * 2,
        '_1_1_1': lambda self: self._cell_preprocessor('_0_2_0') + self._cell_preprocessor('_1_0_1'),
        '_0_4_0': lambda self: self._left(self._cell_preprocessor('_0_4_1'), 2) + '!',
        '_0_4_1': lambda self: 'text',
        '_0_9': 'not callable',
    }
    for n in range(chain):
        namespace[f'_9_0_{n}'] = (lambda k: (lambda self: 1 if k == 0 else self._cell_preprocessor(f'_9_0_{k - 1}') + 1))(n)
    return type('Direct', (AbstractExcelInPython,), namespace)


def deepest(label, evaluate, upper):
    """Largest chain length that still evaluates (recursion depth per cell hop must not change)."""
    results = []
    for n in range(upper - 1, -1, -1):
        try:
            value = evaluate(n)
            results.append((n, value))
            break
        except RecursionError:
            continue
    emit(label, 'deepest evaluable', results)


def main():
    tmp = tempfile.mkdtemp(prefix='r2demo')
    sys.setrecursionlimit(1000)
    try:
        xlsx = os.path.join(tmp, 'book.xlsx')
        out_py = os.path.join(tmp, 'book.py')
        build_workbook(xlsx, chain=700)
        text = Parser().set_excel_file_path(xlsx).write_translation(out_py).get_translation()
        functions = re.findall(r'^    def (_\d[^(]*)\(self\):\n        return (.*)$', text, flags=re.M)
        emit('generated functions', len(functions), hashlib.sha256(repr(functions).encode()).hexdigest())
        for name, code in functions[:25]:
            emit('fn', name, code)
        module = load_module(out_py)

        exercise('generated', lambda: module.ExcelInPython())
        direct = make_abstract_class(chain=700)
        exercise('direct', lambda: direct())

        # recursion depth: deep dependency chains
        gen = module.ExcelInPython()
        deepest('generated', lambda n: module.ExcelInPython().exec_function_in(f'_2_0_{n}'), 700)
        deepest('direct', lambda n: direct().exec_function_in(f'_9_0_{n}'), 700)
        # an override in the middle of the chain cuts the recursion
        gen.set_arguments([{'uid': '_2_0_400', 'value': 0}])
        call('generated chain cut', lambda: gen.exec_function_in('_2_0_699'))
        d = direct([{'uid': '_9_0_400', 'value': 0}])
        call('direct chain cut', lambda: d.exec_function_in('_9_0_699'))

        # through the Executor facade
        ex = Executor().set_executed_class(class_file=out_py)
        probes = [(0, 2, 0), (0, 2, 2), (0, 3, 1), (0, 3, 2), ('other', 'B', '2'), ('main', 'E', '1'), (0, 9, 9)]
        for step in ([Cell(0, 0, 0, 0)], [Cell(0, 1, 2, 5)], [Cell('main', 'A', '10', 1), Cell('main', 'E', '2', 'zq')],
                     [Cell(0, 0, 0, 4), Cell(0, 0, 0, 5)], [Cell(0, 9, 9, None)], [Cell(0, 2, 0, 'const')]):
            ex.set_cells(step)
            for probe in probes:
                call(f'executor {step} {probe}', lambda: ex.get_cell(Cell(*probe)).value)
        ex2 = Executor().set_executed_class(class_object=direct)
        ex2._titles, ex2._sheets_size = {'main': 0, 'other': 1}, [{'last_row': 3, 'last_column': 5},
                                                                   {'last_row': 2, 'last_column': 2}]
        for step in ([Cell(0, 0, 0, 0)], [Cell(0, 1, 2, 5)], [Cell(0, 0, 0, 4), Cell(0, 0, 0, 5)]):
            ex2.set_cells(step)
            call(f'executor-direct {step}', lambda: [c.value for row in ex2.get_sheet(0) for c in row])
    finally:
        shutil.rmtree(tmp, ignore_errors=True)

    text = '\n'.join(OUT)
    print(text)
    print('lines', len(OUT))
    print('sha256', hashlib.sha256(text.encode('utf-8')).hexdigest())


if __name__ == '__main__':
    main()
