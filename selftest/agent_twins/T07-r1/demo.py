"""Equivalence demo for r1: runtime helpers _ifs / _iferror (class copy and template copy).

Prints a deterministic digest; must be byte-identical before and after the refactoring.
"""
import warnings
warnings.filterwarnings('ignore')

import datetime
import hashlib
import itertools
import os
import random
import tempfile

import openpyxl

from excel2pycl import Parser, Executor, Cell
from excel2pycl.src.object_loader import load_module
from excel2pycl.src.utilities.abstract_excel_in_python_class import AbstractExcelInPython

LINES = []


def emit(*parts):
    line = ' | '.join(str(p) for p in parts)
    LINES.append(line)
    print(line)


def show(value):
    return f'{type(value).__name__}:{value!r}'


def attempt(fn, *args):
    try:
        return show(fn(*args))
    except BaseException as exc:  # the helpers use a bare except, so probe BaseException too
        return f'RAISED {type(exc).__name__}'


# ---------------------------------------------------------------- workbook part
FORMULAS = [
    '=IF(A1>3,"big","small")',
    '=IF(A2,1)',
    '=IF(A2,1,2)',
    '=IF(A4,"full","blank")',
    '=IF(A1>3,IF(A2>0,"a","b"),1/0)',
    '=IF(A1<3,1/0,"lazy")',
    '=IF(A1>3,"t",1/0)',
    '=IFS(A1>10,"x",A1>3,"y",TRUE,"z")',
    '=IFS(A1>10,"x",A2>3,"y")',
    '=IFS(A1>3,"first",A1>4,"second")',
    '=IFS(A2,"zero",A3="x","text",TRUE,"rest")',
    '=IFS(A1>10,"x",A1/A2,"y")',
    '=IFS(A1>10,B4,A1>3,B2)',
    '=IFS(A5,"e",TRUE,"f")',
    '=IFS(A1>10,"x",A1>3,A5)',
    '=IFS(A1>10,1,A1>20,2,A1>30,3,A1>40,4,A1>4,5)',
    '=IFERROR(A1/A2,"err")',
    '=IFERROR(A1/B1,"err")',
    '=IFERROR(A5,"was error")',
    '=IFERROR(A3,"was error")',
    '=IFERROR(A4,"was error")',
    '=IFERROR(IFS(A1>10,"x"),"none true")',
    '=IFERROR(IFERROR(A1/A2,B1/A2),"both")',
    '=IFERROR(IFERROR(A1/A2,B1/A1),"both")',
    '=1+IF(A1>3,IFERROR(VLOOKUP(7,A1:B3,2,FALSE),-1),0)*2',
    '=IFERROR(MATCH("q",A1:A3,0),"nf")',
    '=IFERROR(MATCH("x",A1:A3,0),"nf")',
    '=IF(IFERROR(A1/A2,0)=0,IFS(A1=5,"five",TRUE,"other"),"nonzero")',
    '=IFS(IFERROR(A1/A2,FALSE),"a",IF(A1>3,TRUE,FALSE),"b")',
    '=10*IFERROR(IFS(A1>3,A1,TRUE,0),1)+IF(A2,1,2)',
    '=IFERROR(INDEX(A1:B3,5,2),"out")',
    '=IFERROR(INDEX(A1:B3,2,2),"out")',
]


def build_workbook(path):
    wb = openpyxl.Workbook()
    ws = wb.active
    ws.title = 'S'
    cells = {'A1': 5, 'A2': 0, 'A3': 'x', 'A4': None, 'A5': '#DIV/0!',
             'B1': 10, 'B2': 20, 'B3': 30}
    for ref, value in cells.items():
        ws[ref] = value
    for number, formula in enumerate(FORMULAS, start=1):
        ws[f'D{number}'] = formula
    wb.save(path)


def workbook_part(tmp):
    xlsx = os.path.join(tmp, 'book.xlsx')
    out_py = os.path.join(tmp, 'book.py')
    build_workbook(xlsx)
    Parser().set_excel_file_path(xlsx).write_translation(out_py)

    overrides = [
        [],
        [('A', '1', 0)],
        [('A', '1', 50), ('A', '2', 7)],
        [('A', '2', 2), ('A', '3', 'q')],
        [('A', '1', '#N/A')],
        [('A', '2', '#VALUE!'), ('B', '1', 0)],
        [('A', '1', 4.5), ('A', '5', 'fine')],
        [('A', '1', -1), ('A', '2', -1), ('A', '5', '#REF!')],
    ]
    for override in overrides:
        executor = Executor().set_executed_class(class_file=out_py)
        if override:
            executor.set_cells([Cell('S', c, r, value=v) for c, r, v in override])
        emit('OVERRIDE', override)
        for number, formula in enumerate(FORMULAS, start=1):
            emit('  D%d' % number, formula, attempt(lambda: executor.get_cell(Cell('S', 'D', str(number))).value))
    return load_module(out_py).ExcelInPython


# ---------------------------------------------------------------- direct part
class Plain(AbstractExcelInPython):
    pass


def raiser(exc):
    def run():
        raise exc
    return run


def direct_part(label, cls):
    obj = cls()
    empty = obj.EmptyCell()
    errors = ['#NUM!', '#DIV/0!', '#N/A', '#NAME?', '#NULL!', '#REF!', '#VALUE!']
    atoms = [True, False, 0, 1, -1, 0.0, 2.5, '', 'a', 'yes', None, empty, [], [0],
             datetime.datetime(2020, 1, 2), '#ERROR!', '#n/a', ' #N/A', float('nan')] + errors

    # _ifs over every list of length 0..3 and a sample of longer ones
    for length in range(0, 4):
        for combo in itertools.product(atoms, repeat=length):
            if length == 3 and (hash_of(combo) % 7):
                continue
            emit(label, '_ifs', show(list(combo)), attempt(obj._ifs, list(combo)))
    rnd = random.Random(1307)
    for _ in range(400):
        combo = [rnd.choice(atoms) for _ in range(rnd.randint(4, 9))]
        emit(label, '_ifs', show(combo), attempt(obj._ifs, combo))
    for bad in [None, 5, 'abc', (True, 'tuple'), (False, 1, True)]:
        emit(label, '_ifs bad', show(bad), attempt(obj._ifs, bad))

    # _iferror: plain values, error values, failures of every kind
    for atom in atoms:
        for fallback in ['fb', 0, None, '#N/A']:
            emit(label, '_iferror value', show(atom), show(fallback),
                 attempt(obj._iferror, lambda atom=atom: atom, fallback))
    failures = [ZeroDivisionError('x'), ValueError('v'), TypeError('t'), KeyError('k'), IndexError('i'),
                RecursionError('r'), KeyboardInterrupt(), SystemExit(3), GeneratorExit(), StopIteration(),
                obj.ExcelInPythonException('own'), BaseException('base')]
    for failure in failures:
        emit(label, '_iferror failure', type(failure).__name__,
             attempt(obj._iferror, raiser(failure), 'fallback'))
    emit(label, '_iferror not callable', attempt(obj._iferror, 5, 'fallback'))
    emit(label, '_iferror nested',
         attempt(obj._iferror, lambda: obj._iferror(raiser(ValueError()), '#REF!'), 'outer'))
    emit(label, '_iferror nested ok',
         attempt(obj._iferror, lambda: obj._iferror(lambda: 7, '#REF!'), 'outer'))
    emit(label, '_iferror of _ifs',
         attempt(obj._iferror, lambda: obj._ifs([False, 1, 0, 2]), 'no branch'))
    emit(label, '_iferror of odd _ifs',
         attempt(obj._iferror, lambda: obj._ifs([False, 1, True]), 'odd'))

    class Odd:
        """equal to everything, so it looks like an error value; truthiness configurable"""
        def __init__(self, truth):
            self.truth = truth

        def __eq__(self, other):
            return True

        def __bool__(self):
            if self.truth is None:
                raise RuntimeError('no truth value')
            return self.truth

        def __repr__(self):
            return f'Odd({self.truth})'

    for truth in (True, False, None):
        emit(label, '_iferror odd', truth, attempt(obj._iferror, lambda truth=truth: Odd(truth), 'fallback'))
        emit(label, '_ifs odd', truth, attempt(obj._ifs, [Odd(truth), 'picked', True, 'later']))


def hash_of(combo):
    return int(hashlib.md5(repr([show(c) for c in combo]).encode()).hexdigest(), 16)


def main():
    with tempfile.TemporaryDirectory() as tmp:
        generated_cls = workbook_part(tmp)
        direct_part('class', Plain)
        direct_part('template', generated_cls)
    digest = hashlib.sha256('\n'.join(LINES).encode()).hexdigest()
    print('LINES', len(LINES))
    print('DIGEST', digest)


if __name__ == '__main__':
    main()
