"""Equivalence demo for r3 (handle_cell: membership test + lookup -> one .get with a sentinel, nested if -> conditional
expression; Excel._fill_cell: chained conditional expression -> guard-clause helper _read_value).

Calls handle_cell and the Excel accessors directly on many coordinates (including boundary and invalid ones, printing
the cell state also after a failure) and runs the whole pipeline on a multi-sheet workbook of reference formulas.
"""
import hashlib
import itertools
import os
import sys
import tempfile
import warnings
from collections import OrderedDict, defaultdict

warnings.filterwarnings('ignore')

from openpyxl import Workbook

from excel2pycl import Parser, Executor, Cell
from excel2pycl.src.excel import Excel
from excel2pycl.src.handle_cell import handle_cell

OUT = []


def emit(*parts):
    OUT.append(' | '.join(str(p) for p in parts))


def show(value):
    return f'{type(value).__name__}:{value!r}'


def state(cell):
    return f'title={cell.title!r} column={cell.column!r} row={cell.row!r} value={cell.value!r} ' \
           f'handled={cell._handled_identifiers!r}'


def attempt(tag, label, fn, cell=None):
    try:
        result = fn()
        emit(tag, label, 'ok', result if cell is None else state(cell))
    except Exception as e:  # noqa
        emit(tag, label, 'EXC ' + type(e).__name__, str(e)[:90], '' if cell is None else state(cell))


# ---------------------------------------------------------------- 1. handle_cell directly
title_maps = {
    'plain': {'First': 0, 'Second': 1, 'Third sheet': 2},
    'odd': {'': 0, '0': 1, 'None': 2, ' lead': 3, 'Ünï': 4, "it's": 5},
    'empty': {},
    'ordered': OrderedDict([('First', 0), ('Second', 1)]),
    'default': defaultdict(lambda: 77, {'First': 0}),
    'none-valued': {'First': None, 'Second': 0},
}
titles_in = ['First', 'Second', 'Third sheet', 'first', 'FIRST', '', '0', 'None', ' lead', 'lead', 'Ünï', "it's",
             'Missing', 0, 1, 5, -1, None, True]
columns_in = ['A', 'Z', 'AA', 'AZ', 'ZZ', 'AAA', 'XFD', 'XFE', 'ZZZ', 'a', 'xfd', '', 'A1', '1', ' A', 0, 25, 16383,
              -1, None]
rows_in = ['1', '2', '10', '1048576', '0', '', '007', '-1', ' 5', '5 ', 'x', '1.0', '٣', 0, 7, -1, None]
for map_name, title_map in title_maps.items():
    for title in titles_in:
        for column, row in [('B', '3'), ('XFD', ''), (2, 4), ('', '1'), ('C', 'x')]:
            c = Cell(title, column, row)
            attempt('handle', f'{map_name} {title!r} {column!r} {row!r}', lambda: handle_cell(c, title_map), c)
    if isinstance(title_map, defaultdict):
        emit('handle', map_name, 'map after', sorted(title_map.items()))
for column, row in itertools.product(columns_in, rows_in):
    c = Cell('Second', column, row)
    attempt('handle', f'coords {column!r} {row!r}', lambda: handle_cell(c, title_maps['plain']), c)
    # second pass over the same object: identifiers already handled (or half converted after a failure)
    attempt('handle', f'coords again {column!r} {row!r}', lambda: handle_cell(c, title_maps['odd']), c)
c = Cell('Nope', 'ZZ', 'bad', value=5, _handled_identifiers=True)
attempt('handle', 'pre-handled garbage', lambda: handle_cell(c, {}), c)

# ---------------------------------------------------------------- 2. Excel accessors on hand-made (ragged) data
data = [
    [[1, 2, 3], [4], [], [None, 'x', '=A1', 0, False], [5.5, None]],
    [],
    [[]],
    [['only']],
]
excel = Excel({'data': data, 'titles': ['First', 'Second', 'Third sheet', 'Four'], 'suspicious_cells': {},
               'sheets_size': [{'last_column': 5, 'last_row': 5}, {'last_column': 0, 'last_row': 0},
                               {'last_column': 0, 'last_row': 1}, {'last_column': 1, 'last_row': 1}]})
coords = [-2, -1, 0, 1, 2, 3, 4, 5, 6, None, '1', 1.0, True]
for title, column, row in itertools.product([-1, 0, 1, 2, 3, 4, 'First', None, 1.0], coords, coords):
    c = Cell(title, column, row, value='sentinel')
    attempt('_fill_cell', f'{title!r} {column!r} {row!r}', lambda: excel._fill_cell(c), c)
    c = Cell(title, column, row, value='sentinel', _handled_identifiers=True)
    attempt('_fill_cell handled', f'{title!r} {column!r} {row!r}', lambda: excel._fill_cell(c), c)
for title, column, row in itertools.product(['First', 'Second', 'Third sheet', 'Four', 'Five', 0, 3, 4],
                                            ['A', 'B', 'E', 'F', 'XFD', 0, 4], ['1', '4', '5', '6', '', 0, 9, None]):
    c = Cell(title, column, row, value='sentinel')
    attempt('fill_cell', f'{title!r} {column!r} {row!r}', lambda: excel.fill_cell(c), c)


def cells(result):
    if isinstance(result, list):
        return [cells(i) for i in result]
    return f'{result.title}:{result.column}:{result.row}={result.value!r}'


areas = [('A', '1', 'A', '5'), ('A', '1', 'E', '1'), ('A', '4', 'F', '4'), ('B', '2', 'B', '9'), ('A', '', 'A', ''),
         ('E', '', 'E', ''), ('A', '', 'C', ''), ('A', '1', 'C', '3'), ('D', '4', 'F', '6'), ('C', '3', 'A', '1'),
         ('A', '1', 'B', '2'), ('A', '5', 'A', '1'), ('A', '', 'B', '2'), ('A', '2', 'B', ''), ('XFD', '1', 'XFD', '2')]
for title in ['First', 'Second', 'Third sheet', 'Four', 'Nope']:
    for c1, r1, c2, r2 in areas:
        attempt('get_range', f'{title} {c1}{r1}:{c2}{r2}',
                lambda: cells(excel.get_range(Cell(title, c1, r1), Cell(title, c2, r2))))
        attempt('get_matrix', f'{title} {c1}{r1}:{c2}{r2}',
                lambda: cells(excel.get_matrix(Cell(title, c1, r1), Cell(title, c2, r2))))
attempt('get_range', 'two sheets', lambda: cells(excel.get_range(Cell('First', 'A', '1'), Cell('Four', 'A', '2'))))
attempt('get_matrix', 'two sheets', lambda: cells(excel.get_matrix(Cell('First', 'A', '1'), Cell('Four', 'B', '2'))))
attempt('get_cells', 'all', lambda: cells(excel.get_cells()))
attempt('similar', 'second', lambda: cells(excel.get_similar_second(Cell('First', 'C', '2'), Cell('Four', 'A', '1'),
                                                                     Cell('Four', 'B', '3'))))

# ---------------------------------------------------------------- 3. whole pipeline on a multi-sheet workbook
tmp = tempfile.mkdtemp()
sheet_titles = ['Main', 'Data', 'Other sheet', 'S2024', "Ünï", 'a.b', '2nd']


def build(path, formula_list):
    wb = Workbook()
    ws = wb.active
    ws.title = sheet_titles[0]
    for n, title in enumerate(sheet_titles[1:], start=1):
        other = wb.create_sheet(title)
        for r in range(1, 5):
            for col in range(1, 5):
                if (r + col + n) % 4:
                    other.cell(row=r, column=col, value=n * 100 + r * 10 + col)
        other.cell(row=6, column=2, value=f'text {title}')
    ws['A1'], ws['A2'], ws['A3'], ws['B1'], ws['B3'], ws['C2'] = 1, 2, 3, 10, 30, 'c2'
    ws['XFD1'] = 'far'
    for i, f in enumerate(formula_list, start=1):
        ws.cell(row=i, column=6, value=f)
    wb.save(path)


refs = ['A1', '$A$1', '$A1', 'A$1', 'B2', 'C2', 'Z99', 'XFD1', 'XFD9', 'AA10']
prefixes = ['', 'Main!', 'Data!', "'Data'!", "'Other sheet'!", 'S2024!', "'Ünï'!", "'a.b'!", "'2nd'!", "'Main'!"]
formulas = [f'={p}{r}' for p in prefixes for r in refs]
ranges = ['A1:A4', 'A1:D1', '$A$1:$A$4', 'A2:D2', 'B1:B6', 'A1:B2', 'A1:D4', 'B2:C3', 'A:A', 'B:B', 'A:C', '$A:$B',
          'D4:F7', 'A4:A9']
for p in prefixes:
    for rng in ranges:
        formulas += [f'=SUM({p}{rng})', f'=COUNT({p}{rng})', f'=COUNTBLANK({p}{rng})']
formulas += ["=INDEX(Data!A1:D4;2;3)", "=INDEX('Other sheet'!A1:D4;4;1)", "=VLOOKUP(111;Data!A1:D4;2;FALSE)",
             "=MATCH(231;'Other sheet'!A3:D3;0)", "=SUM(Data!A1:B2;'2nd'!A1:B2)", "=Data!B6&'a.b'!B6",
             "=CONCATENATE(Data!A1;Data!E5;\"|\")", "=Data!A1+Data!E5", "=MAX(S2024!A:B)", "=MIN('Ünï'!A:D)"]
xlsx = os.path.join(tmp, 'refs.xlsx')
py = os.path.join(tmp, 'refs.py')
build(xlsx, formulas)
# pre-screen: formulas the translator rejects are reported with the exception and left out of the final workbook
from excel2pycl.src.context import Context
from excel2pycl.src.translators import CellTranslator
screen_excel = Excel.parse(xlsx)
accepted = []
for i, f in enumerate(formulas):
    try:
        CellTranslator.translate(Cell(0, 5, i), screen_excel, Context())
        accepted.append(f)
    except Exception as e:  # noqa
        emit('untranslatable', f, type(e).__name__, str(e)[:90])
formulas = accepted
emit('accepted formulas', len(formulas))
build(xlsx, formulas)
parser = Parser().set_excel_file_path(xlsx)
parser.write_translation(py)
text = parser.get_translation()
emit('translation sha256', hashlib.sha256(text.encode()).hexdigest(), len(text))


def evaluate(executor, tag):
    for i, f in enumerate(formulas):
        try:
            emit(tag, f, show(executor.get_cell(Cell(0, 5, i)).value))
        except Exception as e:  # noqa
            emit(tag, f, 'EXC ' + type(e).__name__)


ex = Executor().set_executed_class(class_file=py)
evaluate(ex, 'wb')
for title in sheet_titles + ['main', 'Nope', '', 0, 6, 7, -1]:
    for column, row in [('A', '1'), ('B', '6'), ('XFD', '1'), ('E', '9'), (0, 0), ('A', ''), ('XFE', '1'), ('A', '0')]:
        c = Cell(title, column, row)
        attempt('executor.get_cell', f'{title!r} {column!r} {row!r}', lambda: show(ex.get_cell(c).value), c)
overrides = [Cell('Data', 'A', '1', value=-1), Cell('Other sheet', 'E', '5', value=1000), Cell("Ünï", 'A', '2', value=None),
             Cell('Main', 'A', '1', value=50), Cell(6, 0, 0, value='zero-based'), Cell('2nd', 'B', '6', value='')]
ex2 = Executor().set_executed_class(class_file=py)
ex2.set_cells(overrides)
emit('overrides', [state(c) for c in overrides])
evaluate(ex2, 'ov')
for bad in [Cell('Nope', 'A', '1', value=1), Cell('Main', 'XFE', '1', value=1), Cell('Main', 'A', 'x', value=1)]:
    attempt('executor.set_cells', state(bad), lambda: ex2.set_cells([bad]) and 'set', bad)

for n, f in enumerate(["=Nope!A1", "='No such'!A1:A3", "=SUM(Missing!A:A)", "='main'!A1", "=Data!A1:Other!A2",
                       "=SUM(A1:B2:C3)", "=Data!", "=Data!A0", "=A1:B", "=1:3"]):
    path = os.path.join(tmp, f'err{n}.xlsx')
    build(path, [f])
    try:
        t = Parser().set_excel_file_path(path).get_translation()
        emit('reject', f, 'translated', hashlib.sha256(t.encode()).hexdigest())
    except Exception as e:  # noqa
        emit('reject', f, 'EXC ' + type(e).__name__, str(e)[:90])

digest = hashlib.sha256('\n'.join(OUT).encode()).hexdigest()
print('\n'.join(OUT))
print('lines', len(OUT), 'digest', digest)
sys.exit(0)
