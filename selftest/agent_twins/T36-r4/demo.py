"""Equivalence demonstration for r4 (Excel reader: cells of a row / column / rectangle / whole column area).

Part 1 drives Excel.get_range, Excel.get_matrix, Excel.fill_cell, Excel._fill_cell and Excel.get_cells directly,
on a workbook read from disk and on hand-made (ragged) sheet data, for thousands of corner pairs written with
integer and with Excel-style identifiers, in and out of the stored part of the sheets, valid and rejected.
Part 2 translates aggregate formulas over all kinds of areas, digests the complete generated class text
(this refactoring does not touch the runtime template) and evaluates every formula, also with overrides.
"""
import datetime
import hashlib
import os
import random
import shutil
import sys
import tempfile

from openpyxl import Workbook

from excel2pycl import Parser, Executor, Cell
from excel2pycl.src.excel import Excel


def show_cell(cell):
    if isinstance(cell, Cell):
        return f'({cell.title!r},{cell.column!r},{cell.row!r},{cell.value!r},{cell.has_handled_identifiers()})'
    if isinstance(cell, list):
        return '[' + ' '.join(show_cell(item) for item in cell) + ']'
    return repr(cell)


def describe(function, *args):
    try:
        return show_cell(function(*args))
    except BaseException as error:
        return f'raised {type(error).__name__}: {error}'


DATA = [
    [1, 2.5, 'text', True, None],
    [None, '', 7, '12', 3],
    [-3, 0, False, None, 4],
    ['#N/A', 4, 1e10, 0.1, None],
    [datetime.datetime(2024, 5, 17), 8, None, ' ', 6],
    [0.2, None, '', -0.5, 7],
]


def build(tmp):
    path = os.path.join(tmp, 'areas.xlsx')
    wb = Workbook()
    f = wb.active
    f.title = 'F'
    d = wb.create_sheet('Data')
    for r, row in enumerate(DATA, start=1):
        for c, value in enumerate(row, start=1):
            d.cell(row=r, column=c, value=value)
    sparse = wb.create_sheet('Sp arse')
    sparse['A1'] = 1
    sparse['F3'] = 2
    sparse['B9'] = '=SUM(A1:F3)'
    sparse['C5'] = 5
    wb.create_sheet('Empty')
    f['A1'], f['A2'], f['A3'] = 10, 'n', 0.5
    return wb, f, path


FORMULAS = [
    '=SUM(Data!A1:E1)', '=SUM(Data!B1:B6)', '=SUM(Data!A1:E6)', '=SUM(Data!B:B)', '=SUM(Data!B1:B3,Data!B4:B6)',
    '=SUM(Data!B1:B3)+SUM(Data!B4:B6)', '=SUM(Data!A1:B3,Data!C1:E3,5)', '=SUM(Data!B:C)', '=SUM(Data!A:E)',
    '=SUM(A1:A3)', '=SUM(A:A)', '=SUM(Data!B1:B60)', '=SUM(Data!A1:Z1)', '=SUM(Data!A1:H9)', '=SUM(Data!G1:H2)',
    "=SUM('Sp arse'!A1:F3)", "=SUM('Sp arse'!A:F)", "=SUM('Sp arse'!F:F)", "=COUNT('Sp arse'!A1:F9)",
    "=COUNTBLANK('Sp arse'!A1:F9)", '=SUM(Empty!A1:C3)', '=COUNTBLANK(Empty!A1:C3)', '=SUM(Empty!A:A)',
    '=AVERAGE(Data!B1:B6)', '=AVERAGE(Data!A1:E6)', '=AVERAGE(Data!E:E)', '=AVERAGE(Data!B1:B3,Data!D3:D6,10)',
    '=MIN(Data!B1:B6)', '=MIN(Data!B1:E3)', '=MIN(Data!E:E,-100)', '=MAX(Data!B1:E3)', '=MAX(Data!E:E,1)',
    '=MAX(Data!A2:A3,Data!C1:C2)', '=COUNT(Data!A1:E6)', '=COUNT(Data!B:B)', '=COUNT(Data!A1:E1,Data!A5:E5)',
    '=COUNT(Data!B:E)', '=COUNTBLANK(Data!B1:B6)', '=COUNTBLANK(Data!B:B)', '=COUNTBLANK(Data!B2:E3)',
    '=COUNTBLANK(Data!B1:B60)', '=AND(Data!B1:B3)', '=OR(Data!B2:B3)', '=AND(Data!A1:B1,Data!D1)', '=OR(Data!A2:E2)',
    '=SUM(Data!A1:E6)=SUM(Data!A1:B6)+SUM(Data!C1:E6)', '=SUM(Data!B1:B6)=SUM(Data!B1:B2)+SUM(Data!B3:B6)',
    '=SUM(Data!$B$1:$B$6)', '=SUM(Data!B$1:B6)', '=SUM(Data!B6:B1)', '=SUM(Data!E1:A1)', '=SUM(Data!E6:A1)',
    '=SUM(Data!B3:B3)', '=SUM(Data!B1:B)', '=SUM(Data!B:B6)', '=SUM(Data!A1:C)', '=SUM(Nope!A1:A2)',
    '=SUM(Data!A1:Empty!A2)', '=VLOOKUP(7,Data!C1:E6,3,FALSE)', '=INDEX(Data!A1:E6,2,3)', '=SUMIF(Data!B1:B6,">1")',
    '=SUMIF(Data!B1:B6,">1",Data!E1:E6)', '=MATCH(4,Data!B1:B6,0)', '=MATCH(7,Data!A2:E2,0)',
]
OVERRIDES = [('Data', 'B', '2', 40), ('Data', 'B', '7', 1000), ('Data', 'A', '1', None), ('Data', 'E', '1', 3),
             ('Sp arse', 'D', '2', 11), ('Empty', 'A', '1', 2), ('F', 'A', '2', 5)]


def direct_part(path, out):
    excel = Excel.parse(path)
    ragged = Excel({'data': [[[1, 2, 3], [4], [], [5, 6, 7, 8]], [], [[9]]], 'titles': ['R', 'E', 'One'],
                    'suspicious_cells': {}, 'sheets_size': [{'last_column': 4, 'last_row': 4}] * 3})
    out.append('titles ' + repr(excel.get_titles()) + ' sizes ' + repr(excel.get_sheets_size()))
    out.append('cells ' + describe(excel.get_cells))
    out.append('ragged cells ' + describe(ragged.get_cells))
    titles = [0, 1, 2, 3, 'F', 'Data', 'Sp arse', 'Empty', 'Nope', 7, -1]
    columns = [0, 1, 2, 4, 5, 9, -1, 'A', 'B', 'C', 'E', 'F', 'AA']
    rows = [None, 0, 1, 2, 5, 6, 12, -1, '1', '2', '3', '6', '7', '', '0']
    rnd = random.Random(4242)
    for name, source in (('book', excel), ('ragged', ragged)):
        source_titles = titles if name == 'book' else [0, 1, 2, 3, 'R', 'E', 'One', 'Nope', -1]
        for index in range(2500):
            same_title = rnd.random() < 0.85
            t1 = rnd.choice(source_titles)
            t2 = t1 if same_title else rnd.choice(source_titles)
            kind = rnd.choice(['int', 'str'])
            pick_c = [c for c in columns if isinstance(c, int if kind == 'int' else str)]
            pick_r = [r for r in rows if r is None or isinstance(r, int if kind == 'int' else str)]
            c1, c2 = rnd.choice(pick_c), rnd.choice(pick_c)
            r1, r2 = rnd.choice(pick_r), rnd.choice(pick_r)
            shape = rnd.random()
            if shape < 0.3:
                c2 = c1
            elif shape < 0.6:
                r2 = r1
            elif shape < 0.7:
                r1 = r2 = None if kind == 'int' else ''
            tag = f'{name}{index} ({t1!r},{c1!r},{r1!r})-({t2!r},{c2!r},{r2!r})'
            out.append(f'{tag} range = ' + describe(source.get_range, Cell(t1, c1, r1), Cell(t2, c2, r2)))
            out.append(f'{tag} matrix = ' + describe(source.get_matrix, Cell(t1, c1, r1), Cell(t2, c2, r2)))
            out.append(f'{tag} fill = ' + describe(source.fill_cell, Cell(t1, c1, r1)))
            if kind == 'int':
                out.append(f'{tag} _fill = ' + describe(source._fill_cell, Cell(t1, c1, r1, value='kept?')))
                out.append(f'{tag} _matrix = ' + describe(source._get_matrix, Cell(t1, c1, r1), Cell(t2, c2, r2)))
    # the value of a cell is left alone when the bounds test itself fails
    cell = Cell('Data', 0, 0, value='kept', _handled_identifiers=True)
    out.append('unhandled title = ' + describe(excel._fill_cell, cell) + ' -> ' + show_cell(cell))
    first, second = Cell('Data', 'B', '2'), Cell('Data', 'D', '4')
    out.append('same objects = ' + describe(excel.get_matrix, first, second) + ' / ' + show_cell(first) + show_cell(second))
    out.append('open end = ' + describe(excel.get_range, Cell('Data', 'B', '1'), Cell('Data', 'B', '')))
    out.append('open start = ' + describe(excel.get_range, Cell('Data', 'B', ''), Cell('Data', 'B', '3')))
    out.append('open row = ' + describe(excel.get_range, Cell(1, 0, None), Cell(1, 3, None)))
    out.append('open corner = ' + describe(excel._get_matrix, Cell(1, 0, 0), Cell(1, 3, None)))
    out.append('text column = ' + describe(excel.get_range, Cell(1, 0, 2, _handled_identifiers=True),
                                           Cell(1, 'C', 2, _handled_identifiers=True)))
    out.append('again = ' + describe(excel.get_range, first, Cell('Data', 'B', '9')))


def formula_part(tmp, wb, sheet, path, out):
    for offset, formula in enumerate(FORMULAS):
        sheet.cell(row=1, column=2 + offset, value=formula)
    wb.save(path)
    accepted = []
    for offset, formula in enumerate(FORMULAS):
        parser = Parser().set_excel_file_path(path).set_entrypoint_cell(Cell('F', 1 + offset, 0))
        try:
            text = parser.get_translation()
            compile(text, 'generated', 'exec')
            accepted.append(offset)
            out.append(f'alone {formula} -> ' + hashlib.sha256(text.encode()).hexdigest()[:16]
                       + f' {len(text.splitlines())} lines')
        except BaseException as error:
            out.append(f'alone {formula} -> raised {type(error).__name__}: {error}')
    out.append(f'accepted {len(accepted)} of {len(FORMULAS)}')
    for offset in range(len(FORMULAS)):
        sheet.cell(row=1, column=2 + offset, value=None)
    for position, offset in enumerate(accepted):
        sheet.cell(row=1, column=2 + position, value=FORMULAS[offset])
    path2 = os.path.join(tmp, 'areas_ok.xlsx')
    wb.save(path2)
    wb.close()
    out_py = os.path.join(tmp, 'areas_translated.py')
    text = Parser().set_excel_file_path(path2).write_translation(out_py).get_translation()
    out.append('whole class sha256 ' + hashlib.sha256(text.encode()).hexdigest() + f' {len(text.splitlines())} lines')

    def evaluate(executor, label):
        for position, offset in enumerate(accepted):
            try:
                value = executor.get_cell(Cell('F', 1 + position, 0)).value
                result = f'{type(value).__name__}:{value!r}'
            except BaseException as error:
                result = f'raised {type(error).__name__}: {error}'
            out.append(f'{label} {FORMULAS[offset]} = {result}')
        out.append(f"{label} 'Sp arse'!B9 = " + repr(executor.get_cell(Cell('Sp arse', 'B', '9')).value))

    executor = Executor().set_executed_class(class_file=out_py)
    evaluate(executor, 'sheet')
    for step, (title, column, row, value) in enumerate(OVERRIDES):
        executor.set_cells([Cell(title, column, row, value=value)])
        evaluate(executor, f'override{step}')


def main():
    out = []
    tmp = tempfile.mkdtemp(prefix='t36_r4_')
    try:
        wb, sheet, path = build(tmp)
        wb.save(path)
        direct_part(path, out)
        formula_part(tmp, wb, sheet, path, out)
    finally:
        shutil.rmtree(tmp, ignore_errors=True)
    blob = '\n'.join(out)
    print('lines', len(out))
    print('sha256', hashlib.sha256(blob.encode()).hexdigest())
    raised = {}
    for line in out:
        if 'raised ' in line:
            kind = line.split('raised ')[1].split(':')[0]
            raised[kind] = raised.get(kind, 0) + 1
    print('raised', sorted(raised.items()))
    for line in out[::487]:
        print(line[:400])
    for line in out:
        if line.startswith(('alone', 'accepted', 'whole', 'sheet', 'override0', 'override6', 'titles', 'unhandled',
                            'same objects', 'again', 'open', 'text column')):
            print(line[:400])
    return 0


if __name__ == '__main__':
    sys.exit(main())
