"""Equivalence demo for r1: Executor.set_cells / get_sheet (override bookkeeping, C04).

Builds a two-sheet workbook, translates it, then drives the Executor facade through
many override histories (constants, formula cells, blank cells, cells beyond the used
range, repeated writes, failing writes) and prints every observable result.
"""
import warnings
warnings.simplefilter('ignore')

import datetime
import hashlib
import os
import shutil
import tempfile

from openpyxl import Workbook

from excel2pycl import Parser, Executor, Cell


def build_workbook(path):
    wb = Workbook()
    ws = wb.active
    ws.title = 'Main'
    rows = [
        [1, 2, 3, '=SUM(A1:C1)', '=D1*2'],
        [4, 'txt', None, '=SUM(A1:C2)', '=IF(D2>10, "big", "small")'],
        [7.5, True, '', '=AVERAGE(A1:A3)', '=Other!A1+A1'],
        ['=A1/A9', '=IFERROR(A4, -1)', '=COUNT(A1:C3)', '=MAX(A1:C3)', '=MIN(A1:C3)'],
        [None, None, None, None, '=SUM(A:A)'],
    ]
    for row in rows:
        ws.append(row)
    other = wb.create_sheet('Other')
    other.append([100, '=A1+Main!B1', '=SUM(Main!A1:C3)'])
    other.append(['=Main!D1', None, '=COUNTBLANK(Main!A1:C5)'])
    wb.save(path)
    wb.close()


def show(value):
    if isinstance(value, datetime.datetime):
        return 'dt:' + value.isoformat()
    return f'{type(value).__name__}:{value!r}'


LINES = []


def out(*parts):
    line = ' '.join(str(p) for p in parts)
    LINES.append(line)
    print(line)


def read(executor, title, column, row):
    try:
        return show(executor.get_cell(Cell(title, column, row)).value)
    except Exception as exc:  # noqa
        return 'EXC:' + type(exc).__name__


def dump(executor, label):
    out('--', label)
    for title, ncols, nrows in (('Main', 7, 8), ('Other', 4, 4)):
        for r in range(nrows):
            out(label, title, r, [read(executor, title, c, r) for c in range(ncols)])
    for sheet in (0, 1, 'Main', 'Other'):
        try:
            grid = executor.get_sheet(sheet)
            out(label, 'sheet', sheet, len(grid), [len(g) for g in grid],
                [[show(c.value) for c in g] for g in grid])
        except Exception as exc:  # noqa
            out(label, 'sheet', sheet, 'EXC:' + type(exc).__name__)
    out(label, 'sizes', executor._sheets_size, 'same-object',
        executor._sheets_size is executor.get_executed_class().get_sheets_size(),
        'pending', executor._cells_have_been_changed)
    out(label, 'cells', [(k, show(v.value)) for k, v in executor._cells.items()])
    out(label, 'args', sorted((k, show(v)) for k, v in executor.get_executed_class()._arguments.items()))


def attempt(executor, label, cells):
    try:
        result = executor.set_cells(cells)
        out(label, 'set_cells ok', result is executor, 'changed', executor._cells_have_been_changed)
    except Exception as exc:  # noqa
        out(label, 'set_cells EXC', type(exc).__name__, str(exc), 'changed', executor._cells_have_been_changed)


def main():
    tmp = tempfile.mkdtemp(prefix='r1demo')
    try:
        xlsx = os.path.join(tmp, 'book.xlsx')
        out_py = os.path.join(tmp, 'book.py')
        build_workbook(xlsx)
        Parser().set_excel_file_path(xlsx).write_translation(out_py)

        def fresh():
            return Executor().set_executed_class(class_file=out_py)

        ex = fresh()
        dump(ex, 'h0')

        attempt(ex, 'h1', [Cell('Main', 'A', '1', value=10)])
        dump(ex, 'h1')

        # formula cell overridden; its error no longer matters
        attempt(ex, 'h2', [Cell('Main', 'A', '4', value=5), Cell(0, 3, 0, value=1000)])
        dump(ex, 'h2')

        # last write wins inside one call and across calls
        attempt(ex, 'h3', [Cell(0, 0, 0, value=1), Cell(0, 0, 0, value=2), Cell('Main', 'A', '1', value=3)])
        dump(ex, 'h3')
        attempt(ex, 'h4', [Cell(0, 0, 0, value=-4.5)])
        dump(ex, 'h4')

        # blank cells and cells beyond the used range, on both sheets
        attempt(ex, 'h5', [Cell('Main', 'C', '2', value=30), Cell('Main', 'A', '9', value=2),
                           Cell('Main', 'G', '7', value='far'), Cell('Other', 'D', '4', value=7),
                           Cell(1, 1, 1, value=False)])
        dump(ex, 'h5')

        # override with None / empty string / bool / text / date
        attempt(ex, 'h6', [Cell(0, 1, 0, value=None), Cell(0, 2, 0, value=''), Cell(0, 0, 1, value=True),
                           Cell(0, 0, 2, value='12'), Cell(1, 0, 0, value=datetime.datetime(2020, 1, 2))])
        dump(ex, 'h6')

        # failing writes: what is kept, what is not
        attempt(ex, 'h7', [Cell(0, 9, 11, value=1), Cell('Nope', 'A', '1', value=2), Cell(0, 20, 20, value=3)])
        dump(ex, 'h7')
        attempt(ex, 'h8', [Cell(1, 6, 6, value=1), Cell(5, 0, 0, value=2)])
        dump(ex, 'h8')
        attempt(ex, 'h9', [Cell('Main', 'B', '', value=1)])
        attempt(ex, 'h9b', [Cell(0, 'B', 3, value=1)])
        attempt(ex, 'h9c', [Cell(0, 1, None, value=1)])
        attempt(ex, 'h9d', [Cell(-1, 0, 12, value='neg')])
        attempt(ex, 'h9e', [])
        attempt(ex, 'h9f', (c for c in [Cell(0, 0, 0, value=99)]))
        attempt(ex, 'h9g', [Cell(0, 2.0, 1, value=5)])
        dump(ex, 'h9')

        # the same cell object reused after it has been handled
        shared = Cell('Other', 'A', '1', value=1)
        attempt(ex, 'h10', [shared])
        shared.value = 2
        attempt(ex, 'h10b', [shared, shared])
        dump(ex, 'h10')

        # ties between a float extent and the stored integer extent
        tie = fresh()
        attempt(tie, 'tie', [Cell(0, 4.0, 0, value=1), Cell(1, 0, 1.0, value=2), Cell(0, 0, 3, value=0)])
        dump(tie, 'tie')

        # many histories on fresh executors: random but deterministic write sequences
        import random
        rnd = random.Random(20260930)
        values = [0, 1, -2, 3.25, '', None, 'x', True, False, '7', 1e9]
        for n in range(25):
            e = fresh()
            steps = []
            if n % 2:
                attempt(e, f'r{n}', [Cell(0, 0, 3, value=n)])
            for _ in range(rnd.randint(1, 5)):
                batch = []
                for _ in range(rnd.randint(0, 4)):
                    t = rnd.choice([0, 1, 'Main', 'Other'])
                    if isinstance(t, int):
                        c = Cell(t, rnd.randint(0, 7), rnd.randint(0, 7), value=rnd.choice(values))
                    else:
                        c = Cell(t, rnd.choice('ABCDEFGH'), str(rnd.randint(1, 8)), value=rnd.choice(values))
                    batch.append(c)
                steps.append(batch)
                attempt(e, f'r{n}', batch)
                if rnd.random() < 0.5:
                    out(f'r{n}', 'peek', [read(e, 0, c, 0) for c in range(5)])
            dump(e, f'r{n}')

        out('DIGEST', hashlib.sha256('\n'.join(LINES).encode()).hexdigest())
    finally:
        shutil.rmtree(tmp, ignore_errors=True)


if __name__ == '__main__':
    main()
