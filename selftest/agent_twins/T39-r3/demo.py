"""Equivalence demo for r3: the workbook reader (Excel.parse) split into a per-row helper, the two patterns of the
safety scan precompiled as class attributes, findall-as-a-test replaced by search.

Calls Excel._get_suspicious_constructions on many texts and non-text values, reads workbooks with Excel.parse
(titles, sheet sizes, every stored value, the suspicious cells in their order) and runs the Parser facade with the
safety check enabled and disabled; prints a deterministic digest of everything observed.
"""
import datetime
import hashlib
import os
import shutil
import sys
import tempfile

from openpyxl import Workbook

from excel2pycl import Parser, Executor, Cell, Excel
from excel2pycl.src.exceptions import E2PyclSafetyException

TEXTS = [
    'eval(1)', 'os.system("rm -rf /")', '__import__("os").system("ls")', 'print(1); exec(2)', '=SUM(A1:A3)',
    '=SUM(A1;eval(2))', '=IF(A1>1;SUM(B1:B2);MAX(C1:C2))', '=sum(A1:A3)', '=Sum(A1)', '=SUm(A1)', 'sUM(1)',
    'SUM(1) eval(2)', 'evalSUM(1)', 'SUMeval(1)', 'eval(SUM(1))', 'SUM(eval(1))', 'f()', 'F()', '()', '(', ')',
    'f(', 'f)', 'f (1)', 'f\t(1)', 'f(\n)', 'f(1\n2)', 'a.b.c(1)', 'a_b(1)', '_(1)', '9(1)', 'a1(1)', 'A1(1)',
    'XMATCH(1)', 'LOG10(1)', 'log10(1)', 'ROUND(1;2)', 'COUNTIFS(A1:A2;">1")', 'hello world', '', ' ', '0', 'False',
    'TRUE()', 'true()', 'f(g(h(1)))', 'F(G(H(1)))', 'f(1)(2)', 'F(1)(2)', 'f(1) F(2) g(3) G(4)', 'é(1)', 'Ж(1)',
    'fé(1)', 'x' * 300 + '(1)', 'f(' + 'y' * 300 + ')', 'f(1))', 'f((1)', 'lambda x: x(1)', 'a=b(c)', "'f(1)'",
    '"F(1)"', '=A1+B1', '=A1(B1)', '=a1(b1)', 'N(1)', 'n(1)', 'T()', 't()', 'Aa(1)', 'aA(1)', 'aAA(1)', 'AAa(1)',
    '=DATE(2020;1;1)', '=TODAY()', '=today()', 'max(1,2)+MIN(3;4)', 'MIN(3;4)+max(1,2)', 'a(b)c(d)E(f)',
    '=VLOOKUP(1;A1:B2;2;FALSE())', '=vlookup(1;A1:B2;2;false())', 'IF(', 'if(x)', '1(', '1()', '(1)()', 'f(1',
    '=IF(A1;"eval(1)";2)', '=IF(A1;"EVAL(1)";2)', 'getattr(x, "y")(z)', '  spaced ( 1 )', 'tab\t(1)', 'f(1)\nG(2)',
    'F(1)\ng(2)', 'g(2)\nF(1)',
]
VALUES = [None, 0, 1, -5, 3.5, True, False, datetime.datetime(2020, 1, 2, 3, 4, 5), datetime.date(2020, 1, 2),
          datetime.time(1, 2), b'f(1)', ('f(1)',), ['F(1)', 'g(2)'], {'k': 'h(3)'}, float('nan'), 10 ** 30, object]


def outcome(function, *args):
    try:
        return repr(function(*args))
    except BaseException as error:
        return 'raises ' + type(error).__name__


def build_workbook(path, sheets):
    wb = Workbook()
    wb.remove(wb.active)
    for title, cells in sheets:
        ws = wb.create_sheet(title)
        for address, value in cells:
            ws[address] = value
    wb.save(path)
    wb.close()


def describe_excel(path):
    lines = []
    try:
        excel = Excel.parse(path)
    except BaseException as error:
        return ['parse raises ' + type(error).__name__]
    lines.append('titles ' + repr(excel.get_titles()))
    lines.append('sizes ' + repr(excel.get_sheets_size()))
    lines.append('data sha256 ' + hashlib.sha256(repr(excel._data).encode()).hexdigest())
    lines.append('rows per sheet ' + repr([[len(row) for row in sheet] for sheet in excel._data]))
    lines.append('suspicious (in order) ' + repr(list(excel._suspicious_cells.items())))
    try:
        excel.is_safe()
        lines.append('is_safe: passes')
    except E2PyclSafetyException as error:
        lines.append('is_safe: ' + type(error).__name__ + ' ' + repr(str(error)))
    return lines


def describe_parser(path, out_py, enabled):
    parser = Parser().set_excel_file_path(path)
    parser = parser.enable_safety_check() if enabled else parser.disable_safety_check()
    try:
        parser.write_translation(out_py)
    except E2PyclSafetyException as error:
        return (f'{type(error).__name__} cells={list(error.suspicious_cells.items())!r} message={str(error)!r} '
                f'file written={os.path.exists(out_py)}')
    except BaseException as error:
        return f'{type(error).__name__} {str(error)[:120]!r}'
    text = parser.get_translation()
    return f'translated, {len(text)} chars, sha256 {hashlib.sha256(text.encode()).hexdigest()[:32]}'


def main():
    print('== _get_suspicious_constructions on texts')
    lines = [f'{text[:60]!r} -> {outcome(Excel._get_suspicious_constructions, text)}' for text in TEXTS]
    for line in lines:
        print(line[:400])
    lines = [f'{value!r} -> {outcome(Excel._get_suspicious_constructions, value)}' for value in VALUES[:-1]]
    print('== on other values')
    for line in lines:
        print(line)
    print('class ->', outcome(Excel._get_suspicious_constructions, VALUES[-1]))
    combined = [a + ' ' + b for a in TEXTS for b in TEXTS]
    text = '\n'.join(f'{outcome(Excel._get_suspicious_constructions, value)}' for value in combined)
    print(f'== {len(combined)} concatenations: sha256', hashlib.sha256(text.encode()).hexdigest())

    directory = tempfile.mkdtemp(prefix='r3demo')
    try:
        books = {
            'clean': [('Sheet', [('A1', 1), ('B1', 2), ('C1', '=SUM(A1:B1)'), ('A2', 'text'), ('D4', '=IF(C1>2;MAX(A1:B1);MIN(A1:B1))')])],
            'one bad cell': [('Sheet', [('A1', 1), ('B2', 'eval(1)'), ('C1', '=SUM(A1:A1)')])],
            'several sheets': [
                ('first', [('A1', 'os.system("x")'), ('B1', '=SUM(A2:A3)'), ('A2', 1), ('A3', 2), ('AA10', 'f(1) g(2)')]),
                ("it's", [('C3', 'print(1)'), ('A1', 5)]),
                ('Лист 3', [('A1', '=MAX(1;2)'), ('ZZ1', 'len(x)'), ('B2', '=SUM(1;eval(2))')]),
                ('empty', []),
                ('last one!', [('XFD1', 'open(f)'), ('A3', 'Open(f)'), ('B3', 'OPEN(f)'), ('C3', '=open(f)')]),
            ],
            'upper and lower mixed': [('S', [('A1', '=SUM(1;2)'), ('A2', '=sum(1;2)'), ('A3', 'SUM(1) sum(2)'),
                                             ('A4', 'evalSUM(1)'), ('A5', 'SUMeval(1)'), ('A6', 'eval(SUM(1))'),
                                             ('A7', 'f()'), ('A8', 'F()'), ('A9', 'f (1)'), ('A10', 'f(1\n2)')])],
            'values of other types': [('S', [('A1', True), ('B1', False), ('C1', 0), ('D1', 2.5), ('E1', ''),
                                             ('F1', datetime.datetime(2020, 5, 6)), ('G1', 'plain'), ('A2', None),
                                             ('H3', 7), ('A5', '=A1')])],
            'ragged rows': [('S', [('A1', 1), ('C2', 2), ('F3', 'g(1)'), ('B5', 3)]), ('T', [('J1', 1)]),
                            ('U', [('A9', 'h(2)')])],
            'only excel calls': [('S', [('A1', '=ROUND(1.234;2)'), ('A2', '=IF(A1>1;1;2)'), ('A3', '=AND(TRUE;FALSE)'),
                                        ('A4', 'NOT A FORMULA(1)'), ('A5', 'WHAT(ever)')])],
        }
        for text_number, text in enumerate(TEXTS):
            books.setdefault('all texts', [('texts', [])])[0][1].append((f'B{text_number + 1}', text))
        for name, sheets in books.items():
            print(f'== workbook {name!r}')
            path = os.path.join(directory, 'book.xlsx')
            out_py = os.path.join(directory, 'book.py')
            for stale in (path, out_py):
                if os.path.exists(stale):
                    os.remove(stale)
            build_workbook(path, sheets)
            for line in describe_excel(path):
                print('  ' + line[:3000])
            print('  parser, check enabled : ' + describe_parser(path, out_py, True)[:3000])
            if os.path.exists(out_py):
                os.remove(out_py)
            print('  parser, check disabled: ' + describe_parser(path, out_py, False))
            if name == 'clean':
                executor = Executor().set_executed_class(class_file=out_py)
                print('  C1 =', executor.get_cell(Cell('Sheet', 'C', '1')).value,
                      ' D4 =', executor.get_cell(Cell('Sheet', 'D', '4')).value,
                      ' sizes', executor._sheets_size, ' titles', executor._titles)
        print('final probe:', Excel._get_suspicious_constructions('q(1)'))
    finally:
        shutil.rmtree(directory, ignore_errors=True)


if __name__ == '__main__':
    sys.dont_write_bytecode = True
    main()
