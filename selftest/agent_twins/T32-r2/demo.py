"""
Equivalence demo for r2 (Excel reader: bounds check as guard clauses, range/matrix loops as comprehensions).

Calls Excel.fill_cell/_fill_cell/get_range/get_matrix/get_similar_second/get_cells directly on a parsed workbook and
on hand-made ragged data, then runs reference formulas end to end. Prints a deterministic digest.
"""
import hashlib
import itertools
import os
import sys
import tempfile
import warnings

warnings.simplefilter('ignore')

from openpyxl import Workbook

from excel2pycl import Parser, Executor, Cell
from excel2pycl.src.excel import Excel

LINES = []


def out(*parts):
    LINES.append(' '.join(str(p) for p in parts))


def show(value):
    return f'{type(value).__name__}:{value!r}'


def describe(cells):
    if isinstance(cells, Cell):
        return f'({cells.title},{cells.column},{cells.row})={cells.value!r}/{cells.has_handled_identifiers()}'
    return '[' + ', '.join(describe(c) for c in cells) + ']'


def attempt(label, func):
    try:
        out(label, '->', func())
    except Exception as exc:  # noqa
        out(label, '!!', type(exc).__name__, str(exc)[:300])


def build_workbook():
    wb = Workbook()
    main = wb.active
    main.title = 'Main'
    for row in range(1, 7):
        for column in range(1, 5):
            if (row, column) in ((3, 2), (5, 4)):
                continue
            main.cell(row, column, row * 10 + column)
    main['A6'] = 'text'
    main['H2'] = 'far'
    main['XFD1'] = 7
    main['AB12'] = 1
    main['AB13'] = 2
    main['AC12'] = 4
    other = wb.create_sheet('Other')
    for row in range(1, 4):
        other.cell(row, 1, row)
        other.cell(row, 2, f'v{row}')
    my = wb.create_sheet('My Sheet')
    my['A1'] = 1
    my['B2'] = 7
    my['A2'] = 'x'
    wb.create_sheet('Empty')
    cyr = wb.create_sheet('Лист')
    cyr['C3'] = 100
    return wb


def direct_calls(excel, name, titles, coords):
    # fill_cell: public entry, every kind of identifier
    for title in titles:
        for column, row in coords:
            attempt(f'{name} fill_cell({title!r},{column!r},{row!r})',
                    lambda: describe(excel.fill_cell(Cell(title, column, row))))
    # _fill_cell: the raw read with integer identifiers
    for title, column, row in itertools.product((-1, 0, 1, 3, 4, 5, 99), (-2, -1, 0, 1, 3, 7, 8, 16383, 16384),
                                                (-1, 0, 1, 2, 5, 6, 12, 13, 10 ** 6)):
        attempt(f'{name} _fill_cell({title},{column},{row})', lambda: describe(excel._fill_cell(Cell(title, column, row))))
    for bad in (Cell(0, 0, None), Cell(0, None, 0), Cell(None, 0, 0), Cell('Main', 0, 0), Cell(0, 'A', 0),
                Cell(0, 0, '1'), Cell(0, 0.0, 0), Cell(True, 0, 0), Cell('Main', 'A', '1', _handled_identifiers=True),
                Cell(0, 0, None, _handled_identifiers=True), Cell(7, 0, None, _handled_identifiers=True)):
        attempt(f'{name} _fill_cell({bad!r})', lambda: describe(excel._fill_cell(bad)))

    pairs = [
        (('Main', 'A', '1'), ('Main', 'A', '5')), (('Main', 'A', '1'), ('Main', 'D', '1')),
        (('Main', 'A', '1'), ('Main', 'B', '2')), (('Main', 'A', ''), ('Main', 'A', '')),
        (('Main', 'A', ''), ('Main', 'C', '')), (('Main', 'B', ''), ('Main', 'A', '')),
        (('Main', 'A', '1'), ('Main', 'A', '')), (('Main', 'A', ''), ('Main', 'A', '5')),
        (('Main', 'A', '5'), ('Main', 'A', '1')), (('Main', 'D', '1'), ('Main', 'A', '1')),
        (('Main', 'B', '2'), ('Main', 'A', '1')), (('Main', 'A', '1'), ('Other', 'A', '5')),
        (('Other', 'A', '1'), ('Other', 'B', '3')), (('Other', 'A', ''), ('Other', 'B', '')),
        (('Other', 'A', '2'), ('Other', 'A', '9')), (('Other', 'A', '3'), ('Other', 'F', '3')),
        (('My Sheet', 'A', '1'), ('My Sheet', 'B', '2')), (('My Sheet', 'A', ''), ('My Sheet', 'C', '')),
        (('Empty', 'A', '1'), ('Empty', 'B', '2')), (('Empty', 'A', ''), ('Empty', 'A', '')),
        (('Empty', 'A', ''), ('Empty', 'B', '')), (('Лист', 'A', '1'), ('Лист', 'C', '3')),
        (('Лист', 'C', ''), ('Лист', 'C', '')), (('Nope', 'A', '1'), ('Nope', 'A', '2')),
        (('Main', 'A', '1'), ('Nope', 'A', '2')), (('Main', 'AB', '12'), ('Main', 'AC', '13')),
        (('Main', 'AB', '12'), ('Main', 'AB', '13')), (('Main', 'AB', '12'), ('Main', 'AC', '12')),
        (('Main', 'XFC', '1'), ('Main', 'XFD', '2')), (('Main', 'XFD', '1'), ('Main', 'XFD', '1')),
        (('Main', 'XFE', '1'), ('Main', 'XFE', '2')), (('Main', 'A', '0'), ('Main', 'A', '2')),
        (('Main', 'C', '3'), ('Main', 'C', '3')), ((0, 0, 0), (0, 0, 2)), ((0, 0, 0), (0, 3, 0)), ((0, 0, 0), (0, 1, 1)),
        ((0, 0, -1), (0, 1, 1)), ((0, 0, 0), (0, 1, -1)), ((0, -1, 0), (0, 1, 1)), ((0, 0, None), (0, 0, None)),
        ((0, 0, None), (0, 2, None)), ((1, 0, 0), (1, 1, 2)), ((9, 0, 0), (9, 1, 2)), ((9, 0, None), (9, 0, None)),
        ((0, 0, 0), (1, 0, 2)), ((0, 0, 0.0), (0, 0, 2)),
    ]
    for first, second in pairs:
        attempt(f'{name} get_range{first}{second}', lambda: describe(excel.get_range(Cell(*first), Cell(*second))))
        attempt(f'{name} get_matrix{first}{second}',
                lambda: '[' + ' | '.join(describe(r) for r in excel.get_matrix(Cell(*first), Cell(*second))) + ']')
        attempt(f'{name} _get_matrix{first}{second}',
                lambda: '[' + ' | '.join(describe(r) for r in excel._get_matrix(
                    excel.fill_cell(Cell(*first)), excel.fill_cell(Cell(*second)))) + ']')
    for base, first, second in (
            (('Main', 'B', '1'), ('Main', 'A', '1'), ('Main', 'A', '5')),
            (('Other', 'B', '2'), ('Main', 'A', '1'), ('Main', 'D', '1')),
            (('Main', 'C', '1'), ('Main', 'A', ''), ('Main', 'A', '')),
            (('Main', 'C', ''), ('Main', 'A', '1'), ('Main', 'B', '3')),
            (('Main', 'C', '2'), ('Main', 'B', '3'), ('Main', 'A', '1')),
            (('Nope', 'C', '2'), ('Main', 'B', '3'), ('Main', 'A', '1')),
            (('Main', 'C', '2'), ('Main', 'B', ''), ('Main', 'A', '1'))):
        attempt(f'{name} get_similar_second{base}{first}{second}',
                lambda: describe(excel.get_similar_second(Cell(*base), Cell(*first), Cell(*second))))
    attempt(f'{name} get_cells', lambda: (lambda cells: f'{len(cells)} ' + hashlib.sha256(
        describe(cells).encode()).hexdigest())(excel.get_cells()))
    attempt(f'{name} titles/sizes', lambda: f'{excel.get_titles()!r} {excel.get_sheets_size()!r}')


E2E_FORMULAS = [
    '=A1', '=B3', '=D5', '=E9', '=XFD1', '=SUM(A1:A5)', '=SUM(A1:D1)', '=SUM(A1:B2)', '=SUM(A:A)', '=SUM(A:B)',
    '=SUM(A1:D6)', '=SUM(B2:A1)', '=SUM(A1:A)', '=SUM(A:A5)', '=A1:A3', '=A:A', '=A:B', '=Other!A:B', '=Empty!A:A',
    '=Empty!A1:B2', "='My Sheet'!A:B", "=SUM('My Sheet'!A1:B2)", '=SUM(Other!$A$1:$A$3)', '=Лист!A1:C3',
    '=INDEX(Other!A1:B3;2;2)', '=INDEX((A1:B2;C1:D2);1;1;2)', '=VLOOKUP(2;Other!A1:B3;2)', '=MATCH(3;Other!A:A;0)',
    '=COUNTBLANK(A1:D6)', '=COUNT(A1:D6)', '=SUMIF(A1:A5;">20";B1:B5)', '=SUMIF(A1:A5;">20";B1)', '=SUMIF(A:A;">20";B:B)',
    '=SUM(AB12:AC13)', '=SUM(XFC1:XFD2)', '=COLUMN(B1:D3)', '=A1:A5&B1:B5', '=SUM(Nope!A1:A2)', '=SUM(A1:A5;Other!A1:A3)',
]

with tempfile.TemporaryDirectory() as tmp:
    xlsx = os.path.join(tmp, 'book.xlsx')
    generated = os.path.join(tmp, 'generated.py')
    wb = build_workbook()
    wb.save(xlsx)
    wb.close()

    parsed = Excel.parse(xlsx)
    direct_calls(parsed, 'parsed', ['Main', 'Other', 'My Sheet', 'Empty', 'Лист', 'Nope', '', 0, 2, 4, 5, -1],
                 [('A', '1'), ('B', '3'), ('D', '5'), ('E', '9'), ('H', '2'), ('I', '2'), ('XFD', '1'), ('XFD', '2'),
                  ('A', '0'), ('A', ''), ('A', None), ('', '1'), ('a', '1'), ('A', 'x'), ('XFE', '1'), (0, 0), (3, 5),
                  (0, 6), (4, 0), (-1, 0), (0, -1), (0, None), ('A', 1), (0, '1')])

    ragged = Excel({
        'data': [[[1, 2, 3], [4], [], [None, 'x']], [], [[]], [['only']]],
        'titles': ['R', 'E0', 'E1', 'One'],
        'suspicious_cells': {},
        'sheets_size': [{'last_column': 3, 'last_row': 4}, {'last_column': 0, 'last_row': 0},
                        {'last_column': 0, 'last_row': 1}, {'last_column': 1, 'last_row': 1}],
    })
    direct_calls(ragged, 'ragged', ['R', 'E0', 'E1', 'One', 'Main', 0, 3, 4],
                 [('A', '1'), ('C', '1'), ('D', '1'), ('B', '2'), ('A', '3'), ('B', '4'), ('A', '5'), ('A', ''), (0, 0),
                  (1, 3), (2, 3), (0, 4)])

    for formula in E2E_FORMULAS:
        for sheet_title, address in (('Main', 'F8'), ('Other', 'D2'), ('Empty', 'A1')):
            wb = build_workbook()
            wb[sheet_title][address] = formula
            wb.save(xlsx)
            wb.close()
            label = f'E2E {formula!r} at {sheet_title}!{address}'
            try:
                text = Parser().set_excel_file_path(xlsx).set_entrypoint_cell(
                    Cell(sheet_title, address[0], address[1:])).get_translation()
                with open(generated, 'w', encoding='utf-8') as f:
                    f.write(text)
                executor = Executor().set_executed_class(class_file=generated)
                before = executor.get_cell(Cell(sheet_title, address[0], address[1:])).value
                executor.set_cells([Cell('Main', 'A', '1', value=1000), Cell('Other', 0, 0, value=-5),
                                    Cell('My Sheet', 'B', '2', value=0.5), Cell(0, 1, 2, value=9)])
                after = executor.get_cell(Cell(sheet_title, address[0], address[1:])).value
                out(label, '->', show(before), '| overridden ->', show(after), '| text',
                    hashlib.sha256(text.encode()).hexdigest()[:16])
            except Exception as exc:  # noqa
                out(label, '!!', type(exc).__name__, str(exc)[:300])

    wb = build_workbook()
    good = ['=SUM(A1:A5)', '=SUM(A:B)', "=SUM('My Sheet'!A1:B2)", '=SUM(AB12:AC13)+XFD1', '=INDEX(Other!A1:B3;2;2)',
            '=SUM(F1:F3)', '=COUNTBLANK(A1:D6)']
    for index, formula in enumerate(good):
        wb['Main'].cell(index + 1, 6, formula)
    wb.save(xlsx)
    wb.close()
    text = Parser().set_excel_file_path(xlsx).write_translation(generated).get_translation()
    out('whole file text', hashlib.sha256(text.encode()).hexdigest(), len(text))
    executor = Executor().set_executed_class(class_file=generated)
    for index in range(len(good)):
        out('whole file', good[index], '->', show(executor.get_cell(Cell(0, 5, index)).value))
    for title in ('Other', 'My Sheet', 'Empty', 'Лист'):
        out('sheet', title, [[show(c.value) for c in row] for row in executor.get_sheet(title)])
    out('temp files before cleanup', sorted(os.listdir(tmp)))

out('temp dir removed', not os.path.exists(tmp))
print('\n'.join(LINES))
print('DIGEST', hashlib.sha256('\n'.join(LINES).encode()).hexdigest(), 'lines', len(LINES))
sys.exit(0)
