"""Equivalence demo for r1 (ExpressionTokenTranslator restructuring).

Translates a large family of operator formulas one by one (printing the generated
expression text or the exception), then translates a workbook holding all the valid
ones, prints a digest of the generated class and evaluates every formula cell, with
and without overrides.
"""
import datetime
import hashlib
import itertools
import os
import shutil
import sys
import tempfile

from openpyxl import Workbook

from excel2pycl import Parser, Executor, Cell
from excel2pycl.src.ast_builder import AstBuilder
from excel2pycl.src.context import Context
from excel2pycl.src.excel import Excel
from excel2pycl.src.lexer import Lexer
from excel2pycl.src.translators.entry_point_token_translator import EntryPointTokenTranslator


def describe(value):
    return f'{type(value).__name__}:{value!r}'


def fill_data(ws):
    ws['A1'] = 4
    ws['A2'] = 2.5
    ws['A3'] = -3
    ws['B1'] = 'abc'
    ws['B2'] = '12'
    ws['B3'] = ''
    # C1..C3 stay blank
    ws['D1'] = True
    ws['D2'] = False
    ws['D3'] = datetime.datetime(2024, 2, 29)
    ws['E1'] = 0
    ws['E2'] = 0.1
    ws['E3'] = 1e15


OPERANDS = ['1', '2.5', '0.1', 'A1', 'A2', 'B1', 'B2', 'C1', 'D1', 'D3', 'E1', '"x"', '""', 'TRUE', 'FALSE',
            '10%', 'A1%', '(1+2)', '(A1-A3)', '-A1', '+A2', 'SUM(A1:A3)', '1e2', '1.5e-3']
OPERATORS = ['+', '-', '*', '/', '&', '=', '<>', '<', '>', '<=', '>=']

HAND_PICKED = [
    '=1', '=A1', '=C1', '="a"', '=-1', '=+1', '=--1', '=-+-A1', '=-(1+2)', '=-(A1)*2', '=(1)', '=((1))',
    '=((1+2))*3', '=(1+2)*(3+4)', '=(1+2)*(3+4)-(5+6)', '=1+2*3', '=1*2+3', '=1-2-3', '=8/4/2', '=2*3/4',
    '=1+2&3+4', '=1&2&3', '=1&2+3', '="a"&"b"="ab"', '=1+2=3', '=1=1=1', '=1<2<3', '=3>2>1', '=1<>2<>3',
    '=10%', '=10%%', '=A1%', '=10%+1', '=1+10%', '=10%*A1', '=A1*10%', '=-10%', '=-A1%', '=10%&"x"',
    '=10%=0.1', '=0.1=10%', '=10%+20%', '=10%*20%', '=10%-20%/30%', '=(10%)', '=(10%)+1', '=(A1+1)%',
    '=(A1+1)%+2', '=2*(A1+1)%', '=50%%%', '=A1%%+1', '=1+A1%%',
    '=A1+A2*A3', '=A1-A2-A3', '=A1/A2/A3', '=A1&A2&A3', '=A1&C1&B1', '=C1&C2', '=C1+1', '=C1*C2', '=C1=0',
    '=C1=""', '=C1<>""', '=C1<1', '=C1>-1', '=C1=C2', '=C1&""=""', '=D1+1', '=D1&D2', '=D1=TRUE', '=D2=FALSE',
    '=D3+1', '=D3&""', '=D3>A1', '=D3=D3', '=B1=B1', '=B1="ABC"', '=B1<"abd"', '=B2=12', '=B2+1', '=B2*2',
    '=B1+1', '=B1&1', '=1/0', '=A1/E1', '=E1/A1', '=E2+0.2', '=E2+0.2=0.3', '=E2*3', '=E3+0.1', '=1e2+1',
    '=1.5e-3*2', '=0.1+0.2', '=0.1+0.2-0.3', '=1.1*1.1', '=3*1.1', '=A1 + A2', '= A1 * ( A2 - A3 )',
    '=SUM(A1:A3)*2', '=2*SUM(A1:A3)', '=SUM(A1:A3)%', '=-SUM(A1:A3)', '=SUM(A1:A3)&"x"', '=SUM(A1:A3)>=3',
    '=SUM(A1,A2)+SUM(A1:A3)', '=IF(A1>A2,A1+1,A2-1)*2', '=IF(A1%>1,1,2)', '=MAX(A1:A3)-MIN(A1:A3)',
    '=(A1>A2)+1', '=(A1>A2)&"x"', '=(A1=4)*(A2=2.5)', '=A1>A2&"x"', '=A1&"x">A2', '=1<2&3', '=-A1>-A2',
    '=-(A1>A2)', '=(-A1)*(-A2)', '=A1*-A2', '=A1--A2', '=A1+-A2', '=A1/-A3', '=A1&-A2', '=A1=-A3',
    '=Sheet1!A1+1', "='Sheet1'!A1*2", '=$A$1+A$2+$A3', '=Second!A1+A1', '=Second!A1&Second!B1',
]
BROKEN = ['=', '=1+', '=+', '=*1', '=1 2', '=(1+2', '=1+2)', '=%1', '=1+%', '=()', '=1&', '=<1', '=1<', '=A1:',
          '=1+#', '=Missing!A1+1', '="a', '=1..2', '=1,2', '=SUM(1+)', '=IF(1>)', '=A1==A2', '=A1=>A2', '=A1><A2',
          '=A1<<A2', '=@']


def all_formulas():
    formulas = list(HAND_PICKED)
    for left, operator, right in itertools.product(OPERANDS, OPERATORS, OPERANDS):
        formulas.append(f'={left}{operator}{right}')
    # three operand chains over a smaller alphabet
    small = ['1', 'A2', 'C1', '10%', '(1+2)', '-A1']
    for a, op1, b, op2, c in itertools.product(small, OPERATORS, small, OPERATORS, ['A3', '5%']):
        formulas.append(f'={a}{op1}{b}{op2}{c}')
    formulas.extend(BROKEN)
    return formulas


def translate_alone(formula, excel):
    in_cell = Cell(0, 7, 0)
    context = Context()
    try:
        tokens = Lexer.parse(formula, in_cell)
        ast = AstBuilder.parse(tokens, in_cell)
        code = EntryPointTokenTranslator.translate(ast, excel, context)
    except Exception as exception:  # noqa
        return None, f'!{type(exception).__name__}:{exception}'
    sub_cells = sorted(context._get_divided_sub_cell_translations().items())
    return code, f'{code} ## {sub_cells}'


def main():
    directory = tempfile.mkdtemp(prefix='r1demo')
    lines = []
    try:
        data_path = os.path.join(directory, 'data.xlsx')
        wb = Workbook()
        ws = wb.active
        ws.title = 'Sheet1'
        fill_data(ws)
        second = wb.create_sheet('Second')
        second['A1'] = 7
        second['B1'] = 'z'
        wb.save(data_path)
        excel = Excel.parse(data_path)

        valid = []
        for formula in all_formulas():
            code, report = translate_alone(formula, excel)
            lines.append(f'T {formula} -> {report}')
            if code is not None:
                valid.append(formula)

        book_path = os.path.join(directory, 'book.xlsx')
        wb = Workbook()
        ws = wb.active
        ws.title = 'Sheet1'
        fill_data(ws)
        second = wb.create_sheet('Second')
        second['A1'] = 7
        second['B1'] = 'z'
        for index, formula in enumerate(valid):
            ws.cell(row=index + 1, column=8, value=formula)
        wb.save(book_path)

        class_path = os.path.join(directory, 'book.py')
        parser = Parser().set_excel_file_path(book_path)
        translation = parser.get_translation()
        parser.write_translation(class_path)
        lines.append('CLASS sha256 ' + hashlib.sha256(translation.encode('utf-8')).hexdigest())
        lines.append(f'CLASS length {len(translation)}')

        overrides_list = [
            [],
            [Cell('Sheet1', 'A', '1', value=0), Cell('Sheet1', 'C', '1', value=5)],
            [Cell(0, 0, 1, value='7'), Cell(0, 1, 0, value=3.5), Cell(0, 4, 0, value=2)],
            [Cell(0, 0, 0, value=None), Cell(0, 0, 2, value=True), Cell(1, 0, 0, value='q')],
        ]
        for number, overrides in enumerate(overrides_list):
            executor = Executor().set_executed_class(class_file=class_path)
            if overrides:
                executor.set_cells(overrides)
            for index, formula in enumerate(valid):
                try:
                    result = describe(executor.get_cell(Cell(0, 7, index)).value)
                except Exception as exception:  # noqa
                    result = f'!{type(exception).__name__}:{exception}'
                lines.append(f'E{number} {formula} => {result}')
    finally:
        shutil.rmtree(directory, ignore_errors=True)

    text = '\n'.join(lines)
    shown = set(HAND_PICKED) | set(BROKEN)
    for index, line in enumerate(lines):
        # every hand-picked / broken formula in full, a sample of the combinatorial ones, the rest via the digest
        tag, _, rest = line.partition(' ')
        formula = rest.split(' -> ')[0] if tag == 'T' else rest.split(' => ')[0]
        if index % 41 == 0 or tag == 'CLASS' or formula in shown:
            print(line)
    print('LINES', len(lines))
    print('DIGEST', hashlib.sha256(text.encode('utf-8')).hexdigest())
    return 0


if __name__ == '__main__':
    sys.exit(main())
