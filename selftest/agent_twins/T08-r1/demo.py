"""Equivalence demo for r1: ROUND / ROUNDUP / ROUNDDOWN runtime helpers (both copies).

Run as: PYTHONPATH=<tree> /venv/bin/python demo.py
Prints a deterministic digest; must be identical on the unchanged and the refactored tree.
"""
import hashlib
import math
import os
import random
import tempfile
from decimal import Decimal
from fractions import Fraction

from openpyxl import Workbook

from excel2pycl import Parser, Executor, Cell
from excel2pycl.src.utilities.abstract_excel_in_python_class import AbstractExcelInPython


class Direct(AbstractExcelInPython):
    pass


def show(value):
    if isinstance(value, float):
        return 'float:' + (value.hex() if math.isfinite(value) else repr(value))
    return f'{type(value).__name__}:{value!r}'


def call(func, *args):
    try:
        return show(func(*args))
    except BaseException as error:  # noqa - the class name of whatever is raised is part of the behaviour
        return f'raises:{type(error).__name__}'


FORMULA_ROWS = [
    # value, digits
    (2.5, 0), (-2.5, 0), (0.5, 0), (1.005, 2), (2.675, 2), (-2.675, 2), (1234.5678, -2), (1234.5678, 2),
    (0.1 + 0.2, 15), (1e15 + 0.5, 0), (999999999999999, -15), (5, -1), (-5, -1), (4.9999999999999, 12),
    (0, 3), (-0.0, 0), (123456789012345, -3), (1e-7, 7), (1e-7, 6), (8.45, 1),
]


def build_workbook(path):
    wb = Workbook()
    ws = wb.active
    for row, (value, digits) in enumerate(FORMULA_ROWS, start=1):
        ws.cell(row=row, column=1, value=value)
        ws.cell(row=row, column=2, value=digits)
        ws.cell(row=row, column=3, value=f'=ROUND(A{row},B{row})')
        ws.cell(row=row, column=4, value=f'=ROUNDUP(A{row},B{row})')
        ws.cell(row=row, column=5, value=f'=ROUNDDOWN(A{row},B{row})')
        ws.cell(row=row, column=6, value=f'=ROUND(A{row}*3,B{row})+ROUNDUP(A{row}/7,2)-ROUNDDOWN(A{row}/3,1)')
    wb.save(path)


def main():
    lines = []
    with tempfile.TemporaryDirectory() as tmp:
        xlsx = os.path.join(tmp, 'rounding.xlsx')
        out_py = os.path.join(tmp, 'rounding_translation.py')
        build_workbook(xlsx)
        Parser().set_excel_file_path(xlsx).write_translation(out_py)
        executor = Executor().set_executed_class(class_file=out_py)

        # 1. through the whole pipeline (template copy)
        for row in range(len(FORMULA_ROWS)):
            for column in range(2, 6):
                try:
                    value = executor.get_cell(Cell(0, column, row)).value
                    lines.append(f'cell[{row},{column}]={show(value)}')
                except BaseException as error:  # noqa
                    lines.append(f'cell[{row},{column}]=raises:{type(error).__name__}')

        # overriding inputs
        for override in [7.5, -7.5, 0.045, '3.14159', 'abc', None, True, 1e300, float('inf'), float('nan')]:
            executor.set_cells([Cell(0, 0, 0, value=override)])
            for column in range(2, 6):
                try:
                    value = executor.get_cell(Cell(0, column, 0)).value
                    lines.append(f'override[{override!r},{column}]={show(value)}')
                except BaseException as error:  # noqa
                    lines.append(f'override[{override!r},{column}]=raises:{type(error).__name__}')

        generated = executor.get_executed_class()
        direct = Direct()

        # 2. the helpers called directly on both copies
        rng = random.Random(20260930)
        numbers = [
            0, 0.0, -0.0, 0.5, -0.5, 1.5, -1.5, 2.5, -2.5, 0.05, 0.15, 0.25, 0.35, 1.005, 1.015, 1.025, 2.675,
            -2.675, 1.45, 8.45, 8.55, 0.285, 1.255, 10.235, 5e-324, 1e-300, 1e-16, 1e-15, 1.5e-15,
            123456789012345, 123456789012345.6, 999999999999999, 99999999999999.95, 0.999999999999999,
            0.9999999999999995, 1e15, 1e16, 1e21, 1e22, 1e300, 1.7976931348623157e308, -1.7976931348623157e308,
            4.35, 4.45, 4.55, 5, 15, 25, 50, 149, 150, 151, -149, -150, -151, 1 / 3, 2 / 3, math.pi, -math.e,
            float('inf'), float('-inf'), float('nan'),
            True, False, 7, -7, 10 ** 30, '2.5', ' 2.5 ', '1e3', '-0.125', 'abc', '', None, [1], (2,), b'1.5',
            Decimal('2.5'), Decimal('-0.125'), Decimal('NaN'), Fraction(5, 2), Fraction(1, 3), 2.5 + 0j,
        ]
        for _ in range(400):
            digits_after = rng.randint(0, 14)
            mantissa = rng.randint(-10 ** 15 + 1, 10 ** 15 - 1)
            numbers.append(mantissa / 10 ** digits_after)
        for _ in range(100):
            # exact ties at assorted positions
            numbers.append(float(f'{rng.randint(-99999, 99999)}.{rng.randint(0, 999)}5'))

        digit_counts = [-400, -324, -309, -308, -20, -16, -15, -3, -2, -1, 0, 1, 2, 3, 5, 14, 15, 16, 17, 20, 308,
                        323, 324, 400, 450, 2.9, -2.9, 1.0, True, False, '2', ' 1 ', '2.0', 'x', None, [0],
                        Decimal('1.9'), Fraction(7, 2), float('nan'), float('inf'), 10 ** 10]

        names = ['_round', '_roundup', '_rounddown']
        total = 0
        mismatch = 0
        digest = hashlib.sha256()
        sample = []
        for i, number in enumerate(numbers):
            if i < 83:
                counts = digit_counts
            else:
                counts = [-3, -1, 0, 1, 2, 3, 7, 15]
            for digits in counts:
                for name in names:
                    a = call(getattr(direct, name), number, digits)
                    b = call(getattr(generated, name), number, digits)
                    total += 1
                    if a != b:
                        mismatch += 1
                    record = f'{name}({number!r},{digits!r}) class={a} template={b}'
                    digest.update(record.encode() + b'\n')
                    if total % 97 == 0 or i < 12 and digits in (0, 1, -1):
                        sample.append(record)
        lines.append(f'direct calls: {total}, class/template disagreements: {mismatch}')
        lines.append(f'direct digest: {digest.hexdigest()}')
        lines.extend(sample)

        # 3. argument evaluation order: which of the two conversions fails first
        class Loud:
            def __init__(self, tag, log):
                self.tag, self.log = tag, log

            def __float__(self):
                self.log.append(f'float({self.tag})')
                raise KeyError(self.tag)

            def __int__(self):
                self.log.append(f'int({self.tag})')
                raise IndexError(self.tag)

        for name in names:
            for target, label in ((direct, 'class'), (generated, 'template')):
                log = []
                outcome = call(getattr(target, name), Loud('n', log), Loud('d', log))
                lines.append(f'order {label} {name}: {outcome} log={log}')
                log = []
                outcome = call(getattr(target, name), 1.25, Loud('d', log))
                lines.append(f'order {label} {name} (number ok): {outcome} log={log}')

    text = '\n'.join(lines)
    print(text)
    print('TOTAL-DIGEST', hashlib.sha256(text.encode()).hexdigest())


if __name__ == '__main__':
    main()
