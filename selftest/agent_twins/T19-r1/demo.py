"""Equivalence demo for r1: SEARCH runtime helper (_search), both copies.

Calls _search directly on (a) the AbstractExcelInPython class copy and (b) the
class generated from the str.format template, and additionally evaluates SEARCH
formulas end-to-end through Parser/Executor.  Prints every result (value or
exception class name) plus a sha256 over all lines.
"""
import hashlib
import itertools
import os
import shutil
import tempfile

from openpyxl import Workbook

from excel2pycl import Parser, Executor, Cell
from excel2pycl.src.utilities.abstract_excel_in_python_class import AbstractExcelInPython

LINES = []


def emit(line):
    LINES.append(line)
    print(line)


def show(value):
    return f'{type(value).__name__}:{value!r}'


def call(func, *args):
    try:
        return show(func(*args))
    except Exception as e:  # noqa
        return f'raised {type(e).__name__}'


class Direct(AbstractExcelInPython):
    pass


FIND = [
    '', 'a', 'A', 'b', 'ab', 'AB', 'abc', 'zz', 'a?', '?a', 'a*', '*a', 'a*c', 'a?c', '?', '*', '??', '**', '?*',
    'a~?', 'a~*', '~?', '~*', '~', '~~', 'a~', '~a', 'a~?b', 'a~*b', 'x~?y?', 'x~**', '?~?', '*~*', 'b*~?',
    '.', 'a.c', '.*', '\\d', '[', '(', ')', 'a(', 'a+', '+', 'a|b', '^a', 'a$', '{', 'a{2}', '\\', 'a\\',
    'Hello', 'hello', 'WORLD', 'o w', 'l?o', 'l*o', 'h*o*d', 'w?r?d', 'é', 'É', 'ß', 'SS', 'ı', 'İ',
    'what?', 'what~?', 'what*', '1', '12', '1?3', '2*', ' ', '  ', 'a b', '?.?', 'c.', '~.', 'x*y*z', 'x?y?z',
]
WITHIN = [
    '', 'a', 'abc', 'ABC', 'abcabc', 'aXc a.c abc', 'Hello World', 'hello world hello', 'what? what* what~',
    '12345', '1 2 3', 'a?b*c~d', '???', '***', 'a(b)c[d]{e}', 'x1y2z', 'xyz', 'straße STRASSE', 'éÉ', 'İi ıI',
    '   ', '.', 'a+b|c^d$', 'a\\b',
]
STARTS = [None, 0, 1, 2, 3, 5, 11, 12, 100, -1, -5, 1.0, 1.5, 2.5, 0.5, True, False, float('nan'), float('inf'), '1', '']


def run_direct(tag, instance):
    n = 0
    emit(f'{tag} start_num values: {STARTS!r}')
    for f, w in itertools.product(FIND, WITHIN):
        # one line per (find_text, within_text): the results for every start_num, in the order of STARTS
        emit(f'{tag} _search({f!r}, {w!r}, *) -> ' + ' ; '.join(call(instance._search, f, w, s) for s in STARTS))
        n += len(STARTS)
    # wrong operand types
    for f, w, s in [(1, 'abc', 1), ('a', 123, 1), (None, 'abc', 1), ('a', None, None), ('a', ['a', 'b'], 1),
                    (Direct.EmptyCell(), 'abc', 1), ('a', Direct.EmptyCell(), 1), ('a*', Direct.EmptyCell(), None),
                    ('a', 'abc', Direct.EmptyCell()), ('?', 'abc', Direct.EmptyCell()), (b'a', b'abc', 1),
                    ('a', b'abc', 1), ('a*', b'abc', 1), (b'a*', 'abc', 1)]:
        emit(f'{tag} _search({f!r}, {w!r}, {s!r}) -> {call(instance._search, f, w, s)}')
        n += 1
    emit(f'{tag} calls: {n}')


FORMULAS = [
    '=SEARCH("b","abc")', '=SEARCH("B","abc")', '=SEARCH("c","abcabc",4)', '=SEARCH("a?c","xxabcxxaXc",4)',
    '=SEARCH("a*c","xxabcxxaXc")', '=SEARCH("~?","what?")', '=SEARCH("z","abc")', '=SEARCH("a","abc",0)',
    '=SEARCH("a","abc",4)', '=SEARCH("?","abc",3)', '=SEARCH("*","abc",2)', '=SEARCH(A1,B1)', '=SEARCH(A1,B1,C1)',
    '=SEARCH(A2,B2,C2)', '=SEARCH(A3,B3)', '=SEARCH("l*o",B2,5)', '=SEARCH("o",B2)+SEARCH("w",B2)',
    '=MID(B2,SEARCH(" ",B2)+1,5)', '=LEFT(B2,SEARCH(" ",B2)-1)', '=IFERROR(SEARCH("q",B2),"none")',
    '=SEARCH("a.c",B3)', '=SEARCH("a?c",B3,2)', '=SEARCH("(",B3)', '=SEARCH(D1,B1)',
]


def run_workbook(tmp):
    xlsx = os.path.join(tmp, 'search.xlsx')
    out_py = os.path.join(tmp, 'search_out.py')
    wb = Workbook()
    ws = wb.active
    ws.title = 'data'
    ws['A1'], ws['B1'], ws['C1'] = 'n?', 'Banana bandana', 4
    ws['A2'], ws['B2'], ws['C2'] = 'WORLD', 'Hello World', 1
    ws['A3'], ws['B3'] = 'x*z', 'aXc a.c abc xyz'
    fs = wb.create_sheet('f')
    for i, formula in enumerate(FORMULAS):
        fs.cell(row=i + 1, column=1, value=formula.replace('A1', 'data!A1').replace('B1', 'data!B1')
                .replace('C1', 'data!C1').replace('A2', 'data!A2').replace('B2', 'data!B2').replace('C2', 'data!C2')
                .replace('A3', 'data!A3').replace('B3', 'data!B3').replace('D1', 'data!D1'))
    wb.save(xlsx)
    wb.close()

    parser = Parser().set_excel_file_path(xlsx)
    parser.write_translation(out_py)
    text = parser.get_translation()
    emit('generated function bodies:')
    for line in text.splitlines():
        if line.startswith('        return ') and 'self._search(' in line:
            emit('  ' + line.strip())
    executor = Executor().set_executed_class(class_file=out_py)
    for i, formula in enumerate(FORMULAS):
        emit(f'f!A{i + 1} {formula} -> {call(lambda: executor.get_cell(Cell("f", 0, i)).value)}')
    # overriding inputs changes the answers the same way
    executor.set_cells([Cell('data', 'B', '1', value='no match here'), Cell('data', 'C', '2', value=8)])
    for i, formula in enumerate(FORMULAS):
        emit(f'after set_cells f!A{i + 1} -> {call(lambda: executor.get_cell(Cell("f", 0, i)).value)}')
    return executor.get_executed_class()


def main():
    tmp = tempfile.mkdtemp(prefix='t19_r1_')
    try:
        generated_instance = run_workbook(tmp)
        run_direct('class', Direct())
        run_direct('template', generated_instance)
    finally:
        shutil.rmtree(tmp, ignore_errors=True)
    emit(f'lines: {len(LINES)}')
    print('sha256:', hashlib.sha256('\n'.join(LINES).encode('utf-8')).hexdigest())


if __name__ == '__main__':
    main()
