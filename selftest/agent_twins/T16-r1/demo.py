"""Equivalence demo for r1 (Excel reader: area expansion loops -> comprehensions).

Builds a two-sheet workbook, checks the areas handed out by the Excel reader
(get_range / get_matrix, incl. whole columns and error cases) and the values of
aggregate formulas computed through the generated class.
"""
import datetime
import hashlib
import os
import shutil
import tempfile

from openpyxl import Workbook

from excel2pycl import Parser, Executor, Cell
from excel2pycl.src.excel import Excel


def build_workbook(path):
    wb = Workbook()
    ws = wb.active
    ws.title = 'Data'
    rows = [
        [1, 2.5, 'x', True, None, 7],
        [4, None, '5', False, 0, -3],
        [None, 10, 'abc', 8, '', 2],
        [3, -1.5, 6, None, 'y', 0.25],
        [100, 'zz', None, 11, 12, datetime.datetime(2024, 1, 15)],
    ]
    for r, row in enumerate(rows, start=1):
        for c, value in enumerate(row, start=1):
            if value is not None:
                ws.cell(row=r, column=c, value=value)
    other = wb.create_sheet('Other')
    for r, row in enumerate([[9, 'q', 1], [None, 2, 3], [5.5, True, None]], start=1):
        for c, value in enumerate(row, start=1):
            if value is not None:
                other.cell(row=r, column=c, value=value)
    single = wb.create_sheet('Single')
    single.cell(row=1, column=1, value=42)

    formulas = wb.create_sheet('F')
    areas = [
        'Data!A1:F1', 'Data!A3:F3', 'Data!A1:A5', 'Data!F1:F5', 'Data!A1:F5', 'Data!B2:E4',
        'Data!C3:C3', 'Data!A:A', 'Data!B:B', 'Data!A:C', 'Data!D:F', 'Other!A1:C3', 'Other!A:A',
        'Other!A:C', 'Data!A1:B2,Data!E4:F5', 'Data!A1:A5,Other!A1:A3,3', 'Data!A1:F1,Data!A1:F1',
        'Data!A1:C2,Data!D1:F2', 'Data!A1:F2', 'Data!A1:A1,7,Data!B1', 'Single!A1:A1', 'Single!A:A',
        'Data!F1:F4,Data!A:A,Other!B2:C3',
    ]
    functions = ['SUM', 'AVERAGE', 'MIN', 'MAX', 'COUNT', 'COUNTBLANK']
    row = 1
    listing = []
    for area in areas:
        for col, function in enumerate(functions, start=1):
            formula = f'={function}({area})'
            formulas.cell(row=row, column=col, value=formula)
            listing.append((row, col, formula))
        row += 1
    extra = [
        '=SUM(Data!A1:C2,Data!D1:F2)-SUM(Data!A1:F2)',
        '=SUM(Data!A1:A5)+SUM(Data!B1:B5)-SUM(Data!A1:B5)',
        '=SUM(Data!A:A)-SUM(Data!A1:A5)',
        '=AND(Data!A1:A2)', '=AND(Data!A1:A3)', '=OR(Data!E1:E2)', '=OR(Data!D1:D2)',
        '=AND(Data!A1>0,Data!B1>2)', '=OR(Data!A1>5,Data!B1>5)', '=AND(Data!A1:B1,Data!D1)',
        '=SUM(Data!A1:F1)/COUNT(Data!A1:F1)-AVERAGE(Data!A1:F1)',
        '=SUM(Data!A1:F5,Other!A1:C3)', '=MAX(Data!A:C,Other!A:C)', '=MIN(Data!A1:F4,Other!A1:C3)',
        '=COUNT(Data!A1:F5,Other!A1:C3,1,"2","a",TRUE)', '=COUNTBLANK(Data!A1:F5,Other!A1:C3)',
        '=SUM(Data!A1:B3)', '=SUM(Data!F5:F5)', '=AVERAGE(Data!C1:C2)', '=MIN(Data!C1:C2)',
        '=SUM(Data!A7:C9)', '=COUNTBLANK(Data!A7:C9)', '=COUNT(Data!H1:J2)', '=SUM(Data!A1:H1)',
    ]
    for formula in extra:
        formulas.cell(row=row, column=1, value=formula)
        listing.append((row, 1, formula))
        row += 1
    wb.save(path)
    return listing


def show(value):
    if isinstance(value, float):
        return 'float:' + repr(round(value, 12))
    return type(value).__name__ + ':' + repr(value)


def attempt(function):
    try:
        return function()
    except BaseException as error:  # noqa
        return 'EXC ' + type(error).__name__ + ' ' + str(error)


def cells_text(cells):
    if cells and isinstance(cells[0], list):
        return '[' + ' | '.join(cells_text(row) for row in cells) + ']'
    return ','.join(f'{c.title}.{c.column}.{c.row}={c.value!r}' for c in cells)


def reader_checks(path):
    excel = Excel.parse(path)
    print('titles', excel.get_titles())
    print('sizes', excel.get_sheets_size())
    range_cases = [
        (('Data', 'A', '1'), ('Data', 'F', '1')), (('Data', 'A', '1'), ('Data', 'A', '5')),
        (('Data', 'C', '2'), ('Data', 'C', '2')), (('Data', 'A', ''), ('Data', 'A', '')),
        (('Data', 'F', ''), ('Data', 'F', '')), ((0, 0, 0), (0, 5, 0)), ((0, 2, 1), (0, 2, 9)),
        ((0, 3, 7), (0, 9, 7)), (('Other', 'A', '1'), ('Other', 'C', '1')), ((1, 1, 0), (1, 1, 2)),
        (('Data', 'A', '1'), ('Other', 'A', '5')), (('Data', 'A', '1'), ('Data', 'B', '2')),
        (('Data', 'E', '1'), ('Data', 'A', '1')), (('Data', 'A', '5'), ('Data', 'A', '1')),
        (('Nope', 'A', '1'), ('Data', 'A', '1')), (('Data', 'A', ''), ('Data', 'B', '')),
        ((2, 0, 0), (2, 0, 0)), ((0, 0, 0), (0, 0, 0)), ((5, 0, 0), (5, 0, 3)),
    ]
    for first, second in range_cases:
        print('range', first, second,
              attempt(lambda: cells_text(excel.get_range(Cell(*first), Cell(*second)))))
    matrix_cases = [
        (('Data', 'A', '1'), ('Data', 'F', '5')), (('Data', 'B', '2'), ('Data', 'E', '4')),
        (('Data', 'C', '3'), ('Data', 'C', '3')), (('Data', 'A', ''), ('Data', 'A', '')),
        (('Data', 'A', ''), ('Data', 'C', '')), (('Data', 'D', ''), ('Data', 'H', '')),
        (('Other', 'A', ''), ('Other', 'C', '')), ((0, 0, 0), (0, 2, 1)), ((0, 4, 3), (0, 8, 6)),
        ((0, 3, 3), (0, 1, 1)), ((0, 0, 4), (0, 5, 2)), (('Data', 'A', '1'), ('Other', 'B', '2')),
        (('Data', 'A', ''), ('Data', 'B', '3')), ((0, 0, -1), (0, 1, 1)), ((0, 0, 0), (0, 1, -1)),
        (('Single', 'A', '1'), ('Single', 'A', '1')), (('Single', 'A', ''), ('Single', 'B', '')),
        ((1, 0, 0), (1, 2, 2)), ((7, 0, 0), (7, 1, 1)), (('Other', 'A', '1'), ('Other', 'A', '3')),
        (('Other', 'A', '2'), ('Other', 'C', '2')),
    ]
    for first, second in matrix_cases:
        print('matrix', first, second,
              attempt(lambda: cells_text(excel.get_matrix(Cell(*first), Cell(*second)))))
    print('all', cells_text(excel.get_cells()))


def main():
    tmp = tempfile.mkdtemp(prefix='r1demo')
    try:
        xlsx = os.path.join(tmp, 'book.xlsx')
        out_py = os.path.join(tmp, 'book_translation.py')
        listing = build_workbook(xlsx)
        reader_checks(xlsx)
        parser = Parser().set_excel_file_path(xlsx)
        parser.write_translation(out_py)
        text = parser.get_translation()
        print('translation sha256', hashlib.sha256(text.encode('utf-8')).hexdigest(), len(text))
        executor = Executor().set_executed_class(class_file=out_py)
        for row, col, formula in listing:
            print(formula, '->', attempt(lambda: show(executor.get_cell(Cell('F', col - 1, row - 1)).value)))
        executor.set_cells([Cell('Data', 'A', '3', value=1000), Cell('Data', 'C', '1', value=0.5),
                            Cell('Other', 'A', '2', value=-7), Cell('Data', 'A', '9', value=3)])
        for row, col, formula in listing:
            print('override', formula, '->',
                  attempt(lambda: show(executor.get_cell(Cell('F', col - 1, row - 1)).value)))
        # entry-point translation only of one cell
        single = Parser().set_excel_file_path(xlsx).set_entrypoint_cell(Cell('F', 'A', '5')).get_translation()
        print('entrypoint sha256', hashlib.sha256(single.encode('utf-8')).hexdigest(), len(single))
    finally:
        shutil.rmtree(tmp, ignore_errors=True)


if __name__ == '__main__':
    main()
