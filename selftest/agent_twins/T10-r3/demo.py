"""Equivalence demo for the runtime helpers (C20): the importable base class and the emitted class.

Calls the helpers of both copies (AbstractExcelInPython subclass and a freshly generated ExcelInPython class)
on many inputs and prints a deterministic digest of values / exception class names, then evaluates a workbook
end to end. Run as: PYTHONPATH=<tree> /venv/bin/python demo.py
The output must be identical on the unchanged and on the refactored tree.
"""
import datetime
import hashlib
import itertools
import os
import tempfile
import warnings

warnings.simplefilter('ignore')

from openpyxl import Workbook  # noqa: E402

from excel2pycl import Parser, Executor, Cell  # noqa: E402
from excel2pycl.src.object_loader import load_module  # noqa: E402
from excel2pycl.src.utilities.abstract_excel_in_python_class import AbstractExcelInPython  # noqa: E402

LINES = []


def out(*parts):
    LINES.append(' | '.join(str(p) for p in parts))


def show(value):
    """repr with the type spelled out (EmptyCell prints like 0, True == 1, 1 == 1.0 ...)"""
    if isinstance(value, (list, tuple)):
        return type(value).__name__ + '[' + ', '.join(show(v) for v in value) + ']'
    if callable(value) and not isinstance(value, type):
        return '<callable>'
    return '%s:%r' % (type(value).__name__, value)


def outcome(fn, *args, **kwargs):
    try:
        return show(fn(*args, **kwargs))
    except BaseException as exc:  # noqa
        return 'raised ' + type(exc).__name__ + ': ' + str(exc).replace('ExcelInPython.', '<cls>.') \
            .replace('HandWritten.', '<cls>.')


tmp = tempfile.mkdtemp(prefix='t10demo')

# ---------------------------------------------------------------- the two copies
wb = Workbook()
ws = wb.active
ws.title = 'Sheet1'
rows = [
    [10, 'apple', datetime.datetime(2020, 1, 1), 2020, 1, 31],
    [20, 'Banana', datetime.datetime(2020, 6, 1), 99, 14, 1],
    [30, 'cherry', datetime.datetime(2021, 1, 1), '2021', '12', '25'],
    [None, None, None, 'x', 2, 3],
    [40, 'date', datetime.datetime(2022, 1, 1), 10000, 1, 1],
    [50, 'elder', datetime.datetime(2023, 1, 1), 1900, 0, 0],
]
for r, row in enumerate(rows, start=1):
    for c, value in enumerate(row, start=1):
        ws.cell(row=r, column=c, value=value)
formulas = {
    'H1': '=MATCH(30;A1:A6;0)', 'H2': '=MATCH(35;A1:A6;1)', 'H3': '=MATCH(35;A1:A6;-1)', 'H4': '=MATCH("BANANA";B1:B6;0)',
    'H5': '=MATCH("c";B1:B6;1)', 'H6': '=MATCH(5;A1:A6;1)', 'H7': '=MATCH(99;A1:A6;0)', 'H8': '=MATCH("zzz";B1:B6;0)',
    'I1': '=XMATCH(30;A1:A6;0;1)', 'I2': '=XMATCH(30;A1:A6;0;-1)', 'I3': '=XMATCH(35;A1:A6;1;1)',
    'I4': '=XMATCH(35;A1:A6;-1;1)', 'I5': '=XMATCH("apple";B1:B6;0;1)',
    'J1': '=DATE(D1, E1, F1)', 'J2': '=DATE(D2, E2, F2)', 'J3': '=DATE(D3, E3, F3)', 'J4': '=DATE(D4, E4, F4)',
    'J5': '=DATE(D5, E5, F5)', 'J6': '=DATE(D6, E6, F6)', 'J7': '=DATE(2024, 2, 30)', 'J8': '=DATE(-1, 1, 1)',
    'K1': '=YEAR(DATE(D1, E1, F1))', 'K2': '=MATCH(G1;A1:A6;0)', 'K3': '=IF(MATCH(20;A1:A6;0)=2, "second", "other")',
}
for address, formula in formulas.items():
    ws[address] = formula
xlsx = os.path.join(tmp, 'book.xlsx')
wb.save(xlsx)
generated_py = os.path.join(tmp, 'generated.py')
Parser().set_excel_file_path(xlsx).write_translation(generated_py)
Generated = load_module(generated_py).ExcelInPython


class HandWritten(AbstractExcelInPython):
    pass


base = HandWritten()
emitted = Generated()
COPIES = (('base', base), ('emitted', emitted))


def helper_names(cls):
    return sorted(n for n in dir(cls) if n.startswith('_') and not n.startswith('__') and callable(getattr(cls, n))
                  and not n.startswith('_abc') and not (n[1:2].isdigit()))


out('## helper sets')
names_base = helper_names(HandWritten)
names_emitted = helper_names(Generated)
out('same set', names_base == names_emitted, len(names_base))
out(names_base)
out([n for n in names_emitted if n not in names_base], [n for n in names_base if n not in names_emitted])

CALLS = 0
DISAGREE = []


class Blank:
    """stands for an empty cell; every copy gets an instance of its own EmptyCell class in its place"""

    def __repr__(self):
        return '<blank>'


def materialise(arg, instance):
    if isinstance(arg, Blank):
        return instance.EmptyCell()
    if isinstance(arg, list):
        return [materialise(a, instance) for a in arg]
    if isinstance(arg, tuple):
        return tuple(materialise(a, instance) for a in arg)
    return arg


def both(name, *args, quiet=False, **kwargs):
    """runs the helper on both copies; prints one line (or only folds into the digest when quiet)"""
    global CALLS
    results = []
    for label, instance in COPIES:
        fresh_args = [materialise(a, instance) for a in args]
        results.append(outcome(getattr(instance, name), *fresh_args, **kwargs))
    CALLS += 1
    if results[0] != results[1]:
        DISAGREE.append((name, args))
    if not quiet:
        out(name, ', '.join(show(a) for a in args), '->', results[0], 'same' if results[0] == results[1] else
            'EMITTED: ' + results[1])
    return results


E = Blank

# ---------------------------------------------------------------- _match / _xmatch
out('## _match: hand written cases')
NUMS = [[10], [20], [30], [E()], [40], [50]]
NUMS_DESC = [[50], [40], [E()], [30], [20], [10]]
TEXT = [['apple'], ['Banana'], ['cherry'], [E()], ['date'], ['Elder']]
MIXED = [[1], ['1'], [1.0], [True], [E()], [None], ['a'], [2.5], [datetime.datetime(2020, 1, 1)], ['A'], [3]]
DATES = [[datetime.datetime(2020, 1, 1)], [datetime.datetime(2021, 1, 1)], [E()], [datetime.datetime(2022, 1, 1)]]
ROWS2 = [[10, 'x'], [20, 'y'], [30, 'z']]
for array_name, array in (('NUMS', NUMS), ('NUMS_DESC', NUMS_DESC), ('TEXT', TEXT), ('MIXED', MIXED),
                          ('DATES', DATES), ('ROWS2', ROWS2), ('EMPTY', []), ('ONLY_EMPTY', [[E()], [E()]])):
    out('# array', array_name)
    for lookup in (10, 30, 35, 5, 55, 10.0, 30.5, True, False, 0, 1, '1', 'a', 'A', 'APPLE', 'banana', 'c', 'zzz', '',
                   E(), None, datetime.datetime(2021, 1, 1), datetime.datetime(2021, 6, 1), 2.5):
        for match_type in (0, 1, -1, 2, -3, 0.5, -0.5, True, False):
            both('_match', lookup, array, match_type)
    both('_match', 10, array)

out('## _match: unusual arguments')
for args in (
        (10, NUMS, None), (10, NUMS, 'x'), (10, NUMS, float('nan')), (10, NUMS, 0.0), (10, NUMS, E()), (10, [], None),
        (10, None, 0), (10, None, 1), (10, None, 2.5), (10, 5, -1), (10, [[]], 0), (10, [[], [10]], 1), (10, [10], 0),
        (10, ['ab'], 0), ('a', ['ab', 'cd'], 0), ('a', 'abc', 0), ('a', 'abc', 1), ('b', 'abc', -1), (10, [(10,)], 0),
        (10, ((5,), (10,), (15,)), 1), (object, [[int], [str]], 0), ('a', [['a'], [1]], 1), (1, [['a'], [1]], 1),
        ([1], [[[1]], [[2]]], 0), ([1], [[[1]], [[2]]], 1), (1 + 2j, [[1 + 2j], [3j]], 0), (1 + 2j, [[1 + 2j], [3j]], 1),
        (b'a', [[b'A'], [b'a']], 0), (b'a', [[b'A'], [b'a']], 1), (None, [[None], [1]], 0), (None, [[None], [1]], 1),
        (1, [[1], ['x'], [None], [0]], 1), (1, [[2], [1]], 1), (1, [[2], [1]], -1), (1, [[0], [1], [2]], -1),
        (float('nan'), [[float('nan')], [1.0]], 0), (float('nan'), [[1.0], [2.0]], 1), (1.0, [[float('nan')], [1.0]], 1),
        (E(), [[0], [1]], 0), (E(), [[-1], [0], [1]], 1), (E(), [[1], [0], [-1]], -1), (E(), [[True], [False]], 0),
        (E(), [['']], 0), (0, [[E()], [0]], 0), ('', [[E()], ['']], 0), (False, [[0], [False]], 0), (True, [[1], [True]], 0),
        (True, [[1], [True]], 1), (2, [[True], [2]], 1)):
    both('_match', *args)

out('## _match: generated sweep')
VALUES = [1, 2, 3, 2.5, True, 'a', 'B', 'c', '', E(), None, datetime.datetime(2020, 1, 1)]
for length in range(0, 4):
    for combo in itertools.product(VALUES, repeat=length):
        array = [[v] for v in combo]
        for lookup in (2, 2.5, 'b', 'B', E(), True, ''):
            for match_type in (0, 1, -1):
                both('_match', lookup, array, match_type, quiet=True)
out('sweep calls so far', CALLS, 'disagreements', len(DISAGREE))

out('## _xmatch')
for array_name, array in (('NUMS', NUMS), ('NUMS_DESC', NUMS_DESC), ('TEXT', TEXT), ('MIXED', MIXED),
                          ('PLAIN', [[10], [20], [30], [40], [50]]), ('PLAIN_DESC', [[50], [40], [30], [20], [10]])):
    out('# array', array_name)
    for lookup in (30, 35, 5, 55, 'banana', 'c', E()):
        for match_mode in (0, -1, 1, 2):
            for search_mode in (1, -1, 2, -2, 0, 3):
                both('_xmatch', lookup, array, match_mode, search_mode)
    both('_xmatch', 30, array)

# ---------------------------------------------------------------- _date
out('## _date: hand written cases')
YEARS = [2020, 0, 1, 99, 1899, 1900, 1901, 9999, 10000, -1, '2020', '0', '1899', '10000', '-1', ' 2021 ', '2_0_2_0',
         '20.5', 'x', '', '١٩٩٩', 2020.0, 2020.7, True, None, E(), [2020], '+5']
MONTHS = [1, 12, 0, 13, -11, 25, '3', '03', ' 4', 'm', '', '1e1', 2.0, 2.9, True, None, E(), '-3', 1200]
DAYS = [1, 31, 0, 32, -1, 366, '15', ' 7 ', 'd', '', '0x10', 1.0, 1.5, False, None, E(), '-40', 100000]
for year in YEARS:
    both('_date', year, 2, 3)
for month in MONTHS:
    both('_date', 2024, month, 3)
for day in DAYS:
    both('_date', 2024, 2, day)
out('# failing parts in several positions (the first failing one decides)')
for year, month, day in itertools.product(('x', '2024', 2024, None, -5, '10000'), ('y', '2', 2, None, 1.5),
                                          ('z', '29', 29, None, 0.5)):
    both('_date', year, month, day)
out('# overflow')
for args in ((9999, 12, 31), (9999, 12, 32), (9999, 13, 1), (0, 0, 0), (0, 1, 0), (1899, 12, 31), (1900, 1, 1),
             (9999, 10 ** 6, 1), (2024, 1, 10 ** 9), ('9999', '12', '32'), (2024, -10 ** 6, 1), (5, -30000, 1),
             ('9' * 5000, 1, 1), (1, '9' * 5000, 1), (1, 1, '9' * 5000)):
    shown = [a if not (isinstance(a, str) and len(a) > 20) else '<%d chars>' % len(a) for a in args]
    results = both('_date', *args, quiet=True)
    out('_date', shown, '->', results[0], 'same' if results[0] == results[1] else 'EMITTED: ' + results[1])
out('# generated sweep')
for year, month, day in itertools.product((1, 1899, 1900, 2023, 2024, 9999, '2024', 'bad', 2024.5, None),
                                          range(-13, 27, 3), (-400, -31, -1, 0, 1, 28, 29, 30, 31, 32, 60, 366, '9', '?')):
    both('_date', year, month, day, quiet=True)
for string in ('', ' ', '1', '-1', '+1', '1 ', ' 1', '1_0', '_1', '1.0', '1e3', '0b1', '0x1', '٣', '１２', 'None', 'True',
               '१२', '1\n', '\t2', '--1', '1-', 'ten'):
    both('_date', string, 1, 1)
    both('_date', 2000, string, 1)
    both('_date', 2000, 1, string)
    both('_date', string, string, string)

# ---------------------------------------------------------------- neighbours of the refactored helpers
out('## a few other helpers that build on the same code')
for args in (('Y',), ('M',), ('D',), ('MD',), ('YM',), ('YD',), ('?',)):
    both('_datedif', base._date(2020, 1, 31), base._date(2021, 3, 1), *args)
both('_eomonth', base._date('2024', '2', '1'), 0)
both('_edate', base._date(24, 2, 29), 12)
both('_year', base._date(0, 1, 1))
both('_month', base._date(2024, 14, 1))
both('_day', base._date(2024, 1, 0))
both('_vlookup', 20, [[10, 'a'], [20, 'b'], [30, 'c']], 2, False)
both('_vlookup', 25, [[10, 'a'], [20, 'b'], [30, 'c']], 2, True)
both('_index', [[1, 2], [3, 4]], base._match(20, [[10], [20]], 0), 1, 1)
both('_iferror', lambda: base._match(7, [[1]], 0), 'fallback')
both('_iferror', lambda: emitted._match(7, 7, 0), 'fallback')
both('_iferror', lambda: emitted._date('x', 1, 1), 'fallback')

out('## totals')
out('calls', CALLS, 'disagreements between the copies', len(DISAGREE), DISAGREE[:5])

# ---------------------------------------------------------------- end to end
out('## generated class, end to end')
out('translation mentions', sorted({name for name in ('self._match(', 'self._xmatch(', 'self._date(')
                                   if name in open(generated_py, encoding='utf-8').read()}))
executor = Executor().set_executed_class(class_file=generated_py)
for address in formulas:
    column, row = address[0], address[1:]
    try:
        out(address, formulas[address], '->', show(executor.get_cell(Cell('Sheet1', column, row)).value))
    except BaseException as exc:  # noqa
        out(address, formulas[address], 'raised', type(exc).__name__, exc)
out('# after overriding cells')
executor.set_cells([Cell('Sheet1', 'A', '3', value=35), Cell('Sheet1', 'D', '1', value='1999'),
                    Cell('Sheet1', 'E', '1', value='x'), Cell('Sheet1', 'G', '1', value=40),
                    Cell('Sheet1', 'B', '2', value='CHERRY')])
for address in formulas:
    column, row = address[0], address[1:]
    try:
        out(address, formulas[address], '->', show(executor.get_cell(Cell('Sheet1', column, row)).value))
    except BaseException as exc:  # noqa
        out(address, formulas[address], 'raised', type(exc).__name__, exc)

out('# a hand written subclass with the same cells computes the same values')


class Hand(AbstractExcelInPython):
    def _0_0_0(self):
        return 10

    def _0_0_1(self):
        return 20

    def _0_0_2(self):
        return 30

    def _0_7_0(self):
        return self._match(30, [[self._cell_preprocessor('_0_0_0')], [self._cell_preprocessor('_0_0_1')],
                                [self._cell_preprocessor('_0_0_2')], [self._cell_preprocessor('_0_0_3')]], 0)

    def _0_9_0(self):
        return self._date(self._cell_preprocessor('_0_3_0'), '1', 31)


hand = Hand()
out(show(hand.exec_function_in('_0_7_0')), show(hand.exec_function_in('_0_9_0')))
hand.set_arguments([{'uid': '_0_3_0', 'value': '2020'}])
out(show(hand.exec_function_in('_0_9_0')))

body = '\n'.join(LINES)
print(body)
print('DIGEST', hashlib.sha256(body.encode()).hexdigest())
