"""Equivalence demo for the translators behind &, CONCATENATE and the operators around the text functions.

(a) a workbook of formulas built from &, CONCATENATE, LEFT / RIGHT / MID / SEARCH / VALUE, comparisons, arithmetic,
    percents, brackets and unary signs: the rejected formulas, the generated code of every cell, the hash of the whole
    class and the evaluated values before and after cell overrides;
(b) OperatorSubTokenTranslator called directly on every operator token class and on tokens it has no entry for.
"""
import sys
sys.dont_write_bytecode = True

import datetime
import hashlib
import os
import shutil
import tempfile
import warnings

warnings.simplefilter('ignore')

from openpyxl import Workbook

from excel2pycl import Parser, Executor, Cell
from excel2pycl.src.ast_builder import AstBuilder
from excel2pycl.src.lexer import Lexer
from excel2pycl.src import tokens as token_module
from excel2pycl.src.tokens import RegexpBaseToken
from excel2pycl.src.translators.operator_sub_token_translator import OperatorSubTokenTranslator


def show(value):
    if isinstance(value, float):
        return 'float:' + repr(value)
    if isinstance(value, list):
        return '[' + ', '.join(show(i) for i in value) + ']'
    return type(value).__name__ + ':' + repr(value)


def attempt(function, *args, **kwargs):
    try:
        return show(function(*args, **kwargs))
    except BaseException as error:
        return 'raised ' + type(error).__name__ + ': ' + str(error)


DATA = [
    ['Hello', 'World', 3, 2.5, None, datetime.datetime(2024, 3, 1), True, '12,5', ' 42 ', 'héllo wörld'],
    ['abc', '', 0, -1, 'x', datetime.datetime(1999, 12, 31), False, '7%', '1e3', 'a?b*c~d'],
]

OPERANDS = ['A1', 'B1', 'C1', 'D1', 'E1', 'F1', 'G1', '"lit"', '""', '5', '2.5', 'TRUE', 'A2', 'B2', 'J2',
            'LEFT(A1,2)', 'RIGHT(J1,3)', 'MID(A1,2,3)', 'SUM(C1:D1)', '(C1+1)', 'C1%', '-C1']
OPERATORS = ['&', '+', '-', '*', '/', '=', '<>', '>', '<', '>=', '<=']

FORMULAS = [
    '=A1&B1', '=A1&" "&B1', '=A1&" "&B1&"!"', '=A1&C1', '=A1&D1&E1&F1&G1', '=C1&D1', '=(A1&B1)&C1', '=A1&(B1&C1)',
    '=CONCATENATE(A1)', '=CONCATENATE(A1,B1)', '=CONCATENATE(A1," ",B1,"!",C1,D1,E1,F1,G1)',
    '=CONCATENATE(A1&B1,C1+1,LEFT(A1,2))', '=CONCATENATE(CONCATENATE(A1,B1),CONCATENATE(C1))',
    '=CONCATENATE(A1;B1)', '=CONCATENATE("a","b")&"c"', '="x"&CONCATENATE(A1,1,2.5,TRUE)',
    '=LEFT(A1,2)&RIGHT(B1,2)', '=LEFT(A1,C1)&MID(A1,C1+1,LEN(A1))', '=LEFT(A1,0)&MID(A1,1,5)',
    '=LEFT(A1&B1,7)', '=RIGHT(A1&B1,7)', '=MID(A1&B1,4,4)', '=LEFT(A1)', '=RIGHT(A1)', '=LEFT(A1,100)',
    '=RIGHT(A1,100)', '=MID(A1,1,100)', '=MID(A1,6,1)', '=MID(A1,0,1)', '=MID(A1,1,-1)', '=LEFT(A1,-1)',
    '=RIGHT(A1,-1)', '=LEFT(B2,2)', '=RIGHT(B2,2)', '=MID(B2,1,1)', '=LEFT(J1,2)&"|"&RIGHT(J1,2)&"|"&MID(J1,2,2)',
    '=SEARCH("o",A1)', '=SEARCH("O",A1&B1,6)', '=SEARCH("l?o",A1)', '=MID(A1,SEARCH("l",A1),2)',
    '=LEFT(A1,SEARCH("l",A1)-1)&"#"', '=SEARCH(B2,A1)', '=SEARCH("~?",J2)&SEARCH("~*",J2)',
    '=VALUE("12")', '=VALUE("12.5")+1', '=VALUE(H1)', '=VALUE(I1)*2', '=VALUE(H2)', '=VALUE(I2)', '=VALUE(A1)',
    '=VALUE(C1&D1)', '=VALUE(LEFT("123abc",3))+VALUE(RIGHT("abc456",3))', '=VALUE("1"&"2")&"3"',
    '=A1=B1', '=A1<>B1', '=A1&B1="HelloWorld"', '=A1&B1="helloworld"', '="a"&"b"="ab"', '=C1>D1', '=C1>=3',
    '=C1<D1', '=C1<=D1', '=C1=3', '=C1<>3', '=A1>B1', '=F1>F2', '=E1=0', '=E1=""', '=G1=TRUE', '=C1+D1>5',
    '=(C1+D1)*2', '=C1+D1*2', '=C1*(D1+1)', '=(C1)', '=-C1', '=+C1', '=-C1+D1', '=-(C1+D1)', '=C1-D1-1', '=C1/D1',
    '=C1/C2', '=C1%', '=C1%+1', '=C1%*D1', '=50%', '=50%&"x"', '=C1%&A1', '=10%+20%', '=C1*10%', '=A1&C1%',
    '=IF(A1&B1="HelloWorld","yes","no")', '=IF(LEFT(A1,1)="h",1,0)', '=IF(C1>2,A1,B1)&"!"',
    '=IFERROR(LEFT(A1,-1),"e")', '=IFERROR(MID(A1,0,1)&"x","e")', '=A1&1', '=1&A1', '=1&2', '=1&2+3', '=(1&2)+3',
    '=A1&-C1', '=A1&TRUE', '=TRUE&FALSE', '=A1&F1', '=F1&""', '=E1&E1', '=E1&"x"', '=""&E1', '=A2&B2&A2',
    '=Second!A1&A1', "='Second'!A1&\"!\"", '=CONCATENATE(Second!A1,Second!B1)', '=LEFT(Second!A1,3)&RIGHT(Second!B1,1)',
    '=A1 & B1', '= A1&B1', '=A1&\n B1', '=A1&&B1', '=&A1', '=A1&', '=CONCATENATE()', '=CONCATENATE(A1,)',
    '=LEFT()', '=MID(A1,1)', '=A1=', '==A1', '=A1<>=B1', '=C1>=<D1', '=C1%%', '=%C1', '=A1&B1)', '=(A1&B1',
]


def accepted(formula, lines):
    cell = Cell(0, 11, 0)
    try:
        AstBuilder.parse(Lexer.parse(formula, in_cell=cell), in_cell=cell)
    except BaseException as error:
        lines.append('REJECTED ' + repr(formula) + ' ' + type(error).__name__)
        return False
    return True


def build_workbook(path, lines):
    workbook = Workbook()
    sheet = workbook.active
    sheet.title = 'Main'
    for row in DATA:
        sheet.append(row)
    second = workbook.create_sheet('Second')
    second.append(['second sheet', 'tail', 7])
    formulas = list(FORMULAS)
    for operator in OPERATORS:
        for left in OPERANDS:
            for right in OPERANDS[::3]:
                formulas.append(f'={left}{operator}{right}')
    for left in OPERANDS[:8]:
        for first in ('&', '+', '=', '<'):
            for second_operator in ('&', '*', '>='):
                formulas.append(f'={left}{first}B1{second_operator}C1')
    formulas = [formula for formula in formulas if accepted(formula, lines)]
    for index, formula in enumerate(formulas, start=1):
        sheet.cell(row=index, column=12, value=formula)  # column L
        lines.append(f'L{index} is {formula!r}')
    workbook.save(path)
    return len(formulas)


class Stub:
    def __init__(self, **attributes):
        self.__dict__.update(attributes)


def operator_translations(lines):
    cell = Cell(0, 0, 0)
    names = sorted(name for name in dir(token_module) if name.endswith('Token'))
    for name in names:
        token_class = getattr(token_module, name)
        if not (isinstance(token_class, type) and issubclass(token_class, RegexpBaseToken)):
            continue
        for value in (['sign'], ['<>', 'x'], [], 'text', ''):
            token = object.__new__(token_class)
            token.value = value
            token._in_cell = cell
            lines.append(f'operator {name} {value!r} -> ' + attempt(OperatorSubTokenTranslator.translate, token, None, None))

    class Derived(token_module.AmpersandToken):
        pass

    for token_class in (Derived, Stub):
        token = object.__new__(token_class)
        token.value = ['kept']
        lines.append(f'operator {token_class.__name__} -> ' + attempt(OperatorSubTokenTranslator.translate, token, None, None))


def main():
    lines = []
    operator_translations(lines)
    directory = tempfile.mkdtemp(prefix='e2p_demo_')
    try:
        workbook_path = os.path.join(directory, 'text.xlsx')
        class_path = os.path.join(directory, 'text_class.py')
        count = build_workbook(workbook_path, lines)
        Parser().set_excel_file_path(workbook_path).disable_safety_check().write_translation(class_path)
        text = open(class_path, encoding='utf-8').read()
        lines.append('generated class sha256 ' + hashlib.sha256(text.encode()).hexdigest())
        marker = "        return '#VALUE!'\n\n"
        for function in text[text.rindex(marker) + len(marker):].split('\n\n'):
            if function.strip() and not function.rstrip().endswith('return self.EmptyCell()'):
                lines.append('GENERATED ' + ' '.join(part.strip() for part in function.strip().split('\n')))
        executor = Executor().set_executed_class(class_file=class_path)
        for row in range(count):
            lines.append(f'L{row + 1} -> ' + attempt(lambda: executor.get_cell(Cell(0, 11, row)).value))
        executor.set_cells([Cell('Main', 'A', '1', value='Ünïcode text'), Cell('Main', 'B', '1', value=None),
                            Cell('Main', 'C', '1', value=12), Cell('Main', 'D', '1', value='7'),
                            Cell('Main', 'E', '1', value=datetime.datetime(2020, 2, 29)),
                            Cell('Main', 'B', '2', value='l'), Cell('Second', 'A', '1', value=3.5)])
        for row in range(count):
            lines.append(f'L{row + 1} after override -> ' + attempt(lambda: executor.get_cell(Cell(0, 11, row)).value))
        for address in (('L', '1'), ('L', '12'), ('L', '57')):
            single = Parser().set_excel_file_path(workbook_path).disable_safety_check().set_entrypoint_cell(
                Cell('Main', *address))
            lines.append(f'entry point {address} sha256 ' + attempt(
                lambda: hashlib.sha256(single.get_translation().encode()).hexdigest()))
    finally:
        shutil.rmtree(directory, ignore_errors=True)
    for line in lines:
        print(line)
    print('lines', len(lines))
    print('digest', hashlib.sha256('\n'.join(lines).encode()).hexdigest())


if __name__ == '__main__':
    main()
