"""Equivalence demo for r2 (C13: IF / IFS / IFERROR choose the right branch and contain errors).

Translates many workbooks holding IF / IFS / IFERROR formulas (each formula alone, then all accepted ones together),
prints the generated cell functions, the computed values / exception classes (also after overrides), and calls the
runtime helpers _ifs / _iferror of both copies (generated class and AbstractExcelInPython) directly.
"""
import hashlib
import os
import shutil
import sys
import tempfile

import openpyxl

from excel2pycl import Parser, Executor, Cell
from excel2pycl.src.utilities.abstract_excel_in_python_class import AbstractExcelInPython

OUT = []


def emit(*parts):
    OUT.append(' | '.join(str(p) for p in parts))


def show(value):
    return f'{type(value).__name__}:{value!r}'


def attempt(label, fn):
    try:
        emit(label, 'OK', show(fn()))
    except BaseException as e:  # noqa
        emit(label, 'EXC', type(e).__name__, str(e)[:200])


DATA = {
    'A1': 1, 'A2': 0, 'A3': 5, 'A4': 'text', 'A5': None, 'A6': -2.5, 'A7': True, 'A8': False,
    'B1': '=1/0', 'B2': '=A1+A3', 'B3': '=A4*2', 'B4': '#N/A', 'B5': '=VLOOKUP(99,A1:A3,1,FALSE())', 'B6': '=B1+1',
    'C1': 10, 'C2': 20, 'C3': 30,
}

FORMULAS = [
    # IF
    '=IF(A1>0,"pos","neg")', '=IF(A2>0,"pos","neg")', '=IF(A1>0,"pos")', '=IF(A2>0,"pos")', '=IF(A1,1,2)',
    '=IF(A2,1,2)', '=IF(A6,1,2)', '=IF(A5,1,2)', '=IF(A4,1,2)', '=IF(A7,1,2)', '=IF(A8,1,2)',
    '=IF(A1>0,1,1/0)', '=IF(A2>0,1/0,2)', '=IF(A1>0,1/0,2)', '=IF(A2>0,1,1/0)', '=IF(A1>0,B2,B1)', '=IF(A2>0,B2,B1)',
    '=IF(B1>0,1,2)', '=IF(B4>0,1,2)', '=IF(A1>0,IF(A3>4,"a","b"),"c")', '=IF(A2>0,"x",IF(A3>9,"a",IF(A6<0,"neg","z")))',
    '=IF(IF(A1>0,A2,A3),"t","f")', '=1+IF(A1>0,2,3)*4', '=IF(A1>0,2,3)+IF(A2>0,20,30)', '=IF(A1>0,2,3)&"s"',
    '=SUM(IF(A1>0,C1,C2),C3)', '=IF(SUM(C1:C3)>50,"big","small")', '=IF(A1=1,"one")&IF(A1=2,"two")',
    '=IF(A1>0,,5)', '=IF(A1>0,5,)', '=IF(,1,2)', '=IF(A1>0)', '=IF()', '=IF(A1>0,1,2,3)', '=IF(A1>0;1;2)',
    '=IF((A1>0),(1),(2))', '=IF(A1>0, 1, 2)', '=if(A1>0,1,2)', '=IF(A1>0,"a,b","c)d")', '=IF(A1>0,-1,+2)',
    '=IF(A1>0,50%,2)', '=IF(NOT(A1>0),1,2)', '=IF(AND(A1>0,A3>0),1,2)', '=IF(OR(A2>0,A8),1,2)',
    '=IF(A1>0,A1:A3,2)', '=IF(A1<>1,"ne","eq")', '=IF(A4="text","same","other")', '=IF(A5="","blank","filled")',
    '=IF(TRUE,1,2)', '=IF(FALSE,1,2)', '=IF(TRUE(),1,2)', '=IF(FALSE(),1)', '=IF(0,1)', '=IF("a",1,2)',
    # IFERROR
    '=IFERROR(B1,"fb")', '=IFERROR(B2,"fb")', '=IFERROR(1/0,"fb")', '=IFERROR(A1/A2,A3)', '=IFERROR(A1/A3,"fb")',
    '=IFERROR(B3,"fb")', '=IFERROR(B4,"fb")', '=IFERROR(B5,"fb")', '=IFERROR(B6,"fb")', '=IFERROR(A5,"fb")',
    '=IFERROR(A4,"fb")', '=IFERROR("#N/A","fb")', '=IFERROR("#DIV/0!",1)', '=IFERROR("#REF!",1)', '=IFERROR("#OTHER",1)',
    '=IFERROR(IFERROR(B1,B1),"outer")', '=IFERROR(B1,IFERROR(B3,"inner"))', '=IFERROR(B1,B1)', '=IFERROR(B2,B1)',
    '=IFERROR(B1,1/0)', '=IFERROR(B2,1/0)', '=1+IFERROR(B1,2)*3', '=IFERROR(B1,2)&IFERROR(B2,3)',
    '=IFERROR(IF(A1>0,B1,1),"fb")', '=IF(IFERROR(B1,0)>0,"p","n")', '=IF(A1>0,IFERROR(B1,"in"),"out")',
    '=IFERROR(SUM(A1:A3,B1),"fb")', '=IFERROR(SUM(B4,1),"fb")', '=IFERROR(MAX(C1:C3),"fb")', '=IFERROR(LEFT(A4,-1),"fb")',
    '=IFERROR(VLOOKUP(5,A1:A3,1,FALSE()),"nf")', '=IFERROR(VLOOKUP(7,A1:A3,1,FALSE()),"nf")',
    '=IFERROR(MATCH(7,A1:A3,0),"nm")', '=IFERROR(A1:A3,"fb")', '=IFERROR(B1)', '=IFERROR()', '=IFERROR(B1,1,2)',
    '=IFERROR(IFS(A2>0,"x"),"none")', '=IFERROR(IFS(A1>0,"x"),"none")', '=iferror(B1,"fb")',
    # IFS
    '=IFS(A1>0,"first",A3>0,"second")', '=IFS(A2>0,"first",A3>0,"second")', '=IFS(A2>0,"first",A2>1,"second")',
    '=IFS(A2>0,"first")', '=IFS(A1>0,"first")', '=IFS(A1,"n")', '=IFS(A2,"n",A6,"m")', '=IFS(A5,"n",A4,"t")',
    '=IFS(A2>0,1/0,A1>0,2)', '=IFS(A1>0,1,A1>0,1/0)', '=IFS(A1>0,B1,A2>0,2)', '=IFS(A2>0,B1,A1>0,2)',
    '=IFS(A2>0,B4,A1>0,2)', '=IFS(A2>0,1,A1>0,B4)', '=IFS(B4,1,A1>0,2)', '=IFS(A1>0,"#N/A",A2>0,2)',
    '=IFS(A2>0,1,A8,2,A7,"#REF!")', '=IFS(A1>0)', '=IFS()', '=IFS(A1>0,1,A2>0)', '=IFS(A2>0,1,A1>0)',
    '=IFS(A1:A3,"r")', '=IFS(A2:A3,"r")', '=IFS(A1>0,C1:C3)', '=IFS(A2>0,C1:C3,A1>0,"after")', '=IFS(A2:A3,C1:C2)',
    '=IFS(A2>0,"a",IFS(A1>0,TRUE),"nested")', '=IFS(IF(A1>0,A2,A1),"a",TRUE,"dflt")', '=IFS(TRUE,1)', '=IFS(FALSE,1)',
    '=1+IFS(A2>0,1,A1>0,2)*5', '=IFS(A1>0,"x")&IFS(A3>0,"y")', '=IF(IFS(A2>0,1,A1>0,0),"t","f")',
    '=IFS(A2>0,"a",A2>0,"b",A2>0,"c",A2>0,"d",A1>0,"e",A1>0,"f")', '=IFS(A1>0;"semi";A2>0;"colon")',
    '=IFS(A4="text","txt",TRUE,"no")', '=IFS(A5="","blank",TRUE,"no")', '=IFS(A5,"blank",TRUE,"dflt")',
    '=IFS(IFERROR(B1,FALSE),"e",TRUE,"d")', '=IFS(A1>0,IFERROR(B1,"c"),TRUE,"d")', '=ifs(A1>0,1)',
]


def functions_of(text):
    return text.split("        return '#VALUE!'\n\n")[-1]


def build(path, formulas):
    wb = openpyxl.Workbook()
    ws = wb.active
    ws.title = 'S'
    for address, value in DATA.items():
        ws[address] = value
    for n, formula in enumerate(formulas):
        ws.cell(row=n + 1, column=5, value=formula)   # column E
    wb.save(path)


def translate(tmp, name, formulas):
    xlsx = os.path.join(tmp, f'{name}.xlsx')
    out_py = os.path.join(tmp, f'{name}.py')
    build(xlsx, formulas)
    Parser().set_excel_file_path(xlsx).write_translation(out_py)
    return out_py


OVERRIDES = [
    [Cell('S', 'A', '1', value=0)],
    [Cell('S', 'A', '2', value=3), Cell('S', 'B', '1', value=7)],
    [Cell('S', 'B', '2', value='#VALUE!'), Cell('S', 'A', '3', value=-1)],
    [Cell('S', 'A', '1', value='#N/A'), Cell('S', 'A', '5', value='now filled')],
]


def run_formulas(tmp):
    accepted = []
    for n, formula in enumerate(FORMULAS):
        label = f'f{n:03d} {formula}'
        try:
            out_py = translate(tmp, f'single_{n}', [formula])
        except BaseException as e:  # noqa
            emit(label, 'REJECTED', type(e).__name__, str(e)[:200])
            continue
        accepted.append(formula)
        text = functions_of(open(out_py).read())
        emit(label, 'TEXT', hashlib.sha256(text.encode()).hexdigest()[:16])
        for line in text.splitlines():
            if '_0_4_0' in line or 'self._if' in line or ' if (' in line:
                emit(label, 'CODE', line.strip())
        executor = Executor().set_executed_class(class_file=out_py)
        attempt(f'{label} value', lambda: executor.get_cell(Cell('S', 'E', '1')).value)
        for k, batch in enumerate(OVERRIDES):
            executor.set_cells([Cell(c.title, c.column, c.row, value=c.value) for c in batch])
            attempt(f'{label} after override {k}', lambda: executor.get_cell(Cell(0, 4, 0)).value)

    emit('accepted', len(accepted), 'of', len(FORMULAS))
    out_py = translate(tmp, 'combined', accepted)
    text = functions_of(open(out_py).read())
    emit('combined TEXT', text.count('def '), hashlib.sha256(text.encode()).hexdigest())
    emit(text)
    executor = Executor().set_executed_class(class_file=out_py)
    for k, batch in enumerate([[]] + OVERRIDES):
        executor.set_cells([Cell(c.title, c.column, c.row, value=c.value) for c in batch])
        for n, formula in enumerate(accepted):
            attempt(f'combined state {k} E{n + 1} {formula}', lambda: executor.get_cell(Cell(0, 4, n)).value)
    return type(executor.get_executed_class())


class Weird:
    def __init__(self, name, truth=None, eq_raises=False):
        self.name, self.truth, self.eq_raises = name, truth, eq_raises
        self.bool_calls = 0

    def __bool__(self):
        self.bool_calls += 1
        if isinstance(self.truth, BaseException):
            raise self.truth
        return self.truth

    def __eq__(self, other):
        if self.eq_raises:
            raise ValueError(f'eq of {self.name}')
        return NotImplemented

    __hash__ = None

    def __repr__(self):
        return f'Weird({self.name})'


def run_runtime(label, klass):
    inst = klass()
    empty = inst.EmptyCell()
    lists = [
        [], [True, 'a'], [False, 'a'], [False, 'a', True, 'b'], [False, 'a', False, 'b'], [0, 'a', 1, 'b', 1, 'c'],
        [1], [0], [0, 'a', 1], [0, 'a', 0], [0, 'a', 0, 'b', 2], ['', 'a', 'x', 'b'], [None, 'a', empty, 'b', 0.0, 'c'],
        [None, 'a', empty, 'b', 0.1, 'c'], [empty, 'a'], [[], 'a', [0], 'b'], [True, None], [True, empty], [True, []],
        [True, '#N/A'], [False, '#N/A'], ['#DIV/0!', 1, True, 2], [False, 1, '#REF!', 2], [False, 1, True, '#VALUE!'],
        [False, '#NUM!', '#NAME?', '#NULL!'], [True, '#OTHER!'], ['#OTHER!', 'truthy text'], [False, 1, True],
        ['#N/A'], [-1, 'neg'], [0, 'z', -0.0, 'nz', 1e-300, 'tiny'], [float('nan'), 'nan'], ['0', 'str zero'],
        (False, 'a', True, 'b'), (False, 'a', True), (), 'ab', '', 'abc', range(0), range(3), range(4),
        {0: 'a', 1: 'b'}, {}, None, 5, [False] * 50 + [True, 'late'], [0, 'x'] * 200, [0, 'x'] * 200 + [1],
    ]
    for n, lst in enumerate(lists):
        attempt(f'{label} _ifs {n} {str(lst)[:80]}', lambda: inst._ifs(lst))
    w_false, w_true, w_raise = Weird('f', False), Weird('t', True), Weird('r', ZeroDivisionError('bool'))
    w_eq = Weird('e', True, eq_raises=True)
    for n, lst in enumerate([[w_false, 'a', w_true, 'b', w_raise, 'c'], [w_false, 'a', w_raise, 'b', w_true, 'c'],
                             [w_true, w_false], [w_eq, 'a'], [w_false, w_raise, w_false, w_raise]]):
        attempt(f'{label} _ifs weird {n}', lambda: inst._ifs(lst))
        emit(f'{label} bool calls {n}', w_false.bool_calls, w_true.bool_calls, w_raise.bool_calls, w_eq.bool_calls)
    mutable = [0, 'a', 1, 'b']
    attempt(f'{label} _ifs result identity', lambda: inst._ifs([0, 'a', 1, mutable]) is mutable)

    def raiser(exc):
        def fn():
            raise exc
        return fn

    calls = []

    def counted(value):
        def fn():
            calls.append(value)
            return value
        return fn

    sources = [
        ('value 1', lambda: 1), ('value 0', lambda: 0), ('None', lambda: None), ('empty', lambda: empty),
        ('text', lambda: 'text'), ('empty text', lambda: ''), ('list', lambda: [1, 2]), ('list with error', lambda: ['#N/A']),
        ('nested list', lambda: [['#N/A']]), ('tuple', lambda: ('#N/A',)), ('dict', lambda: {'#N/A': 1}),
        ('#N/A', lambda: '#N/A'), ('#DIV/0!', lambda: '#DIV/0!'), ('#NUM!', lambda: '#NUM!'), ('#NAME?', lambda: '#NAME?'),
        ('#NULL!', lambda: '#NULL!'), ('#REF!', lambda: '#REF!'), ('#VALUE!', lambda: '#VALUE!'),
        ('#ERROR!', lambda: '#ERROR!'), ('#n/a', lambda: '#n/a'), (' #N/A', lambda: ' #N/A'), ('nan', lambda: float('nan')),
        ('True', lambda: True), ('False', lambda: False), ('weird eq raises', lambda: w_eq),
        ('weird plain', lambda: w_true), ('ZeroDivisionError', raiser(ZeroDivisionError('z'))),
        ('TypeError', raiser(TypeError('t'))), ('KeyError', raiser(KeyError('k'))), ('Exception', raiser(Exception('e'))),
        ('RecursionError', raiser(RecursionError('r'))), ('KeyboardInterrupt', raiser(KeyboardInterrupt())),
        ('SystemExit', raiser(SystemExit(3))), ('GeneratorExit', raiser(GeneratorExit())),
        ('StopIteration', raiser(StopIteration())), ('MemoryError', raiser(MemoryError())),
        ('class exc', raiser(klass.ExcelInPythonException('x'))), ('not callable', None), ('needs arg', lambda x: x),
        ('counted', counted('c')), ('counted error', counted('#N/A')),
    ]
    fallbacks = ['fb', None, 0, '#N/A', empty, [1]]
    for name, fn in sources:
        for fb in fallbacks:
            attempt(f'{label} _iferror {name} / {fb!r}', lambda: inst._iferror(fn, fb))
    emit(f'{label} counted calls', calls)
    sentinel = object()
    attempt(f'{label} _iferror value identity', lambda: inst._iferror(lambda: sentinel, 'fb') is sentinel)
    attempt(f'{label} _iferror fallback identity', lambda: inst._iferror(raiser(ValueError()), sentinel) is sentinel)
    attempt(f'{label} _iferror nested', lambda: inst._iferror(
        lambda: inst._iferror(raiser(ValueError()), '#REF!'), inst._iferror(lambda: inst._ifs([0, 1]), 'deep')))
    attempt(f'{label} _iferror over _ifs odd', lambda: inst._iferror(lambda: inst._ifs([0, 1, 1]), 'odd'))

    # deep recursion inside the protected call is contained as well
    def deep(n):
        return deep(n + 1)
    attempt(f'{label} _iferror real recursion', lambda: inst._iferror(lambda: deep(0), 'contained'))


class Direct(AbstractExcelInPython):
    pass


def main():
    tmp = tempfile.mkdtemp(prefix='t54_r2_')
    sys.dont_write_bytecode = True
    try:
        generated_class = run_formulas(tmp)
        run_runtime('generated', generated_class)
        run_runtime('abstract', Direct)
    finally:
        shutil.rmtree(tmp, ignore_errors=True)
    body = '\n'.join(OUT)
    print(body)
    print('DIGEST', hashlib.sha256(body.encode()).hexdigest(), len(OUT))


if __name__ == '__main__':
    main()
    sys.exit(0)
