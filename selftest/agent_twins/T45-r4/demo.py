"""Equivalence demo for r4: the SEARCH runtime helper (both copies).

Calls _search of (a) a trivial subclass of AbstractExcelInPython and (b) the ExcelInPython
class generated from a workbook on a large grid of needles (plain, ? * ~ wildcards, regex
metacharacters, ill-typed), haystacks and start positions, and runs SEARCH formulas through
Parser/Executor with overridden cells.  Prints one line per probe / a digest per grid.
"""
import hashlib
import itertools
import os
import re
import shutil
import tempfile

from openpyxl import Workbook

from excel2pycl import Parser, Executor, Cell
from excel2pycl.src.utilities.abstract_excel_in_python_class import AbstractExcelInPython


class Direct(AbstractExcelInPython):
    pass


def show(value):
    return f'{type(value).__name__}:{value!r}'


def show_exc(e):
    return f'EXC {e.__class__.__name__}: {e}'


def call(function, *args):
    try:
        return show(function(*args))
    except Exception as e:  # noqa
        return show_exc(e)


NEEDLES = [
    '', 'a', 'A', 'b', 'ab', 'ba', 'abc', 'x', 'lo', 'LO', 'o w', 'world', 'World!', 'р', 'И', 'имбирь', 'Река',
    '?', '??', '???', '*', '**', '?*', '*?', 'a?', '?a', 'a*', '*a', 'a?c', 'a*c', 'A?C', 'a??', 'a*?', 'l*o', 'l?o', 'o*o',
    'h*d', 'H?llo', 'h*l', '?ello*', 'и*ь', 'МБ?РЬ', '?мбирь', '* ?мбирь', '?ткрыт*р', 'П*очему', 'П?очему',
    '~', '~~', '~?', '~*', '~a', 'a~', 'a~?', 'a~*', '~?a', '~*a', 'a~?c', 'a~*c', '~??', '~?*', '~**', '?~?', '*~*', '?~*',
    '*~?', '~~?', '~~*', 'п?чему же~?', 'what~?', 'what?', '2*3', '2~*3', '2~*3*', '2?3', '~2',
    '.', '..', 'a.c', '.*', '.?', 'a.?', '(', ')', '(a)', '(a)?', '(a)*', '[', ']', '[a]', '[a]?', '[a-c]*', '+', 'a+', 'a+?',
    '+?', '^', '$', '^a', 'c$', '^a?', 'a?$', '|', 'a|b', 'a|b?', 'x|a?', '\\', '\\d', '\\d+', '\\d?', 'П?че\\dу', '\\', '{',
    '{2}', 'a{2}', 'a{2}?', 'a{2}*', '(.)', '(.)?', '(.*)', '(.*)*', 'a(.)c', '(?i)a?', '(?P<n>a)?', '(a)(b)?c*', 'é?', 'ß*',
    'İ?', ' ', ' ?', '\n', '\n?', 'a\n*', '?\n', '#VALUE!', '#*',
]

HAYSTACKS = [
    '', 'a', 'abc', 'ABC', 'abcabc', 'aXc a?c a*c', 'Hello world', 'hello hello', 'имбирь', 'ИМБИРЬ', 'Почему, почему же?',
    'эти открытые двери', 'консервированный имбирь', '12356', '2*3=6 and 2x3', 'what? what', 'a.c abc', '(a) [a] a+ a|b ^a$',
    'tilde ~ ~? ~*', 'line1\nline2 a\nb', 'поче5у', 'straße café İi', '~~', '?', '*', '\\d+ \\ {2}',
]

STARTS = [None, 0, 1, 2, 3, 4, 7, 11, 12, 100, -1]

ODD = [
    ('a', 'abc', 1.0), ('a', 'abc', 1.5), ('a?', 'abc', 1.0), ('a?', 'abc', 2.5), ('a', 'abc', True), ('a', 'abc', False),
    ('a?', 'abc', True), ('a', 'abc', '1'), ('a?', 'abc', '1'), ('a', 'abc', ''), ('a', 'abc', [1]), ('a', 'abc', float('nan')),
    ('a', 'abc', float('inf')), ('a', 'abc', -0.0), ('a', 'abc', 10 ** 30), ('a?', 'abc', 10 ** 30),
    (1, 'abc', None), (1, 'abc', 9), (None, 'abc', None), (None, 'abc', 5), ('a', 123, None), ('a', None, None),
    ('a?', 123, 1), ('a', ['a', 'b'], 1), ('a?', ['a', 'b'], 1), (b'a', 'abc', 1), ('a', b'abc', 1), (b'a?', b'abc', 1),
    (b'a', b'abc', 1), (1.5, '1.5', 1), ('1', 1.5, 1), (True, 'True', 1), ('', '', None), ('', '', 1), ('?', '', None),
    ('', 'abc', 3), ('', 'abc', 4),
]


def empty_cell_cases(instance):
    empty = instance.EmptyCell()
    return [('a', 'abc', empty), ('a?', 'abc', empty), (empty, 'abc', 1), ('a', empty, 1), ('a', empty, None)]


def grid(label, instance):
    digest = hashlib.sha256()
    lines = 0
    outcomes = {}
    for needle, haystack, start in itertools.product(NEEDLES, HAYSTACKS, STARTS):
        out = call(instance._search, needle, haystack, start)
        line = f'{needle!r}|{haystack!r}|{start!r} -> {out}'
        digest.update(line.encode())
        lines += 1
        key = out.split(':')[0] if not out.startswith('EXC') else out.split(':')[0]
        outcomes[key] = outcomes.get(key, 0) + 1
        if haystack in ('aXc a?c a*c', 'Hello world', 'Почему, почему же?') and start in (None, 2, 7, 100):
            print(f'{label} SEARCH {line}')
    print(f'{label} grid lines={lines} outcomes={sorted(outcomes.items())} digest={digest.hexdigest()}')
    for needle, haystack, start in ODD + empty_cell_cases(instance):
        print(f'{label} ODD {show(needle)}|{show(haystack)}|{show(start)} -> {call(instance._search, needle, haystack, start)}')


ROWS = [
    ['р', 'имбирь', '=SEARCH(A1,B1)'],
    ['и', 'имбирь', '=SEARCH(A2,B2,2)'],
    ['и*ь', 'ИМБИРЬ', '=SEARCH(A3,B3)'],
    ['МБ?РЬ', 'имбирь', '=SEARCH(A4,B4)'],
    ['Река', 'Имбирь', '=SEARCH(A5,B5)'],
    ['м', 'имбирь', '=SEARCH(A6,B6,3)'],
    [r'\d+', '12356', '=SEARCH(A7,B7)'],
    ['?ткрыт*р', 'эти открытые двери', '=SEARCH(A8,B8)'],
    ['п?чему же~?', 'Почему, почему же?', '=SEARCH(A9,B9)'],
    ['П*очему', 'Почему, почему же?', '=SEARCH(A10,B10)'],
    ['П?очему', 'почему', '=SEARCH(A11,B11)'],
    ['П?че\\dу', 'поче5у', '=SEARCH(A12,B12)'],
    ['?мбирь', 'имбирь', '=SEARCH(A13,B13)'],
    ['* ?мбирь', 'консервированный имбирь', '=SEARCH(A14,B14)'],
    ['o', 'Hello world', '=SEARCH(A15,B15,6)'],
    ['o*', 'Hello world', '=SEARCH(A16,B16,6)'],
    ['l?', 'Hello world', '=SEARCH("l?",B17,D17)', 3],
    ['~*', '2*3*4', '=SEARCH("~*",B18,3)'],
    ['x', 'Hello world', '=IFERROR(SEARCH(A19,B19),"none")'],
    ['w', 'Hello world', '=MID(B20,SEARCH(A20,B20),100)'],
    [' ', 'Hello world', '=LEFT(B21,SEARCH(A21,B21)-1)&"|"&MID(B21,SEARCH(" ",B21)+1,100)'],
    ['a', 'banana', '=SEARCH(A22,B22,SEARCH(A22,B22)+1)'],
    ['A?A', 'banana', '=SEARCH(A23,B23,3)'],
    ['', 'banana', '=SEARCH(A24,B24)'],
    ['n', '', '=SEARCH(A25,B25)'],
    ['(', 'f(x)', '=SEARCH(A26,B26)'],
    ['(?', 'f(x)', '=SEARCH(A27,B27)'],
    ['a|b?', 'xa', '=SEARCH(A28,B28)'],
    [5, 12345, '=SEARCH(A29,B29)'],
    ['3', 12345, '=SEARCH(A30,B30&"")'],
]

OVERRIDES = [
    [],
    [('A', '15', 'O'), ('B', '15', 'foo boo zoo')],
    [('D', '17', 4), ('D', '17', 4)],
    [('D', '17', 0)],
    [('D', '17', 11)],
    [('D', '17', 12)],
    [('A', '22', 'an'), ('A', '23', '?N?')],
    [('A', '1', '*'), ('A', '2', '?'), ('A', '5', '~?'), ('B', '5', 'Where?')],
]


def pipeline(tmp):
    xlsx = os.path.join(tmp, 'search.xlsx')
    out_py = os.path.join(tmp, 'translated.py')
    wb = Workbook()
    ws = wb.active
    ws.title = 'S'
    for row in ROWS:
        ws.append(row)
    wb.save(xlsx)
    text = Parser().set_excel_file_path(xlsx).disable_safety_check().write_translation(out_py).get_translation()
    for name, body in re.findall(r'    def (_\d+_\d+_\d+(?:_\d+)?)\(self\):\n        return (.*)', text):
        if 'self._' in body:
            print(f'GEN {name}: {body}')
    for overrides in OVERRIDES:
        executor = Executor().set_executed_class(class_file=out_py)
        if overrides:
            executor.set_cells([Cell('S', column, row, value=value) for column, row, value in overrides])
        for n, row in enumerate(ROWS):
            try:
                out = show(executor.get_cell(Cell('S', 'C', str(n + 1))).value)
            except Exception as e:  # noqa
                out = show_exc(e)
            print(f'RUN {overrides!r} {row[2]!r} -> {out}')
    return Executor().set_executed_class(class_file=out_py).get_executed_class()


def main():
    tmp = tempfile.mkdtemp(prefix='t45_r4_')
    try:
        generated = pipeline(tmp)
        for label, instance in (('class', Direct()), ('template', generated)):
            grid(label, instance)
    finally:
        shutil.rmtree(tmp, ignore_errors=True)


if __name__ == '__main__':
    main()
