"""Equivalence demo for r4: the NETWORKDAYS runtime helper (_network_days) in both copies.

Calls _network_days directly on the importable class and on the class generated from the template
with many intervals (forward, reversed, one day, week ends, leap days, year ends, datetimes with a
time of day, the calendar limits date.min / date.max, non-dates) and many holiday arguments (None,
empty, nested rows, None rows, non-date entries, duplicates, week-end holidays, one-shot iterators,
non-iterables), then evaluates a transpiled workbook with NETWORKDAYS formulas and cell overrides.
Every result (value or exception class name) goes into a sha256; most lines are printed as well.
"""
import datetime
import hashlib
import os
import random
import shutil
import sys
import tempfile

from openpyxl import Workbook

from excel2pycl import Parser, Executor, Cell
from excel2pycl.src.object_loader import load_module
from excel2pycl.src.utilities.abstract_excel_in_python_class import AbstractExcelInPython

_digest = hashlib.sha256()
_lines = 0
D = datetime.datetime


def out(line: str, show: bool = True):
    global _lines
    _digest.update(line.encode('utf-8') + b'\n')
    _lines += 1
    if show:
        print(line)


def call(function, *args, **kwargs):
    try:
        value = function(*args, **kwargs)
        return f'{type(value).__name__}:{value!r}'
    except BaseException as error:
        return f'raises {type(error).__name__}'


class Direct(AbstractExcelInPython):
    pass


INTERVALS = [
    (D(2023, 4, 1), D(2023, 5, 31)), (D(2023, 5, 31), D(2023, 4, 1)), (D(2023, 5, 1), D(2023, 5, 1)),
    (D(2023, 5, 6), D(2023, 5, 6)), (D(2023, 5, 6), D(2023, 5, 7)), (D(2023, 5, 7), D(2023, 5, 6)),
    (D(2023, 5, 5), D(2023, 5, 8)), (D(2023, 5, 8), D(2023, 5, 5)), (D(2024, 2, 26), D(2024, 3, 3)),
    (D(2023, 2, 27), D(2023, 3, 5)), (D(2023, 12, 25), D(2024, 1, 7)), (D(2024, 1, 7), D(2023, 12, 25)),
    (D(2023, 5, 1, 23, 59), D(2023, 5, 2, 0, 1)), (D(2023, 5, 2, 0, 1), D(2023, 5, 1, 23, 59)),
    (D(2023, 5, 1, 18), D(2023, 5, 1, 6)), (D(2023, 5, 1, 6), D(2023, 5, 1, 18)),
    (D(1900, 1, 1), D(1900, 12, 31)), (D(2000, 1, 1), D(2000, 12, 31)), (D(1999, 12, 31), D(2001, 1, 1)),
    (D(1, 1, 1), D(1, 1, 31)), (D(1, 1, 31), D(1, 1, 1)), (D(9999, 12, 1), D(9999, 12, 30)),
    (D(9999, 12, 1), D(9999, 12, 31)), (D(9999, 12, 31), D(9999, 12, 1)), (D(9999, 12, 31), D(9999, 12, 31)),
    (D(9999, 12, 31, 23, 59, 59), D(9999, 12, 25)),
]
NOT_INTERVALS = [
    (40, D(2023, 5, 1)), (D(2023, 5, 1), 'ewewwewe'), ('', ''), (None, None), (datetime.date(2023, 5, 1), D(2023, 5, 9)),
    (D(2023, 5, 1), datetime.date(2023, 5, 9)), (45000, 45010), (True, False), ('2023-05-01', '2023-05-09'),
]
HOLIDAYS = [
    ('none', lambda: None),
    ('empty', lambda: []),
    ('empty row', lambda: [[]]),
    ('empty rows', lambda: [[], [], []]),
    ('one row', lambda: [[D(2023, 5, 1), D(2023, 5, 8)]]),
    ('two rows', lambda: [[D(2023, 5, 1)], [D(2023, 5, 8)]]),
    ('matrix with junk', lambda: [[D(2023, 5, 1), D(2023, 5, 8)], [40, 'ewewwewe'], [None, '']]),
    ('none rows', lambda: [None, [D(2023, 5, 9)], None]),
    ('only none rows', lambda: [None, None]),
    ('duplicates', lambda: [[D(2023, 5, 1), D(2023, 5, 1)], [D(2023, 5, 1, 12, 30)]]),
    ('week-end holidays', lambda: [[D(2023, 5, 6), D(2023, 5, 7), D(2024, 3, 2)]]),
    ('outside', lambda: [[D(1990, 1, 1), D(2090, 1, 1)]]),
    ('leap day and year end', lambda: [[D(2024, 2, 29), D(2023, 12, 25), D(2024, 1, 1), D(9999, 12, 30)]]),
    ('plain dates are not datetimes', lambda: [[datetime.date(2023, 5, 1), datetime.date(2023, 5, 8)]]),
    ('tuples', lambda: ((D(2023, 5, 1),), (D(2023, 5, 8),))),
    ('one-shot iterators', lambda: iter([iter([D(2023, 5, 1)]), iter([D(2023, 5, 8), 7])])),
    ('dict row', lambda: [{D(2023, 5, 1): 1, D(2023, 5, 2): 2}]),
    ('flat list', lambda: [D(2023, 5, 1), D(2023, 5, 8)]),
    ('row then flat', lambda: [[D(2023, 5, 1)], D(2023, 5, 8)]),
    ('number', lambda: 5),
    ('zero', lambda: 0),
    ('empty text', lambda: ''),
    ('text', lambda: 'ab'),
    ('a datetime', lambda: D(2023, 5, 1)),
    ('numbers in rows', lambda: [[1, 2], [3.5]]),
]


def direct_part(label, instance):
    for start, end in INTERVALS + NOT_INTERVALS:
        for name, make in HOLIDAYS:
            out(f'{label} _network_days({start!r}, {end!r}, <{name}>) -> '
                f'{call(instance._network_days, start, end, make())}')
        out(f'{label} _network_days({start!r}, {end!r}) -> {call(instance._network_days, start, end)}')
    empty = instance.EmptyCell()
    out(f'{label} empty cells -> {call(instance._network_days, empty, empty, [[empty]])}')
    out(f'{label} empty holidays cell -> {call(instance._network_days, D(2023, 5, 1), D(2023, 5, 9), empty)}')
    out(f'{label} empty cells in holidays -> '
        f'{call(instance._network_days, D(2023, 5, 1), D(2023, 5, 9), [[empty, D(2023, 5, 2)], [empty, empty]])}')
    out(f'{label} keywords -> '
        f'{call(instance._network_days, date_end=D(2023, 5, 9), date_start=D(2023, 5, 1), holidays=[[D(2023, 5, 2)]])}')
    out(f'{label} missing argument -> {call(instance._network_days, D(2023, 5, 1))}')
    out(f'{label} whole calendar -> {call(instance._network_days, D(1, 1, 1), D(9999, 12, 30), [[D(2000, 1, 3)]])}')
    out(f'{label} whole calendar to date.max -> {call(instance._network_days, D(1, 1, 1), D(9999, 12, 31))}')

    # the caller's holiday lists are left untouched
    holidays = [[D(2023, 5, 1), 40], None, [D(2023, 5, 8)]]
    before = repr(holidays)
    result = call(instance._network_days, D(2023, 4, 1), D(2023, 5, 31), holidays)
    out(f'{label} holidays untouched -> {result} {before == repr(holidays)}')

    rng = random.Random(1808)
    base = datetime.date(1999, 12, 20)
    for index in range(2500):
        start = D.combine(base + datetime.timedelta(days=rng.randint(0, 9000)), datetime.time(rng.randint(0, 23)))
        end = start + datetime.timedelta(days=rng.randint(-400, 400), hours=rng.randint(-23, 23))
        rows = []
        for _ in range(rng.randint(0, 4)):
            if rng.random() < 0.15:
                rows.append(None)
                continue
            row = []
            for _ in range(rng.randint(0, 6)):
                pick = rng.random()
                if pick < 0.7:
                    row.append(start + datetime.timedelta(days=rng.randint(-420, 420)))
                elif pick < 0.8:
                    row.append(rng.choice([40, 'x', None, '', 3.5]))
                else:
                    row.append(end)
            rows.append(row)
        holidays = rows if rng.random() < 0.9 else None
        out(f'{label} random {index}: ({start!r}, {end!r}, {holidays!r}) -> '
            f'{call(instance._network_days, start, end, holidays)}', show=index < 40)


def workbook_part(tmp_dir):
    xlsx = os.path.join(tmp_dir, 'networkdays.xlsx')
    module_path = os.path.join(tmp_dir, 'networkdays_translation.py')
    wb = Workbook()
    ws = wb.active
    data = [
        [D(2023, 4, 1), D(2023, 5, 31), '=NETWORKDAYS(A1,B1)', '=NETWORKDAYS(B1,A1)', '=NETWORKDAYS(A1,B1,A3:B4)'],
        [D(2023, 5, 31), D(2023, 4, 1), '=NETWORKDAYS(A2,B2)', '=NETWORKDAYS(A2,B2,A3:B3)', '=NETWORKDAYS(A2,A2)'],
        [D(2023, 5, 1), D(2023, 5, 8), '=NETWORKDAYS(A3,B3)', '=NETWORKDAYS(A3,B3,A3:B3)', '=NETWORKDAYS(A3,B3,A6:B7)'],
        [40, 'ewewwewe', '=NETWORKDAYS(A4,B4)', '=NETWORKDAYS(A1,B4)', '=NETWORKDAYS(A1,B1,A4:B5)'],
        ['', '', '=NETWORKDAYS(A5,B5)', '=NETWORKDAYS(A1,B1,A5:B5)', '=NETWORKDAYS(DATE(2024,2,26),DATE(2024,3,3))'],
        [D(2023, 5, 9), D(2023, 5, 6), '=NETWORKDAYS(A1,B1,A6:A7)', '=NETWORKDAYS(A1,B1,A1:B7)',
         '=NETWORKDAYS(DATE(2024,1,1),EOMONTH(DATE(2024,1,1),11),A1:B7)'],
        [D(2023, 5, 9), None, '=NETWORKDAYS(B1,A1,A6:B7)', '=NETWORKDAYS(A6,B6,A6:B6)',
         '=NETWORKDAYS(A1,B1)-NETWORKDAYS(A1,B1,A3:B4)'],
    ]
    for row in data:
        ws.append(row)
    wb.save(xlsx)

    Parser().set_excel_file_path(xlsx).write_translation(module_path)
    executor = Executor().set_executed_class(class_file=module_path)
    cells = [(column, row) for row in range(len(data)) for column in (2, 3, 4)]
    for column, row in cells:
        out(f'workbook {data[row][column]} -> '
            f'{call(lambda c=column, r=row: executor.get_cell(Cell(0, c, r)).value)}')
    executor.set_cells([Cell(0, 0, 0, value=D(2024, 2, 1)), Cell(0, 1, 0, value=D(2024, 2, 29, 17, 30)),
                        Cell(0, 0, 2, value=D(2024, 2, 14)), Cell(0, 1, 2, value=D(2024, 2, 29)),
                        Cell(0, 0, 3, value=D(2024, 2, 14)), Cell(0, 1, 3, value=D(2024, 2, 17)),
                        Cell(0, 1, 6, value='holiday')])
    for column, row in cells:
        out(f'workbook/override {data[row][column]} -> '
            f'{call(lambda c=column, r=row: executor.get_cell(Cell(0, c, r)).value)}')
    return load_module(module_path).ExcelInPython()


def main():
    tmp_dir = tempfile.mkdtemp(prefix='r4_demo_')
    try:
        generated = workbook_part(tmp_dir)
        for label, instance in (('class', Direct()), ('template', generated)):
            direct_part(label, instance)
    finally:
        shutil.rmtree(tmp_dir, ignore_errors=True)
    print(f'lines={_lines} sha256={_digest.hexdigest()}')


if __name__ == '__main__':
    main()
    sys.exit(0)
