"""Equivalence demo for r4 (C07): how string / number / boolean literals and wildcard patterns written inside
formulas are lexed (RegexpBaseToken.get, LiteralToken) and printed into the class (PatternTokenTranslator).

1. every regexp token class x many expressions: token class, value, unparsed rest;
2. Lexer.parse on many formulas: the token stream or the exception;
3. a workbook whose formulas contain hostile string literals and patterns: digest of the generated class,
   value of every formula cell.
"""
import hashlib
import os
import shutil
import tempfile

from openpyxl import Workbook

from excel2pycl import Parser, Executor, Cell
from excel2pycl.src.lexer import Lexer
from excel2pycl.src.tokens import LiteralToken, PatternToken, RegexpBaseToken, CellIdentifierToken, \
    CellIdentifierRangeToken, MatrixOfCellIdentifiersToken

SENTINEL = os.path.join(tempfile.gettempdir(), 't47r4_sentinel_must_not_exist')

EXPRESSIONS = [
    '', ' ', '""', '"" ', '""""', '"a"', '"a"&"b"', '"a""b"', '"', '"abc', 'abc"', '"a\nb"', '"a"\n', '"a"\n+1', '"a\n', '\n"a"',
    "\"it's\"", '"back\\slash"', '"\\"', '"\\\\"', "\"'+__import__('os').system('x')+'\"", '"{0}{x}"', '"%s"', '"#"', '" "',
    '"1"', '"TRUE"', '"=1+1"', '"a";"b"', '"a","b"', '"a")', '"a"))&"b"', '"é中\U0001F600"', '"tab\there"',
    '"a*"', '"*"', '"?"', '"a?c"', '"~*"', '"~?"', '"a~*b*"', '"a~"', '"~"', '"~~"', '"~~*"', '"*~"', '"a*";"b"', '"a*"&"b?"', '"a"&"b*"',
    '"a*"\n', '"a*\n"', '"**??"', '"~a*"', '"a*""b"', "\"'*'\"",
    '0', '1', '12', '007', '1.5', '1.', '.5', '1.50', '1e3', '1e-3', '1.5e10', '1e', '1e+3', '1E3', '1.5.5', '1,5', '1;2', '1)', '1+1', '1 2',
    '12abc', '1A', '1:2', '9' * 25, '0.1e-400', '1e400', '1\n', '1\n2', '٣', '1٣', '²',
    'TRUE', 'FALSE', 'TRUE()', 'FALSE()', 'TRUE(', 'TRUE)', 'true', 'True', 'TRUEX', 'FALSE1', 'TRUE()()', 'TRUE+1', 'FALSE;',
    'A1', '$A$1', 'A1:B2', 'A:A', 'A1:A5', 'A1:C1', "'My sheet'!A1", 'Sheet!A1', "'it''s'!A1", 'Sheet!A1:B2', "'S'!$A$1:$A$3", 'AA10', 'A0', 'A',
    'A1B', 'A1:', 'A1:B', 'a1', 'R1C1', 'A1 ', 'A1+B1', 'A1)', 'A1;B1', 'A1\n',
    '(', ')', '()', ';', ',', '~', '<>', '>=', '<=', '=', '>', '<', '+', '-', '*', '/', '&', '%', '^', '!', '#', '@', '\\', "'", '{', '}',
    'SUM', 'SUMIF', 'SUMIFS', 'SUMIFSX', 'SUM(', 'SUMIF(A1:A2;">1")', 'IF', 'IFS', 'IFERROR', 'COUNT', 'COUNTIFS', 'COUNTBLANK', 'sum', 'Sum',
    'ROUND', 'ROUNDUP', 'ROUNDDOWN', 'DATE', 'DATEDIF', 'DAY', 'TODAY()', 'XMATCH', 'MATCH', 'VALUE', 'TEXT', 'EVAL', 'eval(1)', '\t', '\n', ' \n\t x',
]

FORMULAS = [
    '=1', '=1+1', '= 1 + 1 ', '="a"', '="a"&"b"', '=""', '=""&""', '="a""b"', "=\"it's\"", '="back\\slash"&"\\"', '="\\"', '="a\nb"', '="a"\n&"b"',
    "=\"'+__import__('os').system('touch %s')+'\"" % SENTINEL, '="{0}"&"%s"', '=TRUE', '=FALSE()', '=TRUE()&"x"', '=IF(TRUE;"y";"n")',
    '=1.5e3', '=1e-2*100', '=007', '=1.', '=.5', '=12abc', '="unterminated', '=A1&"x"', "='Sh eet'!A1", '=SUM(A1:A3)', '=SUM(A:A)', '=SUM(A1:C3)',
    '=COUNTIFS(A1:A5;"a*")', '=COUNTIFS(A1:A5;"~*")', '=COUNTIFS(A1:A5;"?")', '=COUNTIFS(A1:A5;">=2")', '=COUNTIFS(A1:A5;"<>")', '=SUMIF(A1:A5;">1";B1:B5)',
    '=LEFT("eval(1)";4)', '=MID("abcdef";2;3)', '=SEARCH("c*e";"abcdef")', '=SEARCH("~?";"what?")', '=IFERROR(1/0;"err")', '=eval(1)', '=foo', '=1 2',
    '=(1+2)*3', '=((1))', '=-1', '=+1', '=1%', '=50%*2', '=1<>2', '=1>=2', '=1<=2', '=1=1', '="a"="A"', '=1;2', '=1,2', '=', '==', '=)', '=(',
    '=ROUND(1.2345;2)', '=ROUNDUP(1.2345;2)', '=ROUNDDOWN(1.2345;2)', '=MAX(1;2;3)', '=MIN(1;"2")', '=AND(TRUE;FALSE)', '=OR(TRUE();FALSE())',
    '=CONCATENATE("a";"*";"?")', '=DATE(2020;1;31)', '=VALUE("1,5")', '=TEXT(1;"0")', '=IFS(1>2;"a";TRUE;"b")', '=MATCH("b*";A1:A5;0)', '=XMATCH("?";A1:A5;2)',
    '=VLOOKUP("a*";A1:B5;2;0)', '=INDEX(A1:B5;2;2)', '=AVERAGE(1;2)', '=COUNT(A1:A5)', '=COUNTBLANK(A1:A9)', '=1e', '=1e+3', '=9999999999999999999999',
]


def digest(text: str) -> str:
    return hashlib.sha256(text.encode('utf-8')).hexdigest()[:16] + f'/{len(text)}'


def exc(e: BaseException) -> str:
    return f'{e.__class__.__name__} {str(e)!r}'[:300]


def show_token(token) -> str:
    if token is None:
        return 'None'
    extra = ''
    if isinstance(token, CellIdentifierToken):
        extra = f' cell={token.cell}'
    elif isinstance(token, CellIdentifierRangeToken):
        extra = f' range={token.range}'
    elif isinstance(token, MatrixOfCellIdentifiersToken):
        extra = f' matrix={token.matrix}'
    return f'{token.__class__.__name__}[{type(token.value).__name__}]{token.value!r}{extra}'


def main():
    in_cell = Cell(0, 0, 0)
    classes = [c for c in Lexer.TOKENS if issubclass(c, RegexpBaseToken)]
    print('== token classes', len(classes), digest(repr([c.__name__ for c in Lexer.TOKENS])))
    print('== every class x every expression (only hits are listed, misses are counted)')
    for expression in EXPRESSIONS:
        hits, misses, miss_ok = [], 0, True
        for token_class in classes:
            try:
                token, rest = token_class.get(expression, in_cell)
            except Exception as e:  # noqa
                hits.append(f'{token_class.__name__}: EXC {exc(e)}')
                continue
            if token is None:
                misses += 1
                miss_ok = miss_ok and rest == expression
            else:
                hits.append(f'{show_token(token)} rest={rest!r} in_cell_same={token.in_cell is in_cell}')
        print(repr(expression)[:80], '| misses', misses, miss_ok)
        for hit in hits:
            print('   ', hit)

    print('== literal groups straight into the constructor')
    for groups in [('""', '', '', '', '', '', '', '', '', '', '', ''), ('"x"', 'x', '', '', '', '', '', '', '', '', '', ''),
                   ('1.5', '', '1', '.5', '.', '5', '', '', '', '', '', ''), ('2', '', '2', '', '', '', '', '', '', '', '', ''),
                   ('2e3', '', '2', '', '', '', 'e3', '3', '', '', '', ''), ('TRUE', '', '', '', '', '', '', '', 'TRUE', '', '', ''),
                   ('FALSE()', '', '', '', '', '', '', '', '', '', 'FALSE()', '()'), ('', '', '', '', '', '', '', '', '', '', '', ''),
                   ('""', '', ''), ('"x"', 'x', ''), ('5', '', '5'), ('5', '', '5', '', '', ''), ('q', '', ''), ('q',), ()]:
        try:
            print(groups, '->', repr(LiteralToken(groups, in_cell).value))
        except Exception as e:  # noqa
            print(groups, '-> EXC', exc(e))

    print('== Lexer.parse')
    for formula in FORMULAS:
        try:
            tokens = Lexer.parse(formula, in_cell=in_cell)
            print(repr(formula)[:90], '->', ' '.join(show_token(t) for t in tokens))
        except Exception as e:  # noqa
            print(repr(formula)[:90], '-> EXC', exc(e))

    directory = tempfile.mkdtemp(prefix='t47r4_')
    try:
        print('== workbook')
        wb = Workbook()
        ws = wb.active
        ws.title = 'Sh eet'
        for i, value in enumerate(['apple', 'a*', '?', 'what?', 3, 'banana', '~', 'eval(1)', None, 'x'], start=1):
            ws.cell(row=i, column=1, value=value)
            ws.cell(row=i, column=2, value=i)
        usable = []
        for i, formula in enumerate(FORMULAS, start=1):
            ws.cell(row=i, column=4, value=formula)
        path = os.path.join(directory, 'book.xlsx')
        wb.save(path)
        wb.close()

        # one translation per formula cell (an invalid formula must not hide the others)
        for i, formula in enumerate(FORMULAS, start=1):
            out_py = os.path.join(directory, f'f{i}.py')
            entry = Cell('Sh eet', 'D', str(i))
            try:
                parser = Parser().set_excel_file_path(path).disable_safety_check().set_entrypoint_cell(entry)
                translation = parser.get_translation()
                parser.write_translation(out_py)
                functions = translation[translation.rindex('#VALUE!'):]
            except Exception as e:  # noqa
                print(i, repr(formula)[:70], 'TRANSLATE EXC', exc(e))
                continue
            try:
                value = Executor().set_executed_class(class_file=out_py).get_cell(Cell('Sh eet', 'D', str(i))).value
                shown = f'{type(value).__name__}:{value!r}'
            except Exception as e:  # noqa
                shown = 'EVAL EXC ' + exc(e)
            if 'TODAY' in formula:
                shown = 'skipped (time dependent)'
            print(i, repr(formula)[:70], digest(functions), shown[:200])
            usable.append(i)
        print('usable', len(usable), 'of', len(FORMULAS))
    finally:
        shutil.rmtree(directory, ignore_errors=True)
    print('sentinel created', os.path.exists(SENTINEL))
    print('tmp removed', not os.path.exists(directory))


if __name__ == '__main__':
    main()
