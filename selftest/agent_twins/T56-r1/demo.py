"""Equivalence demo for r1: SUMIFS / COUNTIFS / AVERAGEIFS runtime helpers (both copies).

Run as: PYTHONPATH=<tree> /venv/bin/python demo.py
Prints a deterministic digest; must be identical on the unchanged and on the refactored tree.
"""
import datetime
import hashlib
import os
import random
import re
import shutil
import sys
import tempfile

from openpyxl import Workbook

from excel2pycl import Parser, Executor, Cell
from excel2pycl.src.utilities.abstract_excel_in_python_class import AbstractExcelInPython

LINES = []


def out(*parts):
    LINES.append(' '.join(str(p) for p in parts))


def show(value):
    if isinstance(value, AbstractExcelInPython.EmptyCell) or type(value).__name__ == 'EmptyCell':
        return 'EmptyCell'
    if isinstance(value, float):
        return 'float:' + repr(value)
    if isinstance(value, bool):
        return 'bool:' + repr(value)
    if isinstance(value, (list, tuple)):
        return type(value).__name__ + '[' + ', '.join(show(v) for v in value) + ']'
    return type(value).__name__ + ':' + repr(value)


def attempt(function, *args):
    try:
        return 'value ' + show(function(*args))
    except BaseException as error:  # digest the class and the text of whatever is raised
        return 'raised ' + type(error).__name__ + ' ' + str(error)


# ---------------------------------------------------------------------------------------------
# part 1: a workbook translated end to end (template copy through the written file and the class)
# ---------------------------------------------------------------------------------------------
def build_workbook(path):
    wb = Workbook()
    ws = wb.active
    ws.title = 'Data'
    rows = [
        # A      B         C      D       E
        (1,     'apple',   10,    True,   'x'),
        (2,     'Apple',   20.5,  False,  'y'),
        (3,     'banana',  None,  True,   'x'),
        (4,     'apricot', 40,    None,   ''),
        (5,     'cherry',  50,    True,   'X'),
        (6,     'a?c',     60,    False,  'y'),
        (7,     'a*',      70,    True,   None),
        (8,     '~tilde',  80,    True,   'x'),
        (None,  'abc',     90,    False,  'x'),
        (10,    None,      100,   True,   'y'),
    ]
    for r in rows:
        ws.append(list(r))
    ws['G1'] = '>3'
    ws['G2'] = 3
    ws['G3'] = 'app'
    formulas = [
        '=SUMIFS(C1:C10,A1:A10,">3")',
        '=SUMIFS(C1:C10,A1:A10,">3",E1:E10,"x")',
        '=SUMIFS(C1:C10,A1:A10,">=2",A1:A10,"<8",E1:E10,"<>y")',
        '=SUMIFS(C1:C10,B1:B10,"a*")',
        '=SUMIFS(C1:C10,B1:B10,"a~*")',
        '=SUMIFS(C1:C10,B1:B10,"a?c")',
        '=SUMIFS(C1:C10,B1:B10,"a~?c")',
        '=SUMIFS(C1:C10,B1:B10,"apple")',
        '=SUMIFS(C1:C10,A1:A10,G1)',
        '=SUMIFS(C1:C10,A1:A10,">"&G2)',
        '=SUMIFS(C1:C10,A1:A10,"="&G2)',
        '=SUMIFS(C1:C10,A1:A10,"=3")',
        '=SUMIFS(C1:C10,A1:A10,3)',
        '=SUMIFS(C1:C10,B1:B10,G3&"*")',
        '=SUMIFS(D1:D10,A1:A10,">0")',
        '=SUMIFS(C1:C10,D1:D10,TRUE)',
        '=SUMIFS(C1:C10,A1:A5,">3")',
        '=SUMIFS(C1:C5,A1:A10,">3")',
        '=SUMIFS(C1:C10,A1:A10,">3",E1:E9,"x")',
        '=SUMIFS(A1:B5,C1:D5,">15")',
        '=SUMIFS(A1:B5,C1:C10,">15")',
        '=COUNTIFS(A1:A10,">3")',
        '=COUNTIFS(A1:A10,">3",E1:E10,"x")',
        '=COUNTIFS(B1:B10,"a*",A1:A10,"<5")',
        '=COUNTIFS(B1:B10,"*")',
        '=COUNTIFS(B1:B10,"?????")',
        '=COUNTIFS(A1:A10,">3",E1:E9,"x")',
        '=COUNTIFS(A1:A10,0)',
        '=COUNTIFS(E1:E10,"x",D1:D10,TRUE)',
        '=COUNTIFS(A1:A10,"<>"&G2)',
        '=AVERAGEIFS(C1:C10,A1:A10,">3")',
        '=AVERAGEIFS(A1:A8,B1:B8,"a*",E1:E8,"x")',
        '=AVERAGEIFS(A1:A8,B1:B8,"zzz")',
        '=AVERAGEIFS(A1:A8,C1:C8,">15")',
        '=AVERAGEIFS(A1:A8,C1:C7,">15")',
        '=AVERAGEIFS(A1:A10,C1:C10,">15")',
        '=AVERAGEIFS(B1:B8,A1:A8,">1")',
        '=AVERAGEIFS(D1:D2,A1:A2,">0")',
        '=SUMIF(A1:A10,">3",C1:C10)',
        '=SUMIF(A1:A10,">3",C1:C4)',
        '=SUMIF(B1:B10,"a*",A1:A10)',
        '=SUMIF(A1:A10,">3")',
        '=IFERROR(SUMIFS(C1:C10,A1:A5,">3"),"caught")',
    ]
    for index, formula in enumerate(formulas):
        ws.cell(row=index + 1, column=9, value=formula)  # column I
    other = wb.create_sheet('Other sheet')
    for index in range(6):
        other.append([index, 'k' if index % 2 else 'K', index * 1.5])
    other['E1'] = "=SUMIFS(C1:C6,B1:B6,\"k\",A1:A6,\">1\")"
    other['E2'] = "=COUNTIFS(Data!A1:A10,\">3\")"
    other['E3'] = "=SUMIFS(Data!C1:C10,Data!A1:A10,\">\"&A3)"
    wb.save(path)
    return len(formulas)


def cell_functions(text):
    """Only the members generated for cells (the runtime helper text is what the refactoring rewrites)."""
    return re.findall(r'^    def (_\d+_\w+)\(self\):\n        return (.*)$', text, re.M)


def part_workbook(tmp):
    xlsx = os.path.join(tmp, 'book.xlsx')
    out_py = os.path.join(tmp, 'translated.py')
    count = build_workbook(xlsx)
    parser = Parser().set_excel_file_path(xlsx)
    parser.write_translation(out_py)
    text = parser.get_translation()
    compile(text, 'translated', 'exec')
    for name, code in cell_functions(text):
        out('member', name, code)

    namespace = {}
    exec(compile(text, 'translated_object', 'exec'), namespace)
    from_file = Executor().set_executed_class(class_file=out_py)
    from_object = Executor().set_executed_class(class_object=namespace['ExcelInPython'])
    out('titles', from_file.get_executed_class().get_titles(), from_file.get_executed_class().get_sheets_size())

    def read(executor, sheet, column, row):
        def get():
            return executor.get_cell(Cell(sheet, column, row)).value
        return attempt(get)

    for row in range(count):
        a, b = read(from_file, 0, 8, row), read(from_object, 0, 8, row)
        out('Data!I%d' % (row + 1), a, '| same from class object:', a == b)
    for row in range(3):
        a, b = read(from_file, 1, 4, row), read(from_object, 1, 4, row)
        out('Other!E%d' % (row + 1), a, '| same from class object:', a == b)

    # overrides: None, texts, bools and dates put into criteria ranges and targets
    overrides = [
        [Cell(0, 0, 3, value=None)],
        [Cell(0, 2, 4, value=None), Cell(0, 2, 5, value=True)],
        [Cell(0, 0, 4, value='5'), Cell(0, 0, 5, value='text')],
        [Cell(0, 6, 1, value=7)],
        [Cell(0, 6, 0, value='<=2')],
        [Cell(0, 6, 0, value='<>')],
        [Cell(0, 6, 2, value='~')],
        [Cell(0, 0, 6, value=datetime.datetime(2024, 1, 1)), Cell(0, 6, 1, value=datetime.datetime(2023, 1, 1))],
        [Cell(0, 2, 0, value='#N/A')],
        [Cell(0, 2, 6, value='12')],
    ]
    for number, cells in enumerate(overrides):
        executor = Executor().set_executed_class(class_file=out_py).set_cells(cells)
        for row in range(count):
            out('override', number, 'Data!I%d' % (row + 1), read(executor, 0, 8, row))
        for row in range(3):
            out('override', number, 'Other!E%d' % (row + 1), read(executor, 1, 4, row))
    return namespace['ExcelInPython']


# ---------------------------------------------------------------------------------------------
# part 2: the helpers called directly, on both copies, with recorded criterion calls
# ---------------------------------------------------------------------------------------------
class Direct(AbstractExcelInPython):
    pass


def make_values(rng, size, instance, numeric_only=False):
    if numeric_only:
        pool = [0, 1, 2, 3, 5, 8, -1, 2.5, 0.0, 1e3, True, False, '7', instance.EmptyCell()]
        return [rng.choice(pool) for _ in range(size)]
    pool = [0, 1, 2, 3, 5, 8, -1, 2.5, 0.0, 1e3, True, False, 'a', 'A', '', '7', 'text', None,
            instance.EmptyCell(), datetime.datetime(2024, 5, 6), '#N/A']
    return [rng.choice(pool) for _ in range(size)]


def shape(rng, values):
    """Flat list, column matrix, row matrix or ragged nesting of the same cells."""
    kind = rng.randrange(4)
    if kind == 0:
        return list(values)
    if kind == 1:
        return [[v] for v in values]
    if kind == 2:
        return [list(values)]
    cut = rng.randrange(len(values) + 1)
    return [list(values[:cut]), [list(values[cut:])]]


def make_criterion(kind, log, tag):
    def criterion(x):
        log.append(tag + ':' + show(x))
        if kind == 'gt2':
            return x > 2            # TypeError on texts, None, dates
        if kind == 'truthy':
            return x                # not a bool on purpose
        if kind == 'eq0':
            return x == 0
        if kind == 'text':
            return str(x).lower() == 'a'
        if kind == 'never':
            return False
        if kind == 'always':
            return 1
        if kind == 'boom_on_5':
            if x == 5:
                raise KeyError('five')
            return True
        if kind == 'is_int':
            return type(x) is int
        raise AssertionError(kind)
    return criterion


KINDS = ['gt2', 'truthy', 'eq0', 'text', 'never', 'always', 'boom_on_5', 'is_int']


def part_direct(generated_class):
    copies = [('class', Direct()), ('template', generated_class())]
    for copy_name, instance in copies:
        rng = random.Random(20240607)
        for case in range(400):
            size = rng.choice([0, 1, 1, 2, 3, 4, 6, 9])
            target = make_values(rng, size, instance, numeric_only=rng.random() < 0.6)
            pairs = rng.choice([0, 1, 1, 2, 2, 3])
            log = []
            args = []
            for p in range(pairs):
                mismatch = rng.random() < 0.12
                r_size = max(0, size + rng.choice([-1, 1, 2])) if mismatch else size
                args.append(shape(rng, make_values(rng, r_size, instance)))
                args.append(make_criterion(rng.choice(KINDS), log, 'c%d' % p))
            if rng.random() < 0.1:
                # a range without its criterion at the end
                args.append(shape(rng, make_values(rng, size, instance)))
            if rng.random() < 0.05 and args:
                # something that is not a range where a range is expected
                args[0] = rng.choice([5, 'abc', None])
            shaped = shape(rng, target) if size else rng.choice([[], [[]], [[], []]])
            before = show(shaped)

            def count_condition(x, log=log):
                log.append('cc:' + show(x))
                return x != 0 if not isinstance(x, str) else x != ''

            results = [
                'sumifs ' + attempt(instance._sumifs, shaped, *args),
            ]
            log_sum = list(log)
            del log[:]
            results.append('countifs ' + attempt(instance._countifs, shaped, count_condition, *args))
            log_count = list(log)
            del log[:]
            results.append('averageifs ' + attempt(instance._averageifs, shaped, *args))
            log_avg = list(log)
            del log[:]
            untouched = before == show(shaped)
            digest = hashlib.sha256('|'.join(log_sum + ['#'] + log_count + ['#'] + log_avg).encode()).hexdigest()[:16]
            out(copy_name, case, 'n=%d pairs=%d' % (size, pairs), '; '.join(results),
                'calls=%d/%d/%d %s' % (len(log_sum), len(log_count), len(log_avg), digest),
                'argument untouched:', untouched)

    # hand-written boundary cases, with the whole call log printed
    for copy_name, instance in copies:
        e = instance.EmptyCell()
        cases = [
            ('no pairs', [[1], [2], [True], ['x'], [None]], []),
            ('empty target', [], []),
            ('none in target', [[None], [4], [None]], [[[1], [1], [1]], 'always']),
            ('all rejected', [[1], [2]], [[[1], [2]], 'never']),
            ('bools', [[True], [False], [3]], [[[True], [False], [e]], 'eq0']),
            ('empty cells', [[e], [2], [e]], [[[e], [e], [5]], 'eq0']),
            ('second pair too short', [[1], [2], [3]], [[[1], [2], [3]], 'always', [[1], [2]], 'never']),
            ('first pair too long', [[1], [2]], [[[1], [2], [3]], 'always', [[1], [2]], 'never']),
            ('raise in second pair', [[1], [2], [3]], [[[0], [0], [0]], 'never', [[1], [5], [3]], 'boom_on_5']),
            ('type error after rejection', [[1], [2], [3]], [[[0], [0], [0]], 'never', [[9], ['t'], [3]], 'gt2']),
            ('dangling range', [[1], [2]], [[[1], [2]], 'always', [[3], [4]]]),
            ('only dangling range', [[1], [2]], [[[3], [4]]]),
            ('criterion in range place', [[1], [2]], ['always']),
            ('text as range', [[1], [2]], ['ab', 'always']),
            ('text target', 'ab', [['a', 'b'], 'always']),
            ('dates', [[datetime.datetime(2020, 1, 1)], [2]], [[[1], [1]], 'always']),
            ('floats', [[0.1], [0.2], [0.3]], [[[3], [3], [1]], 'gt2']),
        ]
        for title, target, spec in cases:
            for helper in ('_sumifs', '_countifs', '_averageifs'):
                log = []
                args = [make_criterion(a, log, 'c%d' % i) if isinstance(a, str) and a in KINDS else a
                        for i, a in enumerate(spec)]
                if title == 'criterion in range place':
                    args = [make_criterion('always', log, 'c0')]
                if title == 'text as range':
                    args = ['ab', make_criterion('always', log, 'c1')]
                extra = [lambda x, log=log: (log.append('cc:' + show(x)), x != 0)[1]] if helper == '_countifs' else []
                result = attempt(getattr(instance, helper), target, *(extra + args))
                out(copy_name, title, helper, result, 'log', ','.join(log))


def main():
    tmp = tempfile.mkdtemp(prefix='t56_r1_')
    try:
        generated_class = part_workbook(tmp)
        part_direct(generated_class)
    finally:
        shutil.rmtree(tmp, ignore_errors=True)
    body = '\n'.join(LINES)
    print(body)
    print('lines', len(LINES), 'sha256', hashlib.sha256(body.encode()).hexdigest())


if __name__ == '__main__':
    main()
    sys.exit(0)
