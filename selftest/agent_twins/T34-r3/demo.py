"""Equivalence demo for r3: Parser facade (_translate change tracking)."""
import hashlib
import os
import shutil
import sys
import tempfile
import threading

from openpyxl import Workbook

from excel2pycl import Parser, Executor, Cell

OUT = []


def emit(*parts):
    OUT.append(' | '.join(str(p) for p in parts))


def digest(text):
    if text is None:
        return 'None'
    return f'{len(text)}:{hashlib.sha256(text.encode("utf-8")).hexdigest()[:20]}'


def flags(parser):
    return (parser._excel_file_path_has_been_changed, parser._entrypoint_cell_has_been_changed,
            parser._safety_check_has_been_changed, parser._safety_check, digest(parser._translation))


def functions_of(text):
    tail = text[text.rfind("return '#VALUE!'"):]
    return [line.strip() for line in tail.splitlines() if line.startswith('    def _')]


def save(path, sheets):
    wb = Workbook()
    first = True
    for title, cells in sheets.items():
        ws = wb.active if first else wb.create_sheet(title)
        ws.title = title
        first = False
        for ref, value in cells.items():
            ws[ref] = value
    wb.save(path)
    wb.close()


BOOK_A = {'main': {'A1': 1, 'A2': 2, 'A3': '=A1+A2', 'B1': '=SUM(A1:A3)', 'B2': '=IF(A3>2,"y","n")', 'C1': '=B1*2',
                   'C3': '=other!A1+C1'},
          'other': {'A1': 7, 'A2': '=main!A3+A1', 'B5': 'far'}}
BOOK_B = {'main': {'A1': 10, 'A2': 20, 'A3': '=A1*A2', 'B1': '=MAX(A1:A3)', 'D4': '=LEFT("hello",2)'},
          'zeta': {'A1': '=main!B1'}}
BOOK_UNSAFE = {'main': {'A1': 1, 'A2': '=A1+1', 'B1': 'os.system("ls")', 'B2': '=A2+1', 'C1': 'eval(x)'}}
BOOK_BROKEN = {'main': {'A1': 1, 'A2': '=A1+', 'A3': '=A1+1'}}
BOOK_CYCLE = {'main': {'A1': '=A2+1', 'A2': '=A1+1', 'A3': 5, 'A4': '=A3+1'}}
BOOK_EMPTY = {'main': {}}


def step(label, parser, action):
    try:
        result = action()
        if isinstance(result, str):
            shown = digest(result)
        elif isinstance(result, Parser):
            shown = f'Parser(same={result is parser})'
        else:
            shown = repr(result)
        emit(label, 'OK', shown, flags(parser))
        return result
    except BaseException as e:  # noqa
        emit(label, 'EXC', type(e).__name__, flags(parser))
        return None


def main():
    tmp = tempfile.mkdtemp(prefix='r3demo')
    sys.setrecursionlimit(1000)
    try:
        paths = {}
        for name, book in (('a', BOOK_A), ('b', BOOK_B), ('unsafe', BOOK_UNSAFE), ('broken', BOOK_BROKEN),
                           ('cycle', BOOK_CYCLE), ('empty', BOOK_EMPTY)):
            paths[name] = os.path.join(tmp, f'{name}.xlsx')
            save(paths[name], book)
        out = os.path.join(tmp, 'out.py')

        # 1. nothing set
        p = Parser()
        emit('fresh', flags(p))
        step('no-path get', p, p.get_translation)
        step('no-path write', p, lambda: p.write_translation(out))
        emit('no-path file written', os.path.exists(out))
        step('empty-path set', p, lambda: p.set_excel_file_path(''))
        step('empty-path get', p, p.get_translation)
        step('none-path set', p, lambda: p.set_excel_file_path(None))
        step('none-path get', p, p.get_translation)
        step('missing-file set', p, lambda: p.set_excel_file_path(os.path.join(tmp, 'missing.xlsx')))
        step('missing-file get', p, p.get_translation)
        step('missing-file get again', p, p.get_translation)

        # 2. the same parser walked through changes of every setting
        step('a set', p, lambda: p.set_excel_file_path(paths['a']))
        t1 = step('a get', p, p.get_translation)
        t2 = step('a get again', p, p.get_translation)
        emit('identical object on repeat', t1 is t2, t1 == t2)
        emit('a functions', functions_of(t1))
        step('a write', p, lambda: p.write_translation(out))
        emit('written equals returned', open(out, encoding='utf-8').read() == t1)
        step('a set same path again', p, lambda: p.set_excel_file_path(paths['a']))
        t3 = step('a get after same path', p, p.get_translation)
        emit('retranslated: new object, equal text', t3 is t1, t3 == t1)

        step('entry C1', p, lambda: p.set_entrypoint_cell(Cell('main', 'C', '1')))
        t4 = step('entry C1 get', p, p.get_translation)
        emit('entry C1 functions', functions_of(t4))
        step('entry other!A2', p, lambda: p.set_entrypoint_cell(Cell(1, 0, 1)))
        t5 = step('entry other!A2 get', p, p.get_translation)
        emit('entry other!A2 functions', functions_of(t5))
        step('entry blank', p, lambda: p.set_entrypoint_cell(Cell(0, 9, 9)))
        emit('entry blank functions', functions_of(step('entry blank get', p, p.get_translation)))
        step('entry bad title', p, lambda: p.set_entrypoint_cell(Cell('nope', 'A', '1')))
        step('entry bad title get', p, p.get_translation)
        step('entry bad title get again', p, p.get_translation)
        step('entry no row', p, lambda: p.set_entrypoint_cell(Cell(0, 0)))
        step('entry no row get', p, p.get_translation)
        step('entry none', p, lambda: p.set_entrypoint_cell(None))
        t6 = step('entry none get', p, p.get_translation)
        emit('whole file again equals first', t6 == t1)

        step('b set', p, lambda: p.set_excel_file_path(paths['b']))
        t7 = step('b write', p, lambda: p.write_translation(out)) and p.get_translation()
        emit('b functions', functions_of(t7), open(out, encoding='utf-8').read() == t7)
        step('disable safety', p, p.disable_safety_check)
        t8 = step('b get unsafe-mode', p, p.get_translation)
        emit('b same text, new object', t8 == t7, t8 is t7)
        step('enable safety', p, p.enable_safety_check)
        step('b get safe-mode', p, p.get_translation)

        # 3. failures keep the old text and stay pending; the next change is honoured
        step('unsafe set', p, lambda: p.set_excel_file_path(paths['unsafe']))
        step('unsafe get', p, p.get_translation)
        step('unsafe get again', p, p.get_translation)
        os.remove(out)
        step('unsafe write', p, lambda: p.write_translation(out))
        emit('unsafe file written', os.path.exists(out))
        step('unsafe disable', p, p.disable_safety_check)
        t9 = step('unsafe get unchecked', p, p.get_translation)
        emit('unsafe functions', functions_of(t9))
        step('unsafe enable', p, p.enable_safety_check)
        step('unsafe get checked', p, p.get_translation)
        emit('old text kept after failure', p._translation == t9)
        step('broken set', p, lambda: p.set_excel_file_path(paths['broken']))
        step('broken get', p, p.get_translation)
        step('broken entry A3', p, lambda: p.set_entrypoint_cell(Cell(0, 0, 2)))
        step('broken entry A3 get', p, p.disable_safety_check().get_translation)
        step('cycle set', p, lambda: p.set_excel_file_path(paths['cycle']))
        step('cycle entry A3 get', p, p.get_translation)
        step('cycle entry none', p, lambda: p.set_entrypoint_cell(None))
        step('cycle get', p, p.get_translation)
        step('cycle entry A4', p, lambda: p.set_entrypoint_cell(Cell('main', 'A', '4')))
        emit('cycle A4 functions', functions_of(step('cycle entry A4 get', p, p.get_translation)))
        step('empty set', p, lambda: p.set_excel_file_path(paths['empty']).set_entrypoint_cell(None))
        emit('empty functions', functions_of(step('empty get', p, p.get_translation)))
        step('write to bad dir', p, lambda: p.write_translation(os.path.join(tmp, 'no', 'such', 'dir.py')))
        step('get after bad write', p, p.get_translation)

        # 4. the workbook changes on disk: only a set_* call triggers a new translation
        q = Parser().set_excel_file_path(paths['a'])
        before = step('disk get', q, q.get_translation)
        save(paths['a'], BOOK_B)
        after = step('disk get after rewrite', q, q.get_translation)
        emit('disk cached', after is before)
        step('disk re-set path', q, lambda: q.set_excel_file_path(paths['a']))
        after = step('disk get after re-set', q, q.get_translation)
        emit('disk now book b', after == t7, after == before)
        save(paths['a'], BOOK_A)
        step('disk toggle safety only', q, q.enable_safety_check)
        after = step('disk get after toggle', q, q.get_translation)
        emit('disk book a again', after == t1)

        # 5. all combinations of setting changes between two translations
        r = Parser()
        names = ['a', 'b']
        entries = [None, ('main', 'A', '3'), (0, 1, 0)]
        n = 0
        for mask in range(16):
            if mask & 1:
                r.set_excel_file_path(paths[names[(mask >> 1) & 1]])
            if mask & 4:
                e = entries[mask % 3]
                r.set_entrypoint_cell(Cell(*e) if e else None)
            if mask & 8:
                (r.disable_safety_check if mask % 5 < 2 else r.enable_safety_check)()
            held = r._translation
            text = step(f'combo {mask:04b}', r, r.get_translation)
            emit(f'combo {mask:04b}', 'kept-object', text is held, functions_of(text) if text else None)

        # 6. other processes of translation: threads, fresh parsers, executed values
        results = {}

        def worker(i):
            parser = Parser().set_excel_file_path(paths['a' if i % 2 else 'b'])
            if i % 3 == 0:
                parser.set_entrypoint_cell(Cell('main', 'A', '3'))
            results[i] = [digest(parser.get_translation()) for _ in range(3)]

        threads = [threading.Thread(target=worker, args=(i,)) for i in range(12)]
        [t.start() for t in threads]
        [t.join() for t in threads]
        for i in sorted(results):
            emit('thread', i, results[i])
        final = os.path.join(tmp, 'final.py')
        Parser().set_excel_file_path(paths['a']).write_translation(final)
        ex = Executor().set_executed_class(class_file=final)
        emit('values', [[(type(c.value).__name__, c.value) for c in row] for row in ex.get_sheet('main')])

        # 7. deepest dependency chain translatable from an entry cell (stack depth of the translation path)
        chain = os.path.join(tmp, 'chain.xlsx')
        length = 400
        cells = {'A1': 1}
        for i in range(2, length + 1):
            cells[f'A{i}'] = f'=A{i - 1}+1'
        save(chain, {'main': cells})

        def translates(i, write):
            cp = Parser().set_excel_file_path(chain).set_entrypoint_cell(Cell(0, 0, i - 1))
            try:
                if write:
                    cp.write_translation(out)
                    return flags(cp)
                return len(functions_of(cp.get_translation()))
            except RecursionError:
                emit('chain too deep', i, write, flags(cp))
                return None

        def deepest(write):
            low, high = 1, length  # translates(low) holds; find the largest i that translates
            if translates(high, write) is not None:
                return high, translates(high, write)
            while high - low > 1:
                middle = (low + high) // 2
                if translates(middle, write) is None:
                    high = middle
                else:
                    low = middle
            return low, translates(low, write), translates(low + 1, write)

        deepest_get = deepest(False)
        deepest_write = deepest(True)
        emit('deepest chain', deepest_get, deepest_write)
    finally:
        shutil.rmtree(tmp, ignore_errors=True)

    text = '\n'.join(OUT)
    print(text)
    print('lines', len(OUT))
    print('sha256', hashlib.sha256(text.encode('utf-8')).hexdigest())


if __name__ == '__main__':
    main()
