"""Equivalence demo for r1 (Parser._translate split into helpers).

Drives the Parser facade through many histories (setting changes, repeated calls,
failures followed by successes, threads, sub-processes with different hash seeds)
and prints a deterministic digest of every observable result.
"""
import hashlib
import os
import shutil
import subprocess
import sys
import tempfile
import threading
import warnings

warnings.filterwarnings('ignore')  # the runtime template triggers a SyntaxWarning that names the tree path

from openpyxl import Workbook  # noqa: E402

from excel2pycl import Parser, Executor, Cell  # noqa: E402


def sha(text):
    if text is None:
        return 'None'
    return hashlib.sha256(text.encode('utf-8')).hexdigest()[:16] + ':' + str(len(text))


def build_main(path):
    wb = Workbook()
    ws = wb.active
    ws.title = 'Data'
    for row, values in enumerate([(1, 2.5, 'x', True), (4, None, '7', False), (-3, 0, '', 10), (8, 9, 'abc', 2)], 1):
        for column, value in enumerate(values, 1):
            ws.cell(row=row, column=column, value=value)
    ws['F1'] = '=SUM(A1:A4)'
    ws['F2'] = '=SUM(A1:D4, 5)'
    ws['F3'] = '=AVERAGE(A1:B4)'
    ws['F4'] = '=MIN(A1:A4, B1:B4)'
    ws['F5'] = '=MAX(A:A)'
    ws['F6'] = '=COUNT(A1:D4)'
    ws['F7'] = '=COUNTBLANK(A1:D4)'
    ws['F8'] = '=IF(AND(A1>0, B1>0), F1+F2, F3)'
    ws['F9'] = "=SUM(Other!A1:B2) + 'Other'!C1"
    ws['F10'] = '=OR(A3>0, D1)'
    other = wb.create_sheet('Other')
    for row, values in enumerate([(10, 20, 30), (40, 'q', None)], 1):
        for column, value in enumerate(values, 1):
            other.cell(row=row, column=column, value=value)
    other['E1'] = '=SUM(A1:C2)*2'
    wb.save(path)


def build_second(path):
    wb = Workbook()
    ws = wb.active
    ws.title = 'S'
    ws['A1'] = 3
    ws['A2'] = 4
    ws['B1'] = '=A1*A2'
    ws['B2'] = '=SUM(A1:A2, B1)'
    wb.save(path)


def build_unsafe(path):
    wb = Workbook()
    ws = wb.active
    ws.title = 'U'
    ws['A1'] = 1
    ws['A2'] = '__import__("os").system("id")'
    ws['A3'] = 'eval(1)'
    ws['B1'] = '=A1+1'
    wb.save(path)


def build_broken(path):
    wb = Workbook()
    ws = wb.active
    ws.title = 'B'
    ws['A1'] = 1
    ws['A2'] = '=SUM(A1'
    ws['A3'] = '=A3+1'
    wb.save(path)


TMP = ['<unset>']


def attempt(label, action):
    try:
        result = action()
    except BaseException as error:  # noqa
        print(label, 'EXC', type(error).__name__, repr(str(error).replace(TMP[0], '<TMP>'))[:300])
        return None
    if isinstance(result, str):
        print(label, 'TEXT', sha(result))
    elif isinstance(result, Parser):
        print(label, 'PARSER')
    else:
        print(label, 'VALUE', repr(result))
    return result


def flags(parser):
    return (parser._excel_file_path_has_been_changed, parser._entrypoint_cell_has_been_changed,
            parser._safety_check_has_been_changed, sha(parser._translation))


def evaluate(py_path, cells):
    executor = Executor().set_executed_class(class_file=py_path)
    return [repr(executor.get_cell(Cell(*cell)).value) for cell in cells]


CHILD = '''
import hashlib, sys
from excel2pycl import Parser, Cell
texts = []
for path in sys.argv[1:]:
    texts.append(Parser().set_excel_file_path(path).get_translation())
    texts.append(Parser().set_excel_file_path(path).set_entrypoint_cell(Cell(0, 5, 1)).disable_safety_check()
                 .get_translation() if path.endswith('main.xlsx') else '')
print(' '.join(hashlib.sha256(t.encode('utf-8')).hexdigest()[:16] for t in texts))
'''


def main():
    tmp = tempfile.mkdtemp(prefix='t49r1_')
    TMP[0] = tmp
    try:
        main_xlsx = os.path.join(tmp, 'main.xlsx')
        second_xlsx = os.path.join(tmp, 'second.xlsx')
        unsafe_xlsx = os.path.join(tmp, 'unsafe.xlsx')
        broken_xlsx = os.path.join(tmp, 'broken.xlsx')
        missing_xlsx = os.path.join(tmp, 'missing.xlsx')
        build_main(main_xlsx)
        build_second(second_xlsx)
        build_unsafe(unsafe_xlsx)
        build_broken(broken_xlsx)

        # 1. nothing set
        parser = Parser()
        print('fresh', flags(parser))
        attempt('no-path get', parser.get_translation)
        attempt('no-path write', lambda: parser.write_translation(os.path.join(tmp, 'never.py')))
        print('never.py exists', os.path.exists(os.path.join(tmp, 'never.py')))
        print('after no-path', flags(parser))
        attempt('empty-path', lambda: parser.set_excel_file_path('').get_translation())
        attempt('missing-file', lambda: parser.set_excel_file_path(missing_xlsx).get_translation())
        print('after missing', flags(parser))

        # 2. normal history on one parser
        first = attempt('main 1', lambda: parser.set_excel_file_path(main_xlsx).get_translation())
        print('after main 1', flags(parser))
        again = attempt('main 2', parser.get_translation)
        print('same object on repeat', first is again, first == again)
        out_py = os.path.join(tmp, 'out.py')
        attempt('write main', lambda: parser.write_translation(out_py))
        with open(out_py, encoding='utf-8') as f:
            print('written equals returned', f.read() == first)
        print('values', evaluate(out_py, [(0, 5, r) for r in range(10)] + [(1, 4, 0)]))

        # entry point changes
        for entry in [Cell(0, 5, 0), Cell(0, 5, 7), Cell('Data', 'F', '9'), Cell('Other', 'E', '1'), Cell(0, 0, 0),
                      Cell(0, 30, 30), Cell('Nope', 'A', '1'), Cell(0, 'F', 1), None, Cell(1, 4, 0)]:
            text = attempt(f'entry {entry}', lambda: parser.set_entrypoint_cell(entry).get_translation())
            print('  flags', flags(parser))
            text2 = attempt('  repeat', parser.get_translation)
            print('  identical', text == text2)

        # safety switch
        attempt('disable', lambda: parser.disable_safety_check().get_translation())
        print('flags', flags(parser))
        attempt('enable', lambda: parser.enable_safety_check().get_translation())
        attempt('unsafe+check', lambda: parser.set_excel_file_path(unsafe_xlsx).get_translation())
        print('flags after safety failure', flags(parser))
        attempt('unsafe+check retry', parser.get_translation)
        attempt('unsafe+check write', lambda: parser.write_translation(os.path.join(tmp, 'unsafe.py')))
        print('unsafe.py exists', os.path.exists(os.path.join(tmp, 'unsafe.py')))
        attempt('unsafe no check', lambda: parser.disable_safety_check().get_translation())
        print('flags', flags(parser))
        attempt('unsafe check again', lambda: parser.enable_safety_check().get_translation())
        print('flags', flags(parser))
        attempt('back to second', lambda: parser.set_excel_file_path(second_xlsx).get_translation())
        print('flags', flags(parser))

        # failing translation keeps the parser dirty and the old text
        attempt('broken', lambda: parser.set_excel_file_path(broken_xlsx).set_entrypoint_cell(None).get_translation())
        print('flags after broken', flags(parser))
        attempt('broken A1 only', lambda: parser.set_entrypoint_cell(Cell(0, 0, 0)).get_translation())
        attempt('broken circular', lambda: parser.set_entrypoint_cell(Cell(0, 0, 2)).get_translation())
        print('flags after circular', flags(parser))
        attempt('recover', lambda: parser.set_excel_file_path(main_xlsx).set_entrypoint_cell(None).get_translation())
        print('flags', flags(parser))

        # the workbook changes on disk: only an explicit set_* makes the parser re-read it
        moving = os.path.join(tmp, 'moving.xlsx')
        shutil.copy(second_xlsx, moving)
        mover = Parser().set_excel_file_path(moving)
        t1 = attempt('moving 1', mover.get_translation)
        shutil.copy(main_xlsx, moving)
        t2 = attempt('moving 2 (no set)', mover.get_translation)
        t3 = attempt('moving 3 (set same path)', lambda: mover.set_excel_file_path(moving).get_translation())
        print('moving', t1 == t2, t2 == t3, t3 == first)
        t4 = attempt('moving 4 (enable again)', lambda: mover.enable_safety_check().get_translation())
        print('moving 4 equal, same object', t4 == t3, t4 is t3)

        # earlier translations in the same process / fresh parsers
        fresh = [Parser().set_excel_file_path(main_xlsx).get_translation() for _ in range(3)]
        print('fresh parsers equal', all(t == first for t in fresh), sha(fresh[0]))
        chain = Parser()
        for path in [second_xlsx, main_xlsx, second_xlsx, main_xlsx]:
            attempt('chain ' + os.path.basename(path), lambda: chain.set_excel_file_path(path).get_translation())

        # threads
        results = {}

        def work(index, path, entry):
            p = Parser().set_excel_file_path(path)
            if entry is not None:
                p.set_entrypoint_cell(entry)
            texts = [p.get_translation() for _ in range(3)]
            results[index] = (sha(texts[0]), texts[0] is texts[1] is texts[2])

        jobs = [(i, [main_xlsx, second_xlsx][i % 2], [None, Cell(0, 1, 1)][(i // 2) % 2]) for i in range(8)]
        threads = [threading.Thread(target=work, args=job) for job in jobs]
        for thread in threads:
            thread.start()
        for thread in threads:
            thread.join()
        for index in sorted(results):
            print('thread', index, results[index])

        # other processes, other hash seeds
        for seed in ['0', '1', '12345', 'random']:
            env = dict(os.environ, PYTHONHASHSEED=seed)
            done = subprocess.run([sys.executable, '-W', 'ignore', '-c', CHILD, main_xlsx, second_xlsx], env=env,
                                  capture_output=True, text=True)
            print('process seed', seed, done.returncode, done.stdout.strip(), 'Traceback' in done.stderr)
        print('parent', sha(first)[:16], sha(Parser().set_excel_file_path(main_xlsx).set_entrypoint_cell(
            Cell(0, 5, 1)).disable_safety_check().get_translation())[:16])
    finally:
        shutil.rmtree(tmp, ignore_errors=True)


if __name__ == '__main__':
    main()
