"""Equivalence demonstration for r1 (LEFT / RIGHT / MID runtime helpers, both copies).

Run as: PYTHONPATH=<tree> /venv/bin/python demo.py
Prints a deterministic digest; identical output is expected on the unchanged and on the refactored tree.
"""
import datetime
import decimal
import fractions
import hashlib
import importlib.util
import os
import shutil
import sys
import tempfile

import openpyxl

from excel2pycl import Parser, Executor, Cell
from excel2pycl.src.utilities.abstract_excel_in_python_class import AbstractExcelInPython


class Runtime(AbstractExcelInPython):
    pass


lines = []


def show(value):
    return f'{type(value).__name__}:{value!r}'


def call(label, function, *args):
    try:
        result = show(function(*args))
    except BaseException as error:  # the class of the exception is part of the behaviour
        result = f'raises {type(error).__name__}'
    lines.append(f'{label} -> {result}')


def probe_helpers(tag, runtime):
    empty = runtime.EmptyCell()
    texts = ['', 'a', 'ab', 'Hello', 'Hello, World', ' spaced  out ', 'ünïcödé✓', 'x' * 40, '12345', '#N/A',
             None, 0, 5, 12345, 1.5, True, False, empty, [], [1, 2, 3], ['a', 'b', 'c', 'd'], (1, 2, 3), (),
             b'bytes', b'', {'k': 1}, datetime.datetime(2024, 1, 2), range(5)]
    counts = [None, -3, -1, 0, 1, 2, 3, 4, 5, 6, 11, 12, 13, 39, 40, 41, 10 ** 6, 10 ** 30, -10 ** 30,
              True, False, empty, 0.0, 1.0, 2.5, -0.5, -2.0, 100.0, float('inf'), float('-inf'), float('nan'),
              decimal.Decimal('2'), decimal.Decimal('-1'), fractions.Fraction(3, 1), '2', '', 'x', [], [1], (2,),
              datetime.datetime(2024, 1, 2)]
    starts = [-5, -1, 0, 1, 2, 3, 5, 6, 12, 13, 40, 41, 10 ** 6, 10 ** 30, True, False, empty, 0.5, 1.0, 2.0, 7.5,
              float('inf'), float('nan'), decimal.Decimal('2'), fractions.Fraction(2, 1), None, '1', 'x', [1]]

    for text in texts:
        for count in counts:
            call(f'{tag} _left({show(text)}, {show(count)})', runtime._left, text, count)
            call(f'{tag} _right({show(text)}, {show(count)})', runtime._right, text, count)
    for text in texts:
        for start in starts:
            for count in counts:
                call(f'{tag} _mid({show(text)}, {show(start)}, {show(count)})', runtime._mid, text, start, count)

    # the substring algebra itself
    for text in ['', 'a', 'Hello', 'Hello, World', 'ünïcödé✓', 'x' * 40]:
        for n in range(0, len(text) + 3):
            left, right = runtime._left(text, n), runtime._right(text, n)
            rebuilt = None
            if n < len(text):
                rebuilt = runtime._excel_value_to_string(left) + runtime._excel_value_to_string(
                    runtime._mid(text, n + 1, len(text)))
            lines.append(f'{tag} algebra {text!r} {n}: {show(left)} {show(right)} rebuilt={rebuilt!r}')


def column_letter(index):
    return openpyxl.utils.get_column_letter(index + 1)


def build_workbook(path):
    workbook = openpyxl.Workbook()
    sheet = workbook.active
    sheet.title = 'Texts'
    texts = ['Hello, World', 'a', 'ab', 'ünïcödé✓', '12345', ' pad ', 'Mississippi', '3,5', '12%', None, 42, 2.5]
    numbers = [-2, -1, 0, 1, 2, 3, 5, 12, 13, 100, None, 1.5]
    for row, text in enumerate(texts, start=1):
        sheet.cell(row=row, column=1, value=text)
    for row, number in enumerate(numbers, start=1):
        sheet.cell(row=row, column=2, value=number)

    formulas = []
    for text_row in range(1, len(texts) + 1):
        formulas.append(f'=LEFT(A{text_row})')
        formulas.append(f'=RIGHT(A{text_row})')
        for number_row in range(1, len(numbers) + 1):
            formulas.append(f'=LEFT(A{text_row},B{number_row})')
            formulas.append(f'=RIGHT(A{text_row},B{number_row})')
            formulas.append(f'=MID(A{text_row},B{number_row},3)')
            formulas.append(f'=MID(A{text_row},2,B{number_row})')
            formulas.append(f'=LEFT(A{text_row},B{number_row})&MID(A{text_row},B{number_row}+1,100)')
    formulas += [
        '=LEFT("Hello",2)&RIGHT("World",3)',
        '=CONCATENATE(LEFT(A1,5),"|",MID(A1,8,5),"|",RIGHT(A1,1))',
        '=CONCATENATE(A10,A11,A12,B1)',
        '=A1&A10&A11&B12',
        '=LEFT(A1,SEARCH(",",A1)-1)',
        '=MID(A7,SEARCH("ss",A7,4),4)',
        '=RIGHT(A1,5)',
        '=SEARCH("s?p",A7)', '=SEARCH("I*I",A7,3)', '=SEARCH("~?",A1)', '=SEARCH("zz",A7)', '=SEARCH("o",A1,6)',
        '=SEARCH("o",A1,100)', '=SEARCH("",A1)',
        '=VALUE(LEFT(A5,3))+VALUE(RIGHT(A5,2))', '=VALUE(MID(A5,2,3))', '=VALUE(A8)', '=VALUE(A9)', '=VALUE(A6)',
        '=VALUE(LEFT(A1,2))', '=VALUE("1 234,5")', '=VALUE("12:30")', '=VALUE("2024-01-02")',
        '=IFERROR(LEFT(A11,1),"err")', '=IFERROR(MID(A1,0,1),"err")', '=IFERROR(RIGHT(A10,2),"err")',
        '=LEFT(RIGHT(MID(A1,2,9),6),3)',
    ]
    # formulas live on the same sheet, from column D on (A and B hold the data)
    positions = []
    for index, formula in enumerate(formulas):
        row, column = divmod(index, 20)
        column += 3
        sheet.cell(row=row + 1, column=column + 1, value=formula)
        positions.append((formula, column, row))
    workbook.save(path)
    workbook.close()
    return positions


def load_generated_class(path, name):
    spec = importlib.util.spec_from_file_location(name, path)
    module = importlib.util.module_from_spec(spec)
    spec.loader.exec_module(module)
    return module.ExcelInPython


def main():
    probe_helpers('class', Runtime())

    directory = tempfile.mkdtemp(prefix='t53_r1_')
    try:
        xlsx = os.path.join(directory, 'texts.xlsx')
        out_py = os.path.join(directory, 'texts_translation.py')
        positions = build_workbook(xlsx)
        Parser().set_excel_file_path(xlsx).write_translation(out_py)

        # the copy of the helpers that lives in the str.format template
        probe_helpers('template', load_generated_class(out_py, 't53_r1_generated')())

        executor = Executor().set_executed_class(class_file=out_py)
        for formula, column, row in positions:
            try:
                result = show(executor.get_cell(Cell('Texts', column_letter(column), str(row + 1))).value)
            except BaseException as error:
                result = f'raises {type(error).__name__}'
            lines.append(f'workbook {formula} -> {result}')

        # overrides flow into the same helpers
        executor.set_cells([Cell('Texts', 'A', '1', value='Override text'), Cell('Texts', 'B', '5', value=4)])
        for formula, column, row in positions[:200]:
            try:
                result = show(executor.get_cell(Cell('Texts', column_letter(column), str(row + 1))).value)
            except BaseException as error:
                result = f'raises {type(error).__name__}'
            lines.append(f'override {formula} -> {result}')
    finally:
        shutil.rmtree(directory, ignore_errors=True)

    text = '\n'.join(lines)
    # a sample of the lines plus a digest of all of them
    for line in lines[::997]:
        print(line)
    print('lines', len(lines))
    print('sha256', hashlib.sha256(text.encode('utf-8')).hexdigest())
    dump = os.environ.get('T53_DUMP')
    if dump:
        with open(dump, 'w', encoding='utf-8') as f:
            f.write(text + '\n')
    return 0


if __name__ == '__main__':
    sys.exit(main())
