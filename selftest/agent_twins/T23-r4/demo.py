"""Equivalence demonstration for r4 (CellTranslator._set_cell_to_context split into an early return and the helpers
_is_formula / _translate_constant / _translate_formula; find('=') == 0 replaced by startswith('=')).

Translates workbooks whose constant cells hold every kind of value (hostile texts with quotes, backslashes, newlines,
braces and Python expressions; texts with '=' in every position; numbers, booleans, dates, times, empty cells) and
whose formulas reference those cells (several times, through ranges and matrices, across sheets), plus broken and
circular formulas.  Whole-file and entry-point translations, safety check on and off, and direct calls of
CellTranslator.translate with a fresh Context.  Prints the sha256 of each complete generated text (the runtime
template is untouched, so the text must be identical), the code stored for each cell, every evaluated value, and
whether any workbook text got executed.
"""
import builtins
import datetime
import hashlib
import os
import shutil
import tempfile

from openpyxl import Workbook

from excel2pycl import Parser, Executor, Cell, Excel, Context, CellTranslator

LINES = []
MARKER = '_t23_r4_marker'


def emit(line):
    LINES.append(line)
    print(line)


def show(value):
    return f'{type(value).__name__}:{value!r}'


def sha(text):
    return hashlib.sha256(text.encode()).hexdigest()


CONSTANTS = [
    'plain', '', ' ', 'a=b', 'a =', ' =1+1', "'=1+1", '!==', 'x\n=1', '\t=2',
    f"' + str(setattr(__import__('builtins'), '{MARKER}', 1)) + '",
    f'" + str(setattr(__import__("builtins"), "{MARKER}", 2)) + "',
    f"\\' + str(setattr(__import__('builtins'), '{MARKER}', 3)) + \\'",
    f"''' + str(setattr(__import__('builtins'), '{MARKER}', 4)) + '''",
    "line1\nline2\n    def evil(self): return 1", '{titles}', '{functions}', '{{}}', '{0}', '%s %d', '\\', '\\\\', '\\n',
    "it's", 'say "hi"', '"""', "'''", 'self.EmptyCell()', 'None', 'True', '#N/A', '#DIV/0!', 'юникод', '🙂', 'x' * 500,
    0, 1, -1, 2 ** 40, 1.5, -0.0, 1e300, 1e-300, True, False,
    datetime.datetime(2024, 2, 29, 13, 14, 15), datetime.datetime(1900, 1, 1), datetime.date(2023, 12, 31),
    datetime.time(23, 59, 58), None,
]


def workbook_constants(path):
    wb = Workbook()
    ws = wb.active
    ws.title = 'Consts'
    for index, value in enumerate(CONSTANTS, start=1):
        ws.cell(row=index, column=1, value=value)
    last = len(CONSTANTS)
    # formulas that use the constants: directly, twice, through a range, through a matrix, from another sheet
    ws['C1'] = '=A1'
    ws['C2'] = '=A11'
    ws['C3'] = '=A12&A13'
    ws['C4'] = '=A36+A37+A36'
    ws['C5'] = f'=COUNTBLANK(A1:A{last})'
    ws['C6'] = '=SUM(A36:A45)'
    ws['C7'] = '=LEFT(A15;5)'
    ws['C8'] = '=IF(A16="{titles}";A17;A18)'
    ws['C9'] = '=C1&C2'
    ws['C10'] = '=VLOOKUP("a=b";A1:A9;1;FALSE)'
    ws['C11'] = '=MATCH(A24;A1:A30;0)'
    ws['C12'] = f'=A{last}'
    ws['C13'] = f'=A{last + 5}'
    ws['C14'] = '=YEAR(A46)'
    ws2 = wb.create_sheet("Other's \"sheet\" {x}")
    ws2['A1'] = '=Consts!A11'
    ws2['A2'] = "=Consts!A14&\"'''\""
    ws2['B1'] = "it's on the other sheet"
    ws2['B2'] = '=B1'
    wb.save(path)


def workbook_literals(path):
    wb = Workbook()
    ws = wb.active
    ws.title = 'Lit'
    literals = [
        "it's", "\\", "\\\\", "{0}", "{titles}", "%s", "'''", "' + str(1) + '", "\\' + str(1) + \\'", "a=b", "=", "==1",
        "__import__('os')", "x y", "", " ", "юникод", "#N/A", "self._arguments", "1+1", "TRUE", "A1",
    ]
    for index, literal in enumerate(literals, start=1):
        ws.cell(row=index, column=1, value=f'="{literal}"')
        ws.cell(row=index, column=2, value=f'=IF(1=1;"{literal}";"no")')
        ws.cell(row=index, column=3, value=f'=A{index}&"|"&"{literal}"')
        ws.cell(row=index, column=4, value=f'=LEFT("{literal}";3)')
    wb.save(path)


def workbook_broken(path, formula):
    wb = Workbook()
    ws = wb.active
    ws['A1'] = 1
    ws['B1'] = formula
    ws['C1'] = 'after'
    wb.save(path)


BROKEN = ['=', '==', '=)', '=A1+', '=UNKNOWN(1)', '=B1', '=C1+D1', '=SUM(A1;', '="unterminated', '=1 2', '=A1:B2', '="x\ny"']


def workbook_cycle(path):
    wb = Workbook()
    ws = wb.active
    ws['A1'] = '=B1+1'
    ws['B1'] = '=C1+1'
    ws['C1'] = '=A1+1'
    ws['D1'] = 5
    ws['E1'] = '=D1*2'
    wb.save(path)


def translate_and_run(path, tmp, label, entry=None, safety=True):
    parser = Parser().set_excel_file_path(path)
    if not safety:
        parser.disable_safety_check()
    if entry is not None:
        parser.set_entrypoint_cell(entry)
    label = f'{label} safety={safety} entry={entry}'
    try:
        text = parser.get_translation()
    except BaseException as error:  # noqa
        emit(f'{label} translation raised {type(error).__name__}: {error}')
        return
    emit(f'{label} translation sha256 {sha(text)} ({len(text)} chars)')
    out_py = os.path.join(tmp, f'generated_{sha(label)[:12]}.py')
    with open(out_py, 'w', encoding='utf-8') as f:
        f.write(text)
    try:
        executor = Executor().set_executed_class(class_file=out_py)
    except BaseException as error:  # noqa
        emit(f'{label} loading raised {type(error).__name__}')
        return
    instance = executor.get_executed_class()
    for title, index in instance.get_titles().items():
        size = instance.get_sheets_size()[index]
        for row in range(size['last_row'] + 6):
            for column in range(size['last_column'] + 1):
                try:
                    value = executor.get_cell(Cell(index, column, row)).value
                except BaseException as error:  # noqa
                    emit(f'{label} {title!r} {column},{row} raised {type(error).__name__}')
                    continue
                if not isinstance(value, instance.EmptyCell):
                    emit(f'{label} {title!r} {column},{row} -> {show(value)}')
    emit(f'{label} marker executed: {hasattr(builtins, MARKER)}')


def direct_translation(path, label, cells):
    """CellTranslator used directly: the code returned for a cell, repeated calls, and the context content"""
    excel = Excel.parse(path)
    context = Context()
    for cell in cells + cells[:5]:
        try:
            emit(f'{label} translate {cell} -> {CellTranslator.translate(cell, excel, context)!r}')
        except BaseException as error:  # noqa
            emit(f'{label} translate {cell} raised {type(error).__name__}: {error}')
    for name, code in context._cell_translations.items():
        emit(f'{label} context cell {name} = {code!r}')
    for name, codes in context._sub_cell_translations.items():
        emit(f'{label} context sub cells {name} = {codes!r}')
    emit(f'{label} cells in progress {context._cells_in_progress!r}')
    emit(f'{label} class sha256 {sha(context.build_class())}')

    context = Context()
    try:
        CellTranslator.translate_file(excel, context)
    except BaseException as error:  # noqa
        emit(f'{label} translate_file raised {type(error).__name__}: {error}')
    emit(f'{label} translate_file class sha256 {sha(context.build_class())}')
    emit(f'{label} translate_file cells in progress {context._cells_in_progress!r}')
    for name, code in context._cell_translations.items():
        emit(f'{label} translate_file cell {name} = {code!r}')


def main():
    tmp = tempfile.mkdtemp(prefix='t23_r4_')
    try:
        constants = os.path.join(tmp, 'constants.xlsx')
        workbook_constants(constants)
        for safety in (True, False):
            translate_and_run(constants, tmp, '[constants]', safety=safety)
        for entry in [Cell('Consts', 'C', '3'), Cell('Consts', 'C', '9'), Cell('Consts', 'A', '11'), Cell(1, 0, 1),
                      Cell('Consts', 'C', '13'), Cell('Consts', 'A', '51'), Cell('Missing', 'A', '1')]:
            translate_and_run(constants, tmp, '[constants]', entry=entry, safety=False)
        direct_translation(constants, '[constants direct]', [Cell(0, 0, row) for row in range(len(CONSTANTS) + 2)] + [
            Cell(0, 2, row) for row in range(16)] + [
            Cell('Consts', 'A', '11'), Cell('Consts', 'C', '3'), Cell(1, 0, 0), Cell(1, 1, 1), Cell(7, 0, 0),
            Cell(0, 50, 50), Cell(0, 0, None)])

        literals = os.path.join(tmp, 'literals.xlsx')
        workbook_literals(literals)
        for safety in (True, False):
            translate_and_run(literals, tmp, '[literals]', safety=safety)
        for row in range(1, 23):
            translate_and_run(literals, tmp, '[literals]', entry=Cell('Lit', 'C', str(row)), safety=False)

        for index, formula in enumerate(BROKEN):
            broken = os.path.join(tmp, f'broken_{index}.xlsx')
            workbook_broken(broken, formula)
            translate_and_run(broken, tmp, f'[broken {formula!r}]', safety=False)
            translate_and_run(broken, tmp, f'[broken {formula!r}]', entry=Cell(0, 2, 0), safety=False)
            translate_and_run(broken, tmp, f'[broken {formula!r}]', entry=Cell(0, 1, 0), safety=False)
            direct_translation(broken, f'[broken {formula!r} direct]',
                               [Cell(0, 0, 0), Cell(0, 1, 0), Cell(0, 2, 0), Cell(0, 1, 0), Cell('Sheet', 'B', '1')])

        cycle = os.path.join(tmp, 'cycle.xlsx')
        workbook_cycle(cycle)
        translate_and_run(cycle, tmp, '[cycle]')
        for column in range(5):
            translate_and_run(cycle, tmp, '[cycle]', entry=Cell(0, column, 0))
    finally:
        shutil.rmtree(tmp, ignore_errors=True)

    print('lines', len(LINES))
    print('digest', sha('\n'.join(LINES)))


if __name__ == '__main__':
    main()
