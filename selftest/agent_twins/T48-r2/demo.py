"""Equivalence demo for r2 (handle_cell address normalisation / Cell.uid).

Calls handle_cell and Cell.uid directly on a large grid of identifiers (valid, boundary and
rejected ones; state of the cell after a rejected call is printed too), then checks on a
translated workbook that numeric and A1-style / sheet-title addressing agree through
get_cell, get_cells, get_sheet and set_cells.  Prints a deterministic digest.
Run: PYTHONPATH=<tree> /venv/bin/python demo.py
"""
import datetime
import hashlib
import itertools
import os
import shutil
import tempfile

from openpyxl import Workbook

from excel2pycl import Parser, Executor, Cell
from excel2pycl.src.handle_cell import handle_cell

LINES = []


def out(*parts):
    LINES.append(' '.join(str(p) for p in parts))


def show(value):
    if isinstance(value, float):
        return 'float:' + repr(value)
    if isinstance(value, datetime.datetime):
        return 'dt:' + value.isoformat()
    return type(value).__name__ + ':' + repr(value)


def state(cell):
    return (show(cell.title), show(cell.column), show(cell.row), show(cell.value), show(cell._handled_identifiers))


def attempt(fn):
    try:
        return 'OK', show(fn())
    except BaseException as exc:  # noqa
        return 'EXC', type(exc).__name__, str(exc)


class Title(str):
    pass


def direct():
    titles = {'Main': 0, 'Other': 1, '': 2, 'Лист': 3, '0': 4, Title('Sub'): 5}
    title_values = ['Main', 'Other', '', 'Лист', '0', 'main', 'Nope', Title('Sub'), Title('Main'), 'Sub',
                    0, 1, 7, -1, None, 1.0, True]
    column_values = ['A', 'a', 'Z', 'AA', 'zz', 'XFD', 'XFE', 'AAAA', '', '1', 'A1', ' A', 0, 3, -2, None, 2.5, True]
    row_values = ['1', '0', '', '10', '-3', ' 7 ', '1.5', 'abc', '1_0', '٣', 0, 5, -1, None, 1.5, False]

    for title, column, row in itertools.product(title_values, column_values, row_values):
        cell = Cell(title, column, row, value='v')
        res_uid_before = attempt(lambda: cell.uid)
        res_handle = attempt(lambda: handle_cell(cell, titles))
        after = state(cell)
        res_uid_after = attempt(lambda: cell.uid)
        res_again = attempt(lambda: handle_cell(cell, titles))
        res_dict = attempt(lambda: sorted(cell.to_dict().items(), key=lambda kv: kv[0]))
        res_hash = attempt(lambda: hash(cell) == hash(Cell(cell.title, cell.column, cell.row, 'v', True)))
        out('H', show(title), show(column), show(row), '|', res_uid_before, res_handle, after, res_uid_after,
            res_again, state(cell), res_dict, res_hash, str(cell), repr(cell))

    # empty / odd title maps
    for titles_map in ({}, {'Main': 0}, {'Main': None}, {'Main': 'zero'}, {'Main': 0.0}):
        for title in ('Main', 'X', 3, None):
            cell = Cell(title, 'B', '2')
            out('T', sorted(titles_map.items()), show(title), attempt(lambda: handle_cell(cell, titles_map)),
                state(cell), attempt(lambda: cell.uid))

    # already handled cells are left untouched whatever they hold
    for title, column, row in (('Main', 'A', '1'), ('Nope', 'XFE', 'abc'), (None, None, None), (0, 0, 0)):
        cell = Cell(title, column, row, _handled_identifiers=True)
        out('P', attempt(lambda: handle_cell(cell, {'Main': 0})), state(cell), attempt(lambda: cell.uid),
            attempt(lambda: sorted(cell.to_dict().items())))
    for flag in (1, 'yes', 0, '', None, [], [0]):
        cell = Cell(0, 'A', '1', _handled_identifiers=flag)
        out('F', show(flag), attempt(lambda: cell.uid), attempt(lambda: handle_cell(cell, {})), state(cell),
            attempt(lambda: cell.uid))

    # uid of unhandled cells: only exact ints are accepted
    class MyInt(int):
        pass

    for column, row in itertools.product([0, 1, -1, True, MyInt(2), 2.0, '2', None, 10 ** 30], repeat=2):
        for title in (0, 'Main', None, 2.5):
            cell = Cell(title, column, row)
            out('U', show(title), show(column), show(row), attempt(lambda: cell.uid))


def build_workbook(path):
    wb = Workbook()
    ws = wb.active
    ws.title = 'Main'
    ws.append([1, 2, 3, '=SUM(A1:C1)', '=D1*2'])
    ws.append([4, 5, 6, '=SUM(A2:C2)', '=IF(D2>10, "big", "small")'])
    ws.append(['x', '', 7.5, '=A1+Other!A1', '=MAX(A1:C2)'])
    ws.append(['=D1+D2+D3', '=MIN(A1:C2)', '=AVERAGE(A1:C2)', '=LEFT(A3, 1)', '=SUM(A:A)'])
    for _ in range(22):
        ws.append([None])
    ws['AB30'] = '=A1+1'
    other = wb.create_sheet('Other')
    other.append([10, '=A1*Main!A1', '=B1+1'])
    other.append(['=SUM(Main!A1:C2)', 20, '=Main!AB30'])
    wb.save(path)


def workbook():
    from openpyxl.utils import get_column_letter
    tmp = tempfile.mkdtemp(prefix='t48r2_')
    try:
        xlsx = os.path.join(tmp, 'book.xlsx')
        py = os.path.join(tmp, 'book.py')
        build_workbook(xlsx)
        text = Parser().set_excel_file_path(xlsx).get_translation()
        out('translation', hashlib.sha256(text.encode()).hexdigest())
        Parser().set_excel_file_path(xlsx).write_translation(py)

        def fresh():
            return Executor().set_executed_class(class_file=py)

        ex = fresh()
        out('titles', sorted(ex._titles.items()), ex._sheets_size)
        for title, index in (('Main', 0), ('Other', 1)):
            grid = ex.get_sheet(title)
            grid_n = fresh().get_sheet(index)
            assert [[show(c.value) for c in r] for r in grid] == [[show(c.value) for c in r] for r in grid_n]
            digest = []
            ex_a1, ex_lower, ex_num = fresh(), fresh(), fresh()
            for r, row in enumerate(grid):
                for c, cell in enumerate(row):
                    a1 = ex_a1.get_cell(Cell(title, get_column_letter(c + 1), str(r + 1)))
                    lower = ex_lower.get_cell(Cell(title, get_column_letter(c + 1).lower(), str(r + 1)))
                    num = ex_num.get_cell(Cell(index, c, r))
                    mixed = ex.get_cells([Cell(title, c, str(r + 1)), Cell(index, get_column_letter(c + 1), r)])
                    values = {show(x.value) for x in [cell, a1, lower, num] + mixed}
                    assert len(values) == 1, (title, r, c, values)
                    assert a1.uid == num.uid == cell.uid == lower.uid
                    digest.append((cell.uid, show(cell.value)))
            out('sheet', title, len(grid), len(grid[0]), hashlib.sha256(repr(digest).encode()).hexdigest()[:16])
            out('sheet-nonempty', title, [d for d in digest if not d[1].startswith('EmptyCell')])

        # overrides through both kinds of addresses hit the same cell
        ex = fresh()
        ex.set_cells([Cell('Main', 'A', '1', value=100)])
        out('ov1', show(ex.get_cell(Cell(0, 3, 0)).value), show(ex.get_cell(Cell('Other', 'C', '2')).value))
        ex.set_cells([Cell(0, 0, 0, value=7), Cell('Other', 'AD', '40', value='far')])
        out('ov2', show(ex.get_cell(Cell('Main', 'D', '1')).value), show(ex.get_cell(Cell(1, 29, 39)).value),
            ex._sheets_size, sorted(ex._cells))
        for bad in (Cell('Nope', 'A', '1'), Cell('Main', 'XFE', '1'), Cell('Main', 'A', 'x'), Cell('Main', 'A', ''),
                    Cell('Main', 'A', None), Cell(0, 'A', 1.5), Cell(0, 1.5, 0), Cell(0, '', '1')):
            out('bad-get', state(bad), attempt(lambda: ex.get_cell(bad).value), state(bad))
            bad2 = Cell(bad.title, bad.column, bad.row, value=1) if not bad._handled_identifiers else bad
            out('bad-set', attempt(lambda: ex.set_cells([bad2]) and None), ex._sheets_size, sorted(ex._cells))
        for entry in (Cell('Main', 'D', '4'), Cell('Other', 'A', '2'), Cell(0, 0, 3), Cell('Nope', 'A', '1'),
                      Cell('Main', 'A', '')):
            out('entrypoint', state(entry), attempt(
                lambda: hashlib.sha256(Parser().set_excel_file_path(xlsx).set_entrypoint_cell(entry)
                                       .get_translation().encode()).hexdigest()), state(entry))
    finally:
        shutil.rmtree(tmp, ignore_errors=True)


def main():
    direct()
    workbook()
    text = '\n'.join(LINES)
    head = LINES[:3] + ['...'] + [l for l in LINES if not l.startswith(('H ', 'U '))]
    print('\n'.join(head))
    print('LINES', len(LINES))
    print('DIGEST', hashlib.sha256(text.encode()).hexdigest())


if __name__ == '__main__':
    main()
