"""Equivalence demo for r1: Lexer.parse / RegexpBaseToken.get.

Lexes many formula texts directly (token streams, rejected inputs), probes every
regexp token class on many fragments, and runs a set of formulas through the whole
Parser/Executor pipeline (whitespace / separator variants, truncated and
over-long argument lists).  Prints one deterministic line per probe.
"""
import hashlib
import os
import shutil
import tempfile

from openpyxl import Workbook

from excel2pycl import Parser, Executor, Cell
from excel2pycl.src.lexer import Lexer
from excel2pycl.src.tokens import RegexpBaseToken
from excel2pycl.src.tokens.undefined_token import UndefinedToken


def show_exc(e):
    return f'EXC {e.__class__.__name__}: {e}'


IN_CELL = Cell(0, 0, 0)

LEXER_INPUTS = [
    '=1', '=1+2', '= 1 + 2', '=1+2 ', ' =1+2', '=\t1\n+\n2', '=1 +\r\n 2', '=1,2', '=1;2', '=1~2',
    '=A1', '=$A$1', '=A$1+$B2', '=Sheet1!A1', "='My Sheet'!A1", "='My Sheet'!$A$1:$B$2", '=A1:A5', '=A1:C1', '=A1:C5',
    '=A:A', '=A:C', '=Sheet2!A:A', '=1:1', '=A1:B', '=AA10:AB12', '=A1B2', '=A1 B2', '=A12:A3', '=A1:A$5', '=$A1:$A5',
    '=LEFT(A1,2)', '=LEFT( A1 ; 2 )', '=left(A1,2)', '=Left(A1,2)', '=LEFT(A1,2', '=LEFT(A1,2))', '=LEFT(A1,,2)',
    '=RIGHT("abc",2)', '=MID("abc",1,2)', '=SEARCH("b","abc")', '=SEARCH("b*","abc",1)', '=SEARCH("~*","a*c")',
    '=VALUE("12")', '=CONCATENATE("a","b",1)', '="a"&"b"', '="a" & B1 & 3', '="a"&', '=&"a"',
    '="unterminated', '="a""b"', '=""', '=" "', '="a;b,c"', '="?"', '="a?"', '="~?"', '="a~?b*"', '="*"', '="~"',
    '=1.5', '=1.5e3', '=1e3', '=1e-3', '=1.', '=.5', '=1.5.2', '=12abc', '=1 2', '=TRUE', '=FALSE', '=TRUE()', '=FALSE()',
    '=TRUEX', '=true', '=10%', '=10%+5', '=10%%', '=-1', '=+1', '=--1', '=1-1', '=1*2/3', '=(1+2)*3', '=((1))', '=(',
    '=)', '=()', '=1<>2', '=1>=2', '=1<=2', '=1=2', '=1>2', '=1<2', '=1><2', '=1=>2', '=1==2', '=<>', '=',
    '', ' ', '1+2', 'LEFT', '=#REF!', '=A1#', '=@A1', '=[1]', '={1,2}', '=1:2', '=A1!B2', '=!A1', "=''!A1",
    '=SUM(A1:A3)', '=SUMIF(A1:A3,">1")', '=SUMIFS(A1:A3,B1:B3,">1")', '=SUMX(1)', '=IFS(1,2)', '=IF(1,2,3)',
    '=IFERROR(1/0,"x")', '=COUNTBLANK(A1:A3)', '=COUNT(A1:A3)', '=COUNTIFS(A1:A3,"a*")', '=AVERAGEIFS(A1:A3,B1:B3,1)',
    '=ROUNDDOWN(1.5,0)', '=ROUNDUP(1.5,0)', '=ROUND(1.5,0)', '=DATEDIF(A1,B1,"D")', '=DATE(2020,1,1)', '=DAY(A1)',
    '=TODAY()', '=TODAY( )', '=TEXT(A1,"0")', '=XMATCH(1,A1:A3)', '=MATCH(1,A1:A3,0)', '=NETWORKDAYS(A1,B1)',
    '=ADDRESS(1,2)', '=COLUMN()', '=INDEX(A1:B2,1,1)', '=VLOOKUP(1,A1:B2,2,FALSE)', '=EOMONTH(A1,1)', '=EDATE(A1,1)',
    '=MIN(1,2)', '=MAX(1,2)', '=AND(1,0)', '=OR(1,0)', '=YEAR(A1)', '=MONTH(A1)', '=AVERAGE(1,2)',
    '=LEFT(A1,2)\n', '=LEFT(A1,2)\n\n', '=LEFT(A1,\n2)', '=LEFT("a\nb",1)', '="a"\n&"b"', '=1+2\n+3', '=1 + 2',
    '= 1', '=1　', '=1+\x1c2', '=﻿1', '=Лист1!A1', "='Лист 1'!A1", '=ЛЕВСИМВ(A1)', '=A1+Ä1', '=LEFT(A1,２)',
    '=1+2 +', '=1+2 )', '=1+2 ;', '=LEFT(A1,2) 3', '=LEFT(A1,2)LEFT(A1,2)', '=LEFTRIGHT', '=IFIF', '=IFSUM(1)',
]

FRAGMENTS = [
    '', ' ', '1', '12', '1.5', '1.5e3', '1e3)', '12abc', '"a"', '"a"&"b"', '""', '"a?"', '"~?"', '"a*b"rest', '"?"""',
    'A1', 'A1:', 'A1:B2', 'A1:A5', 'A1:C1', 'A1:B', 'A:A', 'A:C,1', '$A$1', '$A$1:$A$5', 'A1:A5$', 'A1:A5 +1', 'A1+1',
    'A12', 'A1 2', 'Sheet1!A1', "'My Sheet'!A1:A2", "'a!b'!A1", 'AB', 'A1B2', 'A1:B2:C3', 'A1:B2C', 'A1:B22',
    '(', ')', '(1)', ' ', '  x', '\t', '\n', ';', ',', '~', ';;', '<>', '<>1', '>=', '<=', '=', '==', '>', '<', '+', '-',
    '*', '/', '&', '%', '%%', 'LEFT', 'LEFT(', 'LEFTX', 'RIGHT(', 'MID(', 'SEARCH(', 'VALUE(', 'CONCATENATE(', 'IF(',
    'IFS(', 'IFERROR(', 'SUM(', 'SUMIF(', 'SUMIFS(', 'COUNT(', 'COUNTIFS(', 'COUNTBLANK(', 'ROUND(', 'ROUNDUP(',
    'ROUNDDOWN(', 'DATE(', 'DATEDIF(', 'DAY(', 'TRUE', 'TRUE()', 'FALSE', 'FALSE()x', 'TRUEFALSE', 'left', 'Left(',
    'a\nb', '1\n', '1\n2', '"a\nb"', '"a"\n', 'A1\n', 'LEFT\n(', ' ', 'Ä1', '１', 'XMATCH(', 'MATCH(', 'MAX(', 'MIN(',
]


def lexer_probe():
    for text in LEXER_INPUTS:
        try:
            out = repr(Lexer.parse(text, in_cell=IN_CELL))
        except Exception as e:  # noqa
            out = show_exc(e)
        print(f'LEX {text!r} -> {out}')


def token_probe():
    classes = [c for c in RegexpBaseToken.subclasses() if c is not UndefinedToken]
    print('ORDER', [c.__name__ for c in Lexer.TOKENS])
    digest = hashlib.sha256()
    hits = 0
    for cls in classes:
        for fragment in FRAGMENTS:
            try:
                token, rest = cls.get(fragment, IN_CELL)
                out = f'{token!r} | {type(getattr(token, "value", None)).__name__} | {rest!r}'
            except Exception as e:  # noqa
                out = show_exc(e)
            line = f'TOK {cls.__name__} {fragment!r} -> {out}'
            digest.update(line.encode())
            if not out.startswith('None |'):
                hits += 1
                print(line)
    print('TOK hits', hits, 'digest of all probes', digest.hexdigest())


PIPELINE = [
    '=LEFT(A1,2)', '= LEFT ( A1 , 2 )', '=LEFT(A1;2)', '=LEFT(\n A1 ;\t2 )', '=LEFT(A1)', '=LEFT(A1,)', '=LEFT(A1,2,3)',
    '=LEFT(A1,2', '=LEFT(A1,2))', '=LEFT(A1,2) ', '=LEFT(A1,2)+', '=LEFT(A1 2)', '=LEFT()', '=LEFT',
    '=RIGHT(A1,3)', '=RIGHT(A1;3)', '=RIGHT( A1 )', '=RIGHT(A1,3,1)', '=MID(A1,2,3)', '=MID(A1;2;3)', '=MID(A1,2;3)',
    '=MID(A1,2)', '=MID(A1,2,3,4)', '=SEARCH("l",A1)', '=SEARCH("l";A1;4)', '=SEARCH( "l" , A1 , 4 )', '=SEARCH("l")',
    '=SEARCH("l",A1,4,5)', '=VALUE(B1)', '=VALUE( B1 )', '=VALUE(B1,1)', '=VALUE()', '=CONCATENATE(A1,B1)',
    '=CONCATENATE(A1;B1;C1)', '=CONCATENATE( A1 , " " , B1 )', '=CONCATENATE()', '=CONCATENATE(A1,)', '=A1&B1',
    '=A1 & B1', '=A1&B1&', '=A1&&B1', '=1+2', '=1 + 2', '=1+2 3', '=1+2)', '=(1+2', '=(1+2)*C1', '=( 1 + 2 ) * C1',
    '=IF(C1>1,"y","n")', '=IF(C1>1;"y";"n")', '=IF( C1 > 1 , "y" , "n" )', '=IF(C1>1,"y","n","z")', '=IF(C1>1)',
    '=SUM(C1,C2,3)', '=SUM(C1;C2;3)', '=SUM(C1 C2)', '=SUM(C1,,3)', '=ROUND(C2,1)', '=ROUND(C2)', '=ROUND(C2,1,1)',
    '=C1%', '=C1 %', '=-C1', '=- C1', '=1e2', '=1 e2', '=TRUE', '=TRUE ()', '=FOO(1)', '=A1 B1', '=A1:B1', '=Data!C2',
    "='Data'!C2 + 1", '=Nope!A1', '="x"', '="x', '=', '= ', '=1~2', '=SUM(C1~C2)',
]


def pipeline_probe(tmp):
    xlsx = os.path.join(tmp, 'book.xlsx')
    wb = Workbook()
    ws = wb.active
    ws.title = 'Data'
    ws['A1'], ws['B1'], ws['C1'] = 'Hello world', '12.5', 7
    ws['A2'], ws['B2'], ws['C2'] = 'excel', ' 3 ', 2.25
    for n, formula in enumerate(PIPELINE):
        ws.cell(row=n + 1, column=5).value = formula
    wb.save(xlsx)
    for n, formula in enumerate(PIPELINE):
        out_py = os.path.join(tmp, f'out_{n}.py')
        try:
            parser = Parser().set_excel_file_path(xlsx).disable_safety_check().set_entrypoint_cell(Cell(0, 4, n))
            text = parser.get_translation()
            parser.write_translation(out_py)
            executor = Executor().set_executed_class(class_file=out_py)
            try:
                value = repr(executor.get_cell(Cell('Data', 'E', str(n + 1))).value)
            except Exception as e:  # noqa
                value = show_exc(e)
            out = f'OK sha={hashlib.sha256(text.encode()).hexdigest()[:16]} value={value}'
        except Exception as e:  # noqa
            out = show_exc(e)
        print(f'RUN {formula!r} -> {out}')


def main():
    lexer_probe()
    token_probe()
    tmp = tempfile.mkdtemp(prefix='t45_r1_')
    try:
        pipeline_probe(tmp)
    finally:
        shutil.rmtree(tmp, ignore_errors=True)


if __name__ == '__main__':
    main()
