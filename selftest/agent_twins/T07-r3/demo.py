"""Equivalence demo for r3: the runtime helper _match (class copy and template copy),
also reached through XMATCH and INDEX(MATCH()).

Prints a deterministic digest; must be byte-identical before and after the refactoring.
"""
import warnings
warnings.filterwarnings('ignore')

import datetime
import hashlib
import os
import random
import tempfile

import openpyxl

from excel2pycl import Parser, Executor, Cell
from excel2pycl.src.object_loader import load_module
from excel2pycl.src.utilities.abstract_excel_in_python_class import AbstractExcelInPython

LINES = []


def emit(*parts):
    line = ' | '.join(str(p) for p in parts)
    LINES.append(line)
    print(line)


GROUPS = {}


def tally(*parts):
    """like emit, but the line is only folded into the digest of its group (first two parts)
    and into the overall digest -- the grids below are far too long to print line by line"""
    line = ' | '.join(str(p) for p in parts)
    LINES.append(line)
    group = GROUPS.setdefault((str(parts[0]), str(parts[1])), [hashlib.sha256(), 0, 0])
    group[0].update(line.encode() + b'\n')
    group[1] += 1
    group[2] += 'RAISED' in line


def print_groups():
    for (label, what), (digest, lines, raised) in GROUPS.items():
        emit('GROUP', label, what, f'{lines} results', f'{raised} raised', digest.hexdigest())


def show(value):
    return f'{type(value).__name__}:{value!r}'


def attempt(fn, *args):
    try:
        return show(fn(*args))
    except BaseException as exc:
        return f'RAISED {type(exc).__name__}'


# ---------------------------------------------------------------- workbook part
FORMULAS = [
    '=MATCH(20,B1:B6,0)',
    '=MATCH(25,B1:B6,0)',
    '=MATCH(25,B1:B6,1)',
    '=MATCH(25,B1:B6)',
    '=MATCH(5,B1:B6,1)',
    '=MATCH(1000,B1:B6,1)',
    '=MATCH(60,B1:B6,1)',
    '=MATCH(25,C1:C6,-1)',
    '=MATCH(1000,C1:C6,-1)',
    '=MATCH(1,C1:C6,-1)',
    '=MATCH(40,C1:C6,-1)',
    '=MATCH("pear",A1:A6,0)',
    '=MATCH("PEAR",A1:A6,0)',
    '=MATCH("Fig",A1:A6,0)',
    '=MATCH("kiwi",A1:A6,0)',
    '=MATCH("cherry",A1:A6,1)',
    '=MATCH("zzz",A1:A6,1)',
    '=MATCH("a",A1:A6,1)',
    '=MATCH(E1,B1:B6,0)',
    '=MATCH(E2,A1:A6,0)',
    '=MATCH(E3,B1:B6,0)',
    '=MATCH(E3,B1:B6,1)',
    '=MATCH(20,A1:A6,0)',
    '=MATCH("pear",B1:B6,0)',
    '=MATCH(30,D1:D6,0)',
    '=MATCH(30,D1:D6,1)',
    '=INDEX(A1:A6,MATCH(30,B1:B6,0))',
    '=INDEX(B1:B6,MATCH("fig",A1:A6,0))',
    '=INDEX(C1:C6,MATCH(E1,B1:B6,1))',
    '=INDEX(A1:C6,MATCH(40,B1:B6,0),3)',
    '=INDEX(B1:B6,MATCH("kiwi",A1:A6,0))',
    '=IFERROR(INDEX(B1:B6,MATCH("kiwi",A1:A6,0)),"absent")',
    '=XMATCH(30,B1:B6)',
    '=XMATCH(30,B1:B6,0,1)',
    '=XMATCH(30,B1:B6,0,-1)',
    '=XMATCH(30,D1:D6,0,1)',
    '=XMATCH(30,D1:D6,0,-1)',
    '=XMATCH(35,B1:B6,-1,1)',
    '=XMATCH(35,B1:B6,1,1)',
    '=XMATCH(35,C1:C6,1,-1)',
    '=XMATCH(35,B1:B6,-1,-1)',
    '=XMATCH("pear",A1:A6,0,-1)',
    '=XMATCH("nothing",A1:A6,0,-1)',
    '=MATCH(20,B1:B6,0)+MATCH(30,B1:B6,0)*10',
    '=IF(MATCH(E1,B1:B6,1)>2,"late","early")',
]


def build_workbook(path):
    wb = openpyxl.Workbook()
    ws = wb.active
    ws.title = 'S'
    rows = [
        ('apple', 10, 60, 30),
        ('Cherry', 20, 50, 10),
        ('fig', 30, 40, 30),
        ('Pear', 40, 30, None),
        ('pear', 50, 20, 'x'),
        ('quince', 60, 10, 30),
    ]
    for number, (a, b, c, d) in enumerate(rows, start=1):
        ws[f'A{number}'] = a
        ws[f'B{number}'] = b
        ws[f'C{number}'] = c
        ws[f'D{number}'] = d
    ws['E1'] = 45
    ws['E2'] = 'FIG'
    # E3 stays blank
    for number, formula in enumerate(FORMULAS, start=1):
        ws[f'G{number}'] = formula
    wb.save(path)


def workbook_part(tmp):
    xlsx = os.path.join(tmp, 'book.xlsx')
    out_py = os.path.join(tmp, 'book.py')
    build_workbook(xlsx)
    Parser().set_excel_file_path(xlsx).write_translation(out_py)
    overrides = [
        [],
        [('E', '1', 10), ('E', '2', 'pear')],
        [('E', '1', 9.5), ('E', '2', 'Quince'), ('E', '3', 0)],
        [('E', '1', 60.0), ('B', '3', 30.0), ('A', '3', 'FIG')],
        [('E', '1', 'text'), ('E', '2', 5)],
        [('B', '2', None), ('B', '4', 'forty'), ('C', '3', 35)],
        [('B', '1', 100), ('A', '1', 'zebra'), ('D', '1', 31)],
        [('E', '1', '#N/A'), ('B', '3', '#DIV/0!')],
        [('E', '1', True), ('B', '1', True)],
    ]
    for override in overrides:
        executor = Executor().set_executed_class(class_file=out_py)
        if override:
            executor.set_cells([Cell('S', c, r, value=v) for c, r, v in override])
        emit('OVERRIDE', override)
        for number, formula in enumerate(FORMULAS, start=1):
            emit('  G%d' % number, formula, attempt(lambda: executor.get_cell(Cell('S', 'G', str(number))).value))
    return load_module(out_py).ExcelInPython


# ---------------------------------------------------------------- direct part
class Plain(AbstractExcelInPython):
    pass


class Shout(str):
    """a text subclass, to exercise the isinstance() based row filter"""


def direct_part(label, cls):
    obj = cls()
    empty = obj.EmptyCell
    day = datetime.datetime
    arrays = {
        'empty': [],
        'ascending ints': [[1], [3], [5], [7], [9]],
        'descending ints': [[9], [7], [5], [3], [1]],
        'duplicates': [[2], [4], [4], [4], [6], [2]],
        'unsorted': [[5], [1], [9], [3], [7], [5]],
        'floats': [[0.5], [1.0], [1.5], [2.0], [float('inf')]],
        'int float mix': [[1], [1.5], [2], [2.5], [3.0], [4]],
        'with nan': [[1], [float('nan')], [3]],
        'bools': [[False], [True], [2]],
        'texts': [['apple'], ['Banana'], ['cherry'], ['Date'], ['elder']],
        'texts descending': [['Pear'], ['fig'], ['Date'], ['apple']],
        'texts repeated case': [['Fig'], ['FIG'], ['fig']],
        'text subclass': [[Shout('Apple')], ['apple'], [Shout('pear')]],
        'blanks between': [[empty()], [2], [empty()], [4], [empty()]],
        'only blanks': [[empty()], [empty()]],
        'mixed kinds': [[1], ['two'], [3], [empty()], ['Four'], [5.0], [None], [day(2020, 1, 1)], [True]],
        'kinds break order': [[1], [2], ['x'], [1], [5]],
        'dates': [[day(2020, 1, 1)], [day(2021, 6, 15)], [day(2022, 12, 31)]],
        'wide rows': [[1, 'a', 'z'], [2, 'b', 'y'], [3, 'c', 'x']],
        'row of tuples': [(1, 2), (3, 4)],
        'empty row inside': [[1], [], [3]],
        'flat numbers': [1, 2, 3],
        'flat texts': ['ab', 'cd'],
        'nones': [[None], [None]],
        'error values': [['#N/A'], ['#REF!'], [1]],
        'zero first': [[0], [empty()], [0.0], [False]],
    }
    values = [0, 1, 2, 3, 4, 5, 6, 8, 10, -1, 2.0, 2.5, 4.0, 1.5, float('inf'), float('-inf'), float('nan'),
              True, False, 'apple', 'APPLE', 'banana', 'Cherry', 'date', 'fig', 'FIG', 'pear', 'zzz', '', 'a',
              'two', 'four', 'x', 'ab', Shout('apple'), Shout('PEAR'), empty(), None, day(2021, 6, 15),
              day(2019, 1, 1), day(2030, 1, 1), datetime.date(2021, 6, 15), '#N/A', [1], (1, 2)]
    match_types = [0, 1, -1, 2, -7, True, False, 0.0, 0.5, -0.5, float('nan'), None, '0', '1', empty()]

    for name, array in arrays.items():
        for value in values:
            for match_type in match_types:
                tally(label, '_match', name, show(value), show(match_type),
                     attempt(obj._match, value, array, match_type))
            tally(label, '_match default', name, show(value), attempt(obj._match, value, array))

    for bad in [None, 5, 'text', {'k': 1}, iter([[1], [2]]), ((n,) for n in (2, 1))]:
        for match_type in (0, 1, -1):
            tally(label, '_match bad array', type(bad).__name__, match_type, attempt(obj._match, 1, bad, match_type))

    # the same through _xmatch, which delegates to _match for the linear searches
    for name in ('ascending ints', 'descending ints', 'duplicates', 'texts', 'texts repeated case',
                 'blanks between', 'mixed kinds', 'empty'):
        for value in (4, 5, 0, 100, 'fig', 'banana', 2.0, empty()):
            for match_mode in (0, -1, 1, 2):
                for search_mode in (1, -1):
                    tally(label, '_xmatch', name, show(value), match_mode, search_mode,
                         attempt(obj._xmatch, value, arrays[name], match_mode, search_mode))

    # random arrays
    rnd = random.Random(20260930)
    pool = [0, 1, 2, 3, 5, 8, 13, 2.5, 8.0, 'a', 'B', 'c', 'D', 'bb', empty(), True, None]
    for _ in range(1500):
        array = [[rnd.choice(pool)] for _ in range(rnd.randint(0, 8))]
        if rnd.random() < 0.4:
            array.sort(key=lambda row: (str(type(row[0])), str(row[0])))
        value = rnd.choice(pool)
        match_type = rnd.choice([0, 0, 1, 1, -1, 3, -2])
        tally(label, '_match random', show(array), show(value), match_type,
             attempt(obj._match, value, array, match_type))


def main():
    with tempfile.TemporaryDirectory() as tmp:
        generated_cls = workbook_part(tmp)
        direct_part('class', Plain)
        direct_part('template', generated_cls)
        print_groups()
    print('LINES', len(LINES))
    print('DIGEST', hashlib.sha256('\n'.join(LINES).encode()).hexdigest())


if __name__ == '__main__':
    main()
