"""Equivalence demonstration: prints a deterministic digest; run on the unchanged and the refactored tree."""
import warnings
warnings.simplefilter("ignore")
import datetime
import hashlib
import os
import shutil
import sys
import tempfile

import openpyxl

from excel2pycl import Parser, Executor, Cell

DATA = {
    'A1': 7, 'A2': 2.5, 'A3': 'abc', 'A4': '12', 'A5': None, 'A6': True, 'A7': False,
    'A8': 0, 'A9': -3, 'A10': '#N/A', 'A11': '#DIV/0!', 'A12': datetime.datetime(2024, 2, 29),
    'A13': '', 'A14': 0.1, 'A15': 1e-7, 'A16': 'ABC', 'A17': '2024-02-29', 'A18': 1234567890123,
}


def functions_part(text):
    marker = "        return '#VALUE!'\n\n"
    return text[text.rindex(marker) + len(marker):]


def show(value):
    return f'{type(value).__name__}:{value!r}'


def run(formulas, overrides=(), tag=''):
    """formulas: list of formula strings placed in D1.. ; overrides: list of lists of (col,row,value)"""
    tmp = tempfile.mkdtemp(prefix='e2p_demo_')
    try:
        wb = openpyxl.Workbook()
        ws = wb.active
        ws.title = 'S1'
        for k, v in DATA.items():
            ws[k] = v
        for i, f in enumerate(formulas):
            ws.cell(row=i + 1, column=4).value = f
        xlsx = os.path.join(tmp, 'book.xlsx')
        wb.save(xlsx)
        for i, f in enumerate(formulas):
            line = [tag, repr(f)]
            try:
                text = Parser().set_excel_file_path(xlsx).set_entrypoint_cell(Cell(0, 3, i)).get_translation()
            except BaseException as e:
                line.append(f'TRANSLATE-EXC {type(e).__name__}: {str(e)[:200]}')
                print(' | '.join(line))
                continue
            line.append('code=' + hashlib.sha256(functions_part(text).encode()).hexdigest()[:12])
            code = functions_part(text)
            out_py = os.path.join(tmp, f'out_{i}.py')
            with open(out_py, 'w', encoding='utf-8') as fh:
                fh.write(text)
            for ov in [()] + list(overrides):
                try:
                    ex = Executor().set_executed_class(class_file=out_py)
                    if ov:
                        ex.set_cells([Cell(0, c, r, value=v) for c, r, v in ov])
                    value = ex.get_cell(Cell(0, 3, i)).value
                    line.append(show(value))
                except BaseException as e:
                    line.append(f'EXC {type(e).__name__}: {str(e)[:120]}')
            print(' | '.join(line))
            if os.environ.get('SHOWCODE'):
                print(code)
    finally:
        shutil.rmtree(tmp, ignore_errors=True)


import importlib.util
import itertools

from excel2pycl.src.utilities.abstract_excel_in_python_class import AbstractExcelInPython


class Direct(AbstractExcelInPython):
    pass


def generated_instance():
    """An instance of the class printed from the template copy of the runtime helpers."""
    tmp = tempfile.mkdtemp(prefix='e2p_demo_')
    try:
        wb = openpyxl.Workbook()
        wb.active['A1'] = 1
        wb.active['B1'] = '=IFERROR(IFS(A1>1,1),"none")'
        xlsx = os.path.join(tmp, 'b.xlsx')
        wb.save(xlsx)
        out_py = os.path.join(tmp, 'gen_cls.py')
        Parser().set_excel_file_path(xlsx).write_translation(out_py)
        spec = importlib.util.spec_from_file_location('gen_cls_demo', out_py)
        module = importlib.util.module_from_spec(spec)
        spec.loader.exec_module(module)
        return module.ExcelInPython()
    finally:
        shutil.rmtree(tmp, ignore_errors=True)


class RaisesOnEq:
    def __eq__(self, other):
        raise ValueError('eq refused')

    __hash__ = None

    def __repr__(self):
        return 'RaisesOnEq()'


class RaisesOnBool:
    def __bool__(self):
        raise ArithmeticError('bool refused')

    def __repr__(self):
        return 'RaisesOnBool()'


def outcome(function, *args):
    try:
        return show(function(*args))
    except BaseException as e:
        return f'EXC {type(e).__name__}: {str(e)[:100]}'


def raiser(exc):
    def function():
        raise exc
    return function


ERRORS = ['#NUM!', '#DIV/0!', '#N/A', '#NAME?', '#NULL!', '#REF!', '#VALUE!']
NOT_ERRORS = ['#ERROR!', '#n/a', ' #N/A', '#N/A ', '', 0, 1, None, True, False, 2.5, 'x', [], ['#N/A'], ('#N/A',), b'#N/A',
              datetime.datetime(2024, 1, 1), float('nan')]


def sweep(name, instance):
    empty = instance.EmptyCell()
    atoms = ERRORS + NOT_ERRORS + [empty]
    # _find_error_in_list
    lists = [[]] + [[a] for a in atoms] + [list(p) for p in itertools.permutations(['#REF!', 0, '#N/A', 'x'], 3)] \
        + [[1, 2, 3, '#VALUE!', '#NUM!'], [[['#N/A']]], ['a'] * 50 + ['#NULL!'], (0, '#DIV/0!'), '#N/A', 'abc', {'#N/A': 1},
           iter(['q', '#NAME?', '#REF!']), range(3), [RaisesOnEq()], ['#N/A', RaisesOnEq()], [RaisesOnEq(), '#N/A'], None, 5]
    for subject in lists:
        label = repr(subject) if not hasattr(subject, '__next__') else 'iterator'
        print(f'{name} _find_error_in_list {label[:60]} -> {outcome(instance._find_error_in_list, subject)}')
    # _iferror
    for value in atoms + [RaisesOnEq(), RaisesOnBool()]:
        print(f'{name} _iferror value {value!r} -> {outcome(instance._iferror, lambda: value, "fallback")}')
    for exc in [ZeroDivisionError('z'), ValueError('v'), TypeError('t'), KeyError('k'), IndexError('i'), RecursionError('r'),
                instance.ExcelInPythonException('e'), KeyboardInterrupt(), SystemExit(3), GeneratorExit(), StopIteration(),
                BaseException('b'), MemoryError()]:
        print(f'{name} _iferror raises {type(exc).__name__} -> {outcome(instance._iferror, raiser(exc), "fallback")}')
    print(f'{name} _iferror fallback is error -> {outcome(instance._iferror, lambda: 1 / 0, "#N/A")}')
    print(f'{name} _iferror nested -> {outcome(instance._iferror, lambda: instance._iferror(lambda: "#REF!", "#NUM!"), "outer")}')
    print(f'{name} _iferror not callable -> {outcome(instance._iferror, 5, "fallback")}')
    calls = []
    print(f'{name} _iferror evaluates once -> '
          f'{outcome(instance._iferror, lambda: calls.append(1) or len(calls), "fallback")} calls={len(calls)}')
    # _ifs
    conditions = [True, False, 0, 1, -1, 0.0, 2.5, '', 'x', None, [], [0], empty, '#N/A', RaisesOnBool(), float('nan')]
    digest = hashlib.sha256()
    count = 0
    for n in range(0, 6):
        for combo in itertools.product(conditions[:9] if n > 3 else conditions, repeat=min(n, 2)):
            flat = []
            for k in range(n):
                flat.append(combo[k % len(combo)] if combo else None)
                flat.append(f'v{k}')
            for variant in (flat, flat[:-1], flat + [True], flat + ['#REF!'], ['#DIV/0!'] + flat):
                line = f'{name} _ifs {variant!r} -> {outcome(instance._ifs, list(variant))}'
                digest.update(line.encode())
                count += 1
                if count % 11 == 0 or n < 2:
                    print(line)
    for odd in [(), (False, 1, True, 2), 'ab', None, 7, iter([True, 1]), {0: 1}, [True], [False], [0, 1, 1]]:
        label = repr(odd) if not hasattr(odd, '__next__') else 'iterator'
        print(f'{name} _ifs odd {label} -> {outcome(instance._ifs, odd)}')
    print(f'{name} _ifs lines={count} sha256={digest.hexdigest()}')
    print(f"{name} exec_function_in unknown -> {outcome(instance.exec_function_in, '_0_99_99')}")


sweep('class', Direct())
sweep('template', generated_instance())

FORMULAS = [
    '=IF(A1>3,"y","n")', '=IF(A8,1)', '=IF(A8,1,)', '=IF(A5,1,2)', '=IF(A3,1,2)', '=IF(A13,1,2)', '=IF(A6,1/0,2)', '=IF(A7,1/0,2)',
    '=IF(A1>3,IF(A2>3,1,2),3)+1', '=1+IF(A1,2,3)*2', '=IF(IF(A1>3,A7,A6),"in","out")', '=IF(A10,1,2)', '=IF(A1>3,A10,A11)',
    '=IF(A1>3,1,2)&IF(A2>3,"a","b")', '=IF(A1>3,1)', '=IF(A1<3,1)', '=IF()', '=IF(1)', '=IF(1,2,3,4)', '=IF(A1>3;1;2)',
    '=IFERROR(1/0,"e")', '=IFERROR(A10,"e")', '=IFERROR(A11,A10)', '=IFERROR(A1,"e")', '=IFERROR(A5,"e")', '=IFERROR(A3+1,"e")',
    '=IFERROR(IFERROR(1/0,A10),"outer")', '=IFERROR(1/A8,IFERROR(1/A8,"deep"))', '=1+IFERROR(A3*2,10)*2', '=IFERROR(A1/A8,0)&"%"',
    '=IFERROR(IF(A1>3,1/0,1),"e")', '=IF(IFERROR(A10,FALSE),1,2)', '=IFERROR(1/0)', '=IFERROR()', '=IFERROR(1,2,3)',
    '=IFERROR(VLOOKUP(5,A1:B3,2,FALSE),"nf")', '=IFERROR(A1:A3,"e")', '=IFERROR("#N/A","e")', '=IFERROR("#ERROR!","e")',
    '=IFS(A1>10,1,A1>5,2)', '=IFS(A1>10,1)', '=IFS(A8,1,A10,2)', '=IFS(A1)', '=IFERROR(IFS(A1),"odd")', '=IFS(A7,1,A6,2,A6,3)',
    '=IFS(A5,1,TRUE,"else")', '=IFS(A1>3,IFS(A2>3,"a",A2>2,"b"),TRUE,"c")', '=IFS(A1>3,1/0,TRUE,2)', '=IFS(A7,1/0,TRUE,2)',
    '=IFS(A1>3,A11)', '=IFS(A7,A11,TRUE,1)', '=IFS()', '=IFS(A3,1)', '=IFS(A13,1,A3,2)', '=IFS(A1>3,1)+IFS(A2>3,1,TRUE,5)*2',
    '=IFERROR(IFS(A7,1),"none")', '=IF(IFS(A1>3,TRUE),IFERROR(1/0,"z"),"w")', '=IFS(A1:A2,1)', '=IFS(A1>3,A1:A2)',
    '=IFS(A8,1,A7,2,A5,3,A13,4)', '=IFS(A1>3,1,A10,2)', '=IFS(A1>3,"#N/A")', '=-IF(A1>3,1,2)', '=IF(A1>3,1,2)%', '=IF(-A9,1,2)',
]
run(FORMULAS, overrides=[[(0, 0, 1), (0, 1, 5)], [(0, 0, None), (0, 7, 1)], [(0, 0, '#REF!'), (0, 6, True)],
                         [(0, 9, 0), (0, 10, 'ok'), (0, 5, False)]], tag='r3')
