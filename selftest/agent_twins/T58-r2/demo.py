"""Equivalence demo for r2 (C08: Executor.get_sheet / set_cells and the runtime's _cell_preprocessor).

Builds a two-sheet workbook, translates it, and queries it through every API (single cell, list of cells,
whole sheet; numeric and A1 / title addressing) under many histories and override sets, printing values,
exception class names, the overrides pushed into the instance and the reported sheet sizes after each step.
Also calls _cell_preprocessor / exec_function_in of both runtime copies directly with boundary uids.
"""
import copy
import hashlib
import itertools
import os
import random
import shutil
import sys
import tempfile

import openpyxl

from excel2pycl import Cell, Parser, Executor
from excel2pycl.src.utilities.abstract_excel_in_python_class import AbstractExcelInPython

lines = []


def emit(*parts):
    lines.append(' | '.join(str(p) for p in parts))


def show(value):
    if isinstance(value, Cell):
        return f'Cell({value.title!r},{value.column!r},{value.row!r},{show(value.value)},{value._handled_identifiers})'
    if isinstance(value, list):
        return '[' + ', '.join(show(v) for v in value) + ']'
    if isinstance(value, tuple):
        return '(' + ', '.join(show(v) for v in value) + ')'
    if isinstance(value, dict):
        return '{' + ', '.join(f'{k!r}: {show(v)}' for k, v in value.items()) + '}'
    if isinstance(value, Executor):
        return 'Executor'
    return f'{type(value).__name__}:{value!r}'


def call(fn, *args, **kwargs):
    try:
        return show(fn(*args, **kwargs))
    except BaseException as exc:  # noqa
        return 'EXC:' + type(exc).__name__ + ':' + str(exc)[:80]


def build_workbook(path):
    wb = openpyxl.Workbook()
    first = wb.active
    first.title = 'Data'
    for row in range(1, 9):
        first.cell(row=row, column=1, value=row * 1.5)
        first.cell(row=row, column=2, value=f'=A{row}*2')
        first.cell(row=row, column=3, value=f'=SUM(A1:A{row})')
        if row % 2:
            first.cell(row=row, column=4, value=f'=IF(B{row}>10, C{row}, "small")')
    first['F2'] = '=Calc!A1+1'
    first['F3'] = 'label'
    first['G1'] = '=ROUND(C8/7, 3)'
    first['G5'] = '=H9'          # reference beyond the used range
    second = wb.create_sheet('Calc')
    second['A1'] = '=SUM(Data!B1:B8)'
    second['B1'] = '=A1&"x"'
    second['B3'] = '=IF(Data!A1=1.5, Data!D1, 0)'
    second['C2'] = '=VLOOKUP(6, Data!A1:C8, 3, FALSE())'
    second['D4'] = True
    wb.create_sheet('Empty')
    wb.save(path)


def state(executor):
    instance = executor.get_executed_class()
    return (f'sizes={executor._sheets_size!r} inst_sizes={instance.get_sheets_size()!r} '
            f'titles={executor._titles!r} changed={executor._cells_have_been_changed} '
            f'cells={sorted(executor._cells)!r} args={show(dict(sorted(instance._arguments.items())))}')


def grid_digest(grid):
    return hashlib.sha256(show(grid).encode()).hexdigest()[:24]


def check_sheet(executor, label, sheet):
    """whole sheet against single-cell queries, both addressings"""
    try:
        grid = executor.get_sheet(sheet)
    except BaseException as exc:  # noqa
        emit(label, 'get_sheet', repr(sheet), 'EXC:' + type(exc).__name__ + ':' + str(exc)[:80])
        return
    emit(label, 'get_sheet', repr(sheet), len(grid), [len(r) for r in grid], grid_digest(grid))
    for row in grid:
        emit(label, 'row', show([c.value for c in row]))
    index = executor._titles[sheet] if isinstance(sheet, str) else sheet
    title = [t for t, i in executor._titles.items() if i == index][0]
    agree = True
    for r, row in enumerate(grid):
        for c, cell in enumerate(row):
            single = executor.get_cell(Cell(index, c, r))
            a1 = executor.get_cell(Cell(title, openpyxl.utils.get_column_letter(c + 1), str(r + 1)))
            agree &= show(single.value) == show(cell.value) == show(a1.value)
            agree &= (cell.title, cell.column, cell.row) == (index, c, r) == (a1.title, a1.column, a1.row)
    emit(label, 'agree', agree)


def scenario(out_py, label, overrides, order_seed):
    executor = Executor().set_executed_class(class_file=out_py)
    emit(label, 'start', state(executor))
    rng = random.Random(order_seed)
    coords = [(s, c, r) for s in (0, 1) for c in range(9) for r in range(10)]
    rng.shuffle(coords)
    before = {}
    for s, c, r in coords[:60]:
        before[(s, c, r)] = call(lambda: executor.get_cell(Cell(s, c, r)).value)
    emit(label, 'random singles', hashlib.sha256(repr(sorted(before.items())).encode()).hexdigest()[:24])
    for batch in overrides:
        emit(label, 'set_cells', call(executor.set_cells, batch))
        emit(label, 'state', state(executor))
        wanted = [Cell(0, 6, 0), Cell('Data', 'G', '1'), Cell('Calc', 'A', '1'), Cell(1, 1, 0), Cell(1, 2, 1),
                  Cell(0, 3, 0), Cell('Data', 'D', '2'), Cell(0, 6, 4), Cell(0, 7, 8), Cell(2, 0, 0), Cell(0, 40, 40)]
        got = call(executor.get_cells, wanted)
        emit(label, 'get_cells', got)
        emit(label, 'get_cells again', got == call(executor.get_cells, copy.deepcopy(wanted)),
             got == call(executor.get_cells, [Cell(0, 6, 0), Cell(0, 6, 0), Cell(1, 0, 0), Cell(1, 1, 0), Cell(1, 2, 1),
                                             Cell(0, 3, 0), Cell(0, 3, 1), Cell(0, 6, 4), Cell(0, 7, 8), Cell(2, 0, 0),
                                             Cell(0, 40, 40)]))
        for sheet in ('Data', 1, 'Empty', 0, 'Calc', 2):
            check_sheet(executor, label, sheet)
        emit(label, 'state after', state(executor))
    for sheet in ('Nope', 3, -1, None, 1.0, True, '', 'data', [0]):
        emit(label, 'odd sheet', repr(sheet), call(lambda: grid_digest(executor.get_sheet(sheet))))
    for bad in (Cell('Nope', 'A', '1'), Cell(0, 'A', ''), Cell(0, 'A', 1), Cell('Data', 0, '1'), Cell(7, 0, 0),
                Cell(0, None, 0), Cell(0, 0, None), Cell(0, '', '1'), Cell(0, 'A1', '1'), Cell(0, 'A', 'x'),
                Cell(0, -1, -1), Cell(0, 0, 0, value='kept')):
        emit(label, 'odd get_cell', call(executor.get_cell, bad))
    emit(label, 'end', state(executor))
    return executor


def failing_set_cells(out_py):
    # set_cells that fails half way: earlier cells already extended the sizes, no override is registered
    batches = [
        [Cell(0, 20, 30, value=1), Cell('Nope', 'A', '1', value=2), Cell(1, 30, 40, value=3)],
        [Cell(1, 12, 2, value=1), Cell(9, 0, 0, value=2)],
        [Cell(1, 1, 13, value=1), Cell(0, 'C', '', value=2)],
        [Cell(2, 3, 3, value=1), Cell(0, None, 2, value=2)],
        [Cell(-1, 5, 5, value='neg')],
        [Cell(0, 2.0, 50.5, value='float')],
        [Cell(0, 0, 0, value='a'), Cell(0, 0, 0, value='b'), Cell('Data', 'A', '1', value='c')],
        [],
        (Cell(0, 1, 1, value=5) for _ in range(2)),
    ]
    executor = Executor().set_executed_class(class_file=out_py)
    for number, batch in enumerate(batches):
        emit('failing', number, call(executor.set_cells, batch))
        emit('failing', number, state(executor))
        emit('failing', number, 'A1', call(lambda: executor.get_cell(Cell(0, 0, 0)).value),
             'B2', call(lambda: executor.get_cell(Cell(0, 1, 1)).value))
        emit('failing', number, state(executor))
    emit('failing', 'sheet Empty', call(lambda: grid_digest(executor.get_sheet('Empty'))),
         call(lambda: [len(r) for r in executor.get_sheet(2)]))


def preprocessor(tag, instance):
    empty = instance.EmptyCell()
    uids = ['_0_0_0', '_0_1_0', '_0_2_7', '_1_0_0', '_0_6_4', '_0_7_8', '_9_9_9', '', '_titles', '_arguments',
            '_sheets_size', '_cell_preprocessor', 'exec_function_in', 'EmptyCell', '_round', '__doc__',
            '__module__', None, 0, ('a',), ['a'], {}, empty]
    for uid in uids:
        label = 'EmptyCell' if uid is empty else repr(uid)
        emit(tag, 'pre', label, call(instance._cell_preprocessor, uid), call(instance.exec_function_in, uid))
    instance.set_arguments([{'uid': '_0_0_0', 'value': 0}, {'uid': '_0_1_0', 'value': None},
                            {'uid': '_0_2_7', 'value': ''}, {'uid': '_9_9_9', 'value': empty},
                            {'uid': '_titles', 'value': 'shadow'}, {'uid': None, 'value': 'none-key'},
                            {'uid': 0, 'value': False}])
    instance.__dict__['_8_8_8'] = lambda self: 42
    instance.__dict__['_7_7_7'] = 0
    instance.__dict__['_6_6_6'] = None
    instance.__dict__['_1_0_0'] = lambda self: 'instance wins'
    for uid in uids + ['_8_8_8', '_7_7_7', '_6_6_6']:
        label = 'EmptyCell' if uid is empty else repr(uid)
        emit(tag, 'pre+args', label, call(instance._cell_preprocessor, uid), call(instance.exec_function_in, uid))
    emit(tag, 'arity', call(instance._cell_preprocessor), call(instance._cell_preprocessor, 'a', 'b'),
         call(lambda: instance._cell_preprocessor(cell_uid='_0_0_0')))


def main():
    tmp = tempfile.mkdtemp(prefix='t58r2_')
    try:
        xlsx = os.path.join(tmp, 'book.xlsx')
        out_py = os.path.join(tmp, 'book_translation.py')
        build_workbook(xlsx)
        Parser().set_excel_file_path(xlsx).write_translation(out_py)

        override_sets = {
            'none': [[]],
            'inside': [[Cell(0, 0, 0, value=100), Cell('Data', 'A', '8', value=-3.5), Cell(1, 0, 0, value=7)]],
            'outside': [[Cell(0, 7, 8, value=11), Cell('Calc', 'J', '12', value='far'), Cell(2, 1, 2, value=0)]],
            'steps': [[Cell(0, 0, 1, value=0)], [Cell(0, 0, 1, value=None), Cell('Data', 'B', '3', value='text')],
                      [Cell(0, 0, 1, value=9), Cell(0, 9, 0, value=False)], []],
        }
        digests = {}
        for name, batches in override_sets.items():
            for seed in (1, 2):
                label = f'{name}/{seed}'
                executor = scenario(out_py, label, copy.deepcopy(batches), seed)
                digests[label] = [grid_digest(executor.get_sheet(s)) for s in (0, 1, 2)]
        # the history (seed) must not matter
        for name in override_sets:
            emit('history independent', name, digests[f'{name}/1'] == digests[f'{name}/2'], digests[f'{name}/1'])

        failing_set_cells(out_py)

        class Direct(AbstractExcelInPython):
            _0_0_0 = lambda self: 1.5
            _0_1_0 = lambda self: self._cell_preprocessor('_0_0_0') * 2
            _0_2_7 = lambda self: [self._cell_preprocessor('_0_0_0'), self._cell_preprocessor('_0_5_5')]
            _1_0_0 = lambda self: 'class level'

        preprocessor('class', Direct())
        preprocessor('template', Executor().set_executed_class(class_file=out_py).get_executed_class())
        by_object = Executor().set_executed_class(class_object=Direct)
        emit('class_object', call(by_object.get_sheet, 0), call(by_object.get_cell, Cell(0, 1, 0)),
             call(by_object.set_cells, [Cell(0, 0, 0, value=4)]), call(by_object.get_cell, Cell(0, 1, 0)))
    finally:
        shutil.rmtree(tmp, ignore_errors=True)

    print('\n'.join(lines))
    print('lines', len(lines))
    print('digest', hashlib.sha256('\n'.join(lines).encode()).hexdigest())


if __name__ == '__main__':
    main()
    sys.exit(0)
