"""Equivalence demo for r4: the runtime helper _xmatch (class copy and template copy).

Prints a deterministic digest; must be byte-identical before and after the refactoring.
"""
import warnings
warnings.filterwarnings('ignore')

import datetime
import decimal
import fractions
import hashlib
import os
import random
import tempfile

import openpyxl

from excel2pycl import Parser, Executor, Cell
from excel2pycl.src.object_loader import load_module
from excel2pycl.src.utilities.abstract_excel_in_python_class import AbstractExcelInPython

LINES = []


def emit(*parts):
    line = ' | '.join(str(p) for p in parts)
    LINES.append(line)
    print(line)


GROUPS = {}


def tally(*parts):
    """like emit, but the line is only folded into the digest of its group (first two parts)
    and into the overall digest -- the grids below are far too long to print line by line"""
    line = ' | '.join(str(p) for p in parts)
    LINES.append(line)
    group = GROUPS.setdefault((str(parts[0]), str(parts[1])), [hashlib.sha256(), 0, 0])
    group[0].update(line.encode() + b'\n')
    group[1] += 1
    group[2] += 'RAISED' in line


def print_groups():
    for (label, what), (digest, lines, raised) in GROUPS.items():
        emit('GROUP', label, what, f'{lines} results', f'{raised} raised', digest.hexdigest())


def show(value):
    return f'{type(value).__name__}:{value!r}'


def attempt(fn, *args):
    try:
        return show(fn(*args))
    except BaseException as exc:
        return f'RAISED {type(exc).__name__}'


# ---------------------------------------------------------------- workbook part
MODES = [(mm, sm) for mm in (0, -1, 1) for sm in (1, -1, 2, -2)]
FORMULAS = (
    ['=XMATCH(30,B1:B6)', '=XMATCH(35,B1:B6)', '=XMATCH("pear",A1:A6)', '=XMATCH("PEAR",A1:A6,0)',
     '=XMATCH(30,B1:B6,0)', '=XMATCH(35,B1:B6,-1)', '=XMATCH(35,B1:B6,1)', '=XMATCH(5,B1:B6,-1)',
     '=XMATCH(99,B1:B6,1)', '=XMATCH(30,B1:B6,0,3)', '=XMATCH(30,B1:B6,0,0)', '=XMATCH(30,B1:B6,2,1)',
     '=XMATCH(E1,B1:B6,E3,E4)', '=XMATCH(E2,A1:A6,0,E4)', '=XMATCH(E5,B1:B6,0,1)',
     '=INDEX(A1:A6,XMATCH(40,B1:B6,0,-1))', '=INDEX(A1:A6,XMATCH(40,B1:B6,0,2))',
     '=IFERROR(XMATCH(45,B1:B6,0,2),"none")', '=IF(XMATCH(45,B1:B6,-1,2)=4,"fourth","other")',
     '=XMATCH(30,D1:D6,0,1)+XMATCH(30,D1:D6,0,-1)*10']
    + [f'=XMATCH(35,B1:B6,{mm},{sm})' for mm, sm in MODES]
    + [f'=XMATCH(30,B1:B6,{mm},{sm})' for mm, sm in MODES]
    + [f'=XMATCH(35,C1:C6,{mm},{sm})' for mm, sm in MODES]
    + [f'=XMATCH(E1,C1:C6,{mm},{sm})' for mm, sm in MODES]
    + [f'=XMATCH("date",A1:A6,{mm},{sm})' for mm, sm in MODES]
)


def build_workbook(path):
    wb = openpyxl.Workbook()
    ws = wb.active
    ws.title = 'S'
    rows = [
        ('apple', 10, 60, 30),
        ('Cherry', 20, 50, 10),
        ('fig', 30, 40, 30),
        ('Pear', 40, 30, None),
        ('pear', 50, 20, 'x'),
        ('quince', 60, 10, 30),
    ]
    for number, (a, b, c, d) in enumerate(rows, start=1):
        ws[f'A{number}'] = a
        ws[f'B{number}'] = b
        ws[f'C{number}'] = c
        ws[f'D{number}'] = d
    ws['E1'] = 45
    ws['E2'] = 'FIG'
    ws['E3'] = -1
    ws['E4'] = 2
    # E5 stays blank
    for number, formula in enumerate(FORMULAS, start=1):
        ws[f'G{number}'] = formula
    wb.save(path)


def workbook_part(tmp):
    xlsx = os.path.join(tmp, 'book.xlsx')
    out_py = os.path.join(tmp, 'book.py')
    build_workbook(xlsx)
    Parser().set_excel_file_path(xlsx).write_translation(out_py)
    overrides = [
        [],
        [('E', '1', 10), ('E', '2', 'pear'), ('E', '3', 0), ('E', '4', 1)],
        [('E', '1', 9.5), ('E', '2', 'Quince'), ('E', '3', 1), ('E', '4', -1)],
        [('E', '1', 60.0), ('E', '3', 1), ('E', '4', -2)],
        [('E', '1', 61), ('E', '3', None), ('E', '4', None)],
        [('E', '1', 'text'), ('E', '3', 'x'), ('E', '4', 'y')],
        [('E', '3', True), ('E', '4', True)],
        [('E', '3', 1.0), ('E', '4', 2.0), ('B', '3', 31)],
        [('B', '2', None), ('B', '4', 'forty'), ('C', '3', 35)],
        [('B', '1', 100), ('A', '1', 'zebra'), ('D', '1', 31)],
    ]
    for override in overrides:
        executor = Executor().set_executed_class(class_file=out_py)
        if override:
            executor.set_cells([Cell('S', c, r, value=v) for c, r, v in override])
        emit('OVERRIDE', override)
        for number, formula in enumerate(FORMULAS, start=1):
            emit('  G%d' % number, formula, attempt(lambda: executor.get_cell(Cell('S', 'G', str(number))).value))
    return load_module(out_py).ExcelInPython


# ---------------------------------------------------------------- direct part
class Plain(AbstractExcelInPython):
    pass


class Unhashable:
    """compares equal to 1 but cannot be hashed -- a dict based dispatch would choke on it"""
    __hash__ = None

    def __eq__(self, other):
        return other == 1

    def __repr__(self):
        return 'Unhashable()'


def direct_part(label, cls):
    obj = cls()
    empty = obj.EmptyCell
    day = datetime.datetime
    arrays = {
        'empty': [],
        'single': [[5]],
        'ascending ints': [[1], [3], [5], [7], [9]],
        'descending ints': [[9], [7], [5], [3], [1]],
        'duplicates': [[2], [4], [4], [4], [6]],
        'unsorted': [[5], [1], [9], [3], [7], [5]],
        'floats': [[0.5], [1.0], [1.5], [2.0], [float('inf')]],
        'texts': [['apple'], ['banana'], ['cherry'], ['date'], ['elder']],
        'texts mixed case': [['Apple'], ['banana'], ['Cherry'], ['date']],
        'blanks between': [[empty()], [2], [empty()], [4], [empty()]],
        'mixed kinds': [[1], ['two'], [3], [empty()], ['Four'], [5.0]],
        'dates': [[day(2020, 1, 1)], [day(2021, 6, 15)], [day(2022, 12, 31)]],
        'wide rows': [[1, 'a'], [2, 'b'], [3, 'c']],
        'flat numbers': [1, 2, 3],
        'empty row inside': [[1], [], [3]],
    }
    values = [0, 1, 2, 4, 5, 6, 10, -1, 1.5, 4.0, float('inf'), float('nan'), True, 'apple', 'CHERRY', 'coconut',
              'zzz', '', empty(), None, day(2021, 6, 15), day(2019, 1, 1), day(2030, 1, 1)]
    match_modes = [0, -1, 1, 2, -2, 3, True, False, 0.0, 1.0, -1.0, 0.5, float('nan'), None, '1', '-1',
                   empty(), decimal.Decimal(1), fractions.Fraction(-1), Unhashable(), [1], (1,)]
    search_modes = [1, -1, 2, -2, 0, 3, -3, True, False, 1.0, -1.0, 2.0, -2.0, 1.5, float('nan'), None,
                    '1', '2', empty(), decimal.Decimal(2), fractions.Fraction(-2), Unhashable(), [2], (2,)]

    for name, array in arrays.items():
        for value in values:
            tally(label, '_xmatch defaults', name, show(value), attempt(obj._xmatch, value, array))
            for match_mode in match_modes:
                tally(label, '_xmatch one default', name, show(value), show(match_mode),
                     attempt(obj._xmatch, value, array, match_mode))
                for search_mode in search_modes:
                    tally(label, '_xmatch', name, show(value), show(match_mode), show(search_mode),
                         attempt(obj._xmatch, value, array, match_mode, search_mode))

    for bad in [None, 5, 'text', {'k': 1}, ([1], [2], [3])]:
        for match_mode in (0, -1, 1):
            for search_mode in (1, -1, 2, -2, 9):
                tally(label, '_xmatch bad array', show(bad), match_mode, search_mode,
                     attempt(obj._xmatch, 2, bad, match_mode, search_mode))

    # keyword arguments, as a caller may spell them
    tally(label, 'keywords', attempt(lambda: obj._xmatch(lookup_value=5, lookup_array=arrays['ascending ints'],
                                                        match_mode=-1, search_mode=2)))
    tally(label, 'keywords', attempt(lambda: obj._xmatch(6, arrays['descending ints'], search_mode=-2, match_mode=1)))

    # random sorted arrays for the binary searches, random anything for the linear ones
    rnd = random.Random(77)
    for _ in range(3000):
        size = rnd.randint(0, 9)
        numbers = sorted(rnd.choice([rnd.randint(-5, 15), rnd.randint(0, 30) / 2]) for _ in range(size))
        search_mode = rnd.choice([1, -1, 2, -2, 2, -2, 5])
        if search_mode == -2 or (search_mode in (1, -1) and rnd.random() < 0.3):
            numbers.reverse()
        array = [[n] for n in numbers]
        value = rnd.choice([rnd.randint(-6, 16), rnd.randint(0, 30) / 2])
        match_mode = rnd.choice([0, -1, 1, 2])
        tally(label, '_xmatch random', show(array), show(value), match_mode, search_mode,
             attempt(obj._xmatch, value, array, match_mode, search_mode))


def main():
    with tempfile.TemporaryDirectory() as tmp:
        generated_cls = workbook_part(tmp)
        direct_part('class', Plain)
        direct_part('template', generated_cls)
        print_groups()
    print('LINES', len(LINES))
    print('DIGEST', hashlib.sha256('\n'.join(LINES).encode()).hexdigest())


if __name__ == '__main__':
    main()
