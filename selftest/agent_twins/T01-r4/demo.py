"""Equivalence demo for r4 (RegexpBaseToken.get: re.findall on a pattern rebuilt per call -> cached compiled pattern,
Pattern.match and groups(default='')).

Calls .get of EVERY regexp token class on a large set of expression heads (all reference forms, operators, literals,
odd strings), lexes many formulas, mutates a token's regexp at run time (the cache is keyed by the pattern text, so this
keeps working), and evaluates a multi-sheet workbook of reference formulas end to end.
"""
import hashlib
import os
import sys
import tempfile
import warnings

warnings.filterwarnings('ignore')

from openpyxl import Workbook

from excel2pycl import Parser, Executor, Cell
from excel2pycl.src.lexer import Lexer
from excel2pycl.src.tokens import RegexpBaseToken, CellIdentifierToken, SeparatorToken
from excel2pycl.src.tokens.undefined_token import UndefinedToken

OUT = []


def emit(*parts):
    OUT.append(' | '.join(str(p) for p in parts))


def show(value):
    return f'{type(value).__name__}:{value!r}'


in_cell = Cell(3, 7, 11)
token_classes = [t for t in Lexer.TOKENS if t is not UndefinedToken]
emit('token classes', [t.__name__ for t in Lexer.TOKENS])

heads = [
    'A1', '$A$1', '$A1', 'A$1', 'a1', 'A0', 'A01', 'XFD1048576', 'XFE1', 'ZZZZ99', 'A1B2', 'A1:', 'A1:B', 'A:1', 'A',
    'A1:A9', 'A1:D1', 'A1:B2', '$A$1:$B$2', 'A$1:$B2', 'A:A', 'A:C', '$A:$C', 'A1:A', 'A:A9', 'C3:A1', 'A1:B2:C3',
    'Sheet1!A1', "'Sheet1'!A1", "'My sheet'!$B$2", "'it''s'!A1", "'a!b'!A1", 'Sheet1!A1:B2', "'My sheet'!A:A",
    "'My sheet'!A1:A9", 'S_2!A1', 'Ünï!A1', "'Ünï'!A1:B2", '2nd!A1', 'a.b!A1', "'a.b'!A1", '!A1', "''!A1",
    'Sheet1!Sheet2!A1', "Sheet1!'x'!A1", 'Sheet1 !A1', 'Sheet1! A1', 'Sheet1!$A:$B', "'S'!A1:'S'!B2",
    'A1+B2', 'A1)', 'A1;B2', 'A1,B2', 'A1 ', 'A1%', 'A1&"x"', 'A11', 'A1.5', 'A1e3', 'A1:B2+1', 'A1:A9)', 'A:A)',
    'A1:B2)', 'A1:B2;3', 'A1:B23', 'A1:A$9', 'A1:$A9', 'A1:B$1', 'A$1:B$1',
    '1', '12', '1.5', '1.', '.5', '1e3', '1e-3', '1.5e10', '1E3', '007', '1,5', '1;2', '1)', '1+2', '1%', '1A',
    '"x"', '""', '"a""b"', '"a;b"', '"*"', '"a*"', '"?x"', '"~*"', '"a~?b"', '"x', 'x"', '"x"&"y"', '"x" ', '"a\nb"',
    'TRUE', 'FALSE', 'TRUE()', 'FALSE()', 'TRUE(', 'true', 'TRUEX', 'TRUE1',
    '(', ')', '()', '((A1))', ' ', '  A1', '\t', '\n', 'A1\n', 'A1\n\n', '\nA1', 'A1\nB2', '', ';', ',', '~', ';;',
    '<>', '>=', '<=', '=', '>', '<', '=<', '=>', '<>=', '==', '+', '-', '*', '/', '&', '%', '+-', '--1', '**', '%%',
    'SUM(A1)', 'SUMIF(A1:A2;1)', 'SUMIFS(', 'SUMX', 'IF(', 'IFS(', 'IFERROR(', 'COUNT(', 'COUNTIFS(', 'COUNTBLANK(',
    'AVERAGE(', 'AVERAGEIFS(', 'ROUND(', 'ROUNDUP(', 'ROUNDDOWN(', 'DATE(', 'DATEDIF(', 'DAY(', 'MAX(', 'MIN(', 'MID(',
    'MATCH(', 'XMATCH(', 'VLOOKUP(', 'INDEX(', 'LEFT(', 'RIGHT(', 'TODAY()', 'OR(', 'AND(', 'ADDRESS(', 'COLUMN(',
    'CONCATENATE(', 'TEXT(', 'VALUE(', 'YEAR(', 'MONTH(', 'EOMONTH(', 'EDATE(', 'SEARCH(', 'NETWORKDAYS(', 'sum(A1)',
    '#REF!', '@A1', '{1;2}', '[1]Sheet1!A1', 'A1#', '\\', '$', '$$A1', 'A$$1', "'", "'x", 'é', '٣', '１２',
]
for token_class in token_classes:
    for head in heads:
        try:
            token, rest = token_class.get(head, in_cell)
            if token is None:
                emit('get', token_class.__name__, repr(head), 'no', repr(rest))
            else:
                emit('get', token_class.__name__, repr(head), type(token).__name__, repr(token.value),
                     type(token.value).__name__, repr(rest), token.in_cell is in_cell)
        except Exception as e:  # noqa
            emit('get', token_class.__name__, repr(head), 'EXC ' + type(e).__name__, str(e)[:80])
    for bad in [None, b'A1', 5, ['A1']]:
        try:
            emit('get-bad', token_class.__name__, repr(bad), repr(token_class.get(bad, in_cell)))
        except Exception as e:  # noqa
            emit('get-bad', token_class.__name__, repr(bad), 'EXC ' + type(e).__name__)

# derived values of the reference tokens
for head in heads:
    for token_class, attr in [(CellIdentifierToken, 'cell')]:
        token, rest = token_class.get(head, in_cell)
        if token:
            emit('ref', token_class.__name__, repr(head), str(getattr(token, attr)), repr(rest))
from excel2pycl.src.tokens import CellIdentifierRangeToken, MatrixOfCellIdentifiersToken
for head in heads:
    for token_class, attr in [(CellIdentifierRangeToken, 'range'), (MatrixOfCellIdentifiersToken, 'matrix')]:
        token, rest = token_class.get(head, in_cell)
        if token:
            emit('ref', token_class.__name__, repr(head), str(getattr(token, attr)), repr(rest))

# ---------------------------------------------------------------- lexer
formulas_to_lex = ['=' + h for h in heads] + [
    "=A1+'My sheet'!$B$2*SUM(Sheet1!A1:B2;C:C)-10%&\"x;y\"", '= IF( A1 >= 2 ; "a" ; B2 ) ', '=SUM(A1:A3,B1:B3)',
    "=VLOOKUP(A1;'Data sheet'!A1:D9;2;FALSE)", '=A1<>B1', '=A1<=B1', '=-A1--B1', '=1.5e3*2', '=COUNTIFS(A1:A9;">3")',
    '=SUMIF(A:A;"a*";B:B)', '=A1:A3&B1:B3', '=\n A1\n+\nB1', '=A1\t+\tB1',
]
for f in formulas_to_lex:
    try:
        emit('lex', repr(f), [(type(t).__name__, t.value) for t in Lexer.parse(f, in_cell)])
    except Exception as e:  # noqa
        emit('lex', repr(f), 'EXC ' + type(e).__name__, str(e)[:80])

# ---------------------------------------------------------------- regexp changed at run time
original = SeparatorToken.regexp, SeparatorToken.last_match_regexp
emit('mutate before', [repr(SeparatorToken.get(s, in_cell)) for s in [';1', '|1', ',1', ';']])
SeparatorToken.regexp = r'\|'
emit('mutate regexp', [repr(SeparatorToken.get(s, in_cell)) for s in [';1', '|1', ',1', ';']])
SeparatorToken.last_match_regexp = r'\d*'
emit('mutate last', [repr(SeparatorToken.get(s, in_cell)) for s in [';1', '|1', '|x', '|']])
SeparatorToken.regexp = r'('
for s in [';', '(']:
    try:
        emit('mutate broken', repr(SeparatorToken.get(s, in_cell)))
    except Exception as e:  # noqa
        emit('mutate broken', 'EXC ' + type(e).__name__)
SeparatorToken.regexp, SeparatorToken.last_match_regexp = original
emit('mutate restored', [repr(SeparatorToken.get(s, in_cell)) for s in [';1', '|1', ',1', ';']])
sub = type('LocalToken', (object,), {})  # unrelated class: nothing registered
emit('token classes after', len(Lexer.TOKENS), len(RegexpBaseToken.subclasses()))

# ---------------------------------------------------------------- whole pipeline
tmp = tempfile.mkdtemp()
sheet_titles = ['Main', 'Data', 'Other sheet', 'S2024', 'Ünï', 'a.b']
wb = Workbook()
ws = wb.active
ws.title = sheet_titles[0]
for n, title in enumerate(sheet_titles[1:], start=1):
    other = wb.create_sheet(title)
    for r in range(1, 5):
        for col in range(1, 5):
            if (r + col + n) % 4:
                other.cell(row=r, column=col, value=n * 100 + r * 10 + col)
    other.cell(row=6, column=2, value=f'text {title}')
ws['A1'], ws['A2'], ws['A3'], ws['B1'], ws['B3'], ws['C2'], ws['XFD1'] = 1, 2, 3, 10, 30, 'c2', 'far'
refs = ['A1', '$A$1', '$A1', 'A$1', 'B2', 'C2', 'Z99', 'XFD1', 'AA10']
prefixes = ['', 'Main!', 'Data!', "'Data'!", "'Other sheet'!", 'S2024!', "'Ünï'!", "'a.b'!"]
formulas = [f'={p}{r}' for p in prefixes for r in refs]
for p in prefixes:
    for rng in ['A1:A4', 'A1:D1', '$A$1:$A$4', 'B1:B6', 'A1:B2', 'A1:D4', 'B2:C3', 'A:A', 'A:C', '$A:$B']:
        formulas += [f'=SUM({p}{rng})', f'=COUNTBLANK({p}{rng})']
formulas += ['=A1+A2*A3', '=(A1+A2)*A3', '=-A1+10%', '=A1&"-"&C2', '=A1<>A2', '=B1>=10', '=1.5e1+A1', '= A1 + B1 ',
             "=INDEX(Data!A1:D4;2;3)", "=VLOOKUP(111;Data!A1:D4;2;FALSE)", "=Data!B6&'a.b'!B6", '=IF(A1<A2;"lt";"ge")',
             '=SUM(A1:A3;B1:B3)', '=COUNTIFS(A1:A3;">1")', '=TRUE', '=FALSE()', '="text"', '=""']
# formulas the lexer/parser reject are reported with the exception and left out of the workbook
from excel2pycl.src.ast_builder import AstBuilder
accepted = []
for f in formulas:
    try:
        AstBuilder.parse(Lexer.parse(f, in_cell), in_cell)
        accepted.append(f)
    except Exception as e:  # noqa
        emit('unparsable', repr(f), type(e).__name__, str(e)[:80])
formulas = accepted
emit('accepted formulas', len(formulas))
for i, f in enumerate(formulas, start=1):
    ws.cell(row=i, column=6, value=f)
xlsx = os.path.join(tmp, 'refs.xlsx')
py = os.path.join(tmp, 'refs.py')
wb.save(xlsx)
parser = Parser().set_excel_file_path(xlsx)
parser.write_translation(py)
text = parser.get_translation()
emit('translation sha256', hashlib.sha256(text.encode()).hexdigest(), len(text))
ex = Executor().set_executed_class(class_file=py)
for tag in ['wb', 'ov']:
    for i, f in enumerate(formulas):
        try:
            emit(tag, f, show(ex.get_cell(Cell(0, 5, i)).value))
        except Exception as e:  # noqa
            emit(tag, f, 'EXC ' + type(e).__name__)
    ex = Executor().set_executed_class(class_file=py)
    ex.set_cells([Cell('Data', 'A', '1', value=-1), Cell('Main', 'A', '1', value=50), Cell('Ünï', 'B', '2', value=None),
                  Cell('Other sheet', 'AA', '10', value='aa10')])

digest = hashlib.sha256('\n'.join(OUT).encode()).hexdigest()
print('\n'.join(OUT))
print('lines', len(OUT), 'digest', digest)
sys.exit(0)
