"""Equivalence demo for the SUMIF / NETWORKDAYS runtime helpers (C20), exercised in BOTH copies of the runtime:
the importable AbstractExcelInPython and the ExcelInPython class emitted by the translator.

Run as: PYTHONPATH=<tree> /venv/bin/python demo.py
Prints a deterministic digest; must be identical on the unchanged and on the refactored tree.
"""
import datetime
import hashlib
import itertools
import os
import random
import shutil
import tempfile

from openpyxl import Workbook

from excel2pycl import Parser, Executor, Cell
from excel2pycl.src.utilities.abstract_excel_in_python_class import AbstractExcelInPython

LINES = []


def emit(*parts):
    LINES.append(' | '.join(str(p) for p in parts))


def show(value):
    if isinstance(value, list):
        return '[' + ', '.join(show(v) for v in value) + ']'
    return f'{type(value).__name__}:{value!r}'


def call(func, *args, **kwargs):
    try:
        return 'OK ' + show(func(*args, **kwargs))
    except Exception as e:
        return f'EXC {type(e).__name__}: {e}'


D = datetime.datetime
tmp_dir = tempfile.mkdtemp(prefix='t20_r4_')
try:
    # ------------------------------------------------------------ through a workbook
    wb = Workbook()
    ws = wb.active
    ws.title = 'W'
    rows = [
        # A        B     C                 D
        [1,        10,   D(2023, 4, 3),    D(2023, 4, 7)],
        [7,        20,   D(2023, 5, 1),    D(2023, 5, 9)],
        [8,        None, D(2023, 5, 31),   'text'],
        [None,     40,   None,             D(2023, 4, 14)],
        ['x',      50,   D(2023, 4, 1),    D(2023, 5, 31)],
        [12,       'y',  D(2024, 2, 26),   D(2024, 3, 4)],
        [True,     70,   40,               ''],
        [9.5,      0.5,  D(2023, 12, 25),  D(2024, 1, 1)],
    ]
    for r in rows:
        ws.append(r)
    formulas = [
        '=SUMIF(A1:A8, ">6")', '=SUMIF(A1:A8, ">6", B1:B8)', '=SUMIF(A1:A8, "<8", B1:B8)', '=SUMIF(A1:A8, 7, B1:B8)',
        '=SUMIF(A1:A8, "x", B1:B8)', '=SUMIF(A1:A4, ">0", B1:B4)', '=SUMIF(A1:A2, ">100", B1:B2)', '=SUMIF(B1:B8, ">=20")',
        '=SUMIF(A1:A8, ">6", B1)', '=SUMIF(A1:B2, ">0")',
        '=NETWORKDAYS(C1,D1)', '=NETWORKDAYS(D1,C1)', '=NETWORKDAYS(C5,D5)', '=NETWORKDAYS(C5,D5,C1:D2)', '=NETWORKDAYS(C5,D5,C1:D8)',
        '=NETWORKDAYS(C2,D2,C2:C3)', '=NETWORKDAYS(C7,D7)', '=NETWORKDAYS(C3,D3)', '=NETWORKDAYS(C6,D6,D6:D6)', '=NETWORKDAYS(C8,D8,C8:D8)',
        '=NETWORKDAYS(C1,C1)', '=NETWORKDAYS(C5,C5)', '=NETWORKDAYS(C4,D4)', '=NETWORKDAYS(C1,D5,C4:D4)',
    ]
    for i, f in enumerate(formulas, start=1):
        ws[f'F{i}'] = f
    xlsx = os.path.join(tmp_dir, 'w.xlsx')
    wb.save(xlsx)
    wb.close()
    out_py = os.path.join(tmp_dir, 'w_out.py')
    parser = Parser().set_excel_file_path(xlsx).write_translation(out_py)
    translation = parser.get_translation()
    executor = Executor().set_executed_class(class_file=out_py)
    for i, f in enumerate(formulas):
        emit('workbook', f, call(lambda: executor.get_cell(Cell(0, 5, i)).value))
    executor.set_cells([Cell(0, 0, 0, value=100), Cell(0, 1, 2, value=30), Cell(0, 2, 0, value=D(2023, 4, 6)),
                        Cell('W', 'D', '2', value=D(2023, 5, 8))])
    for i, f in enumerate(formulas):
        emit('workbook+override', f, call(lambda: executor.get_cell(Cell(0, 5, i)).value))

    # ------------------------------------------------------------ the two runtimes, called directly
    namespace = {}
    exec(compile(translation, 'generated_runtime', 'exec'), namespace)
    Generated = namespace['ExcelInPython']

    class HandWritten(AbstractExcelInPython):
        pass

    runtimes = [('base', HandWritten()), ('generated', Generated())]

    def helper_names(obj):
        return sorted(n for n in dir(type(obj)) if n.startswith('_') and not n.startswith('__')
                      and not n.startswith('_abc') and not n[1:2].isdigit())

    emit('helpers equal', helper_names(runtimes[0][1]) == helper_names(runtimes[1][1]), len(helper_names(runtimes[0][1])))

    def sum_if_cases(E):
        calls_seen = []

        def logging_criteria(x):
            calls_seen.append(x)
            return isinstance(x, (int, float)) and x > 2

        def raising_criteria(x):
            if x == 3:
                raise KeyError('boom')
            return True

        criteria = [
            ('>2', lambda x: isinstance(x, (int, float)) and x > 2),
            ('all', lambda x: True),
            ('none', lambda x: False),
            ('is_str', lambda x: isinstance(x, str)),
            ('logging', logging_criteria),
            ('raising', raising_criteria),
            ('truthy', lambda x: x),
        ]
        ranges = [
            ('empty', []), ('flat', [1, 2, 3, 4, 5]), ('col', [[1], [2], [3], [4], [5]]), ('row', [[1, 2, 3, 4, 5]]),
            ('nested', [[1, [2, [3]]], [[4], 5]]), ('mixed', [[1], ['a'], [3.5], [E()], [None], [True], [10]]),
            ('short', [[9]]), ('long', [[i] for i in range(12)]),
        ]
        sums = [
            ('empty', []), ('flat', [10, 20, 30, 40, 50]), ('col', [[10], [20], [30], [40], [50]]), ('row', [[10, 20, 30, 40, 50]]),
            ('holes', [[10], [None], [E()], [0], [''], [60], [7.5]]), ('short', [[100]]), ('long', [[i * 1.5] for i in range(12)]),
            ('strs', [['a'], ['b'], ['c']]), ('lists_inside', [[1, [2, [3]]], [[4], 5], 6]), ('none', None), ('scalar', 5),
            ('bools', [[True], [False], [True], [True]]), ('dates', [[D(2020, 1, 1)], [D(2020, 1, 2)]]),
        ]
        for (cn, c), (rn, r), (sn, s) in itertools.product(criteria, ranges, sums):
            del calls_seen[:]
            yield f'_sum_if {cn} {rn} {sn}', (r, c, s), lambda: show(list(calls_seen))
        yield '_sum_if default sum_range', ([[1], [5]], criteria[0][1]), lambda: ''
        yield '_sum_if range none', (None, criteria[0][1], [[1]]), lambda: ''
        yield '_sum_if range scalar', (3, criteria[0][1], [[1]]), lambda: ''

    def network_days_cases(E):
        starts_ends = [
            (D(2023, 4, 3), D(2023, 4, 7)), (D(2023, 4, 7), D(2023, 4, 3)), (D(2023, 4, 1), D(2023, 5, 31)),
            (D(2023, 5, 31), D(2023, 4, 1)), (D(2023, 4, 1), D(2023, 4, 1)), (D(2023, 4, 3), D(2023, 4, 3)),
            (D(2023, 4, 3, 23, 59), D(2023, 4, 4, 0, 1)), (D(2024, 2, 26), D(2024, 3, 4)), (D(2023, 12, 25), D(2024, 1, 8)),
            (40, D(2023, 4, 1)), (D(2023, 4, 1), 'ewewwewe'), ('', ''), (E(), E()), (None, None),
            (datetime.date(2023, 4, 3), datetime.date(2023, 4, 7)),
        ]
        holidays = [
            ('omitted', '-'), ('none', None), ('empty', []), ('empty_rows', [[], []]), ('none_rows', [None, None]),
            ('one', [[D(2023, 4, 5)]]), ('weekend', [[D(2023, 4, 1), D(2023, 4, 2)]]), ('dup', [[D(2023, 4, 5)], [D(2023, 4, 5)], [D(2023, 4, 5, 12)]]),
            ('matrix', [[D(2023, 4, 4), D(2023, 4, 6)], [D(2023, 5, 1), D(2023, 5, 9)]]),
            ('mixed', [[D(2023, 4, 4), 'x', None, E(), 5], None, [datetime.date(2023, 4, 6), D(2023, 4, 7)], []]),
            ('outside', [[D(2030, 1, 1)]]), ('xmas', [[D(2023, 12, 25), D(2023, 12, 26), D(2024, 1, 1)]]),
            ('leap', [[D(2024, 2, 29)]]), ('tuple_rows', [(D(2023, 4, 4),), (D(2023, 4, 5),)]), ('tuple', ((D(2023, 4, 4),),)),
            ('string', 'ab'), ('string_rows', ['2023-04-04']), ('flat_dates', [D(2023, 4, 4)]), ('scalar', 5), ('zero', 0),
            ('dict', {'a': 1}), ('generator_rows', [iter([D(2023, 4, 4)])]), ('blank', E()), ('true', True),
        ]
        for (s, e), (hn, h) in itertools.product(starts_ends, holidays):
            args = (s, e) if hn == 'omitted' else (s, e, h)
            if hn == 'generator_rows':
                args = (s, e, [iter([D(2023, 4, 4)])])
            yield f'_network_days {show(s)} {show(e)} {hn}', args, lambda: ''
        yield '_network_days kw', (D(2023, 4, 3), D(2023, 4, 7)), lambda: ''

    per_runtime = {}
    for runtime_name, runtime in runtimes:
        E = runtime.EmptyCell
        results = []
        for label, args, extra in sum_if_cases(E):
            outcome = call(runtime._sum_if, *args)
            results.append(f'{label} -> {outcome} {extra()}')
        for label, args, extra in network_days_cases(E):
            results.append(f'{label} -> ' + call(runtime._network_days, *args))
        results.append('_network_days kw -> ' + call(runtime._network_days, D(2023, 4, 3), D(2023, 4, 14),
                                                      holidays=[[D(2023, 4, 10)]]))
        # random stress, fixed seed
        rnd = random.Random(4)
        for n in range(400):
            size = rnd.randint(0, 9)
            r = [[rnd.choice([0, 1, 2, 3, 5, 8, 'a', None, E(), 2.5, True])] for _ in range(size)]
            s = [[rnd.choice([0, 1, 10, 100, None, E(), 0.25, False, True])] for _ in range(rnd.randint(0, 9))]
            threshold = rnd.randint(0, 6)
            results.append(f'rnd _sum_if {n} -> ' + call(runtime._sum_if, r, lambda x: isinstance(x, (int, float)) and x >= threshold, s))
            start = D(2023, 1, 1) + datetime.timedelta(days=rnd.randint(0, 500), hours=rnd.randint(0, 23))
            end = start + datetime.timedelta(days=rnd.randint(-40, 40))
            hol = [[rnd.choice([start + datetime.timedelta(days=rnd.randint(-45, 45)), None, 'x', E()])
                    for _ in range(rnd.randint(0, 4))] if rnd.random() > 0.15 else None
                   for _ in range(rnd.randint(0, 5))]
            results.append(f'rnd _network_days {n} -> ' + call(runtime._network_days, start, end, hol))
        per_runtime[runtime_name] = results
        emit(runtime_name, 'calls', len(results), hashlib.sha256('\n'.join(results).encode()).hexdigest())
        emit(runtime_name, 'ok', sum(' -> OK' in r for r in results), 'exc', sum(' -> EXC' in r for r in results))
        for r in results[::61]:
            emit(runtime_name, 'sample', r[:230])

    emit('copies agree', per_runtime['base'] == per_runtime['generated'])
finally:
    shutil.rmtree(tmp_dir, ignore_errors=True)

emit('tmp removed', not os.path.exists(tmp_dir))
print('\n'.join(LINES))
print('TOTAL', len(LINES), hashlib.sha256('\n'.join(LINES).encode()).hexdigest())
