"""Equivalence demo for r4 (RegexpBaseToken.get and Lexer.parse).

Calls get() of every regexp token class on many texts (formulas, all their suffixes, odd whitespace, empty
and multi-line texts), lexes many formulas, translates and evaluates a workbook, and finds the longest chain
of cells referring to each other that still translates under the default recursion limit.
"""
import datetime
import hashlib
import os
import re
import shutil
import sys
import tempfile

from openpyxl import Workbook

from excel2pycl import Parser, Executor, Cell
from excel2pycl.src.lexer import Lexer
from excel2pycl.src.tokens import RegexpBaseToken, KeywordRegexpBaseToken
from excel2pycl.src.tokens.base_token import BaseToken

FORMULAS = [
    '=1+2*3', '=(1+2)*3', '=-A1+5', '=2*-3', '=50%*2', '=A1%+1', '=A1&A3&"x"', '=A1+1>A2*2', '=1<2<3', '=1<>2', '=1>=2',
    '=1<=2', '=((1+2)*(3+4))', '="a"&"b"="ab"', '=TRUE()', '=FALSE', '=TRUE', '=""', '="a""b"', '="a', "='S'!A1*2",
    '=S!A1+T!A1', "='My Sheet'!$B$7", "='it''s'!A1", '=$A$1+A$2+$A3', '=A1:A3', '=A:A', '=A1:B2', '=$A$1:$B$2',
    '=S!A1:S!B2', '=S!A1:B2', '=A1:A', '=1:3', '=AA10+ZZ999', '=a1', '=A01', '=A1B2', '=A1:B2:C3', '=SUM(A1:A3)',
    '=SUM(A1;A2;3)', '=SUM(A1,A2,3)', '=SUM(A1~A2)', '=SUMIF(A1:A3, ">6")', '=SUMIFS($A$2:$A$9, $C$2:$C$9, "Tom")',
    '=COUNTIFS(A4:A7;"*")', '=COUNTIFS(A4:A7;"????ки")', '=COUNTIFS(A4:A7;"a~*b")', '=COUNTIFS(A4:A7;"a~?")',
    '=COUNTIFS(B4:B7;"<>"&B5)', '=IF(A1>5;"big";"small")', '=IFS(A1>89,"A",A1>79,"B")', '=IFERROR(A1/B1,5)',
    '=ROUND(A2, 2)', '=ROUNDUP(A2)', '=ROUNDDOWN(A2,)', '=VLOOKUP(5, D4:D13, 1, FALSE())', '=MATCH(30;T4:T12;1)',
    '=XMATCH(50;U4:U12;1;1)', '=INDEX((A1:C1; A1:A3; A1:C3);3;3;3)', '=INDEX(A1:A3&B1:B3, 0)',
    '=DATE(2024, 5, 24) - TODAY()', '=DATEDIF(A4, A5, "D")', '=DAY(TODAY())', '=EDATE(B4, 2)', '=EOMONTH(B4, -2)',
    '=NETWORKDAYS(A1,B1,A3:B4)', '=LEFT(A3,2)', '=RIGHT(A3,-2)', '=MID(A3, 1, 5)', '=SEARCH(A2,B2,2)',
    '=ADDRESS(3;7;2;FALSE;"mid")', '=COLUMN()', '=CONCATENATE("при", 123, "вет")', '=TEXT("1234567", "#,##0")',
    '=VALUE(50% /100)', '=AVERAGEIFS(A1:A3;B1:B3;">0")', '=COUNT(B6:H6; 2; 3)', '=COUNTBLANK(A1:E2)', '=AND(C4, C5)',
    '=OR(B4, B5)', '=MIN(A1:A3)', '=MAX(A1:A3;B1)', '=AVERAGE(A1:A3)', '=YEAR(B4)', '=MONTH(B4)',
    # literals
    '=0.1+0.2', '=1e3+1', '=1.5e-3*2', '=1E3', '=123456789012345678', '=1.0', '=007', '=1e-7', '=1e400', '=.5', '=5.',
    '=1.2.3', '=1e', '=1e+3', '=1.e3', '=12345678901234567890', '=1.7976931348623157e308', '=4.9e-324',
    # whitespace and odd characters
    '=1 + 2', '= 1+2', '=1+2 ', '=1+2\n', '=1+\n2', '=1\t+\t2', '=\n1+2', '=1+2\r\n', '=1 +2', '=1 +2',
    '= ', '=', '==', '=  =1', ' =1', '=@A1', '=#REF!', '=A1!', '=1;2', "='a'", '=\\', '={1,2}', '=[1]', '=A1^2',
    '=SUM (1)', '=SUMX(1)', '=XSUM(1)', '=sum(1)', '=Sum(1)', '=IFS', '=IFERRORX', '=COUNTIFSS(1)', '=ROUNDUPDOWN(1)',
    '=DATEDIFF(1)', '=TODAYS()', '=TRUEFALSE', '=TRUE1', '=FALSE()()', '=A1TRUE', '=МОЙ(1)', '="мир"&"труд"',
    '=NOSUCH(1)', '=1+' * 50 + '1', '=' + '(' * 6, '=' + '"' * 7, '=' + ' ' * 50 + '1',
]

EXTRA_TEXTS = ['', ' ', '\n', '\t 1', '1', '1 ', '1\n', '1\n2', 'A1', 'A1:', 'A1:B', 'A1:B2', 'A1:B2:', '$A$1', '$A1:$A', 'A:A',
               'A:B', 'A1:A9', 'A1:B1', 'A1:B9', "'S'!A1", "'S'!A1:B2", 'S!A1', 'S!', '!A1', '"x"', '"x" ', '"*"', '"~*"',
               '"a?b"', '"?"', '"~?"', '"~"', '"a~"', '""', '"', '" "', 'TRUE', 'TRUE()', 'TRUE(', 'FALSE()', '%', '%%',
               '&', '&&', '<>', '<=', '>=', '=<', '<', '>', '=', '+', '-', '*', '/', '(', ')', ';', ',', '~', 'SUM', 'SUMIF',
               'SUMIFS', 'SUMIFS(', 'COUNT', 'COUNTBLANK', 'COUNTIFS', 'IF', 'IFS', 'IFERROR', 'ROUND', 'ROUNDUP',
               'ROUNDDOWN', 'DATE', 'DATEDIF', 'DAY', 'MATCH', 'XMATCH', 'MIN', 'MID', 'MAX', 'OR', 'AND', 'AVERAGE',
               'AVERAGEIFS', 'TEXT', 'TODAY', 'VALUE', 'VLOOKUP', 'YEAR', 'EDATE', 'EOMONTH', 'INDEX', 'LEFT', 'RIGHT',
               'SEARCH', 'ADDRESS', 'COLUMN', 'CONCATENATE', 'NETWORKDAYS', 'MONTH', '1e5', '1.5', '1.', '.5', '1e-5x',
               '12abc', '1 2', '1 2', '٣', '１２', 'Ａ１', 'a1', 'A1' * 20, '9' * 400, 'A' * 300 + '1', '"' + 'x' * 300 + '"']

DATA = {
    'A1': 10, 'A2': 3.5, 'A3': 'text', 'A4': datetime.datetime(2020, 1, 1), 'A5': datetime.datetime(2021, 3, 4),
    'B1': 0, 'B2': -2, 'B3': '', 'B4': datetime.datetime(2020, 1, 15), 'B5': 0.1, 'C4': True, 'C5': False,
    'D4': 5, 'D5': 6, 'T4': 10, 'T5': 30, 'U4': 50,
}

out = []


def emit(*parts):
    out.append(' | '.join(str(p) for p in parts))


def show(value):
    return f'{type(value).__name__}:{value!r}'[:160]


def attempt(function):
    try:
        return 'ok', function()
    except BaseException as e:  # noqa
        if isinstance(e, (KeyboardInterrupt, SystemExit)):
            raise
        return 'exc', f'{type(e).__qualname__}: {str(e)[:300]}'


def dump(token):
    if isinstance(token, BaseToken):
        extra = ''
        for name in ('cell', 'range', 'matrix'):
            if hasattr(type(token), name):
                extra += f' {name}={getattr(token, name)!r}'
        return f'{type(token).__name__}({token.value!r}{extra})'
    return repr(token)


def members(text):
    return re.findall(r'    def (_\w+)\(self\):\n        return (.*)', text)


def main():
    assert sys.getrecursionlimit() == 1000
    tmp = tempfile.mkdtemp(prefix='t31r4_')
    try:
        cell = Cell('S', 2, 3)
        classes = list(Lexer.TOKENS)
        emit('TOKEN CLASSES', [c.__name__ for c in classes])
        emit('KEYWORDS', [c.__name__ for c in KeywordRegexpBaseToken.subclasses()])

        # 1. every class on every text
        texts = []
        for formula in FORMULAS:
            for i in range(len(formula) + 1):
                texts.append(formula[i:])
        texts = list(dict.fromkeys(texts + EXTRA_TEXTS))
        emit('TEXTS', len(texts))
        for text in texts:
            results = []
            for token_class in classes:
                if not issubclass(token_class, RegexpBaseToken):
                    continue
                status, result = attempt(lambda: token_class.get(text, cell))
                if status == 'exc':
                    results.append(f'{token_class.__name__}: {result}')
                elif result[0] is not None:
                    results.append(f'{dump(result[0])} REST {result[1]!r}')
                elif result[1] is not text:
                    results.append(f'{token_class.__name__}: other object returned {result[1]!r}')
            emit('GET', repr(text[:70]), len(text), hashlib.sha256('\n'.join(results).encode()).hexdigest()[:12],
                 results[:3])

        # 2. the lexer
        for formula in FORMULAS + EXTRA_TEXTS:
            status, result = attempt(lambda: Lexer.parse(formula, cell))
            emit('LEX', repr(formula[:70]), len(formula), status,
                 [dump(t) for t in result] if status == 'ok' else result)
        for text in (None, 5, b'=1', ['=1'], ()):
            emit('LEX', repr(text), *attempt(lambda: [dump(t) for t in Lexer.parse(text, cell)]))

        # 3. a workbook: every formula by entry point, value where it loads
        xlsx = os.path.join(tmp, 'book.xlsx')
        wb = Workbook()
        ws = wb.active
        ws.title = 'S'
        for address, value in DATA.items():
            ws[address] = value
        usable = [f for f in FORMULAS if '\r' not in f]
        for i, formula in enumerate(usable):
            ws.cell(row=i + 1, column=12).value = formula
        wb.create_sheet('T')['A1'] = 99
        wb.create_sheet('My Sheet')['B7'] = 'seven'
        wb.create_sheet("it's")['A1'] = 1
        wb.save(xlsx)
        emit('WHOLE', *attempt(lambda: len(Parser().set_excel_file_path(xlsx).disable_safety_check().get_translation())))
        for i, formula in enumerate(usable):
            parser = Parser().set_excel_file_path(xlsx).disable_safety_check().set_entrypoint_cell(Cell(0, 11, i))
            status, text = attempt(parser.get_translation)
            if status != 'ok':
                emit('ENTRY', repr(formula[:70]), 'TRANSLATE', text)
                continue
            emit('ENTRY', repr(formula[:70]), 'MEMBERS', members(text))
            py = os.path.join(tmp, f'f{i}.py')
            parser.write_translation(py)
            value = attempt(lambda: show(Executor().set_executed_class(class_file=py)
                                         .get_cell(Cell('S', 'L', str(i + 1))).value))
            if 'TODAY' in formula and value[0] == 'ok':
                value = ('ok', 'depends on the day')
            emit('ENTRY', repr(formula[:70]), 'VALUE', *value)

        # 4. chains of cells: A1 refers to A2, A2 to A3 ... the longest chain that translates
        for label, link in (('plus', '=A{n}+1'), ('percent', '=A{n}%'), ('sum', '=SUM(A{n};1)'), ('if', '=IF(A{n}>0;A{n};0)'),
                            ('broken', '=A{n}+1')):
            length = 400
            chain = os.path.join(tmp, f'chain_{label}.xlsx')
            wb = Workbook()
            ws = wb.active
            for n in range(1, length):
                ws.cell(row=n, column=1).value = link.format(n=n + 1)
            ws.cell(row=length, column=1).value = '=1+@' if label == 'broken' else 1
            wb.save(chain)

            def translates(links):
                # entry point so many links above the end of the chain
                parser = Parser().set_excel_file_path(chain).disable_safety_check() \
                    .set_entrypoint_cell(Cell(0, 0, length - 1 - links))
                status, text = attempt(parser.get_translation)
                return status, (hashlib.sha256(text.encode()).hexdigest()[:12] if status == 'ok' else text[:90])

            for links in (0, 1, 2, 10, 50):
                emit('CHAIN', label, links, *translates(links))
            low, high = 0, length - 1
            emit('CHAIN', label, high, *translates(high))
            if translates(low)[1] != translates(high)[1]:
                while high - low > 1:
                    middle = (low + high) // 2
                    if translates(middle)[1] == translates(low)[1] or translates(middle)[0] == 'ok':
                        low = middle
                    else:
                        high = middle
                emit('CHAIN', label, 'last like the short ones', low, translates(low)[0], 'first other', high,
                     *translates(high))
    finally:
        shutil.rmtree(tmp, ignore_errors=True)

    body = '\n'.join(out)
    print(body)
    print('LINES', len(out))
    print('DIGEST', hashlib.sha256(body.encode('utf-8')).hexdigest())


if __name__ == '__main__':
    main()
    sys.exit(0)
