"""Equivalence demo for r1: runtime _find_error_in_list / _ifs (both copies)."""
import datetime
import hashlib
import os
import shutil
import tempfile

from openpyxl import Workbook

from excel2pycl import Parser, Executor, Cell
from excel2pycl.src.object_loader import load_module
from excel2pycl.src.utilities.abstract_excel_in_python_class import AbstractExcelInPython


class Direct(AbstractExcelInPython):
    pass


def show(value):
    return f'{type(value).__name__}:{value!r}'


def attempt(fn, *args):
    try:
        return show(fn(*args))
    except BaseException as exc:  # noqa
        return f'EXC:{type(exc).__name__}:{exc}'


class Odd:
    """Equal to '#REF!' but falsy."""
    def __eq__(self, other):
        return other == '#REF!'

    def __bool__(self):
        return False

    def __repr__(self):
        return 'Odd()'


class Boom:
    def __eq__(self, other):
        raise ValueError('boom-eq')

    def __bool__(self):
        raise KeyError('boom-bool')

    def __repr__(self):
        return 'Boom()'


ERRORS = ['#NUM!', '#DIV/0!', '#N/A', '#NAME?', '#NULL!', '#REF!', '#VALUE!']


def helper_inputs(instance):
    empty = instance.EmptyCell()
    lists = [
        [], [True, 1], [False, 1], [False, 1, True, 2], [False, 1, False, 2], [0, 'a', 0.0, 'b', '', 'c'],
        [0, 'a', 0.0, 'b', 'x', 'c'], [True], [False], [False, 1, True], [False, 1, False], [1, 2, 3],
        [empty, 1, empty, 2], [empty, 1, 1, empty], [None, 1, 'yes', None], [[], 1, [0], 2],
        [datetime.datetime(2020, 1, 1), 'date'], [-1, 'neg'], [0.0, 'zero', -0.0, 'negzero', 1e-300, 'tiny'],
        ['#n/a', 1], ['#N/A ', 1], [' #N/A', 1], ['#DIV/0', 1], [False, '#DIV/0!'], [True, 1, False, '#REF!'],
        [True, 1, '#NUM!', '#NAME?'], ['#NAME?', '#NUM!'], [Odd(), 1], [False, Odd()], [False, 2, Odd(), 3],
        [Boom(), 1], [False, 1, Boom(), 2], [True, Boom()], (True, 'tuple'), (False, 1, '#NULL!'), 'ab', '', 'abc',
        5, None, {0: True, 1: 'dict'}, {1: 2}, range(4), [True, [1, 2]], [[['#N/A']], 1], [float('nan'), 'nan'],
        [float('inf'), 'inf'], ['0', 'strzero'], [b'', 'b', b'x', 'bx'],
    ]
    lists += [[False, i, e, i + 1] for i, e in enumerate(ERRORS)]
    lists += [[e] for e in ERRORS] + [[0, 0, 0, e] for e in ERRORS]
    lists += [[False, k] * n + [True, n] for k in (0, 1) for n in range(0, 6)]
    return lists


def run_helpers(label, instance, out):
    for index, data in enumerate(helper_inputs(instance)):
        out.append(f'{label} find[{index}] {attempt(instance._find_error_in_list, data)}')
        out.append(f'{label} ifs[{index}] {attempt(instance._ifs, data)}')
        out.append(f'{label} iferror[{index}] {attempt(instance._iferror, lambda d=data: instance._ifs(d), "FB")}')
        out.append(f'{label} count_blank[{index}] {attempt(instance._count_blank, data)}')
    # generators are consumed once
    out.append(f'{label} find-gen {attempt(instance._find_error_in_list, (x for x in [1, "#N/A", "#REF!"]))}')
    out.append(f'{label} find-iter {attempt(instance._find_error_in_list, iter([]))}')
    for value in [1, 0, '', 'x', None, [], [1]] + ERRORS + ['#GETTING_DATA', Odd()]:
        out.append(f'{label} iferror-const {value!r} {attempt(instance._iferror, lambda v=value: v, "FB")}')


FORMULAS = [
    '=IFS(A1>5,"big",A1>1,"mid",TRUE,"small")',
    '=IFS(A1>50,"big",A1>10,"mid")',
    '=IFS(A2,"a2",A3,"a3",A4,"a4")',
    '=IFS(A5="x",1,A5="y",2)',
    '=IFS(A9,1,TRUE,2)',
    '=IFS(FALSE,1/0,TRUE,7)',
    '=IFERROR(IFS(A1>50,"big"),"none")',
    '=IFERROR(IFS(A1>1,A6),"err")',
    '=IFS(A1>1,A6,TRUE,3)',
    '=IFS(A7>0,"pos",A7<0,"neg",A7=0,"zero")',
    '=IF(IFS(A1>1,TRUE),IFS(A1>5,"x",TRUE,"y"),"z")',
    '=IFS(A1>1,IFS(A1>2,IFS(A1>3,"deep",TRUE,"d3"),TRUE,"d2"),TRUE,"d1")&"!"',
    '=1+IFS(A2,10,TRUE,20)*2',
    '=IFS(A8,"text-true")',
    '=IFS(A1:A4,1)',
    '=SUM(IFS(A3,A1,TRUE,0),IFS(A2,A1,TRUE,0))',
    '=IFS(A1>1,"a",A1>1,"b")',
    '=IFS(0,"a",0.0,"b",A9,"c","","d")',
    '=IFERROR(IFS(A6,1),"caught")',
    '=COUNTBLANK(A1:A10)',
]


def run_workbook(tmp, out):
    wb = Workbook()
    ws = wb.active
    ws.title = 'S'
    for row, value in enumerate([3, False, True, 0, 'y', '#DIV/0!', -2.5, 'text', None, 100], start=1):
        if value is not None:
            ws.cell(row=row, column=1, value=value)
    for row, formula in enumerate(FORMULAS, start=1):
        ws.cell(row=row, column=3, value=formula)
    path = os.path.join(tmp, 'book.xlsx')
    wb.save(path)
    out_py = os.path.join(tmp, 'book.py')
    Parser().set_excel_file_path(path).write_translation(out_py)
    text = open(out_py, encoding='utf-8').read()
    functions = text[text.index('    def _0_'):]
    out.append('functions ' + hashlib.sha256(functions.encode()).hexdigest())
    overrides = [[], [('A', '1', 0)], [('A', '1', 7)], [('A', '1', 60)], [('A', '2', True), ('A', '3', False)],
                 [('A', '6', 5)], [('A', '7', 0)], [('A', '7', 3)], [('A', '9', '#NAME?')], [('A', '5', 'x')],
                 [('A', '1', '#REF!')], [('A', '8', '')]]
    for override in overrides:
        executor = Executor().set_executed_class(class_file=out_py)
        if override:
            executor.set_cells([Cell('S', c, r, value=v) for c, r, v in override])
        for row in range(1, len(FORMULAS) + 1):
            out.append(f'wb {override} C{row} ' + attempt(lambda: executor.get_cell(Cell('S', 'C', str(row))).value))
    generated = load_module(out_py).ExcelInPython()
    run_helpers('generated', generated, out)


def main():
    out = []
    run_helpers('class', Direct(), out)
    tmp = tempfile.mkdtemp(prefix='r1demo')
    try:
        run_workbook(tmp, out)
    finally:
        shutil.rmtree(tmp, ignore_errors=True)
    for line in out:
        print(line)
    print('lines', len(out), 'digest', hashlib.sha256('\n'.join(out).encode()).hexdigest())


if __name__ == '__main__':
    main()
