"""Equivalence demo for the MATCH / XMATCH runtime helpers (C20), exercised in BOTH copies of the runtime:
the importable AbstractExcelInPython and the ExcelInPython class emitted by the translator.

Run as: PYTHONPATH=<tree> /venv/bin/python demo.py
Prints a deterministic digest; must be identical on the unchanged and on the refactored tree.
"""
import datetime
import hashlib
import itertools
import os
import shutil
import tempfile

from openpyxl import Workbook

from excel2pycl import Parser, Executor, Cell
from excel2pycl.src.utilities.abstract_excel_in_python_class import AbstractExcelInPython

LINES = []


def emit(*parts):
    LINES.append(' | '.join(str(p) for p in parts))


def show(value):
    if isinstance(value, list):
        return '[' + ', '.join(show(v) for v in value) + ']'
    return f'{type(value).__name__}:{value!r}'


def call(func, *args, **kwargs):
    try:
        return 'OK ' + show(func(*args, **kwargs))
    except Exception as e:
        return f'EXC {type(e).__name__}: {e}'


tmp_dir = tempfile.mkdtemp(prefix='t20_r3_')
try:
    # ------------------------------------------------------------ the two runtimes
    wb = Workbook()
    ws = wb.active
    ws.title = 'M'
    for i, v in enumerate([1, 3, 5, 7, 9], start=1):
        ws[f'A{i}'] = v
    for i, v in enumerate(['apple', 'Banana', 'cherry', 'date', 'Elder'], start=1):
        ws[f'B{i}'] = v
    for i, v in enumerate([9, 7, 5, 3, 1], start=1):
        ws[f'C{i}'] = v
    for i, v in enumerate([1, 2.5, None, 'x', 4], start=1):
        ws[f'D{i}'] = v
    formulas = [
        '=MATCH(5,A1:A5,0)', '=MATCH(6,A1:A5,1)', '=MATCH(6,C1:C5,-1)', '=MATCH(6,A1:A5,0)', '=MATCH("banana",B1:B5,0)',
        '=MATCH("c",B1:B5,1)', '=MATCH(0,A1:A5,1)', '=MATCH(10,A1:A5,1)', '=MATCH(10,C1:C5,-1)', '=MATCH(2.5,D1:D5,0)',
        '=MATCH(3,D1:D5,1)', '=MATCH(5,A1:A5)', '=MATCH(1,A1:A5,2)', '=MATCH(4,C1:C5,-3)',
        '=XMATCH(5,A1:A5)', '=XMATCH(6,A1:A5,-1)', '=XMATCH(6,A1:A5,1)', '=XMATCH(5,A1:A5,0,-1)', '=XMATCH(6,A1:A5,-1,2)',
        '=XMATCH(6,A1:A5,1,2)', '=XMATCH(6,C1:C5,-1,-2)', '=XMATCH(6,C1:C5,1,-2)', '=XMATCH(7,A1:A5,0,2)', '=XMATCH(7,A1:A5,0,3)',
        '=XMATCH("date",B1:B5,0,1)', '=XMATCH(100,A1:A5,0,2)',
    ]
    for i, f in enumerate(formulas, start=1):
        ws[f'F{i}'] = f
    xlsx = os.path.join(tmp_dir, 'm.xlsx')
    wb.save(xlsx)
    wb.close()
    out_py = os.path.join(tmp_dir, 'm_out.py')
    parser = Parser().set_excel_file_path(xlsx).write_translation(out_py)
    translation = parser.get_translation()
    executor = Executor().set_executed_class(class_file=out_py)
    for i, f in enumerate(formulas):
        emit('workbook', f, call(lambda: executor.get_cell(Cell(0, 5, i)).value))
    # the same cells after overriding a key of the lookup column
    executor.set_cells([Cell(0, 0, 2, value=6), Cell(0, 2, 2, value=6)])
    for i, f in enumerate(formulas):
        emit('workbook+override', f, call(lambda: executor.get_cell(Cell(0, 5, i)).value))

    namespace = {}
    exec(compile(translation, 'generated_runtime', 'exec'), namespace)
    Generated = namespace['ExcelInPython']

    class HandWritten(AbstractExcelInPython):
        pass

    runtimes = [('base', HandWritten()), ('generated', Generated())]

    def helper_names(obj):
        return sorted(n for n in dir(type(obj)) if n.startswith('_') and not n.startswith('__')
                      and not n.startswith('_abc') and not n[1:2].isdigit())

    emit('helpers base', helper_names(runtimes[0][1]))
    emit('helpers generated', helper_names(runtimes[1][1]))
    emit('helpers equal', helper_names(runtimes[0][1]) == helper_names(runtimes[1][1]))

    # ------------------------------------------------------------ direct calls
    def arrays(E):
        return [
            ('empty', []),
            ('asc', [[1], [3], [5], [7], [9]]),
            ('desc', [[9], [7], [5], [3], [1]]),
            ('dups', [[1], [1], [2], [2], [2], [3]]),
            ('floats', [[0.5], [1], [1.5], [2.0], [3]]),
            ('mixed', [[1], ['a'], [2.5], [E()], ['B'], [None], [True], [3]]),
            ('strs', [['apple'], ['Banana'], ['cherry'], ['DATE']]),
            ('strs_desc', [['date'], ['Cherry'], ['banana'], ['Apple']]),
            ('blanks', [[E()], [E()], [2], [E()]]),
            ('bools', [[False], [True], [False]]),
            ('dates', [[datetime.datetime(2020, 1, 1)], [datetime.datetime(2021, 1, 1)], [datetime.datetime(2022, 1, 1)]]),
            ('wide', [[1, 'x'], [2, 'y'], [3, 'z']]),
            ('one', [[5]]),
            ('unsorted', [[5], [1], [9], [3], [7]]),
        ]

    def lookups(E):
        return [0, 1, 2, 5, 6, 10, -1, 1.0, 2.5, 2.0, True, False, 'a', 'B', 'banana', 'CHERRY', 'zzz', '', E(), None,
                datetime.datetime(2021, 1, 1), datetime.datetime(2021, 6, 1), [1]]

    MATCH_TYPES = [0, 1, -1, 2, -5, True, False, 0.0, -0.0, 1.5, -0.5, float('nan'), None, '1', 'x', [0]]
    MATCH_MODES = [0, -1, 1, 2, None, 'a', 1.0, -1.0, True, False]
    SEARCH_MODES = [1, -1, 2, -2, 0, 3, None, '1', 1.0, -1.0, 2.0, -2.0, True, False, [1]]

    per_runtime = {}
    for runtime_name, runtime in runtimes:
        E = runtime.EmptyCell
        results = []
        for (array_name, array), (lookup_index, lookup), match_type in itertools.product(
                arrays(E), enumerate(lookups(E)), MATCH_TYPES):
            results.append(f'_match {array_name} {show(lookup)} {match_type!r} -> '
                           + call(runtime._match, lookup, array, match_type))
        for array_name, array in arrays(E):
            for lookup in lookups(E):
                results.append(f'_match/default {array_name} {show(lookup)} -> ' + call(runtime._match, lookup, array))
                results.append(f'_xmatch/default {array_name} {show(lookup)} -> ' + call(runtime._xmatch, lookup, array))
        for (array_name, array), lookup, match_mode, search_mode in itertools.product(
                arrays(E), [0, 1, 5, 6, 2.5, 'banana', 'CHERRY', E(), None, datetime.datetime(2021, 6, 1)],
                MATCH_MODES, SEARCH_MODES):
            results.append(f'_xmatch {array_name} {show(lookup)} {match_mode!r} {search_mode!r} -> '
                           + call(runtime._xmatch, lookup, array, match_mode, search_mode))
        results.append('_xmatch/kw -> ' + call(runtime._xmatch, 5, [[1], [5]], search_mode=-1))
        results.append('_xmatch/kw -> ' + call(runtime._xmatch, 5, [[1], [5]], match_mode=1, search_mode=2))
        results.append('_match/kw -> ' + call(runtime._match, 5, [[1], [5]], match_type=-1))
        per_runtime[runtime_name] = results
        emit(runtime_name, 'calls', len(results), hashlib.sha256('\n'.join(results).encode()).hexdigest())
        emit(runtime_name, 'ok', sum(' -> OK' in r for r in results), 'exc', sum(' -> EXC' in r for r in results),
             'n/a', sum("'#N/A'" in r for r in results), 'error', sum("'#ERROR!'" in r for r in results),
             'none', sum('NoneType:None' in r.split(' -> ')[1] for r in results))
        # a readable sample
        for r in results[::397]:
            emit(runtime_name, 'sample', r)

    emit('copies agree', per_runtime['base'] == per_runtime['generated'])
finally:
    shutil.rmtree(tmp_dir, ignore_errors=True)

emit('tmp removed', not os.path.exists(tmp_dir))
print('\n'.join(LINES))
print('TOTAL', len(LINES), hashlib.sha256('\n'.join(LINES).encode()).hexdigest())
