"""Equivalence demo for r2: translators of LEFT / RIGHT / SEARCH (optional argument) and CONCATENATE.

Builds a workbook full of text formulas (optional arguments present / omitted / nested, malformed ones too),
translates (a) the whole file and (b) every formula cell on its own as entry point, and prints the generated
code of every cell function, every evaluated value / exception class name, and a sha256 of the whole class text.
"""
import hashlib
import os
import shutil
import tempfile

from openpyxl import Workbook

from excel2pycl import Parser, Executor, Cell

LINES = []


def emit(line):
    LINES.append(line)
    print(line)


def show(value):
    return f'{type(value).__name__}:{value!r}'


GOOD = [
    '=LEFT(data!A1)', '=LEFT(data!A1,3)', '=LEFT(data!A1,0)', '=LEFT(data!A1,100)', '=LEFT(data!A1,-1)',
    '=LEFT(data!A1,data!C1)', '=LEFT(data!A4)', '=LEFT(data!A4,2)', '=LEFT("abc")', '=LEFT("abc",2)',
    '=LEFT("abc",1+1)', '=LEFT(LEFT(data!A1,8),2)', '=LEFT(RIGHT(data!A1,5))', '=LEFT(data!A1,SEARCH(" ",data!A1))',
    '=LEFT(data!A1,SEARCH(" ",data!A1,1)-1)', '=LEFT(data!A1&data!A2,14)', '=LEFT(CONCATENATE(data!A1,data!A2))',
    '=RIGHT(data!A1)', '=RIGHT(data!A1,3)', '=RIGHT(data!A1,0)', '=RIGHT(data!A1,100)', '=RIGHT(data!A1,-2)',
    '=RIGHT(data!A1,data!C1)', '=RIGHT(data!A4)', '=RIGHT(data!A4,1)', '=RIGHT("abc")', '=RIGHT("abc",2)',
    '=RIGHT(LEFT(data!A1,5),2)', '=RIGHT(RIGHT(data!A1,4))', '=RIGHT(data!A1,LEFT("3x"))',
    '=MID(data!A1,1,5)', '=MID(data!A1,7,100)', '=MID(data!A1,0,2)', '=MID(data!A1,2,-1)', '=MID(data!A1,50,2)',
    '=MID(data!A1,data!C1,data!C2)', '=MID(LEFT(data!A1,8),2,3)',
    '=SEARCH("o",data!A1)', '=SEARCH("o",data!A1,6)', '=SEARCH("O",data!A1,data!C1)', '=SEARCH("w?r",data!A1)',
    '=SEARCH("w*d",data!A1,2)', '=SEARCH("zz",data!A1)', '=SEARCH(data!A3,data!A1)', '=SEARCH(data!A3,data!A1,2)',
    '=SEARCH(LEFT(data!A3),data!A1,SEARCH("l",data!A1))', '=SEARCH("l",data!A1,SEARCH("l",data!A1)+1)',
    '=SEARCH("a","abc",0)', '=SEARCH("a","abc",9)',
    '=CONCATENATE(data!A1)', '=CONCATENATE(data!A1,data!A2)', '=CONCATENATE(data!A1," ",data!A2,"!")',
    '=CONCATENATE(data!C1,data!C2,data!C3)', '=CONCATENATE(data!A4,"x",data!A4)', '=CONCATENATE(data!D1,"|",data!D2)',
    '=CONCATENATE(LEFT(data!A1),RIGHT(data!A1),MID(data!A1,3,2))', '=CONCATENATE(LEFT(data!A1,2),RIGHT(data!A1,2))',
    '=CONCATENATE(1,2,3)', '=CONCATENATE("a",1+1,"b")', '=CONCATENATE(data!A1&"-",data!A2)',
    '=CONCATENATE(CONCATENATE(data!A1,"1"),CONCATENATE("2",data!A2))', '=CONCATENATE(TRUE,FALSE)',
    '=data!A1&data!A2', '=data!A1&" "&data!A2', '=data!C1&data!C2', '=data!A4&"x"', '=data!D1&data!D2',
    '=LEFT(data!A1,2)&RIGHT(data!A1,2)', '=LEFT(data!A1)&RIGHT(data!A1)', '=VALUE(LEFT(data!B1,2))+VALUE(RIGHT(data!B1))',
    '=VALUE(CONCATENATE(data!C1,data!C2))', '=VALUE(data!B1)', '=VALUE(MID(data!B1,2,2))',
    '=IF(LEFT(data!A1)="H",RIGHT(data!A1,5),LEFT(data!A2,3))', '=IF(SEARCH("W",data!A1)>3,CONCATENATE("y",data!C1),"n")',
    '=IFERROR(SEARCH("q",data!A1),LEFT(data!A2))', '=SUM(SEARCH("e",data!A1),SEARCH("e",data!A1,3))',
    '=LEFT(data!A1,2)=LEFT(data!A3,2)', '=LEFT(data!A1, 2 )', '=RIGHT( data!A1 )',
]
BAD = [
    '=LEFT()', '=LEFT(data!A1,)', '=LEFT(data!A1,1,2)', '=RIGHT()', '=RIGHT(data!A1,1,2)', '=SEARCH("a")',
    '=SEARCH("a","b",1,2)', '=SEARCH(,"b")', '=MID(data!A1,1)', '=CONCATENATE()', '=CONCATENATE(data!A1,)',
    '=LEFT(data!A1', '=LEFT(nosheet!A1,2)', '=RIGHT(data!A1,nosheet!B2)', '=SEARCH("a",data!A1,nosheet!B2)',
    '=CONCATENATE(data!A1,nosheet!A1)', '=LEFT(f!B1,1)', '=CONCATENATE("a",f!C1)',
]


def build(path):
    import datetime
    wb = Workbook()
    ws = wb.active
    ws.title = 'data'
    ws['A1'], ws['A2'], ws['A3'] = 'Hello World', 'second text', 'wor'
    ws['B1'] = '1234'
    ws['C1'], ws['C2'], ws['C3'] = 3, 4.5, True
    ws['D1'], ws['D2'] = datetime.datetime(2024, 2, 29), datetime.datetime(1999, 12, 31, 13, 30)
    fs = wb.create_sheet('f')
    for i, formula in enumerate(GOOD):
        fs.cell(row=i + 1, column=1, value=formula)
    # self-referencing cells used by two BAD formulas (circular reference)
    fs['B1'] = '=LEFT(f!B1,1)'
    fs['C1'] = '=CONCATENATE("a",f!C1)'
    bs = wb.create_sheet('bad')
    for i, formula in enumerate(BAD):
        bs.cell(row=i + 1, column=1, value=formula)
    wb.save(path)
    wb.close()


def function_lines(text):
    """(name, code) of the generated cell functions, i.e. everything after the runtime helpers."""
    tail = text[text.rindex("return '#VALUE!'"):]
    lines = tail.splitlines()
    result = []
    for a, b in zip(lines, lines[1:]):
        if a.startswith('    def _') and b.startswith('        return '):
            result.append((a.strip()[4:-7], b.strip()[7:]))
    return result


def main():
    tmp = tempfile.mkdtemp(prefix='t19_r2_')
    try:
        xlsx = os.path.join(tmp, 'text.xlsx')
        build(xlsx)

        # (b) every formula cell on its own as entry point
        for sheet, formulas in (('f', GOOD), ('bad', BAD)):
            for i, formula in enumerate(formulas):
                out_py = os.path.join(tmp, f'ep_{sheet}_{i}.py')
                try:
                    parser = Parser().set_excel_file_path(xlsx).set_entrypoint_cell(Cell(sheet, 0, i))
                    parser.write_translation(out_py)
                    text = parser.get_translation()
                except Exception as e:  # noqa
                    emit(f'{sheet}!A{i + 1} {formula} -> translation raised {type(e).__name__}: {e}')
                    continue
                emit(f'{sheet}!A{i + 1} {formula} -> class sha {hashlib.sha256(text.encode()).hexdigest()[:16]}')
                for name, code in function_lines(text):
                    emit(f'    {name}: {code}')
                try:
                    value = Executor().set_executed_class(class_file=out_py).get_cell(Cell(sheet, 0, i)).value
                    emit(f'    value {show(value)}')
                except Exception as e:  # noqa
                    emit(f'    evaluation raised {type(e).__name__}')

        # (a) whole file (sheet "bad" cannot be translated, so use a copy without it)
        from openpyxl import load_workbook
        wb = load_workbook(xlsx)
        del wb['bad']
        wb['f']['B1'] = None
        wb['f']['C1'] = None
        whole = os.path.join(tmp, 'whole.xlsx')
        wb.save(whole)
        wb.close()
        out_py = os.path.join(tmp, 'whole.py')
        parser = Parser().set_excel_file_path(whole)
        parser.write_translation(out_py)
        text = parser.get_translation()
        emit(f'whole file class sha256 {hashlib.sha256(text.encode()).hexdigest()}')
        emit(f'whole file functions {len(function_lines(text))}')
        executor = Executor().set_executed_class(class_file=out_py)
        emit(f'titles {executor.get_executed_class().get_titles()} sizes {executor.get_executed_class().get_sheets_size()}')

        def dump(tag):
            for i, formula in enumerate(GOOD):
                try:
                    emit(f'{tag} f!A{i + 1} -> {show(executor.get_cell(Cell("f", "A", str(i + 1))).value)}')
                except Exception as e:  # noqa
                    emit(f'{tag} f!A{i + 1} -> raised {type(e).__name__}')

        dump('whole')
        executor.set_cells([Cell('data', 'A', '1', value='Other words'), Cell('data', 'C', '1', value=6),
                            Cell('data', 'A', '3', value='?r')])
        dump('changed')
        executor.set_cells([Cell('data', 'A', '1', value=''), Cell('data', 'C', '1', value=-1)])
        dump('emptied')
    finally:
        shutil.rmtree(tmp, ignore_errors=True)
    emit(f'lines: {len(LINES)}')
    print('sha256:', hashlib.sha256('\n'.join(LINES).encode('utf-8')).hexdigest())


if __name__ == '__main__':
    main()
