"""Equivalence demo for r4 (runtime set_arguments / _cell_preprocessor in BOTH copies of the helper class:
dict-merge comprehension -> explicit loop over a copy, membership test + indexing -> one dict.get with a
module-level sentinel, conditional expression -> if statement).

Part 1 uses the generated class (template copy) through Executor and directly; part 2 uses the class copy
(AbstractExcelInPython) through trivial subclasses.  Every observable result is printed: values, exception class
names and messages, the stored overrides after successful and failed calls.  The generated text is digested only
for its cell functions (the helper section is allowed to differ textually).  Output is deterministic.
"""
import datetime
import hashlib
import os
import re
import shutil
import tempfile

from openpyxl import Workbook

from excel2pycl import Parser, Executor, Cell, load_module
from excel2pycl.src.utilities.abstract_excel_in_python_class import AbstractExcelInPython

TMP = tempfile.mkdtemp(prefix='t12r4_')
COUNTER = [0]


def digest(text):
    return hashlib.sha256(text.encode('utf-8')).hexdigest()[:16]


def show(value):
    return re.sub(r'0x[0-9a-fA-F]+', '0x?', f'{type(value).__name__}:{value!r}')


def outcome(fn):
    try:
        return 'OK ' + show(fn())
    except BaseException as e:  # noqa
        text = 'EXC ' + type(e).__name__ + ' ' + re.sub(r'0x[0-9a-fA-F]+', '0x?', str(e))[:200]
        if e.__context__ is not None or e.__cause__ is not None:
            text += ' [chained: ' + type(e.__context__ or e.__cause__).__name__ + ']'
        return text


def build(sheets):
    COUNTER[0] += 1
    path = os.path.join(TMP, f'wb{COUNTER[0]}.xlsx')
    wb = Workbook()
    wb.remove(wb.active)
    for title, rows in sheets:
        ws = wb.create_sheet(title)
        for r, row in enumerate(rows, start=1):
            for c, value in enumerate(row, start=1):
                if value is not None:
                    ws.cell(row=r, column=c, value=value)
    wb.save(path)
    return path


def translate(sheets):
    COUNTER[0] += 1
    out = os.path.join(TMP, f'cls{COUNTER[0]}.py')
    Parser().set_excel_file_path(build(sheets)).write_translation(out)
    return out


def cell_functions(text):
    return re.findall(r'^    def (_\d+_\d+_\d+(?:_\d+)?)\(self\):\n        return (.*)$', text, flags=re.M)


SHEETS = [
    ('Main', [
        [1, 2, '=A1+B1', '=C1*2'],
        [10, None, '=SUM(A1:A3)', '=IF(B2="", "blank", B2)'],
        [100, '=Err!A1', '=IFERROR(B3, -1)', '=SUM(A:A)'],
        ['x', '=A4&"y"', '=Other!A1+A1', '=SUM(A1:F1)'],
    ]),
    ('Other', [
        ['=Main!A1*1000', '=Main!H9', '=SUM(Main!A1:D1)'],
    ]),
    ('Err', [
        ['=1/0', '=IFERROR(A1, -1)'],
        ['=A1+1', '=IF(A2>0, "pos", "neg")'],
    ]),
]
CLASS_FILE = translate(SHEETS)
with open(CLASS_FILE, encoding='utf-8') as f:
    TEXT = f.read()
print('cell functions of the generated class', len(cell_functions(TEXT)), digest(repr(cell_functions(TEXT))))

UIDS = [f'_{t}_{c}_{r}' for t in range(3) for c in range(9) for r in range(10)]
ODD_UIDS = ['_0_2_0_0', '_9_9_9', '', 'x', '_arguments', '_titles', '_sheets_size', '_sum', '_today', '_flatten_list',
            'EmptyCell', '__doc__', '__dict__', 'set_arguments', None, 0, 1.5, ('_0_0_0',), '_0_0_0 ']
BAD_UIDS = [[1], {'a': 1}, {1}]


def observe(instance, label):
    values = [outcome(lambda: instance.exec_function_in(uid)) for uid in UIDS]
    same = [outcome(lambda: instance._cell_preprocessor(uid)) for uid in UIDS]
    print(label, 'values', digest('|'.join(values)), sum(v.startswith('EXC') for v in values), values == same)
    print(label, 'first row', values[0], values[10], values[20], values[30], '| C3', values[22], '| Err', values[180:182],
          values[190:192])
    print(label, 'arguments', outcome(lambda: list(instance._arguments.items())))


print('==== part 1a: generated class through Executor (histories of overrides)')
DT = datetime.datetime(2022, 3, 4)


def C(*args, **kwargs):
    return Cell(*args, **kwargs)


HISTORIES = {
    'none': [[]],
    'constants': [[C(0, 0, 0, value=5)], [C('Main', 'B', '1', value=7)], [C(0, 0, 0, value=6)]],
    'duplicates_in_one_call': [[C(0, 0, 0, value=1), C('Main', 'A', '1', value=2), C(0, 0, 0, value=3)]],
    'falsy_values': [[C(0, 2, 0, value=0)], [C(0, 2, 0, value=None)], [C(0, 2, 0, value='')], [C(0, 2, 0, value=False)],
                     [C(0, 2, 0, value=0.0)], [C(0, 2, 0, value=[])]],
    'formula_with_error': [[C('Err', 'A', '1', value=3)], [C('Err', 'A', '1', value=-3)],
                           [C('Err', 'A', '2', value='text')], [C(2, 0, 0, value=None)]],
    'blank_and_beyond': [[C('Main', 'B', '2', value=33)], [C('Main', 'H', '9', value=8)], [C('Main', 'F', '1', value=4)],
                         [C(1, 20, 30, value='far')], [C('Main', 'B', '2', value='')]],
    'types': [[C(0, 0, 0, value=True), C(0, 1, 0, value=2.5)], [C(0, 0, 0, value='12'), C(0, 1, 0, value=DT)],
              [C(0, 0, 0, value=-0.0), C(0, 1, 0, value=10 ** 20)]],
    'cross_sheet': [[C('Other', 'A', '1', value=1)], [C('Main', 'A', '1', value=2)], [C(1, 0, 0, value=3)]],
    'failed_call_between': [[C(0, 0, 0, value=4)], [C(0, 1, 0, value=5), C('Nope', 'A', '1', value=6)],
                            [C(0, 1, 1, value=7)]],
}
for name, history in HISTORIES.items():
    executor = Executor().set_executed_class(class_file=CLASS_FILE)
    for number, step in enumerate(history):
        print(name, number, 'set', outcome(lambda: executor.set_cells(step) is executor))
        # the overrides reach the instance lazily, on the first get_cell
        print(name, number, 'D1', outcome(lambda: executor.get_cell(C(0, 3, 0)).value),
              'sheet', outcome(lambda: [[c.value for c in row] for row in executor.get_sheet(0)]))
        observe(executor.get_executed_class(), f'{name} {number}')

print('==== part 1b / part 2: set_arguments and _cell_preprocessor called directly on both copies')
GENERATED = load_module(CLASS_FILE).ExcelInPython


class Copy(AbstractExcelInPython):
    """Trivial subclass of the class copy, with cell functions mirroring a part of the generated class."""

    def _0_0_0(self):
        return 1

    def _0_1_0(self):
        return 2

    def _0_2_0(self):
        return self._cell_preprocessor('_0_0_0') + self._cell_preprocessor('_0_1_0')

    def _0_3_0(self):
        return self._cell_preprocessor('_0_2_0') * 2

    def _2_0_0(self):
        return 1 / 0

    def _2_1_0(self):
        return self._iferror(lambda: self._cell_preprocessor('_2_0_0'), -1)

    _0_4_0 = 5          # not callable
    _0_5_0 = 0          # falsy -> treated as "no method"
    _0_6_0 = None
    _0_7_0 = staticmethod(lambda: 'static')
    _0_8_0 = classmethod(lambda cls: 'class')
    _0_0_9 = property(lambda self: 'prop')


ARGUMENT_LISTS = [
    [],
    [{'uid': '_0_0_0', 'value': 10}],
    [{'uid': '_0_0_0', 'value': 10}, {'uid': '_0_0_0', 'value': 11}],
    [{'uid': '_0_1_0', 'value': None}],
    [{'uid': '_0_2_0', 'value': 0}, {'uid': '_0_3_0', 'value': ''}],
    [{'uid': '_2_0_0', 'value': 4}],
    [{'uid': '_0_4_0', 'value': 'over'}, {'uid': '_0_5_0', 'value': False}, {'uid': '_0_6_0', 'value': 0.0}],
    [{'uid': '_7_7_7', 'value': 'nowhere'}, {'uid': '_arguments', 'value': 'attr'}, {'uid': None, 'value': 'none'}],
    [{'uid': '_0_0_0', 'value': 1, 'extra': 2, 'title': 0}],
    ({'uid': '_0_0_0', 'value': 'tuple'},),
    'GENERATOR',
    [{'uid': '_0_0_0', 'value': 'ok'}, {'value': 'no uid'}, {'uid': '_0_1_0', 'value': 'after'}],
    [{'uid': '_0_0_0', 'value': 'ok2'}, {'uid': 'no value'}],
    [{'uid': '_0_0_0', 'value': 'ok3'}, {}],
    [{'uid': '_0_0_0', 'value': 'ok4'}, None],
    [{'uid': '_0_0_0', 'value': 'ok5'}, ('_0_1_0', 5)],
    [{'uid': '_0_0_0', 'value': 'ok6'}, '_0_1_0'],
    [{'uid': '_0_0_0', 'value': 'ok7'}, {'uid': [1, 2], 'value': 'unhashable'}],
    [{'uid': '_0_0_0', 'value': 'ok8'}, {'uid': [1, 2]}],
    None,
    5,
    {'uid': '_0_0_0', 'value': 'a dict instead of a list'},
    'str',
    [{'uid': ('_0_0_0',), 'value': 'tuple uid'}, {'uid': 1, 'value': 'int uid'}, {'uid': 1.0, 'value': 'float uid'},
     {'uid': True, 'value': 'bool uid'}],
]

for label, factory in (('generated', GENERATED), ('copy', Copy)):
    print('----', label)
    print(label, 'constructed with arguments',
          outcome(lambda: list(factory([{'uid': '_0_0_0', 'value': 9}, {'uid': 'k', 'value': 8}])._arguments.items())))
    print(label, 'constructed with None', outcome(lambda: factory(None)._arguments),
          outcome(lambda: factory()._arguments), outcome(lambda: factory([])._arguments))
    print(label, 'constructed with bad arguments', outcome(lambda: factory([{'value': 1}])), outcome(lambda: factory(7)))
    instance = factory()
    observe(instance, f'{label} fresh')
    for number, arguments in enumerate(ARGUMENT_LISTS):
        if arguments == 'GENERATOR':
            arguments = ({'uid': '_0_1_0', 'value': v} for v in ('g1', 'g2'))
        before = instance._arguments
        before_items = list(before.items())
        result = outcome(lambda: instance.set_arguments(arguments))
        after = instance._arguments
        print(label, number, 'set_arguments', result, '| new dict object:', after is not before,
              '| old dict untouched:', list(before.items()) == before_items)
        observe(instance, f'{label} {number}')
        print(label, number, 'odd uids', [outcome(lambda: instance.exec_function_in(uid)) for uid in ODD_UIDS])
        print(label, number, 'bad uids', [outcome(lambda: instance._cell_preprocessor(uid)) for uid in BAD_UIDS])

    print(label, 'the constructor is reachable as a uid and resets the overrides',
          outcome(lambda: instance.exec_function_in('__init__')), outcome(lambda: instance._arguments))
    print(label, 'instance attributes take part in the lookup')
    instance = factory()
    instance.__dict__['_0_0_0'] = lambda self: 'from instance'
    instance.__dict__['_0_1_0'] = None
    instance.__dict__['_0_2_0'] = 0
    instance.__dict__['_5_5_5'] = lambda self: self._cell_preprocessor('_0_0_0') + '!'
    instance.__dict__['_6_6_6'] = 'not callable'
    observe(instance, f'{label} instance attrs')
    print(label, [outcome(lambda: instance.exec_function_in(uid)) for uid in ('_5_5_5', '_6_6_6', '_0_3_0')])
    instance.set_arguments([{'uid': '_0_0_0', 'value': 'override'}, {'uid': '_6_6_6', 'value': 66},
                            {'uid': '_0_1_0', 'value': None}])
    observe(instance, f'{label} instance attrs overridden')
    print(label, [outcome(lambda: instance.exec_function_in(uid)) for uid in ('_5_5_5', '_6_6_6', '_0_3_0')])

    print(label, 'exceptions of cell functions pass through unchanged and unchained')

    class Raising(factory):
        def _8_8_8(self):
            raise KeyError('from the cell function')

        def _8_8_9(self):
            return self._arguments['missing']

        def _8_9_9(self):
            raise ValueError('plain')

    raising = Raising()
    print(label, [outcome(lambda: raising.exec_function_in(uid)) for uid in ('_8_8_8', '_8_8_9', '_8_9_9')])
    raising.set_arguments([{'uid': '_8_8_8', 'value': 'fixed'}, {'uid': 'missing', 'value': 'found'}])
    print(label, [outcome(lambda: raising.exec_function_in(uid)) for uid in ('_8_8_8', '_8_8_9', '_8_9_9')])

    print(label, 'a dict subclass as stored overrides (set from outside)')
    weird = factory()

    class Defaulting(dict):
        def __missing__(self, key):
            return 'default for ' + str(key)

    weird._arguments = Defaulting({'_0_0_0': 'w'})
    print(label, [outcome(lambda: weird.exec_function_in(uid)) for uid in ('_0_0_0', '_0_1_0', '_7_7_7')])
    weird.set_arguments([{'uid': '_0_1_0', 'value': 'x'}])
    print(label, type(weird._arguments).__name__,
          [outcome(lambda: weird.exec_function_in(uid)) for uid in ('_0_0_0', '_0_1_0', '_7_7_7')])

shutil.rmtree(TMP, ignore_errors=True)
print('tmp removed:', not os.path.exists(TMP))
