"""Equivalence demo for r2: Excel.parse (workbook reader: data, titles, sheet sizes, suspicious cell listing).

Builds many workbooks (ragged rows, empty sheets, odd titles, array formulas, offending cells at boundary
addresses), prints everything Excel.parse() collected and what the Parser / Executor facades do with it.
"""
import datetime
import hashlib
import os
import random
import shutil
import tempfile

from openpyxl import Workbook
from openpyxl.worksheet.formula import ArrayFormula

from excel2pycl import Parser, Executor, Cell
from excel2pycl.src.excel import Excel
from excel2pycl.src.exceptions import E2PyclSafetyException, E2PyclException


def digest(text: str) -> str:
    return hashlib.sha256(text.encode('utf-8')).hexdigest()[:16]


def dump_excel(name: str, path: str):
    try:
        excel = Excel.parse(path)
    except Exception as e:  # noqa
        print(name, 'parse raised', type(e).__name__, e)
        return
    print(name, 'titles', excel.get_titles())
    print(name, 'sizes', excel.get_sheets_size())
    print(name, 'suspicious', excel._suspicious_cells)
    for sheet_number, sheet in enumerate(excel._data):
        print(name, 'sheet', sheet_number, 'rows', len(sheet), 'lens', [len(row) for row in sheet])
        for row_number, row in enumerate(sheet):
            if any(value is not None for value in row):
                print('   ', row_number, [(type(value).__name__, value) for value in row])
    try:
        excel.is_safe()
        print(name, 'is_safe ok')
    except E2PyclSafetyException as e:
        print(name, 'is_safe raised', digest(str(e)), list(e.suspicious_cells.items()))
    try:
        cells = excel.get_cells()
        print(name, 'cells', len(cells), digest(repr([(c.uid, c.value) for c in cells])))
    except Exception as e:  # noqa
        print(name, 'get_cells raised', type(e).__name__, e)


def run_facades(name: str, path: str, tmp: str):
    for safety in (True, False):
        parser = Parser().set_excel_file_path(path)
        parser = parser.enable_safety_check() if safety else parser.disable_safety_check()
        out = os.path.join(tmp, f'{name}_{int(safety)}.py')
        try:
            parser.write_translation(out)
        except E2PyclSafetyException as e:
            print(name, 'safety' if safety else 'nosafety', 'SAFETY', str(e).split('\n\t'))
            continue
        except E2PyclException as e:
            print(name, 'safety' if safety else 'nosafety', 'raised', type(e).__name__, digest(str(e)), str(e)[:120])
            continue
        text = open(out, encoding='utf-8').read()
        print(name, 'safety' if safety else 'nosafety', 'translated', digest(text), text == parser.get_translation())
        executor = Executor().set_executed_class(class_file=out)
        print(name, 'executor titles', executor._titles, 'sizes', executor._sheets_size)
        for sheet_number in range(len(executor._sheets_size)):
            values = []
            size = executor._sheets_size[sheet_number]
            for row in range(size['last_row']):
                for column in range(size['last_column']):
                    cell = Cell(sheet_number, column, row)
                    try:
                        value = executor.get_cell(cell).value
                        values.append((cell.uid, type(value).__name__, repr(value)))
                    except Exception as e:  # noqa
                        values.append((cell.uid, 'raised', type(e).__name__))
            print(name, 'sheet', sheet_number, 'values', len(values), digest(repr(values)))
            for item in values[:12]:
                print('   ', item)


def build_workbooks(tmp: str):
    books = []

    def save(wb, name):
        path = os.path.join(tmp, name + '.xlsx')
        wb.save(path)
        books.append((name, path))

    # empty workbook
    wb = Workbook()
    save(wb, 'empty')

    # ragged rows + an empty sheet in the middle + a trailing sheet with a single far cell
    wb = Workbook()
    ws = wb.active
    ws.title = 'Data'
    ws['A1'] = 1
    ws['D1'] = 4
    ws['B2'] = '=A1+D1'
    ws['F4'] = '=SUM(A1:D1)'
    ws['A6'] = 'text'
    ws['C6'] = 0
    ws['D6'] = ''
    ws['E6'] = False
    wb.create_sheet('Empty one')
    far = wb.create_sheet("Far 'away'")
    far['J12'] = '=Data!A1*2'
    save(wb, 'ragged')

    # array formulas
    wb = Workbook()
    ws = wb.active
    ws.title = 'Arr'
    ws['A1'] = 2
    ws['A2'] = 3
    ws['B1'] = ArrayFormula('B1', '=SUM(A1:A2) ')
    ws['B2'] = ArrayFormula('B2:B3', '  =A1*A2')
    ws['C1'] = ArrayFormula('C1', '=MAX(A1:A2)+eval(1)')
    save(wb, 'array')

    # offending cells: boundary addresses, falsy values, odd titles
    wb = Workbook()
    ws = wb.active
    ws.title = 'S 1'
    ws['A1'] = 'eval(1)'
    ws['B1'] = 0
    ws['C1'] = ''
    ws['D1'] = 'os.system("ls") and F(2) or g(3)'
    ws['Z1'] = 'SUM(1)'
    ws['AA2'] = 'sum(1)'
    ws['A3'] = 7
    ws['B3'] = '=A3*2'
    second = wb.create_sheet("quote's (x)")
    second['A1'] = datetime.datetime(2024, 2, 29, 12, 30)
    second['B2'] = 1.5
    second['ZZ3'] = 'a(b) c(d)'
    second['A5'] = "'=f(1)"
    third = wb.create_sheet('Третий')
    third['C3'] = 'exec(compile("1", "", "eval"))'
    third['C4'] = '=IF(1>0;2;3)'
    save(wb, 'offending')

    # same offending text repeated in the same address of different sheets, and overwritten addresses
    wb = Workbook()
    for number, title in enumerate(['one', 'two', 'three']):
        ws = wb.active if number == 0 else wb.create_sheet()
        ws.title = title
        ws['B2'] = 'eval(%d)' % number
        ws['B3'] = 'EVAL(%d)' % number
    save(wb, 'repeated')

    # pseudo-random workbooks
    rnd = random.Random(2027)
    pool = [1, 2.5, -3, 0, True, False, 'x', '', 'eval(1)', 'SUM(1)', '=A1+1', '=SUM(A1:B2)', '=A1&"z"', 'f(1) g(2)',
            '=IF(A1>1;"a";"b")', '=MAX(A1;B1)', 'p.q(r)', datetime.datetime(2022, 1, 1), '=ROUND(A1/3;2)', 'Q(1)q(2)']
    for number in range(8):
        wb = Workbook()
        for sheet_number in range(rnd.randint(1, 3)):
            ws = wb.active if sheet_number == 0 else wb.create_sheet()
            ws.title = f'r{number}_{sheet_number}'
            for _ in range(rnd.randint(0, 25)):
                ws.cell(row=rnd.randint(1, 9), column=rnd.randint(1, 7)).value = rnd.choice(pool)
        save(wb, f'rnd{number}')

    return books


def main():
    tmp = tempfile.mkdtemp(prefix='t27r2_')
    try:
        for name, path in build_workbooks(tmp):
            print('=====', name)
            dump_excel(name, path)
            run_facades(name, path, tmp)
    finally:
        shutil.rmtree(tmp, ignore_errors=True)


if __name__ == '__main__':
    main()
