"""Equivalence demo for the workbook-reading path (property C18): Excel.parse, Excel.__init__, Excel.fill_cell /
_fill_cell, Excel.get_cells / get_range / get_matrix, CellTranslator constant cells, Executor.

Run as: PYTHONPATH=<tree> /venv/bin/python demo.py
Prints a deterministic digest; must be identical on the unchanged and the refactored tree.
"""
import datetime
import hashlib
import os
import tempfile
import warnings

warnings.simplefilter('ignore')

from openpyxl import Workbook
from openpyxl.worksheet.formula import ArrayFormula

from excel2pycl import Parser, Executor, Cell, Excel, Context, CellTranslator

lines = []


def emit(line):
    lines.append(line)
    print(line)


def show(value):
    return f'{type(value).__name__}:{value!r}'


def attempt(label, func):
    try:
        result = func()
    except BaseException as exc:  # noqa - class name (and message) is the observable
        emit(f'{label} -> raises {type(exc).__name__}: {str(exc).replace(tmp, "<tmp>")!r}')
        return None
    emit(f'{label} -> {result}')
    return result


tmp = tempfile.mkdtemp(prefix='t09c18_')


# ---------------------------------------------------------------- workbooks
def book_types():
    wb = Workbook()
    ws = wb.active
    ws.title = 'Types'
    ws['A1'] = 1
    ws['B1'] = -17
    ws['C1'] = 2 ** 40
    ws['D1'] = 0
    ws['A2'] = 1.5
    ws['B2'] = -0.001
    ws['C2'] = 1e300
    ws['D2'] = 3.0
    ws['E2'] = 0.1 + 0.2
    ws['A3'] = True
    ws['B3'] = False
    ws['A4'] = 'text'
    ws['B4'] = 'it\'s "quoted" \\ back'
    ws['C4'] = 'multi\nline\ttab'
    ws['D4'] = 'привет, мир ✓'
    ws['E4'] = ' '
    ws['F4'] = '123'
    ws['G4'] = 'TRUE'
    ws['H4'] = '#N/A'
    ws['A5'] = datetime.datetime(2024, 2, 29, 13, 45, 10)
    ws['B5'] = datetime.date(1999, 12, 31)
    ws['C5'] = datetime.datetime(1900, 3, 1)
    ws['D5'] = datetime.time(10, 30)
    ws['E5'] = datetime.timedelta(hours=30)
    ws['A6'] = None
    ws['C6'] = 'after a blank'
    ws['A7'] = '=A1+B1'
    ws['B7'] = '=A2*2'
    ws['C7'] = '=A4&"-"&F4'
    ws['D7'] = '=A6'
    ws['E7'] = '=SUM(A1:D1)'
    ws['F7'] = '=IF(A3,"yes","no")'
    ws['A8'] = ArrayFormula('A8:A8', '=SUM(A1:D1)')
    ws['B8'] = ArrayFormula('B8:B9', '=A1+1   ')
    ws['C8'] = ArrayFormula('C8', '=MAX(A1:D1)')
    path = os.path.join(tmp, 'types.xlsx')
    wb.save(path)
    return path


def book_sparse():
    wb = Workbook()
    ws = wb.active
    ws.title = 'Sparse'
    ws['C3'] = 'c3'
    ws['AD3'] = 30
    ws['B10'] = 2.5
    ws['H60'] = True
    ws['A61'] = '=C3&AD3'
    second = wb.create_sheet('Второй лист')
    second['E1'] = datetime.datetime(2020, 1, 1)
    second['A5'] = 5
    second['B5'] = "='Sparse'!B10*2"
    wb.create_sheet('Empty')
    one = wb.create_sheet('One')
    one['A1'] = 'only'
    far = wb.create_sheet('2024')
    far['Z1'] = 26
    far['A2'] = None
    far['AA3'] = 'aa3'
    ragged = wb.create_sheet('Ragged rows')
    for r in range(1, 12):
        for c in range(1, (r * 7) % 13 + 1):
            ragged.cell(row=r, column=c, value=r * 100 + c if (r + c) % 3 else None)
    ragged['A12'] = '=SUM(A1:A11)'
    ragged['B12'] = "=One!A1&'2024'!Z1"
    path = os.path.join(tmp, 'sparse.xlsx')
    wb.save(path)
    return path


def book_suspicious():
    wb = Workbook()
    ws = wb.active
    ws.title = 'Danger'
    ws['B2'] = 'print(1)'
    ws['A1'] = '__import__("os").system("x")'
    ws['C1'] = '=SUM(A2:A3)'
    ws['D4'] = 'eval(x) and SUM(1)'
    ws['A5'] = 'harmless'
    other = wb.create_sheet('Other')
    other['C3'] = 'open(f)'
    other['A1'] = ArrayFormula('A1:A2', '=exec(1)')
    path = os.path.join(tmp, 'suspicious.xlsx')
    wb.save(path)
    return path


def book_single_empty():
    wb = Workbook()
    wb.active.title = 'Nothing'
    path = os.path.join(tmp, 'empty.xlsx')
    wb.save(path)
    return path


BOOKS = [('types', book_types()), ('sparse', book_sparse()), ('suspicious', book_suspicious()),
         ('empty', book_single_empty())]

# ---------------------------------------------------------------- Excel.parse and the Excel object
for name, path in BOOKS:
    emit(f'==== book {name}: Excel.parse')
    excel = Excel.parse(path)
    emit(f'titles: {excel.get_titles()!r}')
    emit(f'sizes: {excel.get_sheets_size()!r}')
    emit(f'suspicious: {excel._suspicious_cells!r}')
    attempt('is_safe', excel.is_safe)
    for sheet_number, sheet in enumerate(excel._data):
        emit(f'sheet {sheet_number}: {len(sheet)} rows, lengths {[len(row) for row in sheet]}')
        for row_number, row in enumerate(sheet):
            emit(f'  data[{sheet_number}][{row_number}] = [' + ', '.join(show(v) for v in row) + ']')
    cells = excel.get_cells()
    emit(f'get_cells: {len(cells)} cells')
    for cell in cells:
        emit(f'  cell {cell.title},{cell.column},{cell.row} uid={cell.uid} handled={cell.has_handled_identifiers()} '
             f'value={show(cell.value)}')

    emit(f'---- book {name}: fill_cell / ranges / matrices')
    titles = list(excel.get_titles())
    for title in titles + [0, len(titles) - 1, len(titles), -1, 'No such sheet']:
        for column, row in [('A', '1'), ('C', '3'), ('AD', '3'), ('ZZ', '1'), ('A', '1000'), (0, 0), (2, 2), (40, 2),
                            (0, 500), (-1, 0), (0, -1), ('B', ''), ('B', None), (1, None)]:
            attempt(f'fill_cell({title!r},{column!r},{row!r})',
                    lambda: show(excel.fill_cell(Cell(title, column, row)).value))
    first_title = titles[0]
    for a, b in [(('A', '1'), ('A', '8')), (('A', '1'), ('H', '1')), (('B', '3'), ('B', '70')), (('C', '3'), ('AF', '3')),
                 (('A', '1'), ('B', '2')), (('B', ''), ('B', '')), (('A', ''), ('C', '')), (('C', '5'), ('A', '5'))]:
        attempt(f'get_range {a}:{b}', lambda: [show(c.value) for c in
                                               excel.get_range(Cell(first_title, *a), Cell(first_title, *b))])
        attempt(f'get_matrix {a}:{b}', lambda: [[show(c.value) for c in row] for row in
                                                excel.get_matrix(Cell(first_title, *a), Cell(first_title, *b))])
    attempt('get_range across sheets', lambda: excel.get_range(Cell(0, 0, 0), Cell(len(titles) - 1 or 5, 0, 3)))
    attempt('get_similar_second', lambda: excel.get_similar_second(Cell(first_title, 'D', '4'), Cell(first_title, 'A', '1'),
                                                                   Cell(first_title, 'B', '3')))

attempt('parse missing file', lambda: Excel.parse(os.path.join(tmp, 'missing.xlsx')))
not_xlsx = os.path.join(tmp, 'not_a_workbook.xlsx')
with open(not_xlsx, 'w') as f:
    f.write('plain text')
attempt('parse non-workbook', lambda: Excel.parse(not_xlsx))

emit('==== Excel built from a dict directly')
manual = Excel({'data': [[[1, 'x'], [None]], [], [[]]], 'titles': ['a', 'b', 'a'], 'suspicious_cells': {},
                'sheets_size': [{'last_column': 2, 'last_row': 2}, {'last_column': 0, 'last_row': 0},
                                {'last_column': 0, 'last_row': 1}]})
emit(f'titles with a duplicate: {manual.get_titles()!r}')
emit('cells: ' + repr([(c.uid, show(c.value)) for c in manual.get_cells()]))
for t, c, r in [(0, 0, 0), (0, 1, 0), (0, 1, 1), (0, 0, 1), (1, 0, 0), (2, 0, 0), (3, 0, 0), (-1, 0, 0), ('a', 'A', '1'),
                ('b', 'A', '1')]:
    attempt(f'manual fill_cell({t!r},{c!r},{r!r})', lambda: show(manual.fill_cell(Cell(t, c, r)).value))
attempt('manual _fill_cell with unhandled str title', lambda: show(manual._fill_cell(Cell('a', 0, 0, value='kept?')).value))
probe = Cell('a', 0, 0, value='kept?')
attempt('manual _fill_cell probe', lambda: manual._fill_cell(probe))
emit(f'probe afterwards: {probe.title!r} {probe.value!r}')
attempt('manual _fill_cell float coordinates', lambda: show(manual._fill_cell(Cell(0.0, 0, 0)).value))

# ---------------------------------------------------------------- translation and execution
for name, path in BOOKS:
    emit(f'==== book {name}: translate and execute')
    out_py = os.path.join(tmp, f'{name}_translated.py')
    parser = Parser().set_excel_file_path(path)
    attempt('translate with safety check', lambda: hashlib.sha256(parser.get_translation().encode()).hexdigest())
    parser.disable_safety_check()
    translation = attempt('translate without safety check',
                          lambda: hashlib.sha256(parser.write_translation(out_py).get_translation().encode()).hexdigest())
    if translation is None:
        continue
    text = parser.get_translation()
    functions = text[text.rindex("        return '#VALUE!'\n\n") + len("        return '#VALUE!'\n\n"):] \
        if '    def _0_' in text else ''
    for line in functions.splitlines():
        emit('  | ' + line)
    executor = Executor().set_executed_class(class_file=out_py)
    instance = executor.get_executed_class()
    emit(f'executor titles: {instance.get_titles()!r}')
    emit(f'executor sizes: {instance.get_sheets_size()!r}')
    for title, number in instance.get_titles().items():
        def sheet_values(key):
            return [[show(cell.value) for cell in row] for row in executor.get_sheet(key)]
        attempt(f'get_sheet({title!r})', lambda: sheet_values(title))
        attempt(f'get_sheet({number!r})', lambda: hashlib.sha256(repr(sheet_values(number)).encode()).hexdigest()[:16])
    attempt('cell beyond the sheet', lambda: show(executor.get_cell(Cell(0, 200, 200)).value))
    attempt('cell by letters', lambda: show(executor.get_cell(Cell(list(instance.get_titles())[0], 'C', '3')).value))

    emit(f'---- book {name}: entry point translation')
    for entry in [Cell(0, 0, 6), Cell(list(Excel.parse(path).get_titles())[-1], 'B', '12'), Cell(0, 'A', '61'),
                  Cell(0, 5, 5), Cell(0, 'A', None), Cell('nope', 'A', '1')]:
        def entry_translation():
            p = Parser().set_excel_file_path(path).disable_safety_check().set_entrypoint_cell(entry)
            t = p.get_translation()
            tail = t[t.rindex("        return '#VALUE!'\n\n") + len("        return '#VALUE!'\n\n"):]
            return hashlib.sha256(t.encode()).hexdigest()[:16] + ' ' + repr(tail)
        attempt(f'entrypoint {entry.title!r},{entry.column!r},{entry.row!r}', entry_translation)

emit('==== CellTranslator on hand-made Excel objects (constant cells of every stored type)')
VALUES = [None, 0, 1, -5, 10 ** 20, 1.5, -0.0, float('inf'), True, False, '', ' ', 'text', "it's", '=', '=1+2', ' =1+2',
          'a=b', '==', '=A1', '="x"&"y"', datetime.datetime(2024, 1, 2, 3, 4, 5), datetime.date(2024, 1, 2),
          datetime.time(1, 2), datetime.timedelta(days=1, seconds=5), '=B1', 'line\nbreak']
hand = Excel({'data': [[VALUES, ['b-row']]], 'titles': ['Hand'], 'suspicious_cells': {},
              'sheets_size': [{'last_column': len(VALUES), 'last_row': 2}]})
context = Context()
for column in range(len(VALUES) + 2):
    attempt(f'translate Hand[{column},0] {VALUES[column] if column < len(VALUES) else "<outside>"!r}',
            lambda: CellTranslator.translate(Cell(0, column, 0), hand, context))
emit('translations: ' + repr(context._cell_translations))
attempt('translate_file', lambda: CellTranslator.translate_file(hand, Context()))
whole = Context()
attempt('translate_file again', lambda: CellTranslator.translate_file(hand, whole))
emit('translate_file translations so far: ' + repr(whole._cell_translations))
SAFE_VALUES = [v for v in VALUES if not (isinstance(v, str) and v.lstrip().startswith('=') and v not in ('=1+2', '=B1', '="x"&"y"'))]
hand2 = Excel({'data': [[SAFE_VALUES, ['b-row', 7]], [], [[None, '=Hand2!A1']]], 'titles': ['Hand2', 'Void', 'Third'],
               'suspicious_cells': {}, 'sheets_size': [{'last_column': len(SAFE_VALUES), 'last_row': 2},
                                                       {'last_column': 0, 'last_row': 0}, {'last_column': 2, 'last_row': 1}]})
whole2 = Context()
attempt('translate_file hand2', lambda: CellTranslator.translate_file(hand2, whole2))
emit('translate_file hand2 translations: ' + repr(whole2._cell_translations))

emit('DIGEST ' + hashlib.sha256('\n'.join(lines).encode()).hexdigest())
