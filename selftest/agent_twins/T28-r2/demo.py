"""Equivalence demo for r2 (reference tokens -> Cell coordinates, handle_cell normalisation).

Lexes many reference spellings ($-absolute / relative, quoted / bare / missing sheet prefix, cell,
row / column / rectangular range, whole-column range), prints the Cells the tokens denote before and
after identifier handling, calls handle_cell on boundary identifiers and finally translates and
executes a workbook that uses all the reference forms. Output must not change with the refactoring.
"""
import hashlib
import itertools
import os
import shutil
import sys
import tempfile

from openpyxl import Workbook

from excel2pycl import Cell, Executor, Parser
from excel2pycl.src.handle_cell import handle_cell
from excel2pycl.src.lexer import Lexer
from excel2pycl.src.tokens import CellIdentifierRangeToken, CellIdentifierToken, MatrixOfCellIdentifiersToken

LINES = []


def out(*parts):
    LINES.append(' '.join(str(p) for p in parts))


def show_cell(c):
    return f'({c.title!r},{c.column!r},{c.row!r},{c.value!r},{c.has_handled_identifiers()})'


def attempt(label, fn):
    try:
        out(label, '=>', fn())
    except Exception as e:  # noqa
        out(label, '=> EXC', type(e).__name__, str(e))


TITLES = {'Data': 0, 'Other Sheet': 1, "It's": 2, 'S1': 3, 'Лист': 4, '': 5, '0': 6}

PREFIXES = ['', 'Data!', "'Data'!", "'Other Sheet'!", 'S1!', "'Лист'!", 'Лист!', "''!", '!', 'Missing!', "'No Such'!",
            "'It's'!", '0!', "'Data!", 'Da ta!']
CELLS = ['A1', '$A1', 'A$1', '$A$1', 'Z9', 'AA10', 'XFD1048576', 'XFE1', 'A0', 'a1', 'A', '$A', '1', 'AB$12', 'A01',
         'ABC123456789', '$$A1', 'A$$1']
TAILS = ['', '+1', ')', ':', ' ', ',B2', ';', '1', '$', ':B']


def describe_token(token, rest):
    if token is None:
        return f'None rest={rest!r}'
    parts = [type(token).__name__, f'value={token.value!r}', f'rest={rest!r}', f'str={token}']
    cells = []
    if isinstance(token, CellIdentifierToken):
        cells = [token.cell]
        parts.append(f'same={token.cell is token.cell}')
    elif isinstance(token, CellIdentifierRangeToken):
        cells = list(token.range)
        parts.append(f'same={token.range is token.range}')
    elif isinstance(token, MatrixOfCellIdentifiersToken):
        cells = list(token.matrix)
        parts.append(f'same={token.matrix is token.matrix}')
    parts.append('raw=' + ','.join(show_cell(c) for c in cells))
    handled = []
    for c in cells:
        try:
            handle_cell(c, TITLES)
            handled.append(show_cell(c))
        except Exception as e:  # noqa
            handled.append(f'EXC {type(e).__name__} {e} {show_cell(c)}')
    parts.append('handled=' + ','.join(handled))
    return ' '.join(parts)


def token_part():
    in_cells = [Cell(3, 2, 4), Cell('S1', 'C', '5'), Cell(0, 0, 0)]
    handle_cell(in_cells[0], TITLES)
    single = [p + c + t for p, c, t in itertools.product(PREFIXES, CELLS, TAILS)]
    pairs = [p + a + ':' + b + t for p in PREFIXES for a, b in
             [('A1', 'A9'), ('A1', 'C1'), ('A1', 'C3'), ('$A$1', '$C$3'), ('A', 'A'), ('A', 'C'), ('$A', '$C'),
              ('A1', 'A'), ('A', 'A9'), ('C3', 'A1'), ('A1', 'XFD1'), ('AA1', 'AA99'), ('A$1', '$A9'), ('A1', 'a9'),
              ('A1', 'B'), ('1', '3'), ('A1', 'A1'), ('B2', 'B$2'), ('A10', 'A1'), ('AB', 'AB')]
             for t in ['', ')', '+1', ',', '0', '$', ':D4']]
    for expression in single + pairs:
        for token_class in (CellIdentifierToken, CellIdentifierRangeToken, MatrixOfCellIdentifiersToken):
            for in_cell in in_cells:
                attempt(f'{token_class.__name__}.get({expression!r}) in {in_cell.title!r}',
                        lambda: describe_token(*token_class.get(expression, in_cell)))


def lexer_part():
    formulas = ['=A1', '= A1 + $B$2', "='Other Sheet'!A1*2", '=SUM(A1:A3)', '=SUM(Data!A1:C1)', '=SUM($A$1:$C$3)',
                "=SUM('Other Sheet'!A:A)", '=SUM(A:C)', "=VLOOKUP(A1,'Other Sheet'!A1:C4,2,0)", '=S1!XFD1048576',
                "=IF('It's'!A1>0,1,2)", '=SUM(A1:A3,B1:B3;C1:C3)', '=A1:A3', '=SUM(A1:A3:A5)', '=Лист!A1',
                "='Лист'!A1+A$1", '=SUM(Missing!A1:A2)', '=A1A', '=$A$1$', '=INDEX((A1:B2,C1:D2),1,1,2)',
                '=SUMIF(A1:A4,">1",B1:B4)', '=COUNTIFS(A1:A4,"a*",B1:B4,1)', '=COLUMN(B3)', '=ADDRESS(1,2)',
                '=MATCH(1,A:A,0)', '=SUM(A1:A)', '=SUM(A:A1)', '=   ', '=SUM( A1 : A3 )', '=data!a1', '=TRUE+A1']
    for formula in formulas:
        for in_cell in (Cell(0, 0, 0), Cell(1, 3, 7)):
            def run():
                tokens = Lexer.parse(formula, in_cell)
                described = []
                for t in tokens:
                    if isinstance(t, (CellIdentifierToken, CellIdentifierRangeToken, MatrixOfCellIdentifiersToken)):
                        described.append(describe_token(t, ''))
                    else:
                        described.append(str(t))
                return ' | '.join(described)
            attempt(f'lex {formula!r} in {in_cell.title}', run)


def handle_cell_part():
    titles_variants = [TITLES, {}, {'A': 7}]
    title_values = ['Data', 'Other Sheet', 'Missing', '', '0', 0, 3, -1, None, 2.5, True]
    column_values = ['A', 'Z', 'AA', 'XFD', 'XFE', 'a', 'xfd', '', 'A1', '1', ' A', 0, 16383, -4, None, 1.5]
    row_values = ['1', '10', '1048576', '0', '', '-1', ' 7 ', '1.5', 'x', '007', '1_0', 0, 99, -2, None, 2.5]
    for titles in titles_variants:
        for title, column, row in itertools.product(title_values, column_values, row_values):
            cell = Cell(title, column, row, value='v')

            def run():
                result = handle_cell(cell, titles)
                return f'{result!r} {show_cell(cell)} uid={cell.uid}'
            try:
                out(f'handle {title!r},{column!r},{row!r} {len(titles)}', '=>', run())
            except Exception as e:  # noqa
                out(f'handle {title!r},{column!r},{row!r} {len(titles)}', '=> EXC', type(e).__name__, str(e),
                    show_cell(cell))
    # an already handled cell is left alone, whatever it contains
    cell = Cell('Data', 'B', '2')
    handle_cell(cell, TITLES)
    cell.title, cell.column, cell.row = 'Other Sheet', 'C', '3'
    attempt('rehandle', lambda: (handle_cell(cell, TITLES), show_cell(cell)))
    cell = Cell('Missing', 'B', '2', _handled_identifiers=True)
    attempt('prehandled', lambda: (handle_cell(cell, {}), show_cell(cell), cell.uid))


def workbook_part(tmp):
    wb = Workbook()
    data = wb.active
    data.title = 'Data'
    for r in range(1, 6):
        for c in range(1, 5):
            data.cell(row=r, column=c, value=r * 100 + c)
    data['XFD1'] = 'corner'
    data['AB12'] = 12.5
    other = wb.create_sheet('Other Sheet')
    for r in range(1, 5):
        other.cell(row=r, column=1, value=r)
        other.cell(row=r, column=2, value=f'name{r}')
    s1 = wb.create_sheet('S1')
    s1['A1'] = 5
    s1['A2'] = '=A1*2'
    s1['A3'] = '=Data!A1+A1'
    ru = wb.create_sheet('Лист')
    ru['B2'] = 'привет'
    calc = wb.create_sheet('Calc')
    formulas = [
        '=Data!A1', '=Data!$A1', '=Data!A$1', '=Data!$A$1', "='Data'!B2", "='Other Sheet'!B3", "='Other Sheet'!$B$4",
        '=S1!A2', '=S1!A3', "='Лист'!B2", '=Лист!B2', '=Data!XFD1', '=Data!AB12', '=Data!AB$12', '=Data!XFD1048576',
        '=SUM(Data!A1:A5)', '=SUM(Data!$A$1:$A$5)', '=SUM(Data!A1:D1)', '=SUM(Data!A$1:$D1)', '=SUM(Data!A1:D5)',
        '=SUM(Data!$B$2:$C$3)', '=SUM(Data!A:A)', '=SUM(Data!$A:$B)', "=SUM('Other Sheet'!A:A)",
        "=SUM('Other Sheet'!A1:A4)", "=VLOOKUP(2,'Other Sheet'!A1:B4,2,0)", "=VLOOKUP(4,'Other Sheet'!$A:$B,2,0)",
        '=B1', '=$B$1', '=SUM(B1:B3)', '=SUM(B:B)', '=B1+Data!B1', '=MAX(Data!A1:D5)-MIN(Data!A1:D5)',
        "=INDEX(Data!A1:D5,2,3)", "=MATCH(301,Data!A1:A5,0)", '=SUM(Data!A10:A12)', '=Data!E9',
        "=SUMIF('Other Sheet'!A1:A4,\">=2\",Data!A1:A4)", "=COUNT(Data!A1:D5,'Other Sheet'!A1:B4)",
        '=SUM(Data!AB10:AB14)', '=Data!A1&Data!B1',
    ]
    for i, f in enumerate(formulas, start=1):
        calc.cell(row=i, column=1, value=f)
        calc.cell(row=i, column=2, value=i)
    xlsx = os.path.join(tmp, 'refs.xlsx')
    wb.save(xlsx)
    out_py = os.path.join(tmp, 'refs_translation.py')
    parser = Parser().set_excel_file_path(xlsx)
    text = parser.get_translation()
    parser.write_translation(out_py)
    out('translation sha', hashlib.sha256(text.encode()).hexdigest(), len(text))
    executor = Executor().set_executed_class(class_file=out_py)
    for row in range(len(formulas)):
        attempt(f'Calc!A{row + 1} {formulas[row]}', lambda: repr(executor.get_cell(Cell('Calc', 'A', str(row + 1))).value))
    executor.set_cells([Cell('Data', 'A', '1', value=-1), Cell('Other Sheet', 'B', '3', value='changed'),
                        Cell('S1', 0, 0, value=50), Cell(4, 'B', '1', value=1000), Cell('Data', 'XFD', '1', value='c2')])
    for row in range(len(formulas)):
        attempt(f'after set Calc!A{row + 1}', lambda: repr(executor.get_cell(Cell(4, 0, row)).value))
    for cell in [Cell('Missing', 'A', '1'), Cell('Data', 'XFE', '1'), Cell('Data', 'A', 'x'), Cell(9, 0, 0),
                 Cell('Data', '', '1'), Cell('data', 'A', '1')]:
        attempt(f'executor.get_cell {cell}', lambda: repr(executor.get_cell(cell).value))
        attempt(f'executor.set_cells {cell}', lambda: executor.set_cells([cell]) and 'ok')

    # entry-point translation with every identifier style
    for entry in [Cell('Calc', 'A', '16'), Cell(4, 0, 15), Cell('S1', 'A', '3'), Cell('Nope', 'A', '1'),
                  Cell('Calc', 'A', ''), Cell('Calc', 'A', None), Cell('Calc', 'XFE', '1')]:
        attempt(f'entry {entry}', lambda: hashlib.sha256(
            Parser().set_excel_file_path(xlsx).set_entrypoint_cell(entry).get_translation().encode()).hexdigest())

    # references that must be rejected
    for i, formula in enumerate(['=Missing!A1', "='No Such'!A1", '=SUM(Missing!A1:A3)', "=SUM('No Such'!A:A)",
                                 '=data!A1', "='Other  Sheet'!A1", '=Data!XFE1', '=SUM(Data!A1:XFE1)']):
        wb = Workbook()
        wb.active.title = 'Data'
        wb.active['A1'] = 1
        wb.create_sheet('Other Sheet')
        wb.active['B1'] = formula
        bad = os.path.join(tmp, f'bad{i}.xlsx')
        wb.save(bad)
        attempt(f'reject {formula}', lambda: hashlib.sha256(
            Parser().set_excel_file_path(bad).get_translation().encode()).hexdigest())


def main():
    tmp = tempfile.mkdtemp(prefix='t28r2_')
    try:
        token_part()
        lexer_part()
        handle_cell_part()
        workbook_part(tmp)
    finally:
        shutil.rmtree(tmp, ignore_errors=True)
    for line in LINES:
        if line.startswith(('lex ', 'Calc!', 'after set', 'reject', 'entry', 'executor', 'translation', 'rehandle',
                            'prehandled')):
            print(line)
    print('lines', len(LINES))
    print('digest', hashlib.sha256('\n'.join(LINES).encode()).hexdigest())
    for prefix in ('CellIdentifierToken', 'CellIdentifierRangeToken', 'MatrixOfCellIdentifiersToken', 'handle '):
        part = [line for line in LINES if line.startswith(prefix)]
        matched = [line for line in part if '=> None' not in line]
        print(prefix.strip(), len(part), len(matched), hashlib.sha256('\n'.join(part).encode()).hexdigest())
    return 0


if __name__ == '__main__':
    sys.exit(main())
