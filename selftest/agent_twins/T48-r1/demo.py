"""Equivalence demo for r1 (Executor.set_cells size bookkeeping / Executor.get_sheet grid).

Builds its own workbook, translates it, and queries it through every Executor API in
many orders, with overrides inside and outside the used range, and with rejected inputs.
Prints a deterministic digest.  Run: PYTHONPATH=<tree> /venv/bin/python demo.py
"""
import copy
import datetime
import hashlib
import os
import shutil
import tempfile

from openpyxl import Workbook

from excel2pycl import Parser, Executor, Cell

LINES = []


def out(*parts):
    LINES.append(' '.join(str(p) for p in parts))


def show(value):
    if isinstance(value, float):
        return 'float:' + repr(value)
    if isinstance(value, datetime.datetime):
        return 'dt:' + value.isoformat()
    return type(value).__name__ + ':' + repr(value)


def build_workbook(path):
    wb = Workbook()
    ws = wb.active
    ws.title = 'Main'
    ws.append([1, 2, 3, '=SUM(A1:C1)', '=D1*2'])
    ws.append([4, 5, 6, '=SUM(A2:C2)', '=IF(D2>10, "big", "small")'])
    ws.append(['x', '', 7.5, '=A1+Other!A1', '=MAX(A1:C2)'])
    ws.append(['=D1+D2+D3', '=MIN(A1:C2)', '=AVERAGE(A1:C2)', '=LEFT(A3, 1)', '=ROUND(C3/3, 2)'])
    other = wb.create_sheet('Other')
    other.append([10, '=A1*Main!A1', '=B1+1'])
    other.append(['=SUM(Main!A1:C2)', 20])
    other.append([None, None, None, '=A1+B2'])
    wb.create_sheet('Blank')
    wb.save(path)


def grid_digest(grid):
    return [[(c.title, c.column, c.row, show(c.value)) for c in row] for row in grid]


def sizes(executor):
    return copy.deepcopy(executor._sheets_size)


def attempt(label, fn):
    try:
        result = fn()
        out(label, 'OK', result)
    except BaseException as exc:  # noqa
        out(label, 'EXC', type(exc).__name__)


def main():
    tmp = tempfile.mkdtemp(prefix='t48r1_')
    try:
        xlsx = os.path.join(tmp, 'book.xlsx')
        py = os.path.join(tmp, 'book.py')
        build_workbook(xlsx)
        Parser().set_excel_file_path(xlsx).write_translation(py)

        def fresh():
            return Executor().set_executed_class(class_file=py)

        # 1. whole-sheet grid equals single-cell queries, all sheets, by index and by title
        ex = fresh()
        out('titles', sorted(ex._titles.items()))
        out('sizes0', sizes(ex))
        for sheet in (0, 1, 2, 'Main', 'Other', 'Blank'):
            grid = ex.get_sheet(sheet)
            out('grid', sheet, len(grid), [len(r) for r in grid])
            out('grid-values', sheet, grid_digest(grid))
            single = fresh()
            for row in grid:
                for c in row:
                    v = single.get_cell(Cell(c.title, c.column, c.row)).value
                    assert show(v) == show(c.value), (sheet, c)
        out('sizes-after-grids', sizes(ex))

        # 2. overrides inside and outside the used range, sizes after each step
        steps = [
            [Cell(0, 0, 0, value=100)],
            [Cell('Main', 'B', '1', value=200), Cell('Main', 'G', '2', value='far-col')],
            [Cell('Other', 'A', '9', value=5)],
            [Cell(2, 3, 4, value='blank-sheet')],
            [Cell(1, 0, 0, value=1), Cell(1, 0, 0, value=2)],
            [Cell(0, 9, 9, value=None), Cell(0, 1, 11, value=0.5)],
            [],
        ]
        ex = fresh()
        for n, step in enumerate(steps):
            before = sizes(ex)
            ex.set_cells(step)
            out('step', n, 'sizes', before, '->', sizes(ex))
            out('step', n, 'cells', sorted((k, show(v.value)) for k, v in ex._cells.items()))
            for sheet in (0, 'Other', 2):
                grid = ex.get_sheet(sheet)
                out('step', n, 'grid', sheet, len(grid), sorted(set(len(r) for r in grid)),
                    hashlib.sha256(repr(grid_digest(grid)).encode()).hexdigest()[:16])
            out('step', n, 'sizes-after-query', sizes(ex))
            out('step', n, 'D1', show(ex.get_cell(Cell('Main', 'D', '1')).value),
                'A4', show(ex.get_cell(Cell(0, 0, 3)).value),
                'D3other', show(ex.get_cell(Cell('Other', 'D', '3')).value))

        # 3. query order / repetition independence
        coords = [(0, c, r) for r in range(4) for c in range(5)] + [(1, c, r) for r in range(3) for c in range(4)]
        reference = {xyz: show(fresh().get_cell(Cell(*xyz)).value) for xyz in coords}
        for order_name, order in (('fwd', coords), ('rev', coords[::-1]), ('twice', coords + coords)):
            ex = fresh()
            ex.get_sheet(1)
            got = [show(c.value) for c in ex.get_cells([Cell(*xyz) for xyz in order])]
            assert got == [reference[xyz] for xyz in order]
            out('order', order_name, hashlib.sha256(repr(got).encode()).hexdigest()[:16])
        out('reference', sorted(reference.items()))

        # 4. rejected inputs: exception class and state afterwards
        ex = fresh()
        attempt('unknown-title', lambda: ex.set_cells([Cell(0, 7, 7, value=1), Cell('Nope', 'A', '1', value=2)]))
        out('after unknown-title', sizes(ex), sorted(ex._cells), ex._cells_have_been_changed)
        attempt('row-none', lambda: ex.set_cells([Cell('Main', 'A', '', value=3)]))
        out('after row-none', sizes(ex), sorted(ex._cells), ex._cells_have_been_changed)
        attempt('sheet-out-of-range', lambda: ex.set_cells([Cell(7, 0, 0, value=3)]))
        attempt('sheet-out-of-range+row-none', lambda: ex.set_cells([Cell(7, 0, None, value=3)]))
        attempt('column-none', lambda: ex.set_cells([Cell(0, None, 20, value=3)]))
        out('after column-none', sizes(ex), sorted(ex._cells), ex._cells_have_been_changed)
        attempt('prehandled-str-row', lambda: ex.set_cells([Cell(0, 0, 'x', value=3, _handled_identifiers=True)]))
        attempt('prehandled-str-title', lambda: ex.set_cells([Cell('Main', 0, 0, value=3, _handled_identifiers=True)]))
        attempt('negative-sheet', lambda: ex.set_cells([Cell(-1, 1, 1, value='neg')]) and None)
        out('after negative-sheet', sizes(ex), sorted(ex._cells))
        attempt('float-row', lambda: ex.set_cells([Cell(1, 1, 30.5, value='f')]) and None)
        out('after float-row', sizes(ex))
        attempt('get_sheet float-size', lambda: ex.get_sheet(1))
        attempt('get_sheet unknown title', lambda: ex.get_sheet('Nope'))
        attempt('get_sheet out of range', lambda: ex.get_sheet(5))
        attempt('get_sheet None', lambda: ex.get_sheet(None))
        attempt('get_sheet -1', lambda: len(ex.get_sheet(-1)))
        attempt('get_sheet True', lambda: len(ex.get_sheet(True)))

        # 5. sheet sizes lacking the keys (hand-written class)
        from excel2pycl.src.utilities.abstract_excel_in_python_class import AbstractExcelInPython

        class Hand(AbstractExcelInPython):
            def __init__(self, arguments=None):
                super().__init__(arguments)
                self._titles = {'S': 0, 'T': 1, 'U': 2}
                self._sheets_size = [{'last_row': 2}, {'last_column': 3}, {}]

            def _0_0_0(self):
                return 41

            def _0_0_1(self):
                return self._cell_preprocessor('_0_0_0') + 1

        ex = Executor().set_executed_class(class_object=Hand)
        for sheet in ('S', 'T', 'U', 0, 1, 2):
            attempt('hand get_sheet %r' % (sheet,), lambda: grid_digest(ex.get_sheet(sheet)))
        attempt('hand set_cells missing last_column', lambda: ex.set_cells([Cell(0, 1, 1, value=9)]) and None)
        out('hand sizes', sizes(ex), sorted(ex._cells), ex._cells_have_been_changed)
        attempt('hand set_cells missing last_row', lambda: ex.set_cells([Cell(1, 1, 1, value=9)]) and None)
        out('hand sizes', sizes(ex), sorted(ex._cells), ex._cells_have_been_changed)

        attempt('no class', lambda: Executor().set_executed_class())
    finally:
        shutil.rmtree(tmp, ignore_errors=True)

    text = '\n'.join(LINES)
    print(text)
    print('DIGEST', hashlib.sha256(text.encode()).hexdigest())


if __name__ == '__main__':
    main()
