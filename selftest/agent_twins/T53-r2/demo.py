"""Equivalence demonstration for r2 (CellTranslator._set_cell_to_context and Parser._translate).

Run as: PYTHONPATH=<tree> /venv/bin/python demo.py
Prints a deterministic digest (generated class text included, by hash); identical output is expected on the
unchanged and on the refactored tree.
"""
import datetime
import hashlib
import os
import re
import shutil
import sys
import tempfile
import warnings

warnings.simplefilter('ignore')

import openpyxl  # noqa: E402

from excel2pycl import Parser, Executor, Cell, Context, Excel, CellTranslator  # noqa: E402

lines = []


def show(value):
    if callable(value):
        return f'{type(value).__name__}:<callable>'  # the repr of a function carries its address
    return f'{type(value).__name__}:{value!r}'


def digest(text):
    return hashlib.sha256(text.encode('utf-8')).hexdigest()[:20]


def attempt(label, function):
    try:
        result = function()
    except RecursionError:
        result = 'raises RecursionError'
    except BaseException as error:  # class and message of the exception are part of the behaviour
        result = f'raises {type(error).__name__}: {error}'
    lines.append(f'{label} -> {result}')


def functions_of(translation):
    """The cell functions of a generated class: {name: code}."""
    body = translation.split("        return '#VALUE!'\n\n", 1)[1] if "        return '#VALUE!'\n\n" in translation \
        else translation
    result, name = {}, None
    for line in body.splitlines():
        if line.startswith('    def _') and line.endswith('(self):'):
            name = line[len('    def '):-len('(self):')]
        elif name and line.startswith('        return '):
            result[name] = line[len('        return '):]
            name = None
    return result


def save(workbook, path):
    workbook.save(path)
    workbook.close()


def build_main_workbook(path):
    workbook = openpyxl.Workbook()
    data = workbook.active
    data.title = 'Data'
    rows = [
        # A      B        C                               D
        [1, 'alpha', datetime.datetime(2024, 1, 15), True],
        [2.5, 'beta', datetime.datetime(2023, 12, 31), False],
        [-3, '', None, 0],
        [40, "it's", 'a=b', '12%'],
        [None, 'Ünï', "'quoted'", 1e-7],
        [10 ** 12, 'line\nbreak', 'back\\slash', '"dq"'],
    ]
    for r, row in enumerate(rows, start=1):
        for c, value in enumerate(row, start=1):
            data.cell(row=r, column=c, value=value)
    data['F1'] = '=A1+A2'
    data['F2'] = '=F1*2'
    data['F3'] = '=SUM(A1:A6)'
    data['F4'] = '=SUM(A1:D1)'
    data['F5'] = '=IF(D1,B1&"-"&B2,"no")'
    data['F6'] = '=VLOOKUP(2.5,A1:B6,2,FALSE)'
    data['G1'] = '=F2+F3+F4'
    data['G2'] = "='Other sheet'!B2+Calc!A1"
    data['G3'] = '=SUM(A:A)'
    data['G4'] = '=LEFT(B1,2)&RIGHT(B2,2)&MID(B6,2,3)'
    data['G5'] = '=SUMIF(A1:A4,">1",A1:A4)'
    data['G6'] = '=MAX(A1:B3)+MIN(F1:F2)'
    data['H1'] = '=H2'
    data['H2'] = '=H3'
    data['H3'] = '=G1+G2'
    data['H9'] = '=Z99'

    calc = workbook.create_sheet('Calc')
    calc['A1'] = '=Data!F1+Data!G1'
    calc['A2'] = '=SUM(Data!A1:A3)+A1'
    calc['A3'] = "=IFERROR(VALUE(Data!D4),0)+'Other sheet'!A1"
    calc['B1'] = '=A1+A2+A3'
    calc['B2'] = '=INDEX(Data!A1:B3,2,2)'
    calc['B3'] = '=COUNT(Data!A1:D6)+COUNTBLANK(Data!A1:D6)'
    calc['C1'] = 7
    calc['C2'] = '=C1'
    calc['C3'] = '=C2&C1'

    other = workbook.create_sheet('Other sheet')
    other['A1'] = 100
    other['B2'] = '=A1*Calc!C1'
    other['C3'] = '=Data!H1'
    save(workbook, path)


ENTRY_POINTS = [
    ('Data', 'A', '1'), ('Data', 'C', '3'), ('Data', 'F', '1'), ('Data', 'F', '2'), ('Data', 'F', '3'),
    ('Data', 'F', '4'), ('Data', 'F', '5'), ('Data', 'F', '6'), ('Data', 'G', '1'), ('Data', 'G', '2'),
    ('Data', 'G', '3'), ('Data', 'G', '4'), ('Data', 'G', '5'), ('Data', 'G', '6'), ('Data', 'H', '1'),
    ('Data', 'H', '9'), ('Data', 'Z', '50'), ('Calc', 'A', '1'), ('Calc', 'A', '2'), ('Calc', 'A', '3'),
    ('Calc', 'B', '1'), ('Calc', 'B', '2'), ('Calc', 'B', '3'), ('Calc', 'C', '3'), ('Other sheet', 'B', '2'),
    ('Other sheet', 'C', '3'), (0, 5, 0), (1, 1, 0), (2, 2, 2),
]


def values_of(out_py, names):
    executor = Executor().set_executed_class(class_file=out_py)
    result = {}
    for name in names:
        try:
            result[name] = show(executor._executed_instance.exec_function_in(name))
        except BaseException as error:
            result[name] = f'raises {type(error).__name__}'
    return result


def closed_slices(directory):
    xlsx = os.path.join(directory, 'main.xlsx')
    build_main_workbook(xlsx)

    whole_py = os.path.join(directory, 'whole.py')
    whole_parser = Parser().set_excel_file_path(xlsx)
    whole_text = whole_parser.get_translation()
    whole_parser.write_translation(whole_py)
    whole_functions = functions_of(whole_text)
    lines.append(f'whole translation {digest(whole_text)} functions={len(whole_functions)}')
    for name, code in whole_functions.items():
        lines.append(f'whole {name} = {code}')
    whole_values = values_of(whole_py, list(whole_functions))
    for name, value in whole_values.items():
        lines.append(f'whole value {name} -> {value}')

    for number, entry in enumerate(ENTRY_POINTS):
        def run():
            slice_py = os.path.join(directory, f'slice_{number}.py')
            text = Parser().set_excel_file_path(xlsx).set_entrypoint_cell(Cell(*entry)).get_translation()
            with open(slice_py, 'w', encoding='utf-8') as f:
                f.write(text)
            functions = functions_of(text)
            values = values_of(slice_py, list(functions))
            # sub-functions (ranges, lambdas) are numbered per first cell, so only real cells are compared by name
            cells_only = [name for name in functions if re.fullmatch(r'_\d+_\d+_\d+', name)]
            same_values = all(whole_values.get(name, values[name]) == values[name] for name in cells_only)
            listing = ' '.join(f'{name}={values[name]}' for name in functions)
            return f'{digest(text)} order={list(functions)} same_as_whole={same_values} {listing}'

        attempt(f'entry {entry}', run)

    # overrides on a slice
    def overridden():
        text = Parser().set_excel_file_path(xlsx).set_entrypoint_cell(Cell('Data', 'H', '1')).get_translation()
        slice_py = os.path.join(directory, 'slice_override.py')
        with open(slice_py, 'w', encoding='utf-8') as f:
            f.write(text)
        executor = Executor().set_executed_class(class_file=slice_py)
        before = show(executor.get_cell(Cell('Data', 'H', '1')).value)
        executor.set_cells([Cell('Data', 'A', '1', value=1000), Cell('Other sheet', 'A', '1', value=-1)])
        after = show(executor.get_cell(Cell('Data', 'H', '1')).value)
        return f'{before} then {after}'

    attempt('override on slice', overridden)
    return xlsx


def parser_histories(directory, xlsx):
    second = os.path.join(directory, 'second.xlsx')
    workbook = openpyxl.Workbook()
    sheet = workbook.active
    sheet['A1'] = 5
    sheet['B1'] = '=A1*A1'
    save(workbook, second)

    suspicious = os.path.join(directory, 'suspicious.xlsx')
    workbook = openpyxl.Workbook()
    sheet = workbook.active
    sheet['A1'] = '__import__("os").system("true")'
    sheet['A2'] = 'print(1)'
    sheet['B1'] = '=A1&"x"'
    sheet['C1'] = 3
    save(workbook, suspicious)

    attempt('no path', lambda: Parser().get_translation())
    attempt('no path with entry', lambda: Parser().set_entrypoint_cell(Cell(0, 0, 0)).get_translation())
    attempt('empty path', lambda: Parser().set_excel_file_path('').get_translation())
    attempt('missing file', lambda: type(Parser().set_excel_file_path(
        os.path.join(directory, 'absent.xlsx')).get_translation()).__name__)

    parser = Parser()
    attempt('history fresh translation is None', lambda: show(parser._translation))
    attempt('history 1 whole', lambda: digest(parser.set_excel_file_path(xlsx).get_translation()))
    first = parser.get_translation()
    attempt('history 2 cached object', lambda: parser.get_translation() is first)
    attempt('history 3 entry', lambda: digest(parser.set_entrypoint_cell(Cell('Calc', 'B', '1')).get_translation()))
    attempt('history 4 other file keeps entry', lambda: digest(parser.set_excel_file_path(second).get_translation()))
    attempt('history 4 functions', lambda: functions_of(parser.get_translation()))
    attempt('history 5 entry None again whole', lambda: functions_of(
        parser.set_entrypoint_cell(None).get_translation()))
    attempt('history 6 disable safety', lambda: digest(parser.disable_safety_check().get_translation()))
    attempt('history 7 suspicious unsafe', lambda: functions_of(
        parser.set_excel_file_path(suspicious).get_translation()))
    kept = parser.get_translation()
    attempt('history 8 suspicious safe', lambda: parser.enable_safety_check().get_translation())
    attempt('history 8 translation kept after failure', lambda: parser._translation is kept)
    attempt('history 9 retry fails again', lambda: parser.get_translation())
    attempt('history 10 flags', lambda: (parser._excel_file_path_has_been_changed,
                                          parser._entrypoint_cell_has_been_changed,
                                          parser._safety_check_has_been_changed))
    attempt('history 11 back to safe file', lambda: functions_of(
        parser.set_excel_file_path(second).set_entrypoint_cell(Cell(0, 'B', '1')).get_translation()))
    attempt('history 12 flags', lambda: (parser._excel_file_path_has_been_changed,
                                          parser._entrypoint_cell_has_been_changed,
                                          parser._safety_check_has_been_changed))
    attempt('history 13 bad entry title', lambda: parser.set_entrypoint_cell(Cell('Nope', 'A', '1')).get_translation())
    attempt('history 14 entry without row', lambda: parser.set_entrypoint_cell(Cell(0, 'A')).get_translation())
    attempt('history 15 recovered', lambda: functions_of(
        parser.set_entrypoint_cell(Cell(0, 0, 0)).get_translation()))
    out = os.path.join(directory, 'written.py')
    attempt('history 16 write', lambda: parser.write_translation(out) is parser)
    with open(out, encoding='utf-8') as f:
        written = f.read()
    attempt('history 16 written equals', lambda: written == parser.get_translation())
    # truthy / falsy flag values other than booleans
    parser._excel_file_path_has_been_changed = 0
    parser._entrypoint_cell_has_been_changed = ''
    parser._safety_check_has_been_changed = None
    marker = parser._translation
    attempt('history 17 falsy flags keep cache', lambda: parser.get_translation() is marker)
    parser._safety_check_has_been_changed = 'yes'
    attempt('history 18 truthy flag retranslates', lambda: (parser.get_translation() is marker,
                                                             parser.get_translation() == marker,
                                                             parser._safety_check_has_been_changed))


def cyclic_workbooks(directory):
    cases = {
        'self': {'Sheet': {'A1': '=A1'}},
        'pair': {'Sheet': {'A1': '=B1', 'B1': '=A1+1'}},
        'triangle': {'Sheet': {'A1': '=B1', 'B1': '=C1', 'C1': '=A1', 'D1': 4}},
        'range': {'Sheet': {'A1': 1, 'A2': 2, 'A3': '=SUM(A1:A3)'}},
        'matrix': {'Sheet': {'A1': 1, 'B2': '=VLOOKUP(1,A1:B3,2,FALSE)'}},
        'column': {'Sheet': {'A1': 1, 'A2': '=SUM(A:A)'}},
        'cross sheet': {'Sheet': {'A1': '=Second!A1'}, 'Second': {'A1': '=Sheet!B1'}, 'x': {}, },
        'cross sheet 2': {'Sheet': {'A1': '=Second!A1', 'B1': '=A1'}, 'Second': {'A1': '=Sheet!B1'}},
        'inside if': {'Sheet': {'A1': '=IF(TRUE,1,A1)'}},
        'through text': {'Sheet': {'A1': '=LEFT(B1,1)', 'B1': '=A1&"x"'}},
        'diamond (no cycle)': {'Sheet': {'A1': '=B1+C1', 'B1': '=D1', 'C1': '=D1', 'D1': 2}},
        'twice (no cycle)': {'Sheet': {'A1': '=B1+B1+B1', 'B1': '=C1*C1', 'C1': 3}},
        'bad formula': {'Sheet': {'A1': '=1+', 'B1': 2}},
        'unknown function': {'Sheet': {'A1': '=FOO(1)'}},
        'bad formula behind ref': {'Sheet': {'A1': '=B1', 'B1': '=)('}},
        'just equals': {'Sheet': {'A1': '='}},
        'unknown sheet': {'Sheet': {'A1': '=Nowhere!A1'}},
        'cycle not reached from B1': {'Sheet': {'A1': '=A1', 'B1': '=C1', 'C1': 1}},
    }
    for name, sheets in cases.items():
        path = os.path.join(directory, 'case.xlsx')
        workbook = openpyxl.Workbook()
        workbook.remove(workbook.active)
        for title, cells in sheets.items():
            sheet = workbook.create_sheet(title)
            for address, value in cells.items():
                sheet[address] = value
        save(workbook, path)
        attempt(f'cycle whole [{name}]', lambda: functions_of(Parser().set_excel_file_path(path).get_translation()))
        for entry in [(0, 'A', '1'), (0, 'B', '1'), (0, 'A', '3'), (0, 'B', '2')]:
            attempt(f'cycle entry {entry} [{name}]', lambda: functions_of(
                Parser().set_excel_file_path(path).set_entrypoint_cell(Cell(*entry)).get_translation()))
        os.remove(path)


def direct_translator_calls(xlsx):
    excel = Excel.parse(xlsx)

    def fresh():
        context = Context()
        context._titles = excel.get_titles()
        context._sheets_size = excel.get_sheets_size()
        return context

    cells = [
        lambda: Cell('Data', 'F', '2'), lambda: Cell(0, 5, 1), lambda: Cell('Data', 'ZZ', '9999'),
        lambda: Cell(7, 0, 0), lambda: Cell(-1, 0, 0), lambda: Cell(0, -1, 0), lambda: Cell(0, 0, -1),
        lambda: Cell('Nope', 'A', '1'), lambda: Cell(0, 'A'), lambda: Cell(0, 'A', ''), lambda: Cell(0, 0, None),
        lambda: Cell(0, 0, 0, value='ignored, refilled'),
        # identifiers already handled: the value carried by the cell is what gets translated
        lambda: Cell(0, 0, 0, value='=1+2', _handled_identifiers=True),
        lambda: Cell(0, 0, 0, value='=Data!F1', _handled_identifiers=True),
        lambda: Cell(0, 5, 0, value='=F1', _handled_identifiers=True),
        lambda: Cell(0, 0, 0, value=' =1+2', _handled_identifiers=True),
        lambda: Cell(0, 0, 0, value='a=b', _handled_identifiers=True),
        lambda: Cell(0, 0, 0, value='', _handled_identifiers=True),
        lambda: Cell(0, 0, 0, value='=', _handled_identifiers=True),
        lambda: Cell(0, 0, 0, value='==1', _handled_identifiers=True),
        lambda: Cell(0, 0, 0, value=None, _handled_identifiers=True),
        lambda: Cell(0, 0, 0, value=0, _handled_identifiers=True),
        lambda: Cell(0, 0, 0, value=False, _handled_identifiers=True),
        lambda: Cell(0, 0, 0, value=1.5, _handled_identifiers=True),
        lambda: Cell(0, 0, 0, value=b'=1+2', _handled_identifiers=True),
        lambda: Cell(0, 0, 0, value=['=1'], _handled_identifiers=True),
        lambda: Cell(0, 0, 0, value=datetime.datetime(2020, 2, 29, 1, 2, 3), _handled_identifiers=True),
        lambda: Cell(0, 0, 0, value=datetime.date(2020, 2, 29), _handled_identifiers=True),
        lambda: Cell(0, 0, 0, value=datetime.time(1, 2), _handled_identifiers=True),
        lambda: Cell('x', 'y', 'z', value=3, _handled_identifiers=True),
        lambda: Cell(0, 0, None, value=3, _handled_identifiers=True),
    ]
    for number, make in enumerate(cells):
        def run():
            context = fresh()
            cell = make()
            code = CellTranslator.translate(cell, excel, context)
            again = CellTranslator.translate(make(), excel, context)
            return (f'{code!r} again={again!r} cell={cell} value={cell.value!r} '
                    f'translations={context._cell_translations} subs={context._sub_cell_translations} '
                    f'in_progress={context._cells_in_progress}')

        attempt(f'direct {number}', run)

    # one context shared by several entries, then the whole file on top of it
    def shared():
        context = fresh()
        order = []
        for entry in [('Calc', 'B', '1'), ('Data', 'H', '1'), ('Calc', 'B', '1'), ('Other sheet', 'C', '3')]:
            order.append(CellTranslator.translate(Cell(*entry), excel, context))
        keys_before = list(context._cell_translations)
        result = CellTranslator.translate_file(excel, context)
        return (f'{order} before={keys_before} after={list(context._cell_translations)} result={result!r} '
                f'in_progress={context._cells_in_progress} class={digest(context.build_class())}')

    attempt('direct shared context', shared)

    # a failing translation leaves the context exactly as before (cell still marked in progress)
    def failing():
        context = fresh()
        try:
            CellTranslator.translate(Cell(0, 0, 0, value='=1+', _handled_identifiers=True), excel, context)
        except BaseException as error:
            outcome = f'{type(error).__name__}: {error}'
        else:
            outcome = 'no error'
        try:
            CellTranslator.translate(Cell(0, 0, 0, value='=1+1', _handled_identifiers=True), excel, context)
        except BaseException as error:
            second = f'{type(error).__name__}: {error}'
        else:
            second = 'no error'
        return f'{outcome} | {second} | in_progress={context._cells_in_progress} done={context._cell_translations}'

    attempt('direct failing', failing)

    # the private helper itself returns its three arguments
    def triple():
        context = fresh()
        cell = Cell('Data', 'G', '1')
        result = CellTranslator._set_cell_to_context(cell, excel, context)
        return (result[0] is cell, result[1] is excel, result[2] is context, len(result), cell.value,
                list(context._cell_translations))

    attempt('direct triple', triple)


def main():
    directory = tempfile.mkdtemp(prefix='t53_r2_')
    try:
        xlsx = closed_slices(directory)
        parser_histories(directory, xlsx)
        cyclic_workbooks(directory)
        direct_translator_calls(xlsx)
    finally:
        shutil.rmtree(directory, ignore_errors=True)

    text = '\n'.join(lines).replace(directory, '<tmp>')
    print(text)
    print('lines', len(lines))
    print('sha256', hashlib.sha256(text.encode('utf-8')).hexdigest())
    return 0


if __name__ == '__main__':
    sys.exit(main())
