"""Equivalence demo for r1 (operator spelling dict + compare-token class constant).

Builds a workbook full of operator formulas, prints the generated text of every formula cell
(must be byte-identical, the refactoring does not touch what is printed), evaluates all of them
with workbook values and with overrides, and also drives OperatorSubTokenTranslator directly.
"""
import datetime
import hashlib
import itertools
import os
import sys
import tempfile
import warnings

warnings.filterwarnings('ignore')

from openpyxl import Workbook

from excel2pycl import Parser, Executor, Cell
from excel2pycl.src.lexer import Lexer  # freezes Lexer.TOKENS before any helper subclass is created below
from excel2pycl.src.tokens import (
    NotEqOperatorToken, EqOperatorToken, GtOperatorToken, GtOrEqualOperatorToken, LtOperatorToken,
    LtOrEqualOperatorToken, PlusOperatorToken, MinusOperatorToken, MultiplicationOperatorToken,
    DivOperatorToken, AmpersandToken, PercentToken, SeparatorToken, BracketStartToken, LiteralToken,
)
from excel2pycl.src.translators.operator_sub_token_translator import OperatorSubTokenTranslator
from excel2pycl.src.translators.expression_token_translator import ExpressionTokenTranslator

OUT = []


def emit(*parts):
    OUT.append(' | '.join(str(p) for p in parts))


def show(value):
    return f'{type(value).__name__}:{value!r}'


# ---------------------------------------------------------------- 1. direct calls of the operator translator
emit('lexer tokens', len(Lexer.TOKENS))
in_cell = Cell(0, 0, 0)
for token_class, text in [
    (NotEqOperatorToken, '<>'), (EqOperatorToken, '='), (GtOperatorToken, '>'), (GtOrEqualOperatorToken, '>='),
    (LtOperatorToken, '<'), (LtOrEqualOperatorToken, '<='), (PlusOperatorToken, '+'), (MinusOperatorToken, '-'),
    (MultiplicationOperatorToken, '*'), (DivOperatorToken, '/'), (AmpersandToken, '&'), (PercentToken, '%'),
    (SeparatorToken, ';'), (SeparatorToken, ','), (BracketStartToken, '('),
]:
    token, rest = token_class.get(text + ' 1', in_cell)
    emit('opsub', token_class.__name__, repr(text), repr(OperatorSubTokenTranslator.translate(token, None, None)),
         repr(rest))
    # a subclass of a respelled token keeps the raw text (exact class match), check that as well
    sub = type('Sub' + token_class.__name__, (token_class,), {})
    sub_token = sub((text,), in_cell)
    emit('opsub-sub', sub.__name__, repr(OperatorSubTokenTranslator.translate(sub_token, None, None)))
for bad_value in [(), '']:
    try:
        emit('opsub-bad', repr(bad_value),
             repr(OperatorSubTokenTranslator.translate(EqOperatorToken(bad_value, in_cell), None, None)))
    except Exception as e:  # noqa
        emit('opsub-bad', repr(bad_value), type(e).__name__)
emit('compare-const', [c.__name__ for c in getattr(ExpressionTokenTranslator, '_COMPARE_TOKENS', (
    EqOperatorToken, NotEqOperatorToken, GtOperatorToken, GtOrEqualOperatorToken, LtOperatorToken,
    LtOrEqualOperatorToken))])

# ---------------------------------------------------------------- 2. workbook of operator formulas
operands = ['A1', 'A2', 'A3', 'A4', 'A5', 'A6', 'A7', '2', '0.1', '1e2', '"x"', '"10"', 'TRUE', 'FALSE', '""']
binary = ['+', '-', '*', '/', '&', '=', '<>', '<', '<=', '>', '>=']
formulas = []
for op in binary:
    for left, right in itertools.product(operands, operands):
        formulas.append(f'={left}{op}{right}')
# precedence / associativity / sign / percent / brackets
formulas += [
    '=1+2*3', '=(1+2)*3', '=2*3+1', '=10-4-3', '=10-(4-3)', '=100/10/2', '=100/(10/2)', '=2*3/4*5',
    '=-A1', '=+A1', '=-A1+A2', '=-(A1+A2)', '=--A1', '=-A1*A2', '=A1*-A2', '=A1--A2', '=A1+-A2', '=A1-+A2',
    '=50%', '=A1%', '=A1%%', '=50%*2', '=2*50%', '=A1%+A2%', '=A1%*A2', '=-50%', '=(A1+A2)%', '=10%&"x"',
    '=200%%', '=A2%=0.025', '=A1%>A2%', '=1%+1', '=1+1%', '=A1&A2', '=A1&A2&A3', '=A1+A2&A3', '=A1&A2+A3',
    '=A1&A2=A3', '=A1=A2&A3', '=A1+A2=A3', '=A1=A2+A3', '=A1<A2=TRUE', '=(A1<A2)=TRUE', '=A1<(A2=TRUE)',
    '=1<2<3', '=3>2>1', '=A1=A1=A1', '=1<>2<>3', '=A1*A2+A3/A4-A5', '=(A1*(A2+A3))/(A4-A5)',
    '=((A1))', '=((A1+A2))*((A3))', '=(A1)', '=( A1 + A2 ) * 3', '= A1 + A2', '=A1 & " " & A2',
    '=0.1+0.2', '=0.1+0.2=0.3', '=1e2+1', '=1.5e-3*2', '=1e-2', '=3.0', '=007', '=1.10', '=12345678901234567890',
    '=0.30000000000000004', '=1/3', '=2/3*3', '=A7+1', '=A7*5', '=A7&"z"', '=A7=0', '=A7=""', '=A7<1', '=A7>-1',
    '=A8+1', '=Z99&"q"', '=Z99=A7', '=A6+1', '=A6&"x"', '=A6=A6', '=A6>A1', '=A5&A5', '=A5="txt"', '=A5<>"TXT"',
    '="a"<"b"', '="B">"a"', '="10"<"9"', '=10<9', '="10"+1', '=TRUE+TRUE', '=TRUE&FALSE', '=TRUE=1', '=FALSE=0',
    '=TRUE()', '=FALSE()', '=TRUE()&"!"', '=A3/0', '=A3/A7', '=1/0', '=B1+B2', '=B1&B2', '=B3=B4', '=B3<B4',
    "=Sheet1!A1+'Other sheet'!A1", "=Other!A1&Sheet1!A2", "='Other sheet'!A1%", '=SUM(A1:A3)*2+1', '=SUM(A1:A3)%',
    '=-SUM(A1:A3)', '=IF(A1>A2;A1-A2;A2-A1)', '=IF(A1&A2="52.5";1;2)', '=ROUND(A1/A2;2)=2', '=MAX(A1;A2)>=MIN(A1;A2)',
]
error_formulas = ['=A1+', '=*A1', '=A1 A2', '=(A1', '=A1)', '=A1&', '=%', '=A1<>', '=1..2', '=A1+#', '==A1', '=A1==A2',
                  '=A1<>=A2', '=A1=>A2', '=A1=<A2', "=Nope!A1+1"]

# pre-screen with the lexer and the parser: formulas the grammar does not accept are reported and left out
from excel2pycl.src.ast_builder import AstBuilder
accepted = []
for f in formulas:
    try:
        AstBuilder.parse(Lexer.parse(f, in_cell), in_cell)
        accepted.append(f)
    except Exception as e:  # noqa
        emit('unparsable', f, type(e).__name__)
formulas = accepted
emit('accepted formulas', len(formulas))

tmp = tempfile.mkdtemp()


def build(path, formula_list):
    wb = Workbook()
    ws = wb.active
    ws.title = 'Sheet1'
    for i, v in enumerate([5, 2.5, 3, 0.1, 'txt', datetime.datetime(2024, 2, 29), None], start=1):
        ws.cell(row=i, column=1, value=v)
    for i, v in enumerate(['=A1*2', '=A5&"!"', '=A1>A2', '=A7'], start=1):
        ws.cell(row=i, column=2, value=v)
    for i, f in enumerate(formula_list, start=1):
        ws.cell(row=i, column=4, value=f)
    ws2 = wb.create_sheet('Other sheet')
    ws2['A1'] = 40
    ws3 = wb.create_sheet('Other')
    ws3['A1'] = 'o'
    wb.save(path)


xlsx = os.path.join(tmp, 'ops.xlsx')
py = os.path.join(tmp, 'ops.py')
build(xlsx, formulas)
parser = Parser().set_excel_file_path(xlsx)
parser.write_translation(py)
text = parser.get_translation()
emit('translation sha256', hashlib.sha256(text.encode()).hexdigest(), len(text))
functions_part = text[text.index("        return '#VALUE!'\n\n") + len("        return '#VALUE!'\n\n"):]
emit('functions sha256', hashlib.sha256(functions_part.encode()).hexdigest())
lines = functions_part.split('\n')
for i, line in enumerate(lines):
    if line.startswith('    def _0_3_'):
        emit('code', line.strip(), lines[i + 1].strip())


def evaluate(executor, tag):
    for i, f in enumerate(formulas):
        try:
            emit(tag, f, show(executor.get_cell(Cell(0, 3, i)).value))
        except Exception as e:  # noqa
            emit(tag, f, 'EXC ' + type(e).__name__)


ex = Executor().set_executed_class(class_file=py)
evaluate(ex, 'wb')
override_sets = [
    [Cell('Sheet1', 'A', '1', value=-7), Cell('Sheet1', 'A', '2', value=0)],
    [Cell('Sheet1', 'A', '1', value='12'), Cell('Sheet1', 'A', '2', value=True), Cell('Sheet1', 'A', '3', value=1e-9)],
    [Cell('Sheet1', 'A', '7', value=4), Cell('Sheet1', 'A', '5', value=''), Cell('Other sheet', 'A', '1', value=0.5)],
    [Cell('Sheet1', 'A', '1', value=datetime.datetime(2020, 1, 1)), Cell('Sheet1', 'A', '2', value=None),
     Cell(0, 1, 0, value=99)],
]
for n, overrides in enumerate(override_sets):
    ex = Executor().set_executed_class(class_file=py)
    ex.set_cells(overrides)
    evaluate(ex, f'ov{n}')

# ---------------------------------------------------------------- 3. rejected formulas (one workbook each)
for n, f in enumerate(error_formulas):
    path = os.path.join(tmp, f'err{n}.xlsx')
    build(path, [f])
    try:
        t = Parser().set_excel_file_path(path).get_translation()
        emit('reject', f, 'translated', hashlib.sha256(t.encode()).hexdigest())
    except Exception as e:  # noqa
        emit('reject', f, 'EXC ' + type(e).__name__)

digest = hashlib.sha256('\n'.join(OUT).encode()).hexdigest()
print('\n'.join(OUT))
print('lines', len(OUT), 'digest', digest)
sys.exit(0)
