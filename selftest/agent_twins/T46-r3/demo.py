"""Equivalence demo for r3 (CompositeBaseToken.get restructured: flag -> lazy check at the end, early-continue).

Feeds the lexer + token-set parser with a large battery of formulas (valid, unsupported, malformed, truncated,
wrong arity for every control construction, long operator chains) and prints the parse tree or the exception;
measures the operator-chain length at which the recursive descent overflows (must not move); then translates
workbooks built from the same formulas through the Parser facade and evaluates every translated cell.
"""
import hashlib
import os
import shutil
import sys
import tempfile

from openpyxl import Workbook

from excel2pycl import Parser, Executor, Cell
from excel2pycl.src.ast_builder import AstBuilder
from excel2pycl.src.lexer import Lexer
from excel2pycl.src.tokens import ExpressionToken, OperandToken, IfControlConstructionToken, \
    ControlConstructionCompositeBaseToken, SumControlConstructionToken, EntryPointToken, OperatorToken, \
    LogicalOperatorToken, SimilarCellToken


def sha(text: str) -> str:
    return hashlib.sha256(text.encode('utf-8')).hexdigest()[:16]


VALID = [
    '=1', '=1+2', '=1+2*3-4/5', '=(1+2)*3', '=((1))', '=(1+2)*(3+4)', '=-1', '=+1', '=-(-1)', '=1--1', '=A1', '=$A$1',
    '=A1+B2', '=Sheet1!A1', "='My sheet'!A1*2", '=A1:A5', '=A1:C3', '=A:A', '=1=1', '=1<>2', '=1>=2', '=1<=2',
    '=1<2', '=1>2', '="a"&"b"', '="a"&1&A1', '=10%', '=10%+1', '=A1%*2', '=TRUE', '=FALSE()', '=1.5e3', '=1e-3',
    '=""', '="with ""quotes"""', '="a?c"', '="a*"', '=  1  +  2 ', '= ( 1 ) ',
    '=IF(A1>0,1,2)', '=IF(A1>0,1)', '=IF(A1,"y","n")', '=IF(IF(A1>1,TRUE,FALSE),IF(B1,1,2),IF(C1,3,4))',
    '=SUM(A1:A5)', '=SUM(1,2,3)', '=SUM(A1,B1:B3,5)', '=SUM(A1:A2)+SUM(B1:B2)', '=SUM(SUM(1,2),3)',
    '=AVERAGE(A1:A5)', '=MIN(A1:A5,3)', '=MAX(1,2)', '=ROUND(1.234,2)', '=ROUNDUP(1.234,1)', '=ROUNDDOWN(1.234,1)',
    '=OR(A1,B1)', '=AND(A1>1,B1<2)', '=VLOOKUP(1,A1:C3,2,FALSE)', '=VLOOKUP(1,A1:C3,2)', '=SUMIF(A1:A5,">2")',
    '=SUMIF(A1:A5,">2",B1:B5)', '=SUMIFS(A1:A5,B1:B5,">2")', '=COUNTIFS(A1:A5,">2")', '=AVERAGEIFS(A1:A5,B1:B5,1)',
    '=YEAR(A1)', '=MONTH(A1)', '=DAY(A1)', '=DATE(2020,1,2)', '=DATEDIF(A1,B1,"Y")', '=EOMONTH(A1,1)',
    '=EDATE(A1,-1)', '=MATCH(1,A1:A5,0)', '=MATCH(1,A1:A5)', '=XMATCH(1,A1:A5,0,1)', '=XMATCH(1,A1:A5)',
    '=LEFT("abc",2)', '=LEFT("abc")', '=MID("abcdef",2,3)', '=RIGHT("abc",1)', '=RIGHT("abc")', '=COUNTBLANK(A1:B2)',
    '=SEARCH("a","banana")', '=SEARCH("a","banana",3)', '=TODAY()', '=ADDRESS(1,2)', '=ADDRESS(1,2,3)',
    '=NETWORKDAYS(A1,B1)', '=NETWORKDAYS(A1,B1,C1:C3)', '=COUNT(A1:A5)', '=COUNT(1,2,"x")', '=COLUMN(B5)', '=COLUMN()',
    '=INDEX(A1:C3,2,2)', '=INDEX(A1:C3,2)', '=IFS(A1>1,"a",A1>0,"b")', '=IFERROR(1/0,5)', '=VALUE("12")',
    '=TEXT(1,"0")', '=CONCATENATE("a",1,A1)', '=IF(SUM(A1:A3)>MAX(B1:B3),ROUND(AVERAGE(C1:C3),1),LEFT("xyz",MIN(1,2)))',
]

BROKEN = [
    '=', '==', '=1+', '=+', '=*1', '=1 2', '=(1', '=1)', '=()', '=((1)', '=1++', '=A1:', '=:A1', '=A1:B', '=1,2',
    '=1;2', '=;', '=IF', '=IF(', '=IF()', '=IF(1', '=IF(1,', '=IF(1,2,3,4)', '=IF(1,2,3', '=IF 1', '=IF)(',
    '=SUM', '=SUM(', '=SUM()', '=SUM(1,', '=SUM(,1)', '=SUM(1,,2)', '=SUM(1))', '=SUM((1)', '=SUM 1',
    '=AVERAGE()', '=MIN()', '=MAX(', '=ROUND()', '=ROUND(1)', '=ROUND(1,2,3)', '=ROUNDUP(1)', '=ROUNDDOWN(1)',
    '=OR()', '=AND()', '=VLOOKUP()', '=VLOOKUP(1)', '=VLOOKUP(1,A1:C3)', '=VLOOKUP(1,A1:C3,2,FALSE,1)',
    '=SUMIF()', '=SUMIF(A1:A5)', '=SUMIFS(A1:A5)', '=SUMIFS(A1:A5,B1:B5)', '=COUNTIFS()', '=COUNTIFS(A1:A5)',
    '=AVERAGEIFS(A1:A5)', '=YEAR()', '=YEAR(1,2)', '=MONTH()', '=DAY()', '=DATE(1,2)', '=DATE(1,2,3,4)',
    '=DATEDIF(A1,B1)', '=EOMONTH(A1)', '=EDATE(A1)', '=MATCH(1)', '=MATCH()', '=XMATCH(1)', '=LEFT()', '=MID("a",1)',
    '=RIGHT()', '=COUNTBLANK()', '=SEARCH("a")', '=TODAY(1)', '=TODAY', '=ADDRESS(1)', '=NETWORKDAYS(A1)',
    '=COUNT()', '=COLUMN(1,2)', '=INDEX()', '=INDEX(A1:C3)', '=IFS()', '=IFS(1)', '=IFERROR()', '=IFERROR(1)',
    '=VALUE()', '=TEXT(1)', '=CONCATENATE()', '=IF(SUM(,1,2)', '=IF(1,SUM(),3)', '=SUM(IF(1,2,3,4))',
    '=1+IF()', '=IF()+1', '=(IF())', '=SUM(1)+SUM(', '=IF(A1>0;1;2', '=SUM(A1:A3)SUM(A1:A3)', '=SUM(A1:A3)1',
    '=1SUM(A1)', '=A1 B1', '="a" "b"', '=1%%', '=%1', '=1&', '=&1', '=<1', '=1<', '=1<>', '=1=<2',
    '=UNKNOWN(1)', '=sum(1)', '=If(1,2,3)', '=A1!', '=!A1', "='x'!", '=#REF!', '=1.', '=.5', '=1e', '="abc', '=abc"',
    '={1,2}', '=[1]', '=A1#', '=@A1', '=1 + + + 2', '=SUM(A1:A5,)', '=IF(,,)', '=IF(1,,3)', '=IF(,2,3)',
]

CLASSES = [ExpressionToken, OperandToken, IfControlConstructionToken, ControlConstructionCompositeBaseToken,
           SumControlConstructionToken, EntryPointToken, OperatorToken, LogicalOperatorToken, SimilarCellToken]


def describe(token):
    text = repr(token)
    return text if len(text) <= 400 else f'{text[:150]}...len={len(text)} sha={sha(text)}'


def parse_one(formula):
    cell = Cell(0, 0, 0)
    cell._handled_identifiers = True
    try:
        tokens = Lexer.parse(formula, cell)
    except Exception as e:
        return f'lexer !{type(e).__name__}: {str(e)[:200]}'
    try:
        tree = AstBuilder.parse(tokens, cell)
    except Exception as e:
        return f'parser !{type(e).__name__}: {str(e)[:300]}'
    return f'tree {describe(tree)}'


def direct_gets(formula):
    """Calls .get of several token classes on the token list, shows what is consumed and what is left."""
    cell = Cell(0, 0, 0)
    cell._handled_identifiers = True
    try:
        tokens = Lexer.parse(formula, cell)
    except Exception as e:
        return [f'lexer !{type(e).__name__}']
    lines = []
    for start in (0, 1, 2):
        part = tokens[start:]
        before = list(part)
        for token_class in CLASSES:
            try:
                token, rest = token_class.get(part, cell)
                lines.append(f'{token_class.__name__}[{start}:] -> {sha(repr(token))} {type(token).__name__} '
                             f'rest={len(rest)} same_list={rest is part}')
            except Exception as e:
                lines.append(f'{token_class.__name__}[{start}:] -> !{type(e).__name__}: {str(e)[:120]}')
            if part != before:
                lines.append('  INPUT MUTATED')
    return lines


def chain_ok(terms, operator='+'):
    cell = Cell(0, 0, 0)
    cell._handled_identifiers = True
    formula = '=1' + f'{operator}1' * terms
    try:
        AstBuilder.parse(Lexer.parse(formula, cell), cell)
        return True
    except RecursionError:
        return False


def longest_chain():
    low, high = 1, 1500
    while low < high:
        middle = (low + high + 1) // 2
        if chain_ok(middle):
            low = middle
        else:
            high = middle - 1
    return low


def workbook_digest(tmp, name, formulas):
    """One workbook per formula list; if it does not translate, every formula gets its own workbook."""
    def build(path, items):
        wb = Workbook()
        ws = wb.active
        ws.title = 'Sheet1'
        ws.append([3, 1, True, 'x'])
        ws.append([2, 5, False, 'banana'])
        ws.append([7, 0, None, ''])
        for index, formula in enumerate(items):
            ws.cell(row=6 + index, column=6, value=formula)
        wb.create_sheet('My sheet')['A1'] = 21
        wb.save(path)

    def run(path, out_py, items):
        try:
            Parser().set_excel_file_path(path).disable_safety_check().write_translation(out_py)
        except Exception as e:
            return f'!{type(e).__name__}: {str(e)[:160]}'
        executor = Executor().set_executed_class(class_file=out_py)
        values = []
        for index in range(len(items)):
            try:
                value = executor.get_cell(Cell(0, 5, 5 + index)).value
                values.append(f'{type(value).__name__}:{value!r}')
            except Exception as e:
                values.append(f'!{type(e).__name__}')
        return values

    path = os.path.join(tmp, name + '.xlsx')
    out_py = os.path.join(tmp, name + '.py')
    translatable = []
    for formula in formulas:
        build(path, [formula])
        outcome = run(path, out_py, [formula])
        if isinstance(outcome, list):
            translatable.append(formula)
        print(f'  {formula!r}: {outcome}')
    build(path, formulas)
    print(f' {name} all together:', run(path, out_py, formulas))
    build(path, translatable)
    print(f' {name} translatable together ({len(translatable)}):', run(path, out_py, translatable))


def main():
    print('== parse trees / exceptions')
    for formula in VALID + BROKEN:
        print(f'{formula!r}: {parse_one(formula)}')
    print('== direct .get calls')
    for formula in ['=1+2', '=IF(1,2,3)', '=IF(1,2', '=SUM(', '=SUM(1,2)+3', '=A1>=2', '=', '=)', '=IF',
                    '=SUM(A1:A3)SUM(', '=(1+2)*3', '=A1:B2', '=10%', '=IF(SUM(1,),2,3)', '=TODAY()', '=TODAY(']:
        print(repr(formula))
        for line in direct_gets(formula):
            print('   ', line)
    print('== empty / odd inputs')
    cell = Cell(0, 0, 0)
    for token_class in CLASSES:
        for expression in ([],):
            try:
                print(token_class.__name__, token_class.get(expression, cell))
            except Exception as e:
                print(token_class.__name__, type(e).__name__)
        try:
            print(token_class.__name__, token_class.get(('tuple',), cell))
        except Exception as e:
            print(token_class.__name__, 'tuple ->', type(e).__name__)
    print('== operator chains')
    for terms in (1, 10, 100, 500, 900):
        print(terms, chain_ok(terms), chain_ok(terms, '&'), chain_ok(terms, '*'))
    print('longest + chain without RecursionError:', longest_chain())
    print('== workbooks')
    tmp = tempfile.mkdtemp(prefix='t46r3_')
    try:
        workbook_digest(tmp, 'valid', [f for f in VALID if 'TODAY' not in f])
        workbook_digest(tmp, 'broken', BROKEN)
    finally:
        shutil.rmtree(tmp, ignore_errors=True)
    return 0


if __name__ == '__main__':
    sys.exit(main())
